(* C07Proofs.v -- property C07 "A run is a function of the statechart's structure and the input
   history only": independence of the declaration order of states / children / transitions and of
   the iteration order of Python sets (string-hash seed).

   STATUS: goals 1-5 proved in full for the current model (theories/Interp.v, i.e. /repo after the
   fix: commits: exit order sorted by (-depth, name), same-source pairs rejected first).  No proof
   is left open, no axioms; every Print Assumptions at the end says "Closed under the global context".
   One `_refuted` lemma documents why errors are compared up to "which guard failed" (see below).

   HOW DECLARATION ORDER / HASH SEED APPEAR IN THE MODEL
     declaration order : order of c_states, c_parent, of the keys of c_children and of every children
                         list, order of c_transitions (a transition IS its index: ms_trans, OTrans i)
     hash seed         : order of the list i_config (a Python set) and of the lists stored in i_memory
   Renaming of transition indices by pi : nat -> nat : omap imap mmap emap cmap obmap oldmap macmap.

   RELATIONS
     hs_equiv i1 i2        i2 = i1 with i_config permuted and i_memory replaced by a dictionary with the
                           same lookups up to Permutation of the values (mem_rel)
     ms_equiv s1 s2        hs_equiv on m_i, equal listener state m_x, EQUAL observation trace m_tr
     ms_equiv_err          the same without the history memory (state reached when an error is raised)
     same_outcome o1 o2    equal result / equal error, post-states ms_equiv (ms_equiv_err after an error)
     struct_equiv sc1 sc2  state_for, parent_for equal; children_for, descendants_for Permutations;
                           root equal; |c_parent| equal; children lists equal or all children registered
     chart_perm sc1 sc2 pi struct_equiv + pi injective, nth_error (c_transitions sc2) (pi i)
                           = nth_error (c_transitions sc1) i, same number of transitions
     perm_chart sc1 sc2    the concrete notion: c_states, c_parent, c_transitions Permutations; c_children
                           a Permutation whose values are Permutations.  perm_chart_sim: with decl_wf sc1
                           (unique keys, unique root, children registered) and desc_ok of both charts it
                           yields some pi with chart_perm.  perm_chart_rev: reversing every declaration
                           list of ANY chart is an instance.
     run_equiv pi s1 s2    IR (fields equal, i_config Permutation, mem_rel, i_old keys renamed by pi),
                           equal m_x, and traces equal after renaming once the guard evaluations and the
                           model-only ObSelected entries are deleted (RtB)
     BP pi ts1 ts2         selected transitions: same blocks (one per source) in the same order, each
                           block a Permutation (through pi)
     ERB pi e1 e2          e2 = emap pi e1, or both are guard CodeEvaluationErrors

   MAIN THEOREMS (hypotheses in brackets)
   Goal 1  C07_hashseed_execute_once   [ms_equiv s1 s2; NO hypothesis on the chart, not even NoDup cfg]
             execute_once on the same chart: same_outcome (same macro step or same error, same trace).
           C07_hashseed_ops            the same for any sequence of queue / execute_once / execute.
           function level: C07_hashseed_considered, _select_transitions (result and guard trace),
             _create_steps, _leaf_for (Permutation, and the sorted leaves EQUAL), _stabilization_step,
             _configuration, _mk_call (hence cl_config), _record_history, _config_updates (set_add,
             remove_first preserve Permutation).  Key fact: sort by an antisymmetric total order is a
             function of the multiset (c7_sort_perm_eq), so distinctness of keys is not even needed.
   Goal 2  C07_decl_children, C07_decl_children_ops   [struct_equiv sc1 sc2, same c_transitions, ms_equiv]
             same_outcome, including the full observation trace.
           function level: C07_decl_ancestors, _depth, _lca, _descendants (Permutation; sorted EQUAL),
             _sorted_children, _root, _stays_below, _check_pair, _create_step, _leaf_for,
             _configuration, _stabilization_step, _record_history, _select_transitions.
   Goal 3  C07_decl_transitions        [chart_perm, eval blind to the index] select_transitions selects
             BP-related lists (C07_selected_same_set: the same set through pi, the same multiset of
             records) or both fail with a guard error; guard observations are not compared.
           C07_error_kind              BP ts1 ts2 -> check_pairs sc2 ts2 = check_pairs sc1 ts1  (the SAME
             error, not only the same kind: the planned C07_error_kind_refuted does NOT hold; the
             mixed ENonDeterminism/EConflict situation is order independent because a block with two
             transitions is met before any pair involving a later block and same-source pairs yield
             ENonDeterminism, while inside a block all offending pairs with a fixed earlier transition
             carry one and the same error: cp_same_source).
           C07_sort_transitions_decl   same error or the same ordered list (indices renamed).
   Goal 4  C07_decl_order, C07_decl_order_ops, C07_decl_order_perm
             [chart_perm sc1 sc2 pi (resp. perm_chart + decl_wf + desc_ok); exec/eval do not depend on the
              index of the owning transition: exec (cmap pi c) = exec c; listener errors do not mention
              indices; run_equiv pi s1 s2 (run_equiv_init: holds for fresh interpreters)]
             execute_once / any operation sequence: both succeed with macro steps equal up to pi
             (consumed event, transitions, entered, exited, sent lists; contexts equal in run_equiv) or
             both fail with ERB-related errors.
   Goal 5  c07_chart / rev_chart c07_chart (children of the orthogonal state and transitions swapped):
             c07_same_runs, c07_run_shape, c07_orders_differ, c07_chart_perm, c07_decl_order_instance,
             c07_hashseed_instance/_run, c07_struct_equiv, c07_decl_children_runs/_instance,
             c07_same_error (ENonDeterminism in both orders).
           C07_function                trivial: the model is a function.

   REFUTED (kept deliberately)
     C07_guard_error_owner_refuted: "same error up to renaming" is false for guard errors: when the
       guards of two transitions of one source both raise, the exception reported is the one of the
       transition declared first.  Same KIND of error at the same step (what C07 asks), different
       error object.  Likewise the ORDER of guard evaluations follows the declaration order.

   GAPS / MODELLING REMARKS
     - desc_ok (descendants_for has no duplicates and is the inverse of ancestors_for) is assumed for
       BOTH charts in perm_chart_struct; it is decidable (desc_okb, desc_okb_sound) but not derived
       from WF2 for the reordered chart (would need a completeness proof of the fuelled BFS).
     - After an error the history memory is not compared when the children of a compound state are
       declared in another order: record_history writes child by child in declaration order, so the
       partial updates differ (all other fields are compared).
     - exec/eval "blind to the index" is a hypothesis on the abstract evaluator (true of sismic: the
       code only sees the transition's source state times, event, context).
   The proof is one simulation (Section Sim: sim, sim_bind, ... sim_execute_once) parametric in the
   trace relation, the error relation and the relation on selected transitions, instantiated twice:
   SameOrder (identity renaming, full traces) and instance B (permuted transitions). *)
From Coq Require Import String List Bool ZArith Sorted Permutation Lia.
From Sismic Require Import Base Chart Interp.
From SismicProofs Require Import SortLib FrameLib.
Import ListNotations.
Open Scope string_scope.
Open Scope list_scope.

(* ================================================================== Part 0: lists, sets, sorting *)
Lemma c7_mem_perm x l l' : Permutation l l' -> mem x l = mem x l'.
Proof.
  intros HP. destruct (mem x l') eqn:E.
  - apply mem_In. apply mem_In in E.
    eapply Permutation_in; [apply Permutation_sym; exact HP|exact E].
  - apply mem_false_iff. apply mem_false_iff in E. intros H; apply E.
    eapply Permutation_in; [exact HP|exact H].
Qed.

Lemma c7_filter_perm1 {A} (g : A -> bool) l l' :
  Permutation l l' -> Permutation (filter g l) (filter g l').
Proof.
  intros HP. induction HP as [|x l l' HP IH|x y l|l l' l'' HP1 IH1 HP2 IH2]; simpl.
  - constructor.
  - destruct (g x); [apply perm_skip|]; exact IH.
  - destruct (g x), (g y); try apply Permutation_refl. apply perm_swap.
  - eapply Permutation_trans; eassumption.
Qed.

Lemma c7_filter_perm {A} (f g : A -> bool) l l' :
  Permutation l l' -> (forall x, f x = g x) -> Permutation (filter f l) (filter g l').
Proof.
  intros HP Hfg. rewrite (filter_ext f g Hfg). apply c7_filter_perm1; exact HP.
Qed.

Lemma c7_existsb_perm {A} (f : A -> bool) l l' : Permutation l l' -> existsb f l = existsb f l'.
Proof.
  intros HP. induction HP as [|x l l' HP IH|x y l|l l' l'' HP1 IH1 HP2 IH2]; simpl.
  - reflexivity.
  - rewrite IH; reflexivity.
  - destruct (f x), (f y); reflexivity.
  - congruence.
Qed.

Lemma c7_existsb_ext {A} (f g : A -> bool) l : (forall x, f x = g x) -> existsb f l = existsb g l.
Proof. intros H. induction l as [|x l IH]; simpl; [reflexivity|]. rewrite H, IH. reflexivity. Qed.

Lemma c7_remove_first_perm x l l' :
  Permutation l l' -> Permutation (remove_first x l) (remove_first x l').
Proof.
  intros HP. induction HP as [|y l l' HP IH|y z l|l l' l'' HP1 IH1 HP2 IH2]; simpl.
  - constructor.
  - destruct (str_eqb x y); [exact HP|apply perm_skip; exact IH].
  - destruct (str_eqb x z) eqn:Ez, (str_eqb x y) eqn:Ey.
    + apply str_eqb_spec in Ez. apply str_eqb_spec in Ey. subst. apply Permutation_refl.
    + apply Permutation_refl.
    + apply Permutation_refl.
    + apply perm_swap.
  - eapply Permutation_trans; eassumption.
Qed.

Lemma c7_set_add_perm x l l' : Permutation l l' -> Permutation (set_add x l) (set_add x l').
Proof.
  intros HP. unfold set_add. rewrite (c7_mem_perm x l l' HP).
  destruct (mem x l'); [exact HP|apply Permutation_app_tail; exact HP].
Qed.

Lemma c7_lookup_dset {V} n k (v : V) d :
  lookup n (dset k v d) = if str_eqb n k then Some v else lookup n d.
Proof.
  induction d as [|[k' v'] d IH]; simpl.
  - reflexivity.
  - destruct (str_eqb k k') eqn:E; simpl.
    + apply str_eqb_spec in E. subst k'. destruct (str_eqb n k); reflexivity.
    + rewrite IH. destruct (str_eqb n k') eqn:E'; [|reflexivity].
      destruct (str_eqb n k) eqn:E''; [|reflexivity].
      apply str_eqb_spec in E'. apply str_eqb_spec in E''. subst.
      unfold str_eqb in E. rewrite String.eqb_refl in E. discriminate.
Qed.

Lemma c7_perm_singleton {A} (x : A) l : Permutation [x] l -> l = [x].
Proof. intros H. apply Permutation_length_1_inv. exact H. Qed.

(* a sort by an antisymmetric total order is a function of the multiset *)
Section SortCanon.
  Context {A : Type} (leb : A -> A -> bool).
  Hypothesis leb_total : forall a b, leb a b = true \/ leb b a = true.
  Hypothesis leb_trans : forall a b c, leb a b = true -> leb b c = true -> leb a c = true.
  Hypothesis leb_antisym : forall a b, leb a b = true -> leb b a = true -> a = b.

  Lemma c7_sorted_perm_eq : forall l l',
    StronglySorted (lebP leb) l -> StronglySorted (lebP leb) l' -> Permutation l l' -> l = l'.
  Proof.
    induction l as [|x l IH]; intros [|y l'] Hs Hs' HP.
    - reflexivity.
    - apply Permutation_nil in HP. discriminate.
    - apply Permutation_sym, Permutation_nil in HP. discriminate.
    - inversion Hs as [|x0 l0 Hs1 Hall]; subst. inversion Hs' as [|y0 l0' Hs1' Hall']; subst.
      rewrite Forall_forall in Hall, Hall'.
      assert (Hrefl : forall a, leb a a = true) by (intros a; destruct (leb_total a a); assumption).
      assert (Hxy : x = y).
      { apply leb_antisym.
        - assert (Hin : In y (x :: l)).
          { eapply Permutation_in; [apply Permutation_sym; exact HP|left; reflexivity]. }
          destruct Hin as [<-|Hin]; [apply Hrefl|apply Hall; exact Hin].
        - assert (Hin : In x (y :: l')).
          { eapply Permutation_in; [exact HP|left; reflexivity]. }
          destruct Hin as [<-|Hin]; [apply Hrefl|apply Hall'; exact Hin]. }
      subst y. f_equal. apply IH; [exact Hs1|exact Hs1'|].
      eapply Permutation_cons_inv; exact HP.
  Qed.

  Lemma c7_sort_perm_eq : forall l l', Permutation l l' -> sort leb l = sort leb l'.
  Proof.
    intros l l' HP. apply c7_sorted_perm_eq.
    - apply sort_strongly_sorted; assumption.
    - apply sort_strongly_sorted; assumption.
    - eapply Permutation_trans; [apply sort_perm|].
      eapply Permutation_trans; [exact HP|apply Permutation_sym, sort_perm].
  Qed.
End SortCanon.

Lemma c7_insert_ext {A} (leb leb' : A -> A -> bool) x l :
  (forall a b, leb a b = leb' a b) -> insert leb x l = insert leb' x l.
Proof.
  intros H. induction l as [|y l IH]; simpl; [reflexivity|]. rewrite H, IH. reflexivity.
Qed.

Lemma c7_sort_ext {A} (leb leb' : A -> A -> bool) l :
  (forall a b, leb a b = leb' a b) -> sort leb l = sort leb' l.
Proof.
  intros H. induction l as [|x l IH]; simpl; [reflexivity|].
  rewrite IH. apply c7_insert_ext; exact H.
Qed.

(* sort commutes with a map that preserves the order *)
Lemma c7_insert_map {A B} (f : A -> B) (leb : A -> A -> bool) (leb' : B -> B -> bool) x l :
  (forall a b, leb' (f a) (f b) = leb a b) ->
  insert leb' (f x) (map f l) = map f (insert leb x l).
Proof.
  intros H. induction l as [|y l IH]; simpl; [reflexivity|].
  rewrite H. destruct (leb x y); simpl; [reflexivity|]. rewrite IH. reflexivity.
Qed.

Lemma c7_sort_map {A B} (f : A -> B) (leb : A -> A -> bool) (leb' : B -> B -> bool) l :
  (forall a b, leb' (f a) (f b) = leb a b) ->
  sort leb' (map f l) = map f (sort leb l).
Proof.
  intros H. induction l as [|x l IH]; simpl; [reflexivity|].
  rewrite IH. apply c7_insert_map; exact H.
Qed.

(* ---- the lexicographic order on (Z, name) keys ---- *)
Lemma c7_zn_leb_iff a b :
  zn_leb a b = true <-> (fst a < fst b)%Z \/ (fst a = fst b /\ str_leb (snd a) (snd b) = true).
Proof.
  unfold zn_leb. rewrite orb_true_iff, andb_true_iff, Z.ltb_lt, Z.eqb_eq. reflexivity.
Qed.

Lemma c7_zn_leb_total a b : zn_leb a b = true \/ zn_leb b a = true.
Proof.
  rewrite !c7_zn_leb_iff. destruct (Z.lt_trichotomy (fst a) (fst b)) as [H|[H|H]]; auto.
  destruct (str_leb_total (snd a) (snd b)); [left|right]; right; split; auto.
Qed.

Lemma c7_zn_leb_trans a b c : zn_leb a b = true -> zn_leb b c = true -> zn_leb a c = true.
Proof.
  rewrite !c7_zn_leb_iff. intros [H1|[H1 L1]] [H2|[H2 L2]]; try (left; lia).
  right. split; [lia|]. eapply str_leb_trans; eassumption.
Qed.

Lemma c7_zn_leb_antisym a b : zn_leb a b = true -> zn_leb b a = true -> a = b.
Proof.
  rewrite !c7_zn_leb_iff. intros [H1|[H1 L1]] [H2|[H2 L2]]; try lia.
  destruct a as [za na], b as [zb nb]; simpl in *. subst zb. f_equal.
  apply str_leb_antisym; assumption.
Qed.

(* orders on names given by a key (z n, n) *)
Section KeyOrder.
  Variable z : name -> Z.
  Definition kleb (a b : name) : bool := zn_leb (z a, a) (z b, b).
  Lemma c7_kleb_total a b : kleb a b = true \/ kleb b a = true.
  Proof. apply c7_zn_leb_total. Qed.
  Lemma c7_kleb_trans a b c : kleb a b = true -> kleb b c = true -> kleb a c = true.
  Proof. apply c7_zn_leb_trans. Qed.
  Lemma c7_kleb_antisym a b : kleb a b = true -> kleb b a = true -> a = b.
  Proof. intros H1 H2. pose proof (c7_zn_leb_antisym _ _ H1 H2) as E. inversion E. reflexivity. Qed.
  Lemma c7_kleb_sort_perm l l' : Permutation l l' -> sort kleb l = sort kleb l'.
  Proof.
    apply c7_sort_perm_eq; [apply c7_kleb_total|apply c7_kleb_trans|apply c7_kleb_antisym].
  Qed.
End KeyOrder.

Lemma c7_sort_names_perm l l' : Permutation l l' -> sort_names l = sort_names l'.
Proof.
  apply c7_sort_perm_eq; [apply str_leb_total|apply str_leb_trans|apply str_leb_antisym].
Qed.

Lemma c7_first_some_ext {A B} (f g : A -> option B) l :
  (forall x, f x = g x) -> first_some f l = first_some g l.
Proof. intros H. induction l as [|x l IH]; simpl; [reflexivity|]. rewrite H, IH. reflexivity. Qed.

(* ---- sorted_groupby of two related lists: same labels in the same order, related groups ---- *)
Lemma c7_StronglySorted_map {A B} (g : A -> B) (R : B -> B -> Prop) l :
  StronglySorted (fun a b => R (g a) (g b)) l -> StronglySorted R (map g l).
Proof.
  intros H. induction H as [|x l Hs IH Hall]; simpl; constructor; [exact IH|].
  rewrite Forall_forall in *. intros y Hy. apply in_map_iff in Hy. destruct Hy as (z & <- & Hz).
  apply Hall; exact Hz.
Qed.

Lemma c7_groups_as_map {A K} (F : K -> list A) (G : list (K * list A)) :
  (forall k vs, In (k, vs) G -> vs = F k) -> G = map (fun k => (k, F k)) (map fst G).
Proof.
  induction G as [|[k vs] G IH]; intros H; simpl; [reflexivity|].
  rewrite <- (H k vs (or_introl eq_refl)). f_equal. apply IH.
  intros k' vs' Hin. apply H. right; exact Hin.
Qed.

Section SgbRel.
  Context {A K : Type} (f : A -> A) (LR : list A -> list A -> Prop).
  Hypothesis LR_filter : forall (p1 p2 : A -> bool) l1 l2,
    (forall x, p2 (f x) = p1 x) -> LR l1 l2 -> LR (filter p1 l1) (filter p2 l2).
  Hypothesis LR_in1 : forall l1 l2 x, LR l1 l2 -> In x l1 -> In (f x) l2.
  Hypothesis LR_in2 : forall l1 l2 y, LR l1 l2 -> In y l2 -> exists x, In x l1 /\ y = f x.
  Variables (key1 key2 : A -> K) (keqb kleb : K -> K -> bool).
  Hypothesis Hkey : forall x, key2 (f x) = key1 x.
  Hypothesis keqb_spec : forall a b, keqb a b = true <-> a = b.
  Hypothesis kleb_total : forall a b, kleb a b = true \/ kleb b a = true.
  Hypothesis kleb_trans : forall a b c, kleb a b = true -> kleb b c = true -> kleb a c = true.
  Hypothesis kleb_antisym : forall a b, kleb a b = true -> kleb b a = true -> a = b.

  Definition GRel (P : K -> A -> Prop) (G1 G2 : list (K * list A)) : Prop :=
    Forall2 (fun g1 g2 => fst g2 = fst g1 /\ LR (snd g1) (snd g2)
                          /\ forall x, In x (snd g1) -> P (fst g1) x) G1 G2.

  Lemma c7_sgb_labels rev l1 l2 :
    LR l1 l2 ->
    map fst (sorted_groupby key1 keqb kleb rev l1) = map fst (sorted_groupby key2 keqb kleb rev l2).
  Proof.
    intros HL.
    pose (leb' := fun a b : K => if rev then kleb b a else kleb a b).
    assert (Hsorted : forall (key : A -> K) l,
              StronglySorted (lebP leb') (map fst (sorted_groupby key keqb kleb rev l))).
    { intros key l. apply c7_StronglySorted_map.
      eapply StronglySorted_impl;
        [|apply (sorted_groupby_sorted key keqb keqb_spec kleb kleb_total kleb_trans rev l)].
      intros a b [Hle _]. exact Hle. }
    apply (c7_sorted_perm_eq leb').
    - intros a b. unfold leb'. destruct rev; apply kleb_total.
    - intros a b. unfold leb'. destruct rev; intros H1 H2; [symmetry|]; apply kleb_antisym; assumption.
    - apply Hsorted.
    - apply Hsorted.
    - apply NoDup_Permutation; try (apply sorted_groupby_labels_NoDup; exact keqb_spec).
      intros k. rewrite !(sorted_groupby_label_iff _ _ keqb_spec). split.
      + intros (x & Hx & Hk). exists (f x). split; [eapply LR_in1; eassumption|].
        rewrite Hkey. exact Hk.
      + intros (y & Hy & Hk). destruct (LR_in2 _ _ _ HL Hy) as (x & Hx & ->).
        exists x. split; [exact Hx|]. rewrite <- Hkey. exact Hk.
  Qed.

  Lemma c7_sgb_rel rev l1 l2 :
    LR l1 l2 ->
    GRel (fun k x => key1 x = k /\ In x l1)
         (sorted_groupby key1 keqb kleb rev l1) (sorted_groupby key2 keqb kleb rev l2).
  Proof.
    intros HL. pose proof (c7_sgb_labels rev l1 l2 HL) as Hlab.
    rewrite (c7_groups_as_map (grp key1 keqb l1) (sorted_groupby key1 keqb kleb rev l1))
      by (intros k vs Hin; apply (sorted_groupby_group _ _ keqb_spec) in Hin; apply Hin).
    rewrite (c7_groups_as_map (grp key2 keqb l2) (sorted_groupby key2 keqb kleb rev l2))
      by (intros k vs Hin; apply (sorted_groupby_group _ _ keqb_spec) in Hin; apply Hin).
    rewrite <- Hlab. unfold GRel. clear Hlab.
    induction (map fst (sorted_groupby key1 keqb kleb rev l1)) as [|k L IH]; simpl; [constructor|].
    constructor; [|exact IH].
    cbn [fst snd]. split; [reflexivity|]. split.
    - unfold grp. apply LR_filter; [|exact HL]. intros x. rewrite Hkey. reflexivity.
    - intros x Hx. apply (In_grp _ _ keqb_spec) in Hx. destruct Hx as [Hx Hk]. split; assumption.
  Qed.
End SgbRel.

(* ---- sequences of API calls: queue(event), execute_once(), execute() ---- *)
Inductive op := OQueue (e : event) | OStep (fuel : nat) (now : Z) | ORun (fuel : nat) (now : Z).

Section Ops.
  Variable ctx X : Type.
  Variable exec : call ctx -> ctx -> option (ctx * list event).
  Variable eval : call ctx -> ctx -> option bool.
  Variable emit : Z -> meta -> X -> X * option err.
  Variable sc : chart.
  Definition run_op (o : op) : M ctx X (list macrostep) :=
    match o with
    | OQueue e => bind ctx X (queue ctx X e) (fun _ => ret ctx X [])
    | OStep fuel now =>
        bind ctx X (execute_once ctx X exec eval emit sc fuel now) (fun m =>
        ret ctx X (match m with Some x => [x] | None => [] end))
    | ORun fuel now => execute ctx X exec eval emit sc fuel now
    end.
  Fixpoint run_ops (ops : list op) : M ctx X (list macrostep) :=
    match ops with
    | [] => ret ctx X []
    | o :: r => bind ctx X (run_op o) (fun a => bind ctx X (run_ops r) (fun b => ret ctx X (a ++ b)))
    end.
End Ops.

(* ================================================================== Part 1: two charts *)
(* Renaming of transition indices (the identity of a transition in the model is its index in
   c_transitions). *)
Section Rename.
  Variable pi : nat -> nat.
  Definition omap (o : owner) : owner :=
    match o with OState n => OState n | OTrans i => OTrans (pi i) end.
  Definition imap (it : itrans) : itrans := (pi (fst it), snd it).
  Definition mmap (m : microstep) : microstep :=
    mkMicro (ms_event m) (option_map pi (ms_trans m)) (ms_entered m) (ms_exited m) (ms_sent m).
  Definition emap (e : err) : err :=
    match e with
    | EContract k o i => EContract k (omap o) i
    | ECode k o i => ECode k (omap o) i
    | e' => e'
    end.
  Definition cmap {ctx} (c : call ctx) : call ctx :=
    mkCall (cl_interp c) (cl_kind c) (omap (cl_owner c)) (cl_idx c) (cl_code c) (cl_event c)
           (cl_time c) (cl_config c) (cl_entry c) (cl_idle c) (cl_sent c) (cl_old c).
  Definition obmap {ctx} (o : obs ctx) : obs ctx :=
    match o with
    | ObExec c r => ObExec (cmap c) r
    | ObEval c r => ObEval (cmap c) r
    | ObMeta m => ObMeta m
    | ObSelected ts => ObSelected (map pi ts)
    end.
  Definition oldmap {ctx} (m : list (owner * ctx)) : list (owner * ctx) :=
    map (fun p => (omap (fst p), snd p)) m.
  Definition macmap (m : option macrostep) : option macrostep :=
    option_map (fun p : macrostep => (fst p, map mmap (snd p))) m.
End Rename.

Section Charts.
  Variable sc1 sc2 : chart.
  Variable pi : nat -> nat.

  (* ---- what "the same statechart, declared in another order" means for the queries ---- *)
  Hypothesis Hst : forall n, state_for sc2 n = state_for sc1 n.
  Hypothesis Hpar : forall n, parent_for sc2 n = parent_for sc1 n.
  Hypothesis Hplen : length (c_parent sc2) = length (c_parent sc1).
  Hypothesis Hkids : forall n, Permutation (children_for sc1 n) (children_for sc2 n).
  Hypothesis Hdesc : forall n, Permutation (descendants_for sc1 n) (descendants_for sc2 n).
  Hypothesis Hroot : root sc2 = root sc1.
  Hypothesis Htr : forall i, nth_error (c_transitions sc2) (pi i) = nth_error (c_transitions sc1) i.
  Hypothesis Hinj : forall i j, pi i = pi j -> i = j.
  Hypothesis Hlen : length (c_transitions sc2) = length (c_transitions sc1).

  Notation imap' := (imap pi).
  Notation mmap' := (mmap pi).

  Lemma c7_anc_fuel f : forall p, ancestors_fuel sc2 f p = ancestors_fuel sc1 f p.
  Proof.
    induction f as [|f IH]; intros p; simpl; [reflexivity|].
    destruct (truthy p) as [q|]; [|reflexivity]. rewrite Hpar, IH. reflexivity.
  Qed.

  Lemma c7_anc n : ancestors_for sc2 n = ancestors_for sc1 n.
  Proof. unfold ancestors_for. rewrite Hplen, Hpar. apply c7_anc_fuel. Qed.

  Lemma c7_depth n : depth_for sc2 n = depth_for sc1 n.
  Proof. unfold depth_for. rewrite c7_anc. reflexivity. Qed.

  Lemma c7_lca a b : least_common_ancestor sc2 a b = least_common_ancestor sc1 a b.
  Proof. unfold least_common_ancestor. rewrite !c7_anc. reflexivity. Qed.

  Lemma c7_kind_of n : kind_of sc2 n = kind_of sc1 n.
  Proof. unfold kind_of. rewrite Hst. reflexivity. Qed.

  Lemma c7_mem_desc x n : mem x (descendants_for sc2 n) = mem x (descendants_for sc1 n).
  Proof. symmetry. apply c7_mem_perm. apply Hdesc. Qed.

  Lemma c7_stays_below lca t : stays_below sc2 lca t = stays_below sc1 lca t.
  Proof.
    unfold stays_below. destruct (t_target t) as [tgt|]; [|reflexivity].
    rewrite c7_anc. cbn [mem]. rewrite c7_mem_desc. reflexivity.
  Qed.

  Lemma c7_check_pair t1 t2 : check_pair sc2 t1 t2 = check_pair sc1 t1 t2.
  Proof.
    unfold check_pair. rewrite c7_lca.
    destruct (least_common_ancestor sc1 (t_source t1) (t_source t2)) as [l|]; [|reflexivity].
    rewrite c7_kind_of, !c7_stays_below. reflexivity.
  Qed.

  Lemma c7_exit_order a b : exit_order_leb sc2 a b = exit_order_leb sc1 a b.
  Proof. unfold exit_order_leb. rewrite !c7_depth. reflexivity. Qed.

  Lemma c7_enter_order a b : enter_order_leb sc2 a b = enter_order_leb sc1 a b.
  Proof. unfold enter_order_leb. rewrite !c7_depth. reflexivity. Qed.

  Lemma c7_exit_order_kleb sc a b : exit_order_leb sc a b = kleb (fun n => (- depth_for sc n)%Z) a b.
  Proof. reflexivity. Qed.

  Lemma c7_enter_order_kleb sc a b : enter_order_leb sc a b = kleb (depth_for sc) a b.
  Proof. reflexivity. Qed.

  Lemma c7_sort_exit_perm sc l l' :
    Permutation l l' -> sort (exit_order_leb sc) l = sort (exit_order_leb sc) l'.
  Proof. apply (c7_kleb_sort_perm (fun n => (- depth_for sc n)%Z)). Qed.

  Lemma c7_sort_enter_perm sc l l' :
    Permutation l l' -> sort (enter_order_leb sc) l = sort (enter_order_leb sc) l'.
  Proof. apply (c7_kleb_sort_perm (depth_for sc)). Qed.

  Lemma c7_sorted_desc n :
    sort (exit_order_leb sc2) (descendants_for sc2 n) = sort (exit_order_leb sc1) (descendants_for sc1 n).
  Proof.
    rewrite (c7_sort_ext _ _ _ c7_exit_order). symmetry. apply c7_sort_exit_perm. apply Hdesc.
  Qed.

  (* ---- _create_steps ---- *)
  Lemma c7_create_step cfg1 cfg2 ev it :
    Permutation cfg1 cfg2 ->
    create_step sc2 cfg2 ev (imap' it) = mmap' (create_step sc1 cfg1 ev it).
  Proof.
    intros HP. unfold create_step, imap, mmap. cbn [fst snd].
    destruct (t_target (snd it)) as [tgt|]; [|reflexivity].
    cbn [ms_event ms_trans ms_entered ms_exited ms_sent option_map].
    rewrite c7_lca, !c7_anc, c7_sorted_desc.
    rewrite <- (c7_mem_perm _ _ _ HP).
    rewrite (filter_ext (fun d => mem d cfg2) (fun d => mem d cfg1))
      by (intros d; symmetry; apply c7_mem_perm; exact HP).
    reflexivity.
  Qed.

  Lemma c7_create_steps cfg1 cfg2 ev ts :
    Permutation cfg1 cfg2 ->
    create_steps sc2 cfg2 ev (map imap' ts) = map mmap' (create_steps sc1 cfg1 ev ts).
  Proof.
    intros HP. unfold create_steps. rewrite !map_map. apply map_ext.
    intros it. apply c7_create_step; exact HP.
  Qed.

  (* ---- leaf_for / configuration ---- *)
  Lemma c7_leaf_for cfg1 cfg2 :
    Permutation cfg1 cfg2 -> Permutation (leaf_for sc1 cfg1) (leaf_for sc2 cfg2).
  Proof.
    intros HP. unfold leaf_for. apply c7_filter_perm; [exact HP|].
    intros n. f_equal. rewrite (c7_existsb_perm _ _ _ (Hdesc n)).
    apply c7_existsb_ext. intros d. apply c7_mem_perm; exact HP.
  Qed.

  Lemma c7_configuration cfg1 cfg2 :
    Permutation cfg1 cfg2 -> configuration sc2 cfg2 = configuration sc1 cfg1.
  Proof.
    intros HP. unfold configuration. f_equal.
    rewrite (map_ext (fun n => (depth_for sc2 n, n)) (fun n => (depth_for sc1 n, n)))
      by (intros n; rewrite c7_depth; reflexivity).
    apply c7_sort_perm_eq;
      [apply c7_zn_leb_total|apply c7_zn_leb_trans|apply c7_zn_leb_antisym|].
    apply Permutation_map. apply Permutation_sym; exact HP.
  Qed.

  (* ---- memory: dictionaries compared through lookup, values up to permutation ---- *)
  Definition olist_rel (a b : option (list name)) : Prop :=
    match a, b with
    | Some l1, Some l2 => Permutation l1 l2
    | None, None => True
    | _, _ => False
    end.
  Definition mem_rel (m1 m2 : list (name * list name)) : Prop :=
    forall k, olist_rel (lookup k m1) (lookup k m2).

  Lemma c7_mem_rel_refl m : mem_rel m m.
  Proof. intros k. unfold olist_rel. destruct (lookup k m); [apply Permutation_refl|exact I]. Qed.

  Lemma c7_mem_rel_dset m1 m2 k v1 v2 :
    mem_rel m1 m2 -> Permutation v1 v2 -> mem_rel (dset k v1 m1) (dset k v2 m2).
  Proof.
    intros Hm Hv n. rewrite !c7_lookup_dset. destruct (str_eqb n k); [exact Hv|apply Hm].
  Qed.

  (* ---- _create_stabilization_step ---- *)
  Lemma c7_stab_for_leaf m1 m2 leaf :
    mem_rel m1 m2 -> stab_for_leaf sc2 m2 leaf = stab_for_leaf sc1 m1 leaf.
  Proof.
    intros Hm. unfold stab_for_leaf. rewrite Hst, Hpar, Hroot.
    destruct (state_for sc1 leaf) as [st|]; [|reflexivity].
    destruct (s_kind st); try reflexivity.
    - (* orthogonal *)
      pose proof (Hkids leaf) as HP.
      destruct (children_for sc1 leaf) as [|c1 l1] eqn:E1.
      + apply Permutation_nil in HP. rewrite HP. reflexivity.
      + destruct (children_for sc2 leaf) as [|c2 l2] eqn:E2.
        * apply Permutation_sym, Permutation_nil in HP. discriminate.
        * rewrite (c7_sort_names_perm _ _ HP). reflexivity.
    - (* shallow *)
      specialize (Hm leaf). unfold olist_rel in Hm.
      destruct (lookup leaf m1) as [l1|], (lookup leaf m2) as [l2|]; try contradiction; [|reflexivity].
      rewrite (c7_sort_ext _ _ _ c7_enter_order), (c7_sort_enter_perm sc1 _ _ Hm). reflexivity.
    - (* deep *)
      specialize (Hm leaf). unfold olist_rel in Hm.
      destruct (lookup leaf m1) as [l1|], (lookup leaf m2) as [l2|]; try contradiction; [|reflexivity].
      rewrite (c7_sort_ext _ _ _ c7_enter_order), (c7_sort_enter_perm sc1 _ _ Hm). reflexivity.
  Qed.

  Lemma c7_stab_for_orthogonal cfg1 cfg2 n :
    Permutation cfg1 cfg2 -> stab_for_orthogonal sc2 cfg2 n = stab_for_orthogonal sc1 cfg1 n.
  Proof.
    intros HP. unfold stab_for_orthogonal. rewrite Hst.
    destruct (state_for sc1 n) as [st|]; [|reflexivity].
    destruct (s_kind st); try reflexivity.
    assert (HF : Permutation (filter (fun ch => negb (mem ch cfg1)) (children_for sc1 n))
                             (filter (fun ch => negb (mem ch cfg2)) (children_for sc2 n))).
    { apply c7_filter_perm; [apply Hkids|]. intros ch. f_equal. apply c7_mem_perm; exact HP. }
    destruct (filter (fun ch => negb (mem ch cfg1)) (children_for sc1 n)) as [|c1 l1] eqn:E1.
    - apply Permutation_nil in HF. rewrite HF. reflexivity.
    - destruct (filter (fun ch => negb (mem ch cfg2)) (children_for sc2 n)) as [|c2 l2] eqn:E2.
      + apply Permutation_sym, Permutation_nil in HF. discriminate.
      + rewrite (c7_sort_names_perm _ _ HF). reflexivity.
  Qed.

  Lemma c7_states_for l : states_for sc2 l = states_for sc1 l.
  Proof. induction l as [|n l IH]; simpl; [reflexivity|]. rewrite Hst, IH. reflexivity. Qed.

  (* ---- transitions ---- *)
  Lemma c7_owner_state o : owner_state sc2 (omap pi o) = owner_state sc1 o.
  Proof. destruct o as [n|i]; simpl; [reflexivity|]. rewrite Htr. reflexivity. Qed.

  Lemma c7_owner_eqb o o' : owner_eqb (omap pi o) (omap pi o') = owner_eqb o o'.
  Proof.
    destruct o as [n|i], o' as [n'|i']; simpl; try reflexivity.
    destruct (Nat.eqb i i') eqn:E.
    - apply Nat.eqb_eq in E. subst. apply Nat.eqb_refl.
    - apply Nat.eqb_neq. apply Nat.eqb_neq in E. intros H. apply E. apply Hinj; exact H.
  Qed.

  Lemma c7_old_lookup {ctx} o (m : list (owner * ctx)) :
    old_lookup (omap pi o) (oldmap pi m) = old_lookup o m.
  Proof.
    induction m as [|[o' c] m IH]; simpl; [reflexivity|].
    rewrite c7_owner_eqb, IH. reflexivity.
  Qed.

  Lemma c7_old_set {ctx} o (c : ctx) (m : list (owner * ctx)) :
    old_set (omap pi o) c (oldmap pi m) = oldmap pi (old_set o c m).
  Proof.
    induction m as [|[o' c'] m IH]; simpl; [reflexivity|].
    rewrite c7_owner_eqb. destruct (owner_eqb o o'); simpl; [reflexivity|].
    rewrite IH. reflexivity.
  Qed.
  (* ================================================================ Part 2: simulation of two runs *)
  Variable ctx : Type.
  Variable X : Type.
  Variable exec1 exec2 : call ctx -> ctx -> option (ctx * list event).
  Variable eval1 eval2 : call ctx -> ctx -> option bool.
  Variable emit : Z -> meta -> X -> X * option err.
  (* the evaluator cannot see the position of a transition in the declaration list *)
  Hypothesis Hexec : forall c x, exec2 (cmap pi c) x = exec1 c x.
  Hypothesis Heval : forall c x, eval2 (cmap pi c) x = eval1 c x.
  (* errors reported by listeners do not mention transition indices *)
  Hypothesis Hemit : forall t m x e, snd (emit t m x) = Some e -> emap pi e = e.

  Notation ist := (istate ctx).
  Notation mst := (mstate ctx X).
  Notation MM := (Interp.M ctx X).

  (* interpreter states "equal up to the order of sets and the names of transitions";
     IRe: everything but the history memory (what is guaranteed after an error) *)
  Record IRe (i1 i2 : ist) : Prop := mkIRe {
    ir_id : i_id i2 = i_id i1;
    ir_init : i_initialized i2 = i_initialized i1;
    ir_time : i_time i2 = i_time i1;
    ir_config : Permutation (i_config i1) (i_config i2);
    ir_entry : i_entry i2 = i_entry i1;
    ir_idle : i_idle i2 = i_idle i1;
    ir_sent : i_sent i2 = i_sent i1;
    ir_iq : i_iq i2 = i_iq i1;
    ir_eq : i_eq i2 = i_eq i1;
    ir_ignore : i_ignore_contract i2 = i_ignore_contract i1;
    ir_ctx : i_ctx i2 = i_ctx i1;
    ir_old : i_old i2 = oldmap pi (i_old i1)
  }.
  Definition IR (i1 i2 : ist) : Prop := IRe i1 i2 /\ mem_rel (i_memory i1) (i_memory i2).

  Lemma c7_mk_call i1 i2 k o idx cd ev :
    IRe i1 i2 -> mk_call ctx sc2 i2 k (omap pi o) idx cd ev = cmap pi (mk_call ctx sc1 i1 k o idx cd ev).
  Proof.
    intros H. destruct H. unfold mk_call, cmap.
    cbn [cl_interp cl_kind cl_owner cl_idx cl_code cl_event cl_time cl_config cl_entry cl_idle cl_sent cl_old].
    rewrite c7_owner_state, ir_id0, ir_time0, ir_entry0, ir_idle0, ir_sent0, ir_old0, c7_old_lookup.
    rewrite (c7_sort_names_perm _ _ (Permutation_sym ir_config0)). reflexivity.
  Qed.

  Section Sim.
    Variable Rt : list (obs ctx) -> list (obs ctx) -> Prop.
    Variable ER : err -> err -> Prop.
    Hypothesis ER_map : forall e, ER e (emap pi e).
    Hypothesis Rt_exec : forall t1 t2 c r, Rt t1 t2 -> Rt (ObExec c r :: t1) (ObExec (cmap pi c) r :: t2).
    Hypothesis Rt_eval : forall t1 t2 c r, cl_kind c <> CGuard ->
      Rt t1 t2 -> Rt (ObEval c r :: t1) (ObEval (cmap pi c) r :: t2).
    Hypothesis Rt_meta : forall t1 t2 m, Rt t1 t2 -> Rt (ObMeta m :: t1) (ObMeta m :: t2).

    Definition SR (s1 s2 : mst) : Prop :=
      IR (m_i s1) (m_i s2) /\ m_x s2 = m_x s1 /\ Rt (m_tr s1) (m_tr s2).
    Definition SRe (s1 s2 : mst) : Prop :=
      IRe (m_i s1) (m_i s2) /\ m_x s2 = m_x s1 /\ Rt (m_tr s1) (m_tr s2).

    Lemma SR_SRe s1 s2 : SR s1 s2 -> SRe s1 s2.
    Proof. intros [[H _] H']. split; assumption. Qed.

    Definition orel {A B} (RA : A -> B -> Prop) (o1 : mst * (A + err)) (o2 : mst * (B + err)) : Prop :=
      match o1, o2 with
      | (s1, inl a), (s2, inl b) => SR s1 s2 /\ RA a b
      | (s1, inr e1), (s2, inr e2) => SRe s1 s2 /\ ER e1 e2
      | _, _ => False
      end.
    Definition sim {A B} (RA : A -> B -> Prop) (m1 : MM A) (m2 : MM B) : Prop :=
      forall s1 s2, SR s1 s2 -> orel RA (m1 s1) (m2 s2).
    Definition RU (_ _ : unit) : Prop := True.

    Lemma sim_ret {A B} (RA : A -> B -> Prop) a b : RA a b -> sim RA (ret ctx X a) (ret ctx X b).
    Proof. intros H s1 s2 HS. simpl. split; assumption. Qed.

    Lemma sim_fail {A B} (RA : A -> B -> Prop) e1 e2 :
      ER e1 e2 -> sim RA (fail ctx X e1) (fail ctx X e2).
    Proof. intros H s1 s2 HS. simpl. split; [apply SR_SRe; exact HS|exact H]. Qed.

    Lemma sim_bind {A B A' B'} (RA : A -> A' -> Prop) (RB : B -> B' -> Prop) m1 m2 f1 f2 :
      sim RA m1 m2 -> (forall a a', RA a a' -> sim RB (f1 a) (f2 a')) ->
      sim RB (bind ctx X m1 f1) (bind ctx X m2 f2).
    Proof.
      intros Hm Hf s1 s2 HS. specialize (Hm s1 s2 HS). unfold bind, orel in *.
      destruct (m1 s1) as [s1' [a|e1]], (m2 s2) as [s2' [b|e2]]; try contradiction.
      - destruct Hm as [HS' Hab]. apply (Hf a b Hab s1' s2' HS').
      - exact Hm.
    Qed.

    Lemma sim_weaken {A B} (RA RA' : A -> B -> Prop) m1 m2 :
      (forall a b, RA a b -> RA' a b) -> sim RA m1 m2 -> sim RA' m1 m2.
    Proof.
      intros Himp Hm s1 s2 HS. specialize (Hm s1 s2 HS). unfold orel in *.
      destruct (m1 s1) as [s1' [a|e1]], (m2 s2) as [s2' [b|e2]]; try contradiction; [|exact Hm].
      destruct Hm; split; auto.
    Qed.

    Lemma sim_get : sim IR (get ctx X) (get ctx X).
    Proof. intros s1 s2 HS. simpl. split; [exact HS|apply HS]. Qed.

    Lemma sim_get_bind {B B'} (RB : B -> B' -> Prop) f1 f2 :
      (forall i1 i2, IR i1 i2 -> sim RB (f1 i1) (f2 i2)) ->
      sim RB (bind ctx X (get ctx X) f1) (bind ctx X (get ctx X) f2).
    Proof. intros H. eapply sim_bind; [apply sim_get|exact H]. Qed.

    Lemma sim_put i1 i2 : IR i1 i2 -> sim RU (put ctx X i1) (put ctx X i2).
    Proof.
      intros H s1 s2 (HI & Hx & Ht). simpl. split; [|exact I]. split; [exact H|]. split; assumption.
    Qed.

    Lemma sim_modify f1 f2 :
      (forall i1 i2, IR i1 i2 -> IR (f1 i1) (f2 i2)) -> sim RU (modify ctx X f1) (modify ctx X f2).
    Proof.
      intros H s1 s2 (HI & Hx & Ht). simpl. split; [|exact I]. split; [apply H; exact HI|].
      split; assumption.
    Qed.

    Lemma sim_observe o1 o2 :
      (forall t1 t2, Rt t1 t2 -> Rt (o1 :: t1) (o2 :: t2)) ->
      sim RU (observe ctx X o1) (observe ctx X o2).
    Proof.
      intros H s1 s2 (HI & Hx & Ht). simpl. split; [|exact I]. split; [exact HI|].
      split; [exact Hx|apply H; exact Ht].
    Qed.

    Lemma sim_then {B B'} (RB : B -> B' -> Prop) (m1 m2 : MM unit) f1 f2 :
      sim RU m1 m2 -> sim RB f1 f2 ->
      sim RB (bind ctx X m1 (fun _ => f1)) (bind ctx X m2 (fun _ => f2)).
    Proof. intros H1 H2. eapply sim_bind; [exact H1|]. intros _ _ _. exact H2. Qed.

    Lemma sim_mapM {A B} (f1 f2 : A -> MM B) l :
      (forall a, sim eq (f1 a) (f2 a)) -> sim eq (mapM ctx X f1 l) (mapM ctx X f2 l).
    Proof.
      intros H. induction l as [|a l IH]; simpl; [apply sim_ret; reflexivity|].
      eapply sim_bind; [apply H|]. intros y y' <-.
      eapply sim_bind; [apply IH|]. intros ys ys' <-. apply sim_ret. reflexivity.
    Qed.

    Lemma sim_iterM {A} (f1 f2 : A -> MM unit) l :
      (forall a, sim RU (f1 a) (f2 a)) -> sim RU (iterM ctx X f1 l) (iterM ctx X f2 l).
    Proof.
      intros H. induction l as [|a l IH]; simpl; [apply sim_ret; exact I|].
      apply sim_then; [apply H|exact IH].
    Qed.

    Lemma sim_raise_meta m : sim RU (raise_meta ctx X emit m) (raise_meta ctx X emit m).
    Proof.
      intros s1 s2 (HI & Hx & Ht). unfold raise_meta, orel.
      destruct HI as [HIe HIm]. rewrite Hx, (ir_time _ _ HIe).
      pose proof (Hemit (i_time (m_i s1)) m (m_x s1)) as Hem.
      destruct (emit (i_time (m_i s1)) m (m_x s1)) as [x' [e|]]; cbn [snd] in Hem.
      - split; [split; [exact HIe|split; [reflexivity|apply Rt_meta; exact Ht]]|].
        rewrite <- (Hem e eq_refl) at 2. apply ER_map.
      - split; [|exact I]. split; [split; assumption|]. split; [reflexivity|apply Rt_meta; exact Ht].
    Qed.

    (* ---- setters preserve the relation ---- *)
    Ltac ir_split H := destruct H as [[? ? ? ? ? ? ? ? ? ? ? ?] ?]; split; [constructor|]; cbn; auto.

    Lemma IR_set_ctx c i1 i2 : IR i1 i2 -> IR (set_ctx ctx c i1) (set_ctx ctx c i2).
    Proof. intros H. ir_split H. Qed.
    Lemma IR_set_old o i1 i2 : IR i1 i2 -> IR (set_old ctx o i1) (set_old ctx (oldmap pi o) i2).
    Proof. intros H. ir_split H. Qed.
    Lemma IR_set_initialized b i1 i2 : IR i1 i2 -> IR (set_initialized ctx b i1) (set_initialized ctx b i2).
    Proof. intros H. ir_split H. Qed.
    Lemma IR_set_memory m1 m2 i1 i2 :
      mem_rel m1 m2 -> IR i1 i2 -> IR (set_memory ctx m1 i1) (set_memory ctx m2 i2).
    Proof. intros Hm H. ir_split H. Qed.
    Lemma IR_set_config c1 c2 i1 i2 :
      Permutation c1 c2 -> IR i1 i2 -> IR (set_config ctx c1 i1) (set_config ctx c2 i2).
    Proof. intros Hc H. ir_split H. Qed.
    Lemma IR_set_entry e i1 i2 : IR i1 i2 -> IR (set_entry ctx e i1) (set_entry ctx e i2).
    Proof. intros H. ir_split H. Qed.
    Lemma IR_set_idle e i1 i2 : IR i1 i2 -> IR (set_idle ctx e i1) (set_idle ctx e i2).
    Proof. intros H. ir_split H. Qed.
    Lemma IR_set_sent e i1 i2 : IR i1 i2 -> IR (set_sent ctx e i1) (set_sent ctx e i2).
    Proof. intros H. ir_split H. Qed.
    Lemma IR_set_time t i1 i2 : IR i1 i2 -> IR (set_time ctx t i1) (set_time ctx t i2).
    Proof. intros H. ir_split H. Qed.
    Lemma IR_set_iq q i1 i2 : IR i1 i2 -> IR (set_iq ctx q i1) (set_iq ctx q i2).
    Proof. intros H. ir_split H. Qed.
    Lemma IR_set_eq q i1 i2 : IR i1 i2 -> IR (set_eq ctx q i1) (set_eq ctx q i2).
    Proof. intros H. ir_split H. Qed.
    Lemma IR_queue_event e i1 i2 : IR i1 i2 -> IR (queue_event i1 e) (queue_event i2 e).
    Proof.
      intros H. unfold queue_event.
      destruct H as [[? ? ? ? ? ? ? ? ? ? ? ?] ?].
      destruct (e_kind e); (split; [constructor|]; cbn; auto; congruence).
    Qed.

    Lemma sim_ext_l {A B} (RA : A -> B -> Prop) (m1 m1' : MM A) (m2 : MM B) :
      (forall s, m1 s = m1' s) -> sim RA m1' m2 -> sim RA m1 m2.
    Proof. intros E H s1 s2 HS. rewrite E. apply H; exact HS. Qed.
    Lemma sim_ext_r {A B} (RA : A -> B -> Prop) (m1 : MM A) (m2 m2' : MM B) :
      (forall s, m2 s = m2' s) -> sim RA m1 m2' -> sim RA m1 m2.
    Proof. intros E H s1 s2 HS. rewrite E. apply H; exact HS. Qed.

    (* ---------------------------------------------------------------- evaluator calls *)
    Lemma sim_run_code k o cd ev :
      sim eq (run_code ctx X exec1 sc1 k o cd ev) (run_code ctx X exec2 sc2 k (omap pi o) cd ev).
    Proof.
      unfold run_code. apply sim_get_bind. intros i1 i2 HI. cbv beta zeta.
      rewrite (c7_mk_call i1 i2 k o 0 cd ev (proj1 HI)).
      destruct cd as [cd|].
      - rewrite (ir_ctx _ _ (proj1 HI)), Hexec.
        destruct (exec1 (mk_call ctx sc1 i1 k o 0 (Some cd) ev) (i_ctx i1)) as [[c' sent]|].
        + apply sim_then; [apply sim_observe; intros; apply Rt_exec; assumption|].
          apply sim_then; [apply sim_put; apply IR_set_ctx; exact HI|]. apply sim_ret; reflexivity.
        + apply sim_then; [apply sim_observe; intros; apply Rt_exec; assumption|].
          apply sim_fail. apply (ER_map (ECode k o 0)).
      - apply sim_then; [apply sim_observe; intros; apply Rt_exec; assumption|].
        apply sim_ret; reflexivity.
    Qed.

    Lemma sim_eval_cond k o idx cd ev :
      k <> CGuard ->
      sim eq (eval_cond ctx X eval1 sc1 k o idx cd ev) (eval_cond ctx X eval2 sc2 k (omap pi o) idx cd ev).
    Proof.
      intros Hk. unfold eval_cond. apply sim_get_bind. intros i1 i2 HI. cbv beta zeta.
      rewrite (c7_mk_call i1 i2 k o idx (Some cd) ev (proj1 HI)).
      rewrite (ir_ctx _ _ (proj1 HI)), Heval.
      destruct (eval1 (mk_call ctx sc1 i1 k o idx (Some cd) ev) (i_ctx i1)) as [b|].
      - apply sim_then; [apply sim_observe; intros; apply Rt_eval; [exact Hk|assumption]|].
        apply sim_ret; reflexivity.
      - apply sim_then; [apply sim_observe; intros; apply Rt_eval; [exact Hk|assumption]|].
        apply sim_fail. apply (ER_map (ECode k o idx)).
    Qed.

    Lemma sim_eval_conds k o cds ev : k <> CGuard -> forall idx,
      sim RU (eval_conds ctx X eval1 sc1 k o idx cds ev) (eval_conds ctx X eval2 sc2 k (omap pi o) idx cds ev).
    Proof.
      intros Hk. induction cds as [|cd rest IH]; intros idx; simpl; [apply sim_ret; exact I|].
      eapply sim_bind; [apply sim_eval_cond; exact Hk|]. intros b b' <-.
      destruct b; [apply IH|apply sim_fail; apply (ER_map (EContract k o idx))].
    Qed.

    Lemma sim_contract k o pre post inv ev :
      sim RU (contract ctx X eval1 sc1 k o pre post inv ev)
             (contract ctx X eval2 sc2 k (omap pi o) pre post inv ev).
    Proof.
      unfold contract. apply sim_get_bind. intros i1 i2 HI. cbv beta.
      rewrite (ir_ignore _ _ (proj1 HI)). destruct (i_ignore_contract i1); [apply sim_ret; exact I|].
      destruct k; try (apply sim_ret; exact I).
      - apply sim_then; [|apply sim_eval_conds; discriminate].
        assert (Hmod : sim RU (modify ctx X (fun s => set_old ctx (old_set o (i_ctx s) (i_old s)) s))
                              (modify ctx X (fun s => set_old ctx (old_set (omap pi o) (i_ctx s) (i_old s)) s))).
        { apply sim_modify. intros j1 j2 HJ.
          rewrite (ir_ctx _ _ (proj1 HJ)), (ir_old _ _ (proj1 HJ)), c7_old_set.
          apply IR_set_old; exact HJ. }
        destruct inv, post; try exact Hmod. apply sim_ret; exact I.
      - apply sim_eval_conds; discriminate.
      - apply sim_eval_conds; discriminate.
    Qed.

    Lemma sim_state_contract k st ev :
      sim RU (state_contract ctx X eval1 sc1 k st ev) (state_contract ctx X eval2 sc2 k st ev).
    Proof. unfold state_contract. apply (sim_contract k (OState (s_name st))). Qed.

    Lemma sim_trans_contract k i t ev :
      sim RU (trans_contract ctx X eval1 sc1 k (i, t) ev) (trans_contract ctx X eval2 sc2 k (pi i, t) ev).
    Proof. unfold trans_contract. cbn [fst snd]. apply (sim_contract k (OTrans i)). Qed.

    (* ---------------------------------------------------------------- history recording *)
    Definition hv (sc : chart) (active : list name) (st : state) (child : name)
      : option (list name) + err :=
      match state_for sc child with
      | None => inr EStatechart
      | Some cs =>
          match s_kind cs with
          | KDeep =>
              match filter (fun n => mem n (descendants_for sc (s_name st))) active with
              | [] => inr EAssert
              | act => inl (Some (sort_names act))
              end
          | KShallow =>
              match filter (fun n => mem n (children_for sc (s_name st))) active with
              | [x] => inl (Some [x])
              | _ => inr EAssert
              end
          | _ => inl None
          end
      end.
    Definition hact (child : name) (h : option (list name) + err) : MM unit :=
      match h with
      | inl None => ret ctx X tt
      | inl (Some v) => modify ctx X (fun s => set_memory ctx (dset child v (i_memory s)) s)
      | inr e => fail ctx X e
      end.

    Lemma iterM_ext {A} (f g : A -> MM unit) l :
      (forall a s, f a s = g a s) -> forall s, iterM ctx X f l s = iterM ctx X g l s.
    Proof.
      intros H. induction l as [|a l IH]; intros s; simpl; [reflexivity|].
      unfold bind. rewrite H. destruct (g a s) as [s' [u|e]]; [apply IH|reflexivity].
    Qed.

    Lemma record_history_eq sc active st s :
      record_history ctx X sc active st s =
      match s_kind st with
      | KCompound => iterM ctx X (fun c => hact c (hv sc active st c)) (children_for sc (s_name st))
      | _ => ret ctx X tt
      end s.
    Proof.
      unfold record_history. destruct (s_kind st); try reflexivity.
      apply iterM_ext. intros child s0. unfold hv, hact.
      destruct (state_for sc child) as [cs|]; [|reflexivity].
      destruct (s_kind cs); try reflexivity.
      - cbv zeta. destruct (filter (fun n => mem n (children_for sc (s_name st))) active) as [|a [|b l]];
          reflexivity.
      - cbv zeta. destruct (filter (fun n => mem n (descendants_for sc (s_name st))) active) as [|a l];
          reflexivity.
    Qed.

    Lemma c7_hv active1 active2 st child :
      Permutation active1 active2 -> hv sc2 active2 st child = hv sc1 active1 st child.
    Proof.
      intros HP. unfold hv. rewrite Hst. destruct (state_for sc1 child) as [cs|]; [|reflexivity].
      destruct (s_kind cs); try reflexivity.
      - assert (HF : Permutation (filter (fun n => mem n (children_for sc1 (s_name st))) active1)
                                 (filter (fun n => mem n (children_for sc2 (s_name st))) active2)).
        { apply c7_filter_perm; [exact HP|]. intros n. apply c7_mem_perm. apply Hkids. }
        destruct (filter (fun n => mem n (children_for sc1 (s_name st))) active1) as [|a [|b l]].
        + apply Permutation_nil in HF. rewrite HF. reflexivity.
        + apply c7_perm_singleton in HF. rewrite HF. reflexivity.
        + destruct (filter (fun n => mem n (children_for sc2 (s_name st))) active2) as [|a' [|b' l']];
            try reflexivity.
          apply Permutation_length in HF. simpl in HF. discriminate.
      - assert (HF : Permutation (filter (fun n => mem n (descendants_for sc1 (s_name st))) active1)
                                 (filter (fun n => mem n (descendants_for sc2 (s_name st))) active2)).
        { apply c7_filter_perm; [exact HP|]. intros n. symmetry. apply c7_mem_desc. }
        destruct (filter (fun n => mem n (descendants_for sc1 (s_name st))) active1) as [|a l].
        + apply Permutation_nil in HF. rewrite HF. reflexivity.
        + destruct (filter (fun n => mem n (descendants_for sc2 (s_name st))) active2) as [|a' l'].
          * apply Permutation_sym, Permutation_nil in HF. discriminate.
          * rewrite (c7_sort_names_perm _ _ HF). reflexivity.
    Qed.

    Lemma c7_hv_err sc active st child e : hv sc active st child = inr e -> emap pi e = e.
    Proof.
      unfold hv. destruct (state_for sc child) as [cs|]; [|intros H; inversion H; reflexivity].
      destruct (s_kind cs); try discriminate.
      - destruct (filter (fun n => mem n (children_for sc (s_name st))) active) as [|a [|b l]];
          intros H; inversion H; reflexivity.
      - destruct (filter (fun n => mem n (descendants_for sc (s_name st))) active) as [|a l];
          intros H; inversion H; reflexivity.
    Qed.

    Lemma sim_hact child h :
      (forall e, h = inr e -> emap pi e = e) -> sim RU (hact child h) (hact child h).
    Proof.
      intros He. destruct h as [[v|]|e]; simpl.
      - apply sim_modify. intros i1 i2 HI. apply IR_set_memory; [|exact HI].
        apply c7_mem_rel_dset; [apply HI|apply Permutation_refl].
      - apply sim_ret; exact I.
      - apply sim_fail. rewrite <- (He e eq_refl) at 2. apply ER_map.
    Qed.

    (* the children of a compound state are visited in declaration order: the recorded memory is
       the same dictionary up to insertion order provided no child fails differently *)
    Definition hstep (h : name -> option (list name) + err) (m : list (name * list name)) (c : name) :=
      match h c with inl (Some v) => dset c v m | _ => m end.

    Lemma iterM_hist h l : forall s,
      match iterM ctx X (fun c => hact c (h c)) l s with
      | (s', inl _) =>
          (forall c, In c l -> exists ov, h c = inl ov)
          /\ s' = upd ctx X (set_memory ctx (fold_left (hstep h) l (i_memory (m_i s)))) s
      | (s', inr e) =>
          (exists c, In c l /\ h c = inr e) /\ exists m', s' = upd ctx X (set_memory ctx m') s
      end.
    Proof.
      induction l as [|a l IH]; intros s.
      - simpl. split; [intros c []|]. destruct s as [i x tr]; destruct i; reflexivity.
      - cbn [iterM]. unfold bind at 1.
        destruct (h a) as [[v|]|e] eqn:Eh; cbn [hact].
        + unfold modify at 1.
          specialize (IH (mkM (set_memory ctx (dset a v (i_memory (m_i s))) (m_i s)) (m_x s) (m_tr s))).
          destruct (iterM ctx X (fun c => hact c (h c)) l
                      (mkM (set_memory ctx (dset a v (i_memory (m_i s))) (m_i s)) (m_x s) (m_tr s)))
            as [s' [u|e]].
          * destruct IH as [Hall Hs']. split.
            -- intros c [<-|Hc]; [exists (Some v); exact Eh|apply Hall; exact Hc].
            -- rewrite Hs'. cbn [fold_left].
               replace (hstep h (i_memory (m_i s)) a) with (dset a v (i_memory (m_i s)))
                 by (unfold hstep; rewrite Eh; reflexivity).
               reflexivity.
          * destruct IH as [(c & Hc & Hhc) (m' & Hs')]. split.
            -- exists c. split; [right; exact Hc|exact Hhc].
            -- exists m'. rewrite Hs'. reflexivity.
        + unfold ret at 1. specialize (IH s).
          destruct (iterM ctx X (fun c => hact c (h c)) l s) as [s' [u|e]].
          * destruct IH as [Hall Hs']. split.
            -- intros c [<-|Hc]; [exists None; exact Eh|apply Hall; exact Hc].
            -- rewrite Hs'. cbn [fold_left].
               replace (hstep h (i_memory (m_i s)) a) with (i_memory (m_i s))
                 by (unfold hstep; rewrite Eh; reflexivity).
               reflexivity.
          * destruct IH as [(c & Hc & Hhc) (m' & Hs')]. split.
            -- exists c. split; [right; exact Hc|exact Hhc].
            -- exists m'. exact Hs'.
        + unfold fail. split.
          * exists a. split; [left; reflexivity|exact Eh].
          * exists (i_memory (m_i s)). destruct s as [i x tr]; destruct i; reflexivity.
    Qed.

    Lemma lookup_hstep h m a k :
      lookup k (hstep h m a) =
      if str_eqb k a then match h a with inl (Some v) => Some v | _ => lookup k m end else lookup k m.
    Proof.
      unfold hstep. destruct (h a) as [[v|]|e]; [rewrite c7_lookup_dset|..];
        destruct (str_eqb k a); reflexivity.
    Qed.

    Lemma lookup_fold h l : forall m k,
      lookup k (fold_left (hstep h) l m) =
      if mem k l then match h k with inl (Some v) => Some v | _ => lookup k m end else lookup k m.
    Proof.
      induction l as [|a l IH]; intros m k; cbn [fold_left mem]; [reflexivity|].
      rewrite IH, lookup_hstep. destruct (str_eqb k a) eqn:E; cbn [orb]; [|reflexivity].
      apply str_eqb_spec in E. subst a.
      destruct (mem k l); destruct (h k) as [[v|]|e]; reflexivity.
    Qed.

    Lemma IRe_set_memory m1 m2 i1 i2 : IRe i1 i2 -> IRe (set_memory ctx m1 i1) (set_memory ctx m2 i2).
    Proof. intros H. destruct H. constructor; cbn; auto. Qed.

    Lemma sim_iterM_hist h l1 l2 :
      Permutation l1 l2 ->
      (forall c e, In c l1 -> h c = inr e -> e = EAssert) ->
      sim RU (iterM ctx X (fun c => hact c (h c)) l1) (iterM ctx X (fun c => hact c (h c)) l2).
    Proof.
      intros HP Herr s1 s2 HS.
      pose proof (iterM_hist h l1 s1) as H1. pose proof (iterM_hist h l2 s2) as H2. unfold orel.
      destruct (iterM ctx X (fun c => hact c (h c)) l1 s1) as [s1' [u1|e1]],
               (iterM ctx X (fun c => hact c (h c)) l2 s2) as [s2' [u2|e2]].
      - destruct H1 as [_ ->]. destruct H2 as [_ ->]. split; [|exact I].
        destruct HS as (HI & Hx & Ht). split; [|split; assumption].
        cbn [upd m_i]. apply IR_set_memory; [|exact HI].
        intros k. rewrite !lookup_fold. rewrite <- (c7_mem_perm k l1 l2 HP).
        destruct (mem k l1); [|apply HI]. destruct (h k) as [[v|]|e]; try apply HI.
        simpl. apply Permutation_refl.
      - exfalso. destruct H1 as [Hall _]. destruct H2 as [(c & Hc & Hhc) _].
        destruct (Hall c) as [ov Hov]; [eapply Permutation_in; [apply Permutation_sym; exact HP|exact Hc]|].
        congruence.
      - exfalso. destruct H2 as [Hall _]. destruct H1 as [(c & Hc & Hhc) _].
        destruct (Hall c) as [ov Hov]; [eapply Permutation_in; [exact HP|exact Hc]|]. congruence.
      - destruct H1 as [(c1 & Hc1 & Hh1) (m1' & ->)]. destruct H2 as [(c2 & Hc2 & Hh2) (m2' & ->)].
        rewrite (Herr c1 e1 Hc1 Hh1).
        rewrite (Herr c2 e2 (Permutation_in _ (Permutation_sym HP) Hc2) Hh2).
        split; [|apply (ER_map EAssert)].
        destruct HS as (HI & Hx & Ht). split; [|split; assumption].
        cbn [upd m_i]. apply IRe_set_memory. apply HI.
    Qed.

    (* either the children lists are literally the same (hash-seed case) or every child is a
       registered state (tree consistency) *)
    Hypothesis Hkreg : (forall n, children_for sc2 n = children_for sc1 n)
                       \/ (forall p c, In c (children_for sc1 p) -> state_for sc1 c <> None).

    Lemma sim_record_history active1 active2 st :
      Permutation active1 active2 ->
      sim RU (record_history ctx X sc1 active1 st) (record_history ctx X sc2 active2 st).
    Proof.
      intros HP.
      eapply sim_ext_l; [intros s; apply record_history_eq|].
      eapply sim_ext_r; [intros s; apply record_history_eq|].
      destruct (s_kind st); try (apply sim_ret; exact I).
      eapply sim_ext_r.
      { intros s. apply iterM_ext. intros a s0. rewrite (c7_hv active1 active2 st a HP). reflexivity. }
      destruct Hkreg as [Hsame|Hreg].
      - rewrite Hsame. apply sim_iterM. intros c. apply sim_hact. intros e. apply c7_hv_err.
      - apply sim_iterM_hist; [apply Hkids|].
        intros c e Hc. unfold hv. specialize (Hreg _ _ Hc).
        destruct (state_for sc1 c) as [cs|]; [|congruence].
        destruct (s_kind cs); try discriminate.
        + destruct (filter (fun n => mem n (children_for sc1 (s_name st))) active1) as [|a [|b l]];
            intros H; inversion H; reflexivity.
        + destruct (filter (fun n => mem n (descendants_for sc1 (s_name st))) active1) as [|a l];
            intros H; inversion H; reflexivity.
    Qed.

    (* ---------------------------------------------------------------- _apply_step *)
    Lemma sim_exit_state active1 active2 ev st :
      Permutation active1 active2 ->
      sim eq (exit_state ctx X exec1 eval1 emit sc1 active1 ev st)
             (exit_state ctx X exec2 eval2 emit sc2 active2 ev st).
    Proof.
      intros HP. unfold exit_state.
      eapply sim_bind; [apply (sim_run_code CExit (OState (s_name st)))|]. intros sent sent' <-.
      apply sim_then; [apply sim_record_history; exact HP|].
      apply sim_get_bind. intros i1 i2 HI. cbv beta.
      apply sim_then.
      { rewrite <- (c7_mem_perm _ _ _ (ir_config _ _ (proj1 HI))).
        destruct (mem (s_name st) (i_config i1)).
        - apply sim_put. apply IR_set_config; [|exact HI].
          apply c7_remove_first_perm. apply (ir_config _ _ (proj1 HI)).
        - apply sim_fail. apply (ER_map EKey). }
      apply sim_then; [apply sim_state_contract|].
      apply sim_then; [apply sim_raise_meta|]. apply sim_ret; reflexivity.
    Qed.

    Lemma sim_enter_state ev st :
      sim eq (enter_state ctx X exec1 eval1 emit sc1 ev st) (enter_state ctx X exec2 eval2 emit sc2 ev st).
    Proof.
      unfold enter_state. apply sim_then; [apply sim_state_contract|].
      eapply sim_bind; [apply (sim_run_code CEntry (OState (s_name st)))|]. intros sent sent' <-.
      apply sim_then.
      { apply sim_modify. intros i1 i2 HI.
        rewrite (ir_time _ _ (proj1 HI)), (ir_idle _ _ (proj1 HI)), (ir_entry _ _ (proj1 HI)).
        apply IR_set_idle, IR_set_entry, IR_set_config; [|exact HI].
        apply c7_set_add_perm. apply (ir_config _ _ (proj1 HI)). }
      apply sim_then; [apply sim_raise_meta|]. apply sim_ret; reflexivity.
    Qed.

    Lemma sim_process_transition ev i :
      sim eq (process_transition ctx X exec1 eval1 emit sc1 ev i)
             (process_transition ctx X exec2 eval2 emit sc2 ev (pi i)).
    Proof.
      unfold process_transition. rewrite Htr.
      destruct (nth_error (c_transitions sc1) i) as [t|]; [|apply sim_fail; apply (ER_map EStatechart)].
      cbv zeta.
      apply sim_then; [apply sim_trans_contract|].
      apply sim_then; [apply sim_trans_contract|].
      eapply sim_bind; [apply (sim_run_code CAction (OTrans i))|]. intros sent sent' <-.
      apply sim_then; [apply sim_trans_contract|].
      apply sim_then; [apply sim_trans_contract|].
      apply sim_then.
      { apply sim_modify. intros i1 i2 HI.
        rewrite (ir_time _ _ (proj1 HI)), (ir_idle _ _ (proj1 HI)). apply IR_set_idle; exact HI. }
      apply sim_then; [apply sim_raise_meta|]. apply sim_ret; reflexivity.
    Qed.

    Lemma sim_raise_event e : sim RU (raise_event ctx X emit e) (raise_event ctx X emit e).
    Proof.
      unfold raise_event. destruct (e_kind e).
      - apply sim_ret; exact I.
      - apply sim_then; [apply sim_modify; intros i1 i2 HI; apply IR_queue_event; exact HI|].
        apply sim_then; [apply sim_raise_meta|].
        destruct (has_delay e); [apply sim_raise_meta|apply sim_ret; exact I].
      - apply sim_raise_meta.
    Qed.

    Definition Rmicro (a b : microstep) : Prop := b = mmap pi a.

    Lemma sim_apply_step step :
      sim Rmicro (apply_step ctx X exec1 eval1 emit sc1 step)
                 (apply_step ctx X exec2 eval2 emit sc2 (mmap pi step)).
    Proof.
      unfold apply_step.
      change (ms_entered (mmap pi step)) with (ms_entered step).
      change (ms_exited (mmap pi step)) with (ms_exited step).
      change (ms_event (mmap pi step)) with (ms_event step).
      change (ms_trans (mmap pi step)) with (option_map pi (ms_trans step)).
      rewrite !c7_states_for.
      destruct (states_for sc1 (ms_entered step)) as [entered|];
        [|apply sim_fail; apply (ER_map EStatechart)].
      destruct (states_for sc1 (ms_exited step)) as [exited|];
        [|apply sim_fail; apply (ER_map EStatechart)].
      apply sim_get_bind. intros i1 i2 HI. cbv beta zeta.
      eapply sim_bind.
      { apply sim_mapM. intros st. apply sim_exit_state. apply (ir_config _ _ (proj1 HI)). }
      intros sent1 sent1' <-.
      eapply sim_bind with (RA := eq).
      { destruct (ms_trans step) as [i|]; cbn [option_map];
          [apply sim_process_transition|apply sim_ret; reflexivity]. }
      intros sent2 sent2' <-.
      eapply sim_bind; [apply sim_mapM; intros st; apply sim_enter_state|]. intros sent3 sent3' <-.
      apply sim_then.
      { apply sim_iterM. intros e. apply sim_then; [apply sim_raise_event|].
        apply sim_modify. intros j1 j2 HJ. rewrite (ir_sent _ _ (proj1 HJ)).
        apply IR_set_sent; exact HJ. }
      apply sim_ret. reflexivity.
    Qed.

    (* ---------------------------------------------------------------- stabilisation *)
    Lemma c7_css i1 i2 :
      IR i1 i2 -> create_stabilization_step ctx sc2 i2 = create_stabilization_step ctx sc1 i1.
    Proof.
      intros [HIe Hm]. unfold create_stabilization_step. cbv zeta.
      pose proof (ir_config _ _ HIe) as HP.
      assert (E1 : sort (leaf_order_leb sc2) (leaf_for sc2 (i_config i2))
                   = sort (leaf_order_leb sc1) (leaf_for sc1 (i_config i1))).
      { rewrite (c7_sort_ext (leaf_order_leb sc2) (exit_order_leb sc1) _ c7_exit_order).
        symmetry. apply c7_sort_exit_perm. apply c7_leaf_for. exact HP. }
      assert (E2 : sort (enter_order_leb sc2) (i_config i2) = sort (enter_order_leb sc1) (i_config i1)).
      { rewrite (c7_sort_ext _ _ _ c7_enter_order). symmetry. apply c7_sort_enter_perm. exact HP. }
      rewrite E1, E2.
      rewrite (c7_first_some_ext _ _ _ (fun leaf => c7_stab_for_leaf _ _ leaf Hm)).
      rewrite (c7_first_some_ext _ _ _ (fun n => c7_stab_for_orthogonal _ _ n HP)).
      reflexivity.
    Qed.

    Lemma c7_first_some_In {A B} (f : A -> option B) l y :
      first_some f l = Some y -> exists x, In x l /\ f x = Some y.
    Proof.
      induction l as [|x l IH]; simpl; [discriminate|].
      destruct (f x) as [y'|] eqn:E.
      - intros H. inversion H; subst. exists x. split; [left; reflexivity|exact E].
      - intros H. destruct (IH H) as (x' & Hin & Hx). exists x'. split; [right; exact Hin|exact Hx].
    Qed.

    Lemma c7_css_trans sc (i : ist) step :
      create_stabilization_step ctx sc i = Some (inl step) -> ms_trans step = None.
    Proof.
      unfold create_stabilization_step. cbv zeta.
      destruct (first_some (stab_for_leaf sc (i_memory i)) _) as [r|] eqn:E1.
      - intros H. inversion H; subst r. apply c7_first_some_In in E1. destruct E1 as (leaf & _ & E).
        unfold stab_for_leaf in E. destruct (state_for sc leaf) as [st|]; [|discriminate].
        destruct (s_kind st).
        + discriminate.
        + destruct (truthy (s_initial st)); inversion E; reflexivity.
        + destruct (children_for sc leaf); inversion E; reflexivity.
        + destruct (ostr_eqb (parent_for sc leaf) (root sc)); [|discriminate].
          destruct (root sc); inversion E; reflexivity.
        + destruct (lookup leaf (i_memory i)); [inversion E; reflexivity|].
          destruct (s_memory st); inversion E; reflexivity.
        + destruct (lookup leaf (i_memory i)); [inversion E; reflexivity|].
          destruct (s_memory st); inversion E; reflexivity.
      - intros H. apply c7_first_some_In in H. destruct H as (n & _ & E).
        unfold stab_for_orthogonal in E. destruct (state_for sc n) as [st|]; [|discriminate].
        destruct (s_kind st); try discriminate.
        destruct (filter _ (children_for sc n)); inversion E; reflexivity.
    Qed.

    Lemma c7_mmap_none step : ms_trans step = None -> mmap pi step = step.
    Proof. destruct step as [e t en ex se]. simpl. intros ->. reflexivity. Qed.

    Definition Rmicros (a b : list microstep) : Prop := b = map (mmap pi) a.

    Lemma sim_stabilize fuel :
      sim Rmicros (stabilize ctx X exec1 eval1 emit sc1 fuel) (stabilize ctx X exec2 eval2 emit sc2 fuel).
    Proof.
      induction fuel as [|f IH]; simpl; [apply sim_fail; apply (ER_map EFuel)|].
      apply sim_get_bind. intros i1 i2 HI. rewrite (c7_css i1 i2 HI).
      destruct (create_stabilization_step ctx sc1 i1) as [[step|e]|] eqn:E.
      - rewrite <- (c7_mmap_none step (c7_css_trans _ _ _ E)) at 2.
        eapply sim_bind; [apply sim_apply_step|]. intros a a' ->.
        eapply sim_bind; [apply IH|]. intros r r' ->. apply sim_ret. reflexivity.
      - apply sim_fail.
        assert (He : emap pi e = e).
        { unfold create_stabilization_step in E. cbv zeta in E.
          destruct (first_some (stab_for_leaf sc1 (i_memory i1)) _) as [r|] eqn:E1.
          - inversion E; subst r. apply c7_first_some_In in E1. destruct E1 as (leaf & _ & E1).
            unfold stab_for_leaf in E1. destruct (state_for sc1 leaf) as [st|];
              [|inversion E1; reflexivity].
            destruct (s_kind st).
            + discriminate.
            + destruct (truthy (s_initial st)); inversion E1.
            + destruct (children_for sc1 leaf); inversion E1.
            + destruct (ostr_eqb (parent_for sc1 leaf) (root sc1)); [|discriminate].
              destruct (root sc1); inversion E1; reflexivity.
            + destruct (lookup leaf (i_memory i1)); [inversion E1|].
              destruct (s_memory st); inversion E1; reflexivity.
            + destruct (lookup leaf (i_memory i1)); [inversion E1|].
              destruct (s_memory st); inversion E1; reflexivity.
          - apply c7_first_some_In in E. destruct E as (n & _ & E).
            unfold stab_for_orthogonal in E. destruct (state_for sc1 n) as [st|];
              [|inversion E; reflexivity].
            destruct (s_kind st); try discriminate.
            destruct (filter _ (children_for sc1 n)); inversion E. }
        rewrite <- He at 2. apply ER_map.
      - apply sim_ret. reflexivity.
    Qed.

    Lemma sim_run_steps fuel steps :
      sim Rmicros (run_steps ctx X exec1 eval1 emit sc1 fuel steps)
                  (run_steps ctx X exec2 eval2 emit sc2 fuel (map (mmap pi) steps)).
    Proof.
      induction steps as [|st rest IH]; simpl; [apply sim_ret; reflexivity|].
      eapply sim_bind; [apply sim_apply_step|]. intros a a' ->.
      eapply sim_bind; [apply sim_stabilize|]. intros ss ss' ->.
      eapply sim_bind; [apply IH|]. intros r r' ->. apply sim_ret.
      unfold Rmicros. simpl. rewrite map_app. reflexivity.
    Qed.

    Lemma sim_consume_event : sim eq (consume_event ctx X) (consume_event ctx X).
    Proof.
      unfold consume_event. apply sim_get_bind. intros i1 i2 HI.
      rewrite (ir_iq _ _ (proj1 HI)), (ir_eq _ _ (proj1 HI)), (ir_time _ _ (proj1 HI)).
      assert (HE : sim eq
        (match i_eq i1 with
         | [] => ret ctx X None
         | (t2, e2) :: q2 =>
             if (t2 <=? i_time i1)%Z
             then bind ctx X (put ctx X (set_eq ctx q2 i1)) (fun _ => ret ctx X (Some e2))
             else ret ctx X None
         end)
        (match i_eq i1 with
         | [] => ret ctx X None
         | (t2, e2) :: q2 =>
             if (t2 <=? i_time i1)%Z
             then bind ctx X (put ctx X (set_eq ctx q2 i2)) (fun _ => ret ctx X (Some e2))
             else ret ctx X None
         end)).
      { destruct (i_eq i1) as [|[t2 e2] q2]; [apply sim_ret; reflexivity|].
        destruct (t2 <=? i_time i1)%Z; [|apply sim_ret; reflexivity].
        apply sim_then; [apply sim_put; apply IR_set_eq; exact HI|apply sim_ret; reflexivity]. }
      destruct (i_iq i1) as [|[t e] q]; [exact HE|].
      destruct (t <=? i_time i1)%Z; [|exact HE].
      apply sim_then; [apply sim_put; apply IR_set_iq; exact HI|apply sim_ret; reflexivity].
    Qed.

    Lemma sim_check_invariants ev :
      sim RU (check_invariants ctx X eval1 sc1 ev) (check_invariants ctx X eval2 sc2 ev).
    Proof.
      unfold check_invariants. apply sim_get_bind. intros i1 i2 HI.
      rewrite (c7_configuration _ _ (ir_config _ _ (proj1 HI))).
      apply sim_iterM. intros n. rewrite Hst.
      destruct (state_for sc1 n); [apply sim_state_contract|apply sim_fail; apply (ER_map EStatechart)].
    Qed.

    (* ---------------------------------------------------------------- compute_steps, execute_once *)
    (* _select_transitions followed by the (model-only) observation of its result *)
    Definition sel_obs (eval : call ctx -> ctx -> option bool) (sc : chart) ev cfg : MM (list itrans) :=
      bind ctx X (select_transitions ctx X eval sc ev cfg) (fun ts =>
      bind ctx X (observe ctx X (ObSelected (map fst ts))) (fun _ => ret ctx X ts)).

    Lemma sel_obs_assoc {B} eval sc ev cfg (K : list itrans -> MM B) s :
      bind ctx X (select_transitions ctx X eval sc ev cfg) (fun ts =>
        bind ctx X (observe ctx X (ObSelected (map fst ts))) (fun _ => K ts)) s
      = bind ctx X (sel_obs eval sc ev cfg) K s.
    Proof.
      unfold sel_obs, bind, observe, ret.
      destruct (select_transitions ctx X eval sc ev cfg s) as [s' [ts|e]]; reflexivity.
    Qed.

    Lemma bind_get_eq {B} (f : ist -> MM B) s : bind ctx X (get ctx X) f s = f (m_i s) s.
    Proof. reflexivity. Qed.

    Section Main.
      Variable TR : list itrans -> list itrans -> Prop.
      Hypothesis TR_nil : forall ts1 ts2, TR ts1 ts2 -> (ts1 = [] <-> ts2 = []).
      Hypothesis Hselect : forall ev cfg1 cfg2, Permutation cfg1 cfg2 ->
        sim TR (sel_obs eval1 sc1 ev cfg1) (sel_obs eval2 sc2 ev cfg2).
      Hypothesis Hsort : forall ts1 ts2, TR ts1 ts2 ->
        sim (fun r1 r2 => r2 = map (imap pi) r1)
            (sort_transitions ctx X sc1 ts1) (sort_transitions ctx X sc2 ts2).

      Lemma compute_steps_eq eval sc s :
        compute_steps ctx X eval sc s =
        bind ctx X (get ctx X) (fun s0 =>
          if negb (i_initialized s0) then
            bind ctx X (put ctx X (set_initialized ctx true s0)) (fun _ =>
              match root sc with
              | Some r => ret ctx X [mkMicro None None [r] [] []]
              | None => fail ctx X EStatechart
              end)
          else
            bind ctx X (sel_obs eval sc (select_event s0) (i_config s0)) (fun ts =>
              match ts with
              | [] => match select_event s0 with
                      | None => ret ctx X []
                      | Some e => ret ctx X [mkMicro (Some e) None [] [] []]
                      end
              | _ =>
                  bind ctx X (sort_transitions ctx X sc ts) (fun ts' =>
                  bind ctx X (get ctx X) (fun s' =>
                  ret ctx X (create_steps sc (i_config s')
                               match ts' with
                               | it :: _ => match t_event (snd it) with
                                            | None => None | Some _ => select_event s0 end
                               | [] => select_event s0
                               end ts')))
              end)) s.
      Proof.
        unfold compute_steps. rewrite !bind_get_eq. cbv beta.
        destruct (negb (i_initialized (m_i s))); [reflexivity|].
        apply sel_obs_assoc.
      Qed.

      Lemma sim_compute_steps :
        sim Rmicros (compute_steps ctx X eval1 sc1) (compute_steps ctx X eval2 sc2).
      Proof.
        eapply sim_ext_l; [intros s; apply compute_steps_eq|].
        eapply sim_ext_r; [intros s; apply compute_steps_eq|].
        apply sim_get_bind. intros i1 i2 HI.
        rewrite (ir_init _ _ (proj1 HI)).
        destruct (negb (i_initialized i1)).
        - apply sim_then; [apply sim_put; apply IR_set_initialized; exact HI|].
          rewrite Hroot. destruct (root sc1) as [r|]; [apply sim_ret; reflexivity|].
          apply sim_fail. apply (ER_map EStatechart).
        - assert (Hev : select_event i2 = select_event i1).
          { unfold select_event. rewrite (ir_time _ _ (proj1 HI)), (ir_iq _ _ (proj1 HI)),
              (ir_eq _ _ (proj1 HI)). reflexivity. }
          rewrite Hev.
          eapply sim_bind; [apply Hselect; apply (ir_config _ _ (proj1 HI))|].
          intros ts1 ts2 HT. pose proof (TR_nil _ _ HT) as Hnil.
          destruct ts1 as [|a1 l1], ts2 as [|a2 l2].
          + destruct (select_event i1); apply sim_ret; reflexivity.
          + exfalso. destruct Hnil as [Hn _]. specialize (Hn eq_refl). discriminate.
          + exfalso. destruct Hnil as [_ Hn]. specialize (Hn eq_refl). discriminate.
          + eapply sim_bind; [apply Hsort; exact HT|]. intros r1 r2 ->.
            apply sim_get_bind. intros j1 j2 HJ. apply sim_ret. unfold Rmicros.
            rewrite <- (c7_create_steps (i_config j1) (i_config j2) _ r1 (ir_config _ _ (proj1 HJ))).
            destruct r1 as [|it r1]; reflexivity.
      Qed.

      Lemma c7_macro_event steps : macro_event (map (mmap pi) steps) = macro_event steps.
      Proof.
        induction steps as [|s r IH]; simpl; [reflexivity|].
        destruct (ms_event s); [reflexivity|exact IH].
      Qed.

      Theorem sim_execute_once fuel now :
        sim (fun a b => b = macmap pi a)
            (execute_once ctx X exec1 eval1 emit sc1 fuel now)
            (execute_once ctx X exec2 eval2 emit sc2 fuel now).
      Proof.
        unfold execute_once.
        apply sim_then.
        { apply sim_modify. intros i1 i2 HI. apply IR_set_sent, IR_set_time. exact HI. }
        apply sim_then; [apply sim_raise_meta|].
        eapply sim_bind; [apply sim_compute_steps|]. intros steps steps' ->.
        eapply sim_bind with (RA := fun a b => b = macmap pi a).
        { destruct steps as [|first rest]; [apply sim_ret; reflexivity|].
          cbn [map]. change (ms_event (mmap pi first)) with (ms_event first).
          apply sim_then.
          { destruct (ms_event first); [|apply sim_ret; exact I].
            eapply sim_bind; [apply sim_consume_event|]. intros oe oe' <-.
            destruct oe; [apply sim_raise_meta|apply sim_fail; apply (ER_map EStatechart)]. }
          eapply sim_bind; [apply (sim_run_steps fuel (first :: rest))|]. intros ex ex' ->.
          apply sim_get_bind. intros i1 i2 HI. apply sim_ret.
          rewrite (ir_time _ _ (proj1 HI)). reflexivity. }
        intros macro macro' ->.
        apply sim_then.
        { destruct macro as [[t ex]|]; cbn [macmap option_map fst snd];
            [rewrite c7_macro_event|]; apply sim_check_invariants. }
        apply sim_then; [apply sim_raise_meta|]. apply sim_ret. reflexivity.
      Qed.
    End Main.

    (* ---------------------------------------------------------------- sequences of API calls *)
    Definition macsmap (l : list macrostep) : list macrostep :=
      map (fun p : macrostep => (fst p, map (mmap pi) (snd p))) l.

    Section OpsSim.
      Hypothesis Honce : forall fuel now,
        sim (fun a b => b = macmap pi a)
            (execute_once ctx X exec1 eval1 emit sc1 fuel now)
            (execute_once ctx X exec2 eval2 emit sc2 fuel now).

      Lemma sim_execute fuel : forall now,
        sim (fun a b => b = macsmap a)
            (execute ctx X exec1 eval1 emit sc1 fuel now) (execute ctx X exec2 eval2 emit sc2 fuel now).
      Proof.
        induction fuel as [|f IH]; intros now; cbn [execute]; [apply sim_fail; apply (ER_map EFuel)|].
        eapply sim_bind; [apply Honce|]. intros m m' ->.
        destruct m as [[t ex]|]; cbn [macmap option_map]; [|apply sim_ret; reflexivity].
        eapply sim_bind; [apply IH|]. intros r r' ->. apply sim_ret. reflexivity.
      Qed.

      Lemma sim_run_op o :
        sim (fun a b => b = macsmap a)
            (run_op ctx X exec1 eval1 emit sc1 o) (run_op ctx X exec2 eval2 emit sc2 o).
      Proof.
        destruct o as [e|fuel now|fuel now]; cbn [run_op].
        - apply sim_then; [|apply sim_ret; reflexivity].
          unfold queue. apply sim_modify. intros i1 i2 HI. apply IR_queue_event; exact HI.
        - eapply sim_bind; [apply Honce|]. intros m m' ->. apply sim_ret.
          destruct m as [[t ex]|]; reflexivity.
        - apply sim_execute.
      Qed.

      Lemma sim_run_ops ops :
        sim (fun a b => b = macsmap a)
            (run_ops ctx X exec1 eval1 emit sc1 ops) (run_ops ctx X exec2 eval2 emit sc2 ops).
      Proof.
        induction ops as [|o r IH]; cbn [run_ops]; [apply sim_ret; reflexivity|].
        eapply sim_bind; [apply sim_run_op|]. intros a a' ->.
        eapply sim_bind; [apply IH|]. intros b b' ->. apply sim_ret.
        unfold macsmap. rewrite map_app. reflexivity.
      Qed.
    End OpsSim.

    (* ---------------------------------------------------------------- _select_transitions, generically *)
    (* LR relates the lists of candidate transitions of the two charts, SelR the lists of selected
       transitions; instantiated twice below (same declaration order / permuted order). *)
    Section Select.
      Variable LR SelR : list itrans -> list itrans -> Prop.
      Hypothesis LR_nil : LR [] [].
      Hypothesis LR_filter : forall (p1 p2 : itrans -> bool) l1 l2,
        (forall x, p2 (imap pi x) = p1 x) -> LR l1 l2 -> LR (filter p1 l1) (filter p2 l2).
      Hypothesis LR_in1 : forall l1 l2 x, LR l1 l2 -> In x l1 -> In (imap pi x) l2.
      Hypothesis LR_in2 : forall l1 l2 y, LR l1 l2 -> In y l2 -> exists x, In x l1 /\ y = imap pi x.
      Hypothesis Hguards : forall exposed l1 l2, LR l1 l2 ->
        sim (fun r1 r2 => LR r1 r2 /\ incl r1 l1)
            (eval_guards ctx X eval1 sc1 exposed l1) (eval_guards ctx X eval2 sc2 exposed l2).
      Hypothesis SelR_nil : SelR [] [].
      Hypothesis SelR_app : forall s1 s2 r1 r2, SelR s1 s2 -> LR r1 r2 ->
        (forall x y, In x r1 -> In y r1 -> t_source (snd x) = t_source (snd y)) ->
        SelR (s1 ++ r1) (s2 ++ r2).
      Hypothesis SelR_nil_iff : forall s1 s2, SelR s1 s2 -> (s1 = [] <-> s2 = []).
      Hypothesis Hobs_sel : forall ts1 ts2 t1 t2, SelR ts1 ts2 -> Rt t1 t2 ->
        Rt (ObSelected (map fst ts1) :: t1) (ObSelected (map fst ts2) :: t2).
      Hypothesis Hitr : LR (itransitions sc1) (itransitions sc2).

      Lemma LR_nil_iff l1 l2 : LR l1 l2 -> (l1 = [] <-> l2 = []).
      Proof.
        intros H. split; intros ->.
        - destruct l2 as [|y l2]; [reflexivity|].
          destruct (LR_in2 _ _ y H (or_introl eq_refl)) as (x & [] & _).
        - destruct l1 as [|x l1]; [reflexivity|]. destruct (LR_in1 _ _ x H (or_introl eq_refl)).
      Qed.

      Lemma GRel_weaken {K} (P Q : K -> itrans -> Prop) G1 G2 :
        (forall k x, P k x -> Q k x) -> GRel LR P G1 G2 -> GRel LR Q G1 G2.
      Proof.
        intros Himp H. unfold GRel in *. induction H as [|g1 g2 G1 G2 (H1 & H2 & H3) H IH]; constructor;
          [|exact IH].
        split; [exact H1|]. split; [exact H2|]. intros x Hx. apply Himp. apply H3. exact Hx.
      Qed.

      Lemma sim_selP exposed (P : Z -> itrans -> Prop) G1 G2 :
        GRel LR P G1 G2 ->
        sim (fun r1 r2 => LR r1 r2 /\ forall x, In x r1 -> exists k, P k x)
            (sel_priorities ctx X eval1 sc1 exposed G1) (sel_priorities ctx X eval2 sc2 exposed G2).
      Proof.
        intros HG. induction HG as [|[k1 ts1] [k2 ts2] G1 G2 (Hk & HL & HP) HG IH]; cbn [sel_priorities].
        - apply sim_ret. split; [exact LR_nil|intros x []].
        - cbn [fst snd] in *. eapply sim_bind; [apply Hguards; exact HL|]. intros r1 r2 [HR Hincl].
          pose proof (LR_nil_iff _ _ HR) as Hn.
          destruct r1 as [|a1 r1], r2 as [|a2 r2].
          + exact IH.
          + exfalso. destruct Hn as [Hn _]. discriminate (Hn eq_refl).
          + exfalso. destruct Hn as [_ Hn]. discriminate (Hn eq_refl).
          + apply sim_ret. split; [exact HR|]. intros x Hx. exists k1. apply HP. apply Hincl. exact Hx.
      Qed.

      Definition SelIgn (a b : list itrans * list name) : Prop := SelR (fst a) (fst b) /\ snd b = snd a.

      Lemma sim_selS exposed G1 G2 :
        GRel LR (fun k x => t_source (snd x) = k) G1 G2 ->
        forall sel1 sel2 ign, SelR sel1 sel2 ->
        sim SelIgn (sel_sources ctx X eval1 sc1 exposed G1 sel1 ign)
                   (sel_sources ctx X eval2 sc2 exposed G2 sel2 ign).
      Proof.
        intros HG. induction HG as [|[k1 ts1] [k2 ts2] G1 G2 (Hk & HL & Hsrc) HG IH];
          intros sel1 sel2 ign HS; cbn [sel_sources].
        - apply sim_ret. split; [exact HS|reflexivity].
        - cbn [fst snd] in *. subst k2. destruct (mem k1 ign); [apply IH; exact HS|].
          eapply sim_bind.
          { apply (sim_selP exposed (fun k x => t_priority (snd x) = k /\ In x ts1)).
            apply (c7_sgb_rel (imap pi) LR LR_filter LR_in1 LR_in2
                     (fun it => t_priority (snd it)) (fun it => t_priority (snd it)) Z.eqb Z.leb);
              [reflexivity|apply Z_eqb_spec|apply Z_leb_total|apply Z_leb_trans|apply Z_leb_antisym|exact HL]. }
          intros r1 r2 [HR Hin]. pose proof (LR_nil_iff _ _ HR) as Hn.
          destruct r1 as [|a1 r1], r2 as [|a2 r2].
          + apply IH; exact HS.
          + exfalso. destruct Hn as [Hn _]. discriminate (Hn eq_refl).
          + exfalso. destruct Hn as [_ Hn]. discriminate (Hn eq_refl).
          + rewrite c7_anc. apply IH. apply SelR_app; [exact HS|exact HR|].
            assert (Hs : forall z, In z (a1 :: r1) -> t_source (snd z) = k1).
            { intros z Hz. destruct (Hin z Hz) as (k & _ & Hz'). apply Hsrc; exact Hz'. }
            intros x y Hx Hy. rewrite (Hs x Hx), (Hs y Hy). reflexivity.
      Qed.

      Lemma sim_selD exposed (P : Z -> itrans -> Prop) G1 G2 :
        GRel LR P G1 G2 ->
        forall sel1 sel2 ign, SelR sel1 sel2 ->
        sim SelIgn (sel_depths ctx X eval1 sc1 exposed G1 sel1 ign)
                   (sel_depths ctx X eval2 sc2 exposed G2 sel2 ign).
      Proof.
        intros HG. induction HG as [|[k1 ts1] [k2 ts2] G1 G2 (Hk & HL & _) HG IH];
          intros sel1 sel2 ign HS; cbn [sel_depths].
        - apply sim_ret. split; [exact HS|reflexivity].
        - cbn [fst snd] in *. eapply sim_bind.
          { apply sim_selS; [|exact HS].
            eapply GRel_weaken;
              [|apply (c7_sgb_rel (imap pi) LR LR_filter LR_in1 LR_in2
                         (fun it => t_source (snd it)) (fun it => t_source (snd it)) str_eqb str_leb);
                [reflexivity|apply str_eqb_spec|apply str_leb_total|apply str_leb_trans
                |apply str_leb_antisym|exact HL]].
            intros k x [H _]. exact H. }
          intros [s1' ig1] [s2' ig2] [H1 H2]. cbn [fst snd] in *. subst ig2. apply IH. exact H1.
      Qed.

      Lemma sim_selE event (P : bool -> itrans -> Prop) G1 G2 :
        GRel LR P G1 G2 ->
        forall sel1 sel2, SelR sel1 sel2 ->
        sim SelR (sel_eventness ctx X eval1 sc1 event G1 sel1)
                 (sel_eventness ctx X eval2 sc2 event G2 sel2).
      Proof.
        intros HG. induction HG as [|[k1 ts1] [k2 ts2] G1 G2 (Hk & HL & _) HG IH];
          intros sel1 sel2 HS; cbn [sel_eventness].
        - apply sim_ret. exact HS.
        - cbn [fst snd] in *. subst k2. pose proof (SelR_nil_iff _ _ HS) as Hn.
          destruct sel1 as [|a1 sel1], sel2 as [|a2 sel2].
          + cbv zeta. eapply sim_bind.
            { apply (sim_selD _ (fun k x => depth_for sc1 (t_source (snd x)) = k /\ In x ts1));
                [|exact SelR_nil].
              apply (c7_sgb_rel (imap pi) LR LR_filter LR_in1 LR_in2
                       (fun it => depth_for sc1 (t_source (snd it)))
                       (fun it => depth_for sc2 (t_source (snd it))) Z.eqb Z.leb);
                [intros x; apply c7_depth|apply Z_eqb_spec|apply Z_leb_total|apply Z_leb_trans
                |apply Z_leb_antisym|exact HL]. }
            intros [s1' ig1] [s2' ig2] [H1 H2]. cbn [fst snd] in *. apply IH. exact H1.
          + exfalso. destruct Hn as [Hn _]. discriminate (Hn eq_refl).
          + exfalso. destruct Hn as [_ Hn]. discriminate (Hn eq_refl).
          + apply sim_ret. exact HS.
      Qed.

      Lemma c7_considered_LR ev cfg1 cfg2 :
        Permutation cfg1 cfg2 -> LR (considered sc1 ev cfg1) (considered sc2 ev cfg2).
      Proof.
        intros HP. unfold considered. apply LR_filter; [|exact Hitr].
        intros x. unfold imap. cbn [snd]. rewrite (c7_mem_perm _ _ _ HP). reflexivity.
      Qed.

      Lemma sim_select ev cfg1 cfg2 :
        Permutation cfg1 cfg2 ->
        sim SelR (select_transitions ctx X eval1 sc1 ev cfg1) (select_transitions ctx X eval2 sc2 ev cfg2).
      Proof.
        intros HP. unfold select_transitions.
        apply (sim_selE ev (fun k x => has_event_key x = k /\ In x (considered sc1 ev cfg1)));
          [|exact SelR_nil].
        apply (c7_sgb_rel (imap pi) LR LR_filter LR_in1 LR_in2 has_event_key has_event_key
                 Bool.eqb bool_leb);
          [reflexivity|apply bool_eqb_spec|apply bool_leb_total|apply bool_leb_trans
          |apply bool_leb_antisym|apply c7_considered_LR; exact HP].
      Qed.

      Lemma sim_sel_obs ev cfg1 cfg2 :
        Permutation cfg1 cfg2 -> sim SelR (sel_obs eval1 sc1 ev cfg1) (sel_obs eval2 sc2 ev cfg2).
      Proof.
        intros HP. unfold sel_obs. eapply sim_bind; [apply sim_select; exact HP|].
        intros ts1 ts2 HT.
        apply sim_then; [apply sim_observe; intros; apply Hobs_sel; assumption|apply sim_ret; exact HT].
      Qed.
    End Select.

    (* ---------------------------------------------------------------- _sort_transitions *)
    Lemma sort_transitions_pure sc ts (s : mst) :
      sort_transitions ctx X sc ts s =
      (s, match ts with
          | _ :: _ :: _ => match check_pairs sc ts with
                           | Some e => inr e
                           | None => inl (sort (trans_order_leb sc) ts)
                           end
          | _ => inl ts
          end).
    Proof.
      unfold sort_transitions. destruct ts as [|a [|b l]]; try reflexivity.
      destruct (check_pairs sc (a :: b :: l)); reflexivity.
    Qed.

    Lemma c7_check_against t ts : check_against sc2 t (map (imap pi) ts) = check_against sc1 t ts.
    Proof.
      induction ts as [|it ts IH]; cbn [map check_against]; [reflexivity|].
      unfold imap at 1. cbn [snd]. rewrite c7_check_pair, IH. reflexivity.
    Qed.

    Lemma c7_check_pairs ts : check_pairs sc2 (map (imap pi) ts) = check_pairs sc1 ts.
    Proof.
      induction ts as [|it ts IH]; cbn [map check_pairs]; [reflexivity|].
      unfold imap at 1. cbn [snd]. rewrite c7_check_against, IH. reflexivity.
    Qed.

    Lemma c7_check_pair_err sc t1 t2 e : check_pair sc t1 t2 = Some e -> emap pi e = e.
    Proof.
      unfold check_pair. destruct (str_eqb (t_source t1) (t_source t2)); [intros H; inversion H; reflexivity|].
      destruct (least_common_ancestor sc (t_source t1) (t_source t2)) as [l|];
        [|intros H; inversion H; reflexivity].
      destruct (kind_of sc l) as [[]|]; try (intros H; inversion H; reflexivity).
      destruct (stays_below sc (Some l) t1 && stays_below sc (Some l) t2);
        intros H; inversion H; reflexivity.
    Qed.

    Lemma c7_check_against_err sc t ts e : check_against sc t ts = Some e -> emap pi e = e.
    Proof.
      induction ts as [|it ts IH]; cbn [check_against]; [discriminate|].
      destruct (check_pair sc t (snd it)) as [e'|] eqn:E; [|exact IH].
      intros H; inversion H; subst. eapply c7_check_pair_err; exact E.
    Qed.

    Lemma c7_check_pairs_err sc ts e : check_pairs sc ts = Some e -> emap pi e = e.
    Proof.
      induction ts as [|it ts IH]; cbn [check_pairs]; [discriminate|].
      destruct (check_against sc (snd it) ts) as [e'|] eqn:E; [|exact IH].
      intros H; inversion H; subst. eapply c7_check_against_err; exact E.
    Qed.

    Lemma c7_trans_order a b :
      trans_order_leb sc2 (imap pi a) (imap pi b) = trans_order_leb sc1 a b.
    Proof. unfold trans_order_leb, imap. cbn [snd]. rewrite !c7_depth. reflexivity. Qed.

    Lemma sim_sort_map ts :
      sim (fun r1 r2 => r2 = map (imap pi) r1)
          (sort_transitions ctx X sc1 ts) (sort_transitions ctx X sc2 (map (imap pi) ts)).
    Proof.
      intros s1 s2 HS. rewrite !sort_transitions_pure. unfold orel.
      destruct ts as [|a [|b l]]; cbn [map]; try (split; [exact HS|reflexivity]).
      change (imap pi a :: imap pi b :: map (imap pi) l) with (map (imap pi) (a :: b :: l)).
      rewrite c7_check_pairs.
      destruct (check_pairs sc1 (a :: b :: l)) as [e|] eqn:E.
      - split; [apply SR_SRe; exact HS|]. rewrite <- (c7_check_pairs_err _ _ _ E) at 2. apply ER_map.
      - split; [exact HS|]. apply c7_sort_map. apply c7_trans_order.
    Qed.

    (* ---------------------------------------------------------------- instance A: same order of transitions *)
    Section SameOrder.
      Hypothesis Rt_guard : forall t1 t2 c r,
        Rt t1 t2 -> Rt (ObEval c r :: t1) (ObEval (cmap pi c) r :: t2).
      Hypothesis Rt_sel : forall t1 t2 l, Rt t1 t2 -> Rt (ObSelected l :: t1) (ObSelected (map pi l) :: t2).
      Hypothesis Hitr_eq : itransitions sc2 = map (imap pi) (itransitions sc1).

      Definition LRA (l1 l2 : list itrans) : Prop := l2 = map (imap pi) l1.

      Lemma c7_filter_map {A} (f : A -> A) (p1 p2 : A -> bool) l :
        (forall x, p2 (f x) = p1 x) -> filter p2 (map f l) = map f (filter p1 l).
      Proof.
        intros H. induction l as [|x l IH]; simpl; [reflexivity|].
        rewrite H. destruct (p1 x); simpl; rewrite IH; reflexivity.
      Qed.

      Lemma sim_eval_guards_A exposed l :
        sim (fun r1 r2 => LRA r1 r2 /\ incl r1 l)
            (eval_guards ctx X eval1 sc1 exposed l) (eval_guards ctx X eval2 sc2 exposed (map (imap pi) l)).
      Proof.
        induction l as [|it l IH]; cbn [map eval_guards].
        - apply sim_ret. split; [reflexivity|intros x []].
        - unfold imap at 1 2. cbn [fst snd].
          eapply sim_bind with (RA := eq).
          { destruct (t_guard (snd it)) as [g|]; [|apply sim_ret; reflexivity].
            unfold eval_cond. apply sim_get_bind. intros i1 i2 HI. cbv beta zeta.
            change (OTrans (pi (fst it))) with (omap pi (OTrans (fst it))).
            rewrite (c7_mk_call i1 i2 CGuard (OTrans (fst it)) 0 (Some g) exposed (proj1 HI)).
            rewrite (ir_ctx _ _ (proj1 HI)), Heval.
            destruct (eval1 (mk_call ctx sc1 i1 CGuard (OTrans (fst it)) 0 (Some g) exposed) (i_ctx i1)) as [b|].
            - apply sim_then; [apply sim_observe; intros; apply Rt_guard; assumption|].
              apply sim_ret; reflexivity.
            - apply sim_then; [apply sim_observe; intros; apply Rt_guard; assumption|].
              apply sim_fail. apply (ER_map (ECode CGuard (OTrans (fst it)) 0)). }
          intros ok ok' <-. eapply sim_bind; [apply IH|]. intros r1 r2 [-> Hincl].
          apply sim_ret. destruct ok.
          + split; [reflexivity|]. intros x [<-|Hx]; [left; reflexivity|right; apply Hincl; exact Hx].
          + split; [reflexivity|]. intros x Hx. right. apply Hincl; exact Hx.
      Qed.

      Lemma sim_select_A ev cfg1 cfg2 :
        Permutation cfg1 cfg2 ->
        sim LRA (select_transitions ctx X eval1 sc1 ev cfg1) (select_transitions ctx X eval2 sc2 ev cfg2).
      Proof.
        intros HP. apply (sim_select LRA LRA); try assumption.
        - reflexivity.
        - intros p1 p2 l1 l2 Hp ->. apply c7_filter_map; exact Hp.
        - intros l1 l2 x -> Hx. apply in_map; exact Hx.
        - intros l1 l2 y -> Hy. apply in_map_iff in Hy. destruct Hy as (x & <- & Hx).
          exists x. split; [exact Hx|reflexivity].
        - intros exposed l1 l2 ->. apply sim_eval_guards_A.
        - reflexivity.
        - intros s1 s2 r1 r2 -> -> _. unfold LRA. rewrite map_app. reflexivity.
        - intros s1 s2 ->. split; [intros ->; reflexivity|]. destruct s1; [reflexivity|discriminate].
      Qed.

      Theorem sim_execute_once_A fuel now :
        sim (fun a b => b = macmap pi a)
            (execute_once ctx X exec1 eval1 emit sc1 fuel now)
            (execute_once ctx X exec2 eval2 emit sc2 fuel now).
      Proof.
        apply (sim_execute_once LRA).
        - intros ts1 ts2 ->. split; [intros ->; reflexivity|].
          destruct ts1; [reflexivity|discriminate].
        - intros ev cfg1 cfg2 HP. apply (sim_sel_obs LRA LRA); try assumption.
          + reflexivity.
          + intros p1 p2 l1 l2 Hp ->. apply c7_filter_map; exact Hp.
          + intros l1 l2 x -> Hx. apply in_map; exact Hx.
          + intros l1 l2 y -> Hy. apply in_map_iff in Hy. destruct Hy as (x & <- & Hx).
            exists x. split; [exact Hx|reflexivity].
          + intros exposed l1 l2 ->. apply sim_eval_guards_A.
          + reflexivity.
          + intros s1 s2 r1 r2 -> -> _. unfold LRA. rewrite map_app. reflexivity.
          + intros s1 s2 ->. split; [intros ->; reflexivity|]. destruct s1; [reflexivity|discriminate].
          + intros ts1 ts2 t1 t2 -> Ht. rewrite map_map. cbn [imap fst].
            replace (map (fun x : itrans => pi (fst x)) ts1) with (map pi (map fst ts1))
              by (rewrite map_map; reflexivity).
            apply Rt_sel; exact Ht.
        - intros ts1 ts2 ->. apply sim_sort_map.
      Qed.
    End SameOrder.
  End Sim.

  (* ================================================================ instance B: permuted transitions *)
  (* ---- index_from ---- *)
  Lemma c7_index_from_In {A} (l : list A) : forall k i t,
    In (i, t) (index_from k l) <-> k <= i /\ nth_error l (i - k) = Some t.
  Proof.
    induction l as [|x l IH]; intros k i t; cbn [index_from In].
    - split; [intros []|]. intros [_ H]. destruct (i - k); discriminate.
    - rewrite IH. split.
      + intros [H|[H1 H2]].
        * inversion H; subst. split; [lia|]. rewrite Nat.sub_diag. reflexivity.
        * split; [lia|]. replace (i - k) with (S (i - S k)) by lia. exact H2.
      + intros [H1 H2]. destruct (Nat.eq_dec i k) as [->|Hne].
        * left. rewrite Nat.sub_diag in H2. inversion H2. reflexivity.
        * right. split; [lia|]. replace (i - k) with (S (i - S k)) in H2 by lia. exact H2.
  Qed.

  Lemma c7_index_from_fst {A} (l : list A) : forall k, map fst (index_from k l) = seq k (length l).
  Proof. induction l as [|x l IH]; intros k; simpl; [reflexivity|]. rewrite IH. reflexivity. Qed.

  Lemma c7_itransitions_In sc i t : In (i, t) (itransitions sc) <-> nth_error (c_transitions sc) i = Some t.
  Proof.
    unfold itransitions. rewrite c7_index_from_In, Nat.sub_0_r. split; [intros [_ H]; exact H|].
    intros H. split; [lia|exact H].
  Qed.

  Definition PM (l1 l2 : list itrans) : Prop := Permutation (map (imap pi) l1) l2.

  Lemma c7_itransitions_PM : PM (itransitions sc1) (itransitions sc2).
  Proof.
    unfold PM. apply NoDup_Permutation_bis.
    - apply (NoDup_map_inv fst). rewrite map_map.
      replace (map (fun x : itrans => fst (imap pi x)) (itransitions sc1))
        with (map pi (map fst (itransitions sc1))) by (rewrite map_map; reflexivity).
      apply FinFun.Injective_map_NoDup; [exact Hinj|].
      unfold itransitions. rewrite c7_index_from_fst. apply seq_NoDup.
    - rewrite map_length.
      assert (HL : forall sc, length (itransitions sc) = length (c_transitions sc)).
      { intros sc. unfold itransitions. generalize 0.
        induction (c_transitions sc) as [|x l IHl]; intros k; simpl; [reflexivity|].
        rewrite IHl. reflexivity. }
      rewrite !HL, Hlen. apply le_n.
    - intros y Hy. apply in_map_iff in Hy. destruct Hy as ([i t] & <- & Hx).
      apply c7_itransitions_In in Hx. unfold imap. cbn [fst snd].
      apply c7_itransitions_In. rewrite Htr. exact Hx.
  Qed.

  Lemma c7_filter_map' {A} (f : A -> A) (p1 p2 : A -> bool) l :
    (forall x, p2 (f x) = p1 x) -> filter p2 (map f l) = map f (filter p1 l).
  Proof.
    intros H. induction l as [|x l IH]; simpl; [reflexivity|].
    rewrite H. destruct (p1 x); simpl; rewrite IH; reflexivity.
  Qed.

  Lemma PM_filter (p1 p2 : itrans -> bool) l1 l2 :
    (forall x, p2 (imap pi x) = p1 x) -> PM l1 l2 -> PM (filter p1 l1) (filter p2 l2).
  Proof.
    intros Hp H. unfold PM in *. rewrite <- (c7_filter_map' _ p1 p2 l1 Hp).
    apply c7_filter_perm1. exact H.
  Qed.
  Lemma PM_in1 l1 l2 x : PM l1 l2 -> In x l1 -> In (imap pi x) l2.
  Proof. intros H Hx. eapply Permutation_in; [exact H|apply in_map; exact Hx]. Qed.
  Lemma PM_in2 l1 l2 y : PM l1 l2 -> In y l2 -> exists x, In x l1 /\ y = imap pi x.
  Proof.
    intros H Hy. apply (Permutation_in _ (Permutation_sym H)) in Hy. apply in_map_iff in Hy.
    destruct Hy as (x & <- & Hx). exists x. split; [exact Hx|reflexivity].
  Qed.
  Lemma PM_length l1 l2 : PM l1 l2 -> length l2 = length l1.
  Proof. intros H. apply Permutation_length in H. rewrite map_length in H. symmetry; exact H. Qed.

  (* selected transitions: the same blocks (one per source state) in the same order, each block
     permuted *)
  Definition uniform (b : list itrans) : Prop :=
    forall x y, In x b -> In y b -> t_source (snd x) = t_source (snd y).
  Inductive BP : list itrans -> list itrans -> Prop :=
  | BP_nil : BP [] []
  | BP_block b1 b2 r1 r2 : PM b1 b2 -> uniform b1 -> BP r1 r2 -> BP (b1 ++ r1) (b2 ++ r2).

  Lemma BP_app s1 s2 r1 r2 : BP s1 s2 -> PM r1 r2 -> uniform r1 -> BP (s1 ++ r1) (s2 ++ r2).
  Proof.
    intros H HP HU. induction H as [|b1 b2 q1 q2 Hb Hu H IH]; simpl.
    - rewrite <- (app_nil_r r1), <- (app_nil_r r2). apply BP_block; [exact HP|exact HU|apply BP_nil].
    - rewrite <- !app_assoc. apply BP_block; assumption.
  Qed.

  Lemma BP_length s1 s2 : BP s1 s2 -> length s2 = length s1.
  Proof.
    intros H. induction H as [|b1 b2 q1 q2 Hb Hu H IH]; [reflexivity|].
    rewrite !app_length, IH, (PM_length _ _ Hb). reflexivity.
  Qed.

  Lemma BP_nil_iff s1 s2 : BP s1 s2 -> (s1 = [] <-> s2 = []).
  Proof.
    intros H. apply BP_length in H. split; intros ->.
    - destruct s2; [reflexivity|discriminate].
    - destruct s1; [reflexivity|discriminate].
  Qed.

  (* ---- the pair check does not depend on the order inside the blocks ---- *)
  Section PairCheck.
    Variable sc : chart.

    Lemma cp_same_source t x y e e' :
      t_source x = t_source y ->
      check_pair sc t x = Some e -> check_pair sc t y = Some e' -> e = e'.
    Proof.
      unfold check_pair. intros ->.
      destruct (str_eqb (t_source t) (t_source y)); [congruence|].
      destruct (least_common_ancestor sc (t_source t) (t_source y)) as [l|]; [|congruence].
      destruct (kind_of sc l) as [[]|]; try congruence.
      destruct (stays_below sc (Some l) t); cbn [andb].
      - destruct (stays_below sc (Some l) x), (stays_below sc (Some l) y); congruence.
      - congruence.
    Qed.

    Lemma ca_none t l :
      check_against sc t l = None <-> forall x, In x l -> check_pair sc t (snd x) = None.
    Proof.
      induction l as [|it l IH]; cbn [check_against].
      - split; [intros _ x []|reflexivity].
      - destruct (check_pair sc t (snd it)) as [e|] eqn:E.
        + split; [discriminate|]. intros H. rewrite (H it (or_introl eq_refl)) in E. discriminate.
        + rewrite IH. split.
          * intros H x [<-|Hx]; [exact E|apply H; exact Hx].
          * intros H x Hx. apply H. right; exact Hx.
    Qed.

    Lemma ca_some t l e :
      check_against sc t l = Some e -> exists x, In x l /\ check_pair sc t (snd x) = Some e.
    Proof.
      induction l as [|it l IH]; cbn [check_against]; [discriminate|].
      destruct (check_pair sc t (snd it)) as [e'|] eqn:E.
      - intros H; inversion H; subst. exists it. split; [left; reflexivity|exact E].
      - intros H. destruct (IH H) as (x & Hx & Hc). exists x. split; [right; exact Hx|exact Hc].
    Qed.

    Lemma ca_app t l r :
      check_against sc t (l ++ r) =
      match check_against sc t l with Some e => Some e | None => check_against sc t r end.
    Proof.
      induction l as [|it l IH]; cbn [app check_against]; [reflexivity|].
      destruct (check_pair sc t (snd it)); [reflexivity|exact IH].
    Qed.

    Lemma PM_snd l1 l2 : PM l1 l2 -> Permutation (map snd l1) (map snd l2).
    Proof.
      intros H. apply (Permutation_map snd) in H. rewrite map_map in H.
      rewrite (map_ext (fun x => snd (imap pi x)) snd) in H by reflexivity. exact H.
    Qed.

    Lemma ca_block t b1 b2 :
      PM b1 b2 -> uniform b1 -> check_against sc t b1 = check_against sc t b2.
    Proof.
      intros HP HU. pose proof (PM_snd _ _ HP) as HS.
      assert (H12 : forall x, In x b1 -> exists y, In y b2 /\ snd y = snd x).
      { intros x Hx. assert (Hin : In (snd x) (map snd b2)).
        { eapply Permutation_in; [exact HS|apply in_map; exact Hx]. }
        apply in_map_iff in Hin. destruct Hin as (y & Hy & Hin). exists y. split; assumption. }
      assert (H21 : forall y, In y b2 -> exists x, In x b1 /\ snd x = snd y).
      { intros y Hy. assert (Hin : In (snd y) (map snd b1)).
        { eapply Permutation_in; [apply Permutation_sym; exact HS|apply in_map; exact Hy]. }
        apply in_map_iff in Hin. destruct Hin as (x & Hx & Hin). exists x. split; assumption. }
      destruct (check_against sc t b1) as [e1|] eqn:E1, (check_against sc t b2) as [e2|] eqn:E2.
      - apply ca_some in E1. apply ca_some in E2.
        destruct E1 as (x1 & Hx1 & C1). destruct E2 as (y2 & Hy2 & C2).
        destruct (H21 y2 Hy2) as (x2 & Hx2 & Es). rewrite <- Es in C2.
        f_equal. eapply cp_same_source; [apply (HU x1 x2 Hx1 Hx2)|exact C1|exact C2].
      - exfalso. apply ca_some in E1. destruct E1 as (x1 & Hx1 & C1).
        destruct (H12 x1 Hx1) as (y & Hy & Es). rewrite <- Es in C1.
        rewrite (proj1 (ca_none t b2) E2 y Hy) in C1. discriminate.
      - exfalso. apply ca_some in E2. destruct E2 as (y2 & Hy2 & C2).
        destruct (H21 y2 Hy2) as (x & Hx & Es). rewrite <- Es in C2.
        rewrite (proj1 (ca_none t b1) E1 x Hx) in C2. discriminate.
      - reflexivity.
    Qed.

    Lemma ca_BP t r1 r2 : BP r1 r2 -> check_against sc t r1 = check_against sc t r2.
    Proof.
      intros H. induction H as [|b1 b2 q1 q2 Hb Hu H IH]; [reflexivity|].
      rewrite !ca_app, (ca_block t b1 b2 Hb Hu), IH. reflexivity.
    Qed.

    Lemma cp_two x y r :
      t_source (snd x) = t_source (snd y) -> check_pairs sc (x :: y :: r) = Some ENonDeterminism.
    Proof.
      intros Hs. cbn [check_pairs check_against]. unfold check_pair at 1. rewrite Hs.
      unfold str_eqb. rewrite String.eqb_refl. reflexivity.
    Qed.

    Lemma PM_uniform b1 b2 : PM b1 b2 -> uniform b1 -> uniform b2.
    Proof.
      intros HP HU x y Hx Hy.
      destruct (PM_in2 _ _ _ HP Hx) as (x' & Hx' & ->). destruct (PM_in2 _ _ _ HP Hy) as (y' & Hy' & ->).
      unfold imap. cbn [snd]. apply HU; assumption.
    Qed.

    Lemma cp_BP ts1 ts2 : BP ts1 ts2 -> check_pairs sc ts1 = check_pairs sc ts2.
    Proof.
      intros H. induction H as [|b1 b2 q1 q2 Hb Hu H IH]; [reflexivity|].
      pose proof (PM_uniform _ _ Hb Hu) as Hu2. pose proof (PM_length _ _ Hb) as Hlen12.
      destruct b1 as [|x [|y b1]].
      - destruct b2; [|discriminate]. exact IH.
      - destruct b2 as [|x2 [|y2 b2]]; try discriminate.
        unfold PM in Hb. cbn [map] in Hb. apply c7_perm_singleton in Hb. inversion Hb; subst x2.
        cbn [app check_pairs]. unfold imap at 1. cbn [snd].
        rewrite (ca_BP (snd x) q1 q2 H), IH. reflexivity.
      - destruct b2 as [|x2 [|y2 b2]]; try discriminate.
        cbn [app]. rewrite !cp_two; [reflexivity| |].
        + apply Hu2; [left; reflexivity|right; left; reflexivity].
        + apply Hu; [left; reflexivity|right; left; reflexivity].
    Qed.

    Lemma BP_none ts1 ts2 : BP ts1 ts2 -> check_pairs sc ts1 = None -> ts2 = map (imap pi) ts1.
    Proof.
      intros H. induction H as [|b1 b2 q1 q2 Hb Hu H IH]; [reflexivity|].
      pose proof (PM_length _ _ Hb) as Hlen12.
      destruct b1 as [|x [|y b1]].
      - destruct b2; [|discriminate]. exact IH.
      - destruct b2 as [|x2 [|y2 b2]]; try discriminate.
        unfold PM in Hb. cbn [map] in Hb. apply c7_perm_singleton in Hb. inversion Hb; subst x2.
        cbn [app check_pairs map]. destruct (check_against sc (snd x) q1); [discriminate|].
        intros Hn. rewrite (IH Hn). reflexivity.
      - cbn [app]. rewrite cp_two; [discriminate|].
        apply Hu; [left; reflexivity|right; left; reflexivity].
    Qed.
  End PairCheck.

  Lemma c7_check_pairs_same l : check_pairs sc2 l = check_pairs sc1 l.
  Proof.
    induction l as [|it l IH]; cbn [check_pairs]; [reflexivity|].
    assert (E : check_against sc2 (snd it) l = check_against sc1 (snd it) l).
    { clear IH. induction l as [|x l IHl]; cbn [check_against]; [reflexivity|].
      rewrite c7_check_pair, IHl. reflexivity. }
    rewrite E, IH. reflexivity.
  Qed.

  (* Goal 3: _sort_transitions does not depend on the declaration order of the transitions: the
     same error (not only the same kind) or the same ordered list of transition records *)
  Theorem C07_error_kind ts1 ts2 : BP ts1 ts2 -> check_pairs sc2 ts2 = check_pairs sc1 ts1.
  Proof. intros H. rewrite c7_check_pairs_same. symmetry. apply cp_BP; exact H. Qed.

  (* ---- traces: everything except guard evaluations and the model-only ObSelected ---- *)
  Definition keep (o : obs ctx) : bool :=
    match o with
    | ObEval c _ => negb (ckind_eqb (cl_kind c) CGuard)
    | ObSelected _ => false
    | _ => true
    end.
  Definition RtB (t1 t2 : list (obs ctx)) : Prop := map (obmap pi) (filter keep t1) = filter keep t2.
  (* errors: the same error up to the renaming, or two guard evaluation errors (which guard fails
     first depends on the declaration order) *)
  Definition ERB (e1 e2 : err) : Prop :=
    e2 = emap pi e1 \/ exists o1 o2, e1 = ECode CGuard o1 0 /\ e2 = ECode CGuard o2 0.

  Lemma ERB_map e : ERB e (emap pi e).
  Proof. left. reflexivity. Qed.
  Lemma RtB_exec t1 t2 c r : RtB t1 t2 -> RtB (ObExec c r :: t1) (ObExec (cmap pi c) r :: t2).
  Proof. unfold RtB. intros H. cbn [filter keep map obmap]. rewrite H. reflexivity. Qed.
  Lemma RtB_meta t1 t2 m : RtB t1 t2 -> RtB (ObMeta m :: t1) (ObMeta m :: t2).
  Proof. unfold RtB. intros H. cbn [filter keep map obmap]. rewrite H. reflexivity. Qed.
  Lemma RtB_eval t1 t2 c r :
    cl_kind c <> CGuard -> RtB t1 t2 -> RtB (ObEval c r :: t1) (ObEval (cmap pi c) r :: t2).
  Proof.
    unfold RtB. intros Hk H.
    assert (K1 : keep (ObEval c r) = true) by (cbn [keep]; destruct (cl_kind c); try reflexivity; congruence).
    assert (K2 : keep (ObEval (cmap pi c) r) = true) by exact K1.
    cbn [filter]. rewrite K1, K2. cbn [map obmap]. rewrite H. reflexivity.
  Qed.
  Lemma RtB_drop1 t1 t2 o : keep o = false -> RtB t1 t2 -> RtB (o :: t1) t2.
  Proof. unfold RtB. intros K H. cbn [filter]. rewrite K. exact H. Qed.
  Lemma RtB_drop2 t1 t2 o : keep o = false -> RtB t1 t2 -> RtB t1 (o :: t2).
  Proof. unfold RtB. intros K H. cbn [filter]. rewrite K. exact H. Qed.

  (* ---- guards are pure: eval_guards only appends guard observations ---- *)
  Definition gval (eval : call ctx -> ctx -> option bool) (sc : chart) (i : ist)
             (exposed : option event) (it : itrans) : option bool :=
    match t_guard (snd it) with
    | None => Some true
    | Some g => eval (mk_call ctx sc i CGuard (OTrans (fst it)) 0 (Some g) exposed) (i_ctx i)
    end.
  Definition gtrue eval sc i exposed it : bool :=
    match gval eval sc i exposed it with Some true => true | _ => false end.
  Definition quiet (s s' : mst) : Prop :=
    m_i s' = m_i s /\ m_x s' = m_x s /\ filter keep (m_tr s') = filter keep (m_tr s).

  Lemma quiet_refl s : quiet s s.
  Proof. repeat split. Qed.
  Lemma quiet_trans a b c : quiet a b -> quiet b c -> quiet a c.
  Proof. intros (A1 & B1 & C1) (A2 & B2 & C2). repeat split; congruence. Qed.

  Definition gstep eval sc exposed (it : itrans) : MM bool :=
    match t_guard (snd it) with
    | None => ret ctx X true
    | Some g => eval_cond ctx X eval sc CGuard (OTrans (fst it)) 0 g exposed
    end.

  Lemma gstep_pure eval sc exposed it s :
    match gstep eval sc exposed it s with
    | (s1, inl ok) => quiet s s1 /\ gval eval sc (m_i s) exposed it = Some ok
    | (s1, inr e) => quiet s s1 /\ gval eval sc (m_i s) exposed it = None
                     /\ e = ECode CGuard (OTrans (fst it)) 0
    end.
  Proof.
    unfold gstep, gval. destruct (t_guard (snd it)) as [g|].
    - unfold eval_cond, bind, get. cbv zeta.
      destruct (eval (mk_call ctx sc (m_i s) CGuard (OTrans (fst it)) 0 (Some g) exposed) (i_ctx (m_i s)))
        as [b|]; unfold observe, ret, fail; cbn [m_i m_x m_tr].
      + split; [|reflexivity]. repeat split.
      + split; [|split; reflexivity]. repeat split.
    - unfold ret. split; [apply quiet_refl|reflexivity].
  Qed.

  Lemma eval_guards_pure eval sc exposed l : forall s,
    match eval_guards ctx X eval sc exposed l s with
    | (s', inl res) =>
        quiet s s' /\ res = filter (gtrue eval sc (m_i s) exposed) l
        /\ (forall it, In it l -> gval eval sc (m_i s) exposed it <> None)
    | (s', inr e) =>
        quiet s s' /\ (exists it, In it l /\ gval eval sc (m_i s) exposed it = None)
        /\ exists o, e = ECode CGuard o 0
    end.
  Proof.
    induction l as [|it l IH]; intros s.
    - cbn [eval_guards]. unfold ret. split; [apply quiet_refl|]. split; [reflexivity|intros it []].
    - change (eval_guards ctx X eval sc exposed (it :: l))
        with (bind ctx X (gstep eval sc exposed it) (fun ok =>
              bind ctx X (eval_guards ctx X eval sc exposed l) (fun r =>
              ret ctx X (if ok then it :: r else r)))).
      unfold bind at 1. pose proof (gstep_pure eval sc exposed it s) as Hg.
      destruct (gstep eval sc exposed it s) as [s1 [ok|e]].
      + destruct Hg as [Q1 Hv]. unfold bind. specialize (IH s1).
        assert (Ei : m_i s1 = m_i s) by apply Q1. rewrite Ei in IH.
        destruct (eval_guards ctx X eval sc exposed l s1) as [s2 [r|e2]]; unfold ret.
        * destruct IH as (Q2 & -> & Hdef). split; [eapply quiet_trans; eassumption|]. split.
          -- assert (Hgt : gtrue eval sc (m_i s) exposed it = ok)
               by (unfold gtrue; rewrite Hv; destruct ok; reflexivity).
             cbn [filter]. rewrite Hgt. destruct ok; reflexivity.
          -- intros x [<-|Hx]; [congruence|apply Hdef; exact Hx].
        * destruct IH as (Q2 & (x & Hx & Hn) & Ho). split; [eapply quiet_trans; eassumption|].
          split; [exists x; split; [right; exact Hx|exact Hn]|exact Ho].
      + destruct Hg as (Q1 & Hn & ->). split; [exact Q1|].
        split; [exists it; split; [left; reflexivity|exact Hn]|eexists; reflexivity].
  Qed.

  Lemma c7_gval i1 i2 exposed it :
    IRe i1 i2 -> gval eval2 sc2 i2 exposed (imap pi it) = gval eval1 sc1 i1 exposed it.
  Proof.
    intros HI. unfold gval, imap. cbn [fst snd]. destruct (t_guard (snd it)) as [g|]; [|reflexivity].
    change (OTrans (pi (fst it))) with (omap pi (OTrans (fst it))).
    rewrite (c7_mk_call i1 i2 CGuard (OTrans (fst it)) 0 (Some g) exposed HI), (ir_ctx _ _ HI), Heval.
    reflexivity.
  Qed.

  Lemma SR_quiet s1 s2 s1' s2' : SR RtB s1 s2 -> quiet s1 s1' -> quiet s2 s2' -> SR RtB s1' s2'.
  Proof.
    intros (HI & Hx & Ht) (A1 & B1 & C1) (A2 & B2 & C2). unfold SR. rewrite A1, A2, B1, B2.
    split; [exact HI|]. split; [exact Hx|]. unfold RtB in *. rewrite C1, C2. exact Ht.
  Qed.

  Lemma sim_eval_guards_B exposed l1 l2 :
    PM l1 l2 ->
    sim RtB ERB (fun r1 r2 => PM r1 r2 /\ incl r1 l1)
        (eval_guards ctx X eval1 sc1 exposed l1) (eval_guards ctx X eval2 sc2 exposed l2).
  Proof.
    intros HP s1 s2 HS.
    pose proof (eval_guards_pure eval1 sc1 exposed l1 s1) as H1.
    pose proof (eval_guards_pure eval2 sc2 exposed l2 s2) as H2. unfold orel.
    assert (HG : forall it, gval eval2 sc2 (m_i s2) exposed (imap pi it)
                            = gval eval1 sc1 (m_i s1) exposed it).
    { intros it. apply c7_gval. apply HS. }
    destruct (eval_guards ctx X eval1 sc1 exposed l1 s1) as [s1' [r1|e1]],
             (eval_guards ctx X eval2 sc2 exposed l2 s2) as [s2' [r2|e2]].
    - destruct H1 as (Q1 & -> & _). destruct H2 as (Q2 & -> & _).
      split; [eapply SR_quiet; eassumption|]. split.
      + apply PM_filter; [|exact HP]. intros x. unfold gtrue. rewrite HG. reflexivity.
      + intros x Hx. apply filter_In in Hx. apply Hx.
    - exfalso. destruct H1 as (_ & _ & Hdef). destruct H2 as (_ & (y & Hy & Hn) & _).
      destruct (PM_in2 _ _ _ HP Hy) as (x & Hx & ->). rewrite HG in Hn. exact (Hdef x Hx Hn).
    - exfalso. destruct H2 as (_ & _ & Hdef). destruct H1 as (_ & (x & Hx & Hn) & _).
      apply (Hdef (imap pi x)); [eapply PM_in1; eassumption|]. rewrite HG. exact Hn.
    - destruct H1 as (Q1 & _ & (o1 & ->)). destruct H2 as (Q2 & _ & (o2 & ->)).
      split; [|right; exists o1, o2; split; reflexivity].
      eapply SR_SRe. eapply SR_quiet; eassumption.
  Qed.

  Lemma sim_sort_B ts1 ts2 :
    BP ts1 ts2 ->
    sim RtB ERB (fun r1 r2 => r2 = map (imap pi) r1)
        (sort_transitions ctx X sc1 ts1) (sort_transitions ctx X sc2 ts2).
  Proof.
    intros HB. destruct (check_pairs sc1 ts1) as [e|] eqn:E.
    - intros s1 s2 HS. rewrite !sort_transitions_pure. unfold orel.
      pose proof (C07_error_kind ts1 ts2 HB) as E2. rewrite E in E2.
      pose proof (BP_length _ _ HB) as HL.
      destruct ts1 as [|a [|b l]]; [discriminate E|discriminate E|].
      destruct ts2 as [|a2 [|b2 l2]]; try discriminate HL. rewrite E, E2.
      split; [eapply SR_SRe; exact HS|]. left. symmetry. eapply c7_check_pairs_err; exact E.
    - rewrite (BP_none sc1 ts1 ts2 HB E). apply sim_sort_map. exact ERB_map.
  Qed.

  Lemma sim_select_B ev cfg1 cfg2 :
    Permutation cfg1 cfg2 ->
    sim RtB ERB BP (select_transitions ctx X eval1 sc1 ev cfg1) (select_transitions ctx X eval2 sc2 ev cfg2).
  Proof.
    intros HP. apply (sim_select RtB ERB PM BP); try assumption.
    - apply Permutation_refl.
    - apply PM_filter.
    - apply PM_in1.
    - apply PM_in2.
    - apply sim_eval_guards_B.
    - apply BP_nil.
    - apply BP_app.
    - apply BP_nil_iff.
    - apply c7_itransitions_PM.
  Qed.

  (* the selected transitions correspond one to one through the bijection *)
  Lemma BP_perm ts1 ts2 : BP ts1 ts2 -> PM ts1 ts2.
  Proof.
    intros H. induction H as [|b1 b2 q1 q2 Hb Hu H IH]; [apply Permutation_refl|].
    unfold PM in *. rewrite map_app. apply Permutation_app; assumption.
  Qed.

  Lemma BP_same_set ts1 ts2 : BP ts1 ts2 -> forall it, In (imap pi it) ts2 <-> In it ts1.
  Proof.
    intros H it. apply BP_perm in H. split.
    - intros Hin. apply (Permutation_in _ (Permutation_sym H)) in Hin. apply in_map_iff in Hin.
      destruct Hin as ([i t] & E & Hx). destruct it as [j u]. unfold imap in E. cbn [fst snd] in E.
      inversion E. subst u. apply Hinj in H1. subst i. exact Hx.
    - intros Hin. eapply PM_in1; eassumption.
  Qed.

  Hypothesis HkregB : (forall n, children_for sc2 n = children_for sc1 n)
                      \/ (forall p c, In c (children_for sc1 p) -> state_for sc1 c <> None).

  Theorem sim_execute_once_B fuel now :
    sim RtB ERB (fun a b => b = macmap pi a)
        (execute_once ctx X exec1 eval1 emit sc1 fuel now)
        (execute_once ctx X exec2 eval2 emit sc2 fuel now).
  Proof.
    apply (sim_execute_once RtB ERB ERB_map RtB_exec RtB_eval RtB_meta HkregB BP).
    - apply BP_nil_iff.
    - intros ev cfg1 cfg2 HP.
      apply (sim_sel_obs RtB ERB PM BP); try assumption.
      + apply Permutation_refl.
      + apply PM_filter.
      + apply PM_in1.
      + apply PM_in2.
      + apply sim_eval_guards_B.
      + apply BP_nil.
      + apply BP_app.
      + apply BP_nil_iff.
      + intros ts1 ts2 t1 t2 _ Ht. apply RtB_drop1; [reflexivity|]. apply RtB_drop2; [reflexivity|exact Ht].
      + apply c7_itransitions_PM.
    - apply sim_sort_B.
  Qed.
End Charts.

(* ================================================================== Part 3: the identity renaming *)
Definition idx_id (i : nat) : nat := i.

Lemma omap_id o : omap idx_id o = o.
Proof. destruct o; reflexivity. Qed.
Lemma imap_id it : imap idx_id it = it.
Proof. destruct it; reflexivity. Qed.
Lemma emap_id e : emap idx_id e = e.
Proof. destruct e; simpl; rewrite ?omap_id; reflexivity. Qed.
Lemma cmap_id {ctx} (c : call ctx) : cmap idx_id c = c.
Proof. destruct c. unfold cmap. simpl. rewrite omap_id. reflexivity. Qed.
Lemma mmap_id m : mmap idx_id m = m.
Proof. destruct m as [e [t|] en ex se]; reflexivity. Qed.
Lemma map_id_ext {A} (f : A -> A) l : (forall x, f x = x) -> map f l = l.
Proof. intros H. induction l as [|x l IH]; simpl; [reflexivity|]. rewrite H, IH. reflexivity. Qed.
Lemma macmap_id m : macmap idx_id m = m.
Proof.
  destruct m as [[t ex]|]; simpl; [|reflexivity]. rewrite (map_id_ext _ _ mmap_id). reflexivity.
Qed.
Lemma oldmap_id {ctx} (m : list (owner * ctx)) : oldmap idx_id m = m.
Proof. unfold oldmap. apply map_id_ext. intros [o c]. simpl. rewrite omap_id. reflexivity. Qed.

(* ---- readable form of the relation between the two pre-/post-states ---- *)
(* i2 is i1 with the configuration set listed in another order and the recorded history memory
   given by a dictionary with the same keys whose values are permutations *)
Definition hs_equiv {ctx} (i1 i2 : istate ctx) : Prop :=
  exists cfg mem, Permutation (i_config i1) cfg /\ mem_rel (i_memory i1) mem /\
    i2 = mkIState (i_id i1) (i_initialized i1) (i_time i1) mem cfg (i_entry i1) (i_idle i1)
                  (i_sent i1) (i_iq i1) (i_eq i1) (i_ignore_contract i1) (i_ctx i1) (i_old i1).
(* after an error the history memory is not compared *)
Definition hs_equiv_err {ctx} (i1 i2 : istate ctx) : Prop :=
  exists cfg mem, Permutation (i_config i1) cfg /\
    i2 = mkIState (i_id i1) (i_initialized i1) (i_time i1) mem cfg (i_entry i1) (i_idle i1)
                  (i_sent i1) (i_iq i1) (i_eq i1) (i_ignore_contract i1) (i_ctx i1) (i_old i1).
Definition ms_equiv {ctx X} (s1 s2 : mstate ctx X) : Prop :=
  hs_equiv (m_i s1) (m_i s2) /\ m_x s2 = m_x s1 /\ m_tr s2 = m_tr s1.
Definition ms_equiv_err {ctx X} (s1 s2 : mstate ctx X) : Prop :=
  hs_equiv_err (m_i s1) (m_i s2) /\ m_x s2 = m_x s1 /\ m_tr s2 = m_tr s1.

Lemma hs_equiv_IR {ctx} (i1 i2 : istate ctx) : hs_equiv i1 i2 <-> IR idx_id ctx i1 i2.
Proof.
  split.
  - intros (cfg & mem & HP & HM & ->). split; [constructor; cbn; auto; rewrite oldmap_id; reflexivity|].
    cbn. exact HM.
  - intros [[H1 H2 H3 H4 H5 H6 H7 H8 H9 H10 H11 H12] HM]. exists (i_config i2), (i_memory i2).
    split; [exact H4|]. split; [exact HM|]. rewrite oldmap_id in H12.
    destruct i2; cbn in *; subst; reflexivity.
Qed.

Lemma hs_equiv_err_IRe {ctx} (i1 i2 : istate ctx) : IRe idx_id ctx i1 i2 -> hs_equiv_err i1 i2.
Proof.
  intros [H1 H2 H3 H4 H5 H6 H7 H8 H9 H10 H11 H12]. exists (i_config i2), (i_memory i2).
  split; [exact H4|]. rewrite oldmap_id in H12. destruct i2; cbn in *; subst; reflexivity.
Qed.

Lemma hs_equiv_refl {ctx} (i : istate ctx) : hs_equiv i i.
Proof.
  exists (i_config i), (i_memory i). split; [apply Permutation_refl|]. split; [apply c7_mem_rel_refl|].
  destruct i; reflexivity.
Qed.

(* ---- "the same chart up to the order of children lists and of the dictionaries" ---- *)
Record struct_equiv (sc1 sc2 : chart) : Prop := mkSE {
  se_states : forall n, state_for sc2 n = state_for sc1 n;
  se_parent : forall n, parent_for sc2 n = parent_for sc1 n;
  se_plen : length (c_parent sc2) = length (c_parent sc1);
  se_children : forall n, Permutation (children_for sc1 n) (children_for sc2 n);
  se_desc : forall n, Permutation (descendants_for sc1 n) (descendants_for sc2 n);
  se_root : root sc2 = root sc1;
  se_kreg : (forall n, children_for sc2 n = children_for sc1 n)
            \/ (forall p c, In c (children_for sc1 p) -> state_for sc1 c <> None)
}.

Lemma struct_equiv_refl sc : struct_equiv sc sc.
Proof.
  constructor; try reflexivity; try (intros; apply Permutation_refl). left. reflexivity.
Qed.

Lemma itransitions_id sc1 sc2 :
  c_transitions sc2 = c_transitions sc1 -> itransitions sc2 = map (imap idx_id) (itransitions sc1).
Proof.
  intros H. unfold itransitions. rewrite H. symmetry. apply map_id_ext. apply imap_id.
Qed.

(* The outcome of execute_once: same result and same error; related post-states. *)
Definition same_outcome {ctx X A} (o1 o2 : mstate ctx X * (A + err)) : Prop :=
  snd o2 = snd o1 /\
  match snd o1 with
  | inl _ => ms_equiv (fst o1) (fst o2)
  | inr _ => ms_equiv_err (fst o1) (fst o2)
  end.

(* Goal 2 (and 1): the children lists / dictionaries are declared in another order, the
   transitions in the same order; sets in the interpreter state are listed in another order. *)
Theorem C07_decl_children :
  forall (ctx X : Type) (exec : call ctx -> ctx -> option (ctx * list event))
         (eval : call ctx -> ctx -> option bool) (emit : Z -> meta -> X -> X * option err)
         (sc1 sc2 : chart),
    struct_equiv sc1 sc2 -> c_transitions sc2 = c_transitions sc1 ->
    forall fuel now (s1 s2 : mstate ctx X),
      ms_equiv s1 s2 ->
      same_outcome (execute_once ctx X exec eval emit sc1 fuel now s1)
                   (execute_once ctx X exec eval emit sc2 fuel now s2).
Proof.
  intros ctx X exec eval emit sc1 sc2 [H1 H2 H3 H4 H5 H6 H7] Htrs fuel now s1 s2 (HI & Hx & Ht).
  pose proof (sim_execute_once_A sc1 sc2 idx_id H1 H2 H3 H4 H5 H6
                (fun i => f_equal (fun l => nth_error l i) Htrs) (fun i j H => H)
                ctx X exec exec eval eval emit
                (fun c x => f_equal (fun c' => exec c' x) (cmap_id c))
                (fun c x => f_equal (fun c' => eval c' x) (cmap_id c))
                (fun t m x e _ => emap_id e)
                (fun t1 t2 => t2 = t1) (fun e1 e2 => e2 = e1)) as Hsim.
  specialize (Hsim (fun e => emap_id e)).
  specialize (Hsim (fun t1 t2 c r H => f_equal2 cons (f_equal (fun c' => ObExec c' r) (cmap_id c)) H)).
  specialize (Hsim (fun t1 t2 c r _ H => f_equal2 cons (f_equal (fun c' => ObEval c' r) (cmap_id c)) H)).
  specialize (Hsim (fun t1 t2 m H => f_equal (cons (ObMeta m)) H)).
  specialize (Hsim H7).
  specialize (Hsim (fun t1 t2 c r H => f_equal2 cons (f_equal (fun c' => ObEval c' r) (cmap_id c)) H)).
  specialize (Hsim (fun t1 t2 l H =>
                      f_equal2 cons (f_equal ObSelected (map_id_ext idx_id l (fun x => eq_refl))) H)).
  specialize (Hsim (itransitions_id sc1 sc2 Htrs) fuel now s1 s2).
  assert (HS : SR idx_id ctx X (fun t1 t2 => t2 = t1) s1 s2).
  { split; [apply hs_equiv_IR; exact HI|]. split; assumption. }
  specialize (Hsim HS). unfold orel in Hsim. unfold same_outcome.
  destruct (execute_once ctx X exec eval emit sc1 fuel now s1) as [s1' [a|e1]],
           (execute_once ctx X exec eval emit sc2 fuel now s2) as [s2' [b|e2]];
    try contradiction; cbn [fst snd].
  - destruct Hsim as [(HI' & Hx' & Ht') ->]. rewrite macmap_id. split; [reflexivity|].
    split; [apply hs_equiv_IR; exact HI'|]. split; assumption.
  - destruct Hsim as [(HI' & Hx' & Ht') ->]. split; [reflexivity|].
    split; [apply hs_equiv_err_IRe; exact HI'|]. split; assumption.
Qed.

(* Goal 1: the same chart, only the iteration order of the Python sets differs (hash seed). *)
Theorem C07_hashseed_execute_once :
  forall (ctx X : Type) (exec : call ctx -> ctx -> option (ctx * list event))
         (eval : call ctx -> ctx -> option bool) (emit : Z -> meta -> X -> X * option err)
         (sc : chart) fuel now (s1 s2 : mstate ctx X),
    ms_equiv s1 s2 ->
    same_outcome (execute_once ctx X exec eval emit sc fuel now s1)
                 (execute_once ctx X exec eval emit sc fuel now s2).
Proof.
  intros ctx X exec eval emit sc. apply C07_decl_children; [apply struct_equiv_refl|reflexivity].
Qed.


(* ================================================================== Part 4: the full theorem *)
(* sc2 declares the states/children/transitions of sc1 in another order; pi maps the index of a
   transition in sc1 to its index in sc2 *)
Record chart_perm (sc1 sc2 : chart) (pi : nat -> nat) : Prop := mkCP {
  cp_struct : struct_equiv sc1 sc2;
  cp_tr : forall i, nth_error (c_transitions sc2) (pi i) = nth_error (c_transitions sc1) i;
  cp_inj : forall i j, pi i = pi j -> i = j;
  cp_len : length (c_transitions sc2) = length (c_transitions sc1)
}.

(* the two runs are in corresponding states: interpreter states equal up to set order and the
   renaming of transition indices (IR), same listener state, same observation trace once the
   guard evaluations and the model-only ObSelected entries are removed (RtB) *)
Definition run_equiv (pi : nat -> nat) {ctx X} (s1 s2 : mstate ctx X) : Prop :=
  SR pi ctx X (RtB pi ctx) s1 s2.
Definition run_equiv_err (pi : nat -> nat) {ctx X} (s1 s2 : mstate ctx X) : Prop :=
  SRe pi ctx X (RtB pi ctx) s1 s2.

(* both succeed with the same macro step (transition indices renamed) or both fail with the same
   error (renamed), resp. with a guard evaluation error *)
Definition decl_outcome (pi : nat -> nat) {ctx X}
           (o1 o2 : mstate ctx X * (option macrostep + err)) : Prop :=
  match o1, o2 with
  | (s1, inl m1), (s2, inl m2) => run_equiv pi s1 s2 /\ m2 = macmap pi m1
  | (s1, inr e1), (s2, inr e2) => run_equiv_err pi s1 s2 /\ ERB pi e1 e2
  | _, _ => False
  end.

Theorem C07_decl_order :
  forall (ctx X : Type) (exec : call ctx -> ctx -> option (ctx * list event))
         (eval : call ctx -> ctx -> option bool) (emit : Z -> meta -> X -> X * option err)
         (sc1 sc2 : chart) (pi : nat -> nat),
    chart_perm sc1 sc2 pi ->
    (forall c x, exec (cmap pi c) x = exec c x) ->
    (forall c x, eval (cmap pi c) x = eval c x) ->
    (forall t m x e, snd (emit t m x) = Some e -> emap pi e = e) ->
    forall fuel now (s1 s2 : mstate ctx X),
      run_equiv pi s1 s2 ->
      decl_outcome pi (execute_once ctx X exec eval emit sc1 fuel now s1)
                      (execute_once ctx X exec eval emit sc2 fuel now s2).
Proof.
  intros ctx X exec eval emit sc1 sc2 pi [[H1 H2 H3 H4 H5 H6 H7] Htr Hinj Hlen] Hexec Heval Hemit
         fuel now s1 s2 HS.
  pose proof (sim_execute_once_B sc1 sc2 pi H1 H2 H3 H4 H5 H6 Htr Hinj Hlen ctx X exec exec eval eval
                emit Hexec Heval Hemit H7 fuel now s1 s2 HS) as Hsim.
  unfold orel in Hsim. unfold decl_outcome.
  destruct (execute_once ctx X exec eval emit sc1 fuel now s1) as [s1' [a|e1]],
           (execute_once ctx X exec eval emit sc2 fuel now s2) as [s2' [b|e2]]; exact Hsim.
Qed.

(* a freshly created interpreter is related to itself *)
Lemma run_equiv_init pi ctx X id now ignore (c0 : ctx) (x : X) :
  run_equiv pi (mkM (init_istate id now ignore c0) x []) (mkM (init_istate id now ignore c0) x []).
Proof.
  split; [|split; reflexivity]. split; [constructor; cbn; auto|]. cbn. intros k. exact I.
Qed.

(* ---- the concrete notion: permuted dictionaries / lists ---- *)
Definition children_perm (d1 d2 : list (option name * list name)) : Prop :=
  exists mid, Permutation d1 mid /\
              Forall2 (fun a b => fst a = fst b /\ Permutation (snd a) (snd b)) mid d2.

Record perm_chart (sc1 sc2 : chart) : Prop := mkPC {
  pc_states : Permutation (c_states sc1) (c_states sc2);
  pc_parent : Permutation (c_parent sc1) (c_parent sc2);
  pc_children : children_perm (c_children sc1) (c_children sc2);
  pc_trans : Permutation (c_transitions sc1) (c_transitions sc2)
}.

Lemma c7_lookup_In {V} (d : list (name * V)) k v :
  NoDup (map fst d) -> (lookup k d = Some v <-> In (k, v) d).
Proof.
  induction d as [|[k' v'] d IH]; intros Hnd; simpl.
  - split; [discriminate|intros []].
  - inversion Hnd as [|x l Hnin Hnd']; subst. destruct (str_eqb k k') eqn:E.
    + apply str_eqb_spec in E. subst k'. split.
      * intros H; inversion H; subst. left; reflexivity.
      * intros [H|H]; [inversion H; reflexivity|].
        exfalso. apply Hnin. change k with (fst (k, v)). apply in_map. exact H.
    + rewrite (IH Hnd'). split; [intros H; right; exact H|].
      intros [H|H]; [|exact H]. inversion H; subst.
      unfold str_eqb in E. rewrite String.eqb_refl in E. discriminate.
Qed.

Lemma c7_lookup_perm {V} (d d' : list (name * V)) k :
  NoDup (map fst d) -> Permutation d d' -> lookup k d' = lookup k d.
Proof.
  intros Hnd HP.
  assert (Hnd' : NoDup (map fst d')).
  { eapply Permutation_NoDup; [apply Permutation_map; exact HP|exact Hnd]. }
  destruct (lookup k d) as [v|] eqn:E.
  - apply (c7_lookup_In d' k v Hnd'). eapply Permutation_in; [exact HP|].
    apply (c7_lookup_In d k v Hnd). exact E.
  - destruct (lookup k d') as [v'|] eqn:E'; [|reflexivity].
    apply (c7_lookup_In d' k v' Hnd') in E'.
    apply (Permutation_in _ (Permutation_sym HP)) in E'.
    apply (c7_lookup_In d k v' Hnd) in E'. congruence.
Qed.

Lemma c7_ostr_eqb_spec a b : opt_eqb str_eqb a b = true <-> a = b.
Proof.
  destruct a as [a|], b as [b|]; simpl; try (split; [discriminate|discriminate]); try tauto.
  rewrite str_eqb_spec. split; [intros ->; reflexivity|intros H; inversion H; reflexivity].
Qed.

Lemma c7_olookup_In {V} (d : list (option name * V)) k v :
  NoDup (map fst d) -> (olookup k d = Some v <-> In (k, v) d).
Proof.
  induction d as [|[k' v'] d IH]; intros Hnd; simpl.
  - split; [discriminate|intros []].
  - inversion Hnd as [|x l Hnin Hnd']; subst. destruct (opt_eqb str_eqb k k') eqn:E.
    + apply c7_ostr_eqb_spec in E. subst k'. split.
      * intros H; inversion H; subst. left; reflexivity.
      * intros [H|H]; [inversion H; reflexivity|].
        exfalso. apply Hnin. change k with (fst (k, v)). apply in_map. exact H.
    + rewrite (IH Hnd'). split; [intros H; right; exact H|].
      intros [H|H]; [|exact H]. inversion H; subst.
      assert (opt_eqb str_eqb k k = true) by (apply c7_ostr_eqb_spec; reflexivity). congruence.
Qed.

Lemma c7_olookup_perm {V} (d d' : list (option name * V)) k :
  NoDup (map fst d) -> Permutation d d' -> olookup k d' = olookup k d.
Proof.
  intros Hnd HP.
  assert (Hnd' : NoDup (map fst d')).
  { eapply Permutation_NoDup; [apply Permutation_map; exact HP|exact Hnd]. }
  destruct (olookup k d) as [v|] eqn:E.
  - apply (c7_olookup_In d' k v Hnd'). eapply Permutation_in; [exact HP|].
    apply (c7_olookup_In d k v Hnd). exact E.
  - destruct (olookup k d') as [v'|] eqn:E'; [|reflexivity].
    apply (c7_olookup_In d' k v' Hnd') in E'.
    apply (Permutation_in _ (Permutation_sym HP)) in E'.
    apply (c7_olookup_In d k v' Hnd) in E'. congruence.
Qed.

Lemma c7_olookup_F2 (d d' : list (option name * list name)) k :
  Forall2 (fun a b => fst a = fst b /\ Permutation (snd a) (snd b)) d d' ->
  match olookup k d, olookup k d' with
  | Some l, Some l' => Permutation l l'
  | None, None => True
  | _, _ => False
  end.
Proof.
  intros H. induction H as [|[k1 l1] [k2 l2] d d' [Hk Hl] H IH]; simpl; [exact I|].
  cbn [fst snd] in *. subst k2. destruct (opt_eqb str_eqb k k1); [exact Hl|exact IH].
Qed.

Lemma c7_root_of_In d r : root_of d = Some r -> In (r, None) d.
Proof.
  induction d as [|[n [p|]] d IH]; simpl; [discriminate| |].
  - intros H. right. apply IH; exact H.
  - intros H. inversion H; subst. left; reflexivity.
Qed.

Lemma c7_root_of_none d : root_of d = None -> forall n, ~ In (n, None) d.
Proof.
  induction d as [|[m [p|]] d IH]; simpl; [intros _ n []| |discriminate].
  intros H n [Hn|Hn]; [discriminate|]. exact (IH H n Hn).
Qed.

Lemma c7_root_perm d d' :
  (forall n m, In (n, None) d -> In (m, None) d -> n = m) ->
  Permutation d d' -> root_of d' = root_of d.
Proof.
  intros Huniq HP. destruct (root_of d) as [r|] eqn:E.
  - apply c7_root_of_In in E. destruct (root_of d') as [r'|] eqn:E'.
    + apply c7_root_of_In in E'. apply (Permutation_in _ (Permutation_sym HP)) in E'.
      f_equal. apply Huniq; assumption.
    + exfalso. apply (c7_root_of_none _ E' r). eapply Permutation_in; [exact HP|exact E].
  - destruct (root_of d') as [r'|] eqn:E'; [|reflexivity]. exfalso.
    apply c7_root_of_In in E'. apply (Permutation_in _ (Permutation_sym HP)) in E'.
    exact (c7_root_of_none _ E r' E').
Qed.

(* tree consistency of the descendants computation (decided by desc_okb below on concrete charts) *)
Definition desc_ok (sc : chart) : Prop :=
  forall a, NoDup (descendants_for sc a)
            /\ forall d, In d (descendants_for sc a) <-> In a (ancestors_for sc d).

(* well-formedness used to pass from permuted dictionaries to equal lookups *)
Record decl_wf (sc : chart) : Prop := mkDW {
  dw_states : NoDup (map fst (c_states sc));
  dw_parent : NoDup (map fst (c_parent sc));
  dw_children : NoDup (map fst (c_children sc));
  dw_root : forall n m, In (n, None) (c_parent sc) -> In (m, None) (c_parent sc) -> n = m;
  dw_kreg : forall p c, In c (children_for sc p) -> state_for sc c <> None
}.

Theorem perm_chart_struct sc1 sc2 :
  perm_chart sc1 sc2 -> decl_wf sc1 -> desc_ok sc1 -> desc_ok sc2 -> struct_equiv sc1 sc2.
Proof.
  intros [Ps Pp (mid & Pc1 & Pc2) Pt] [Ws Wp Wc Wr Wk] D1 D2.
  assert (Hst : forall n, state_for sc2 n = state_for sc1 n).
  { intros n. unfold state_for. apply c7_lookup_perm; assumption. }
  assert (Hpar : forall n, parent_for sc2 n = parent_for sc1 n).
  { intros n. unfold parent_for. rewrite (c7_lookup_perm _ _ n Wp Pp). reflexivity. }
  assert (Hplen : length (c_parent sc2) = length (c_parent sc1)).
  { symmetry. apply Permutation_length. exact Pp. }
  assert (Hkids : forall n, Permutation (children_for sc1 n) (children_for sc2 n)).
  { intros n. unfold children_for. rewrite <- (c7_olookup_perm _ _ (Some n) Wc Pc1).
    pose proof (c7_olookup_F2 mid (c_children sc2) (Some n) Pc2) as H.
    destruct (olookup (Some n) mid), (olookup (Some n) (c_children sc2)); try contradiction;
      [exact H|apply Permutation_refl]. }
  constructor; try assumption.
  - intros n. destruct (D1 n) as [N1 I1]. destruct (D2 n) as [N2 I2].
    apply NoDup_Permutation; [exact N1|exact N2|]. intros d. rewrite I1, I2.
    rewrite (c7_anc sc1 sc2 Hpar Hplen). reflexivity.
  - unfold root. apply c7_root_perm; assumption.
  - right. exact Wk.
Qed.

Theorem perm_chart_sim sc1 sc2 :
  perm_chart sc1 sc2 -> decl_wf sc1 -> desc_ok sc1 -> desc_ok sc2 ->
  exists pi, chart_perm sc1 sc2 pi.
Proof.
  intros HP W D1 D2. pose proof (perm_chart_struct sc1 sc2 HP W D1 D2) as HSE.
  destruct HP as [_ _ _ Pt].
  apply Permutation_sym in Pt. apply Permutation_nth_error in Pt.
  destruct Pt as (Hlen & f & Hinj & Hf). exists f. constructor.
  - exact HSE.
  - intros i. symmetry. apply Hf.
  - exact Hinj.
  - exact Hlen.
Qed.

(* Goal 4 in its concrete form *)
Theorem C07_decl_order_perm :
  forall (ctx X : Type) (exec : call ctx -> ctx -> option (ctx * list event))
         (eval : call ctx -> ctx -> option bool) (emit : Z -> meta -> X -> X * option err)
         (sc1 sc2 : chart),
    perm_chart sc1 sc2 -> decl_wf sc1 -> desc_ok sc1 -> desc_ok sc2 ->
    (forall pi c x, exec (cmap pi c) x = exec c x) ->
    (forall pi c x, eval (cmap pi c) x = eval c x) ->
    (forall pi t m x e, snd (emit t m x) = Some e -> emap pi e = e) ->
    exists pi,
      chart_perm sc1 sc2 pi /\
      forall fuel now (s1 s2 : mstate ctx X),
        run_equiv pi s1 s2 ->
        decl_outcome pi (execute_once ctx X exec eval emit sc1 fuel now s1)
                        (execute_once ctx X exec eval emit sc2 fuel now s2).
Proof.
  intros ctx X exec eval emit sc1 sc2 HP W D1 D2 Hexec Heval Hemit.
  destruct (perm_chart_sim sc1 sc2 HP W D1 D2) as [pi Hpi]. exists pi. split; [exact Hpi|].
  intros fuel now s1 s2 HS.
  apply (C07_decl_order ctx X exec eval emit sc1 sc2 pi Hpi (Hexec pi) (Heval pi) (Hemit pi)).
  exact HS.
Qed.


(* ================================================================== Part 5: checkers, reversal, example *)
(* ---- deciding desc_ok and decl_wf on a concrete chart ---- *)
Fixpoint c7_nodupb (l : list name) : bool :=
  match l with [] => true | x :: r => negb (mem x r) && c7_nodupb r end.

Lemma c7_nodupb_sound l : c7_nodupb l = true -> NoDup l.
Proof.
  induction l as [|x l IH]; simpl; [constructor|]. rewrite andb_true_iff, negb_true_iff.
  intros [H1 H2]. constructor; [apply mem_false_iff; exact H1|apply IH; exact H2].
Qed.

Definition okeys {V} (d : list (option name * V)) : list name :=
  flat_map (fun p => match fst p with Some n => [n] | None => [] end) d.

Lemma c7_olookup_none {V} (d : list (option name * V)) a :
  ~ In a (okeys d) -> olookup (Some a) d = None.
Proof.
  induction d as [|[[k|] v] d IH]; simpl; intros H; [reflexivity| |].
  - destruct (str_eqb a k) eqn:E.
    + apply str_eqb_spec in E. subst. exfalso. apply H. left; reflexivity.
    + apply IH. intros Hin. apply H. right; exact Hin.
  - apply IH. exact H.
Qed.

Lemma c7_desc_nil sc a : children_for sc a = [] -> descendants_for sc a = [].
Proof.
  intros H. unfold descendants_for. cbn [bfs]. rewrite H. cbn [app].
  destruct (length (c_states sc)); reflexivity.
Qed.

Definition desc_okb (sc : chart) : bool :=
  forallb (fun a => c7_nodupb (descendants_for sc a)
                    && forallb (fun d => mem a (ancestors_for sc d)) (descendants_for sc a))
          (okeys (c_children sc))
  && forallb (fun d => forallb (fun a => mem d (descendants_for sc a)) (ancestors_for sc d))
             (map fst (c_parent sc)).

Lemma c7_lookup_keys {V} (k : name) (d : list (name * V)) v : lookup k d = Some v -> In k (map fst d).
Proof.
  induction d as [|[k' v'] d IH]; simpl; [discriminate|]. destruct (str_eqb k k') eqn:E.
  - apply str_eqb_spec in E. intros _. left; symmetry; exact E.
  - intros H. right. apply IH; exact H.
Qed.

Lemma desc_okb_sound sc : desc_okb sc = true -> desc_ok sc.
Proof.
  unfold desc_okb. rewrite andb_true_iff, !forallb_forall. intros [H1 H2] a.
  destruct (in_dec string_dec a (okeys (c_children sc))) as [Hin|Hnin].
  - specialize (H1 a Hin). rewrite andb_true_iff, forallb_forall in H1. destruct H1 as [N F].
    split; [apply c7_nodupb_sound; exact N|]. intros d. split.
    + intros Hd. apply mem_In. apply F; exact Hd.
    + intros Ha. destruct (lookup d (c_parent sc)) as [p|] eqn:El.
      * apply c7_lookup_keys in El. specialize (H2 d El). rewrite forallb_forall in H2.
        apply mem_In. apply H2; exact Ha.
      * exfalso. unfold ancestors_for, parent_for in Ha. rewrite El in Ha.
        destruct (length (c_parent sc)); destruct Ha.
  - assert (E : descendants_for sc a = []).
    { apply c7_desc_nil. unfold children_for. rewrite (c7_olookup_none _ a Hnin). reflexivity. }
    rewrite E. split; [constructor|]. intros d. split; [intros []|].
    intros Ha. destruct (lookup d (c_parent sc)) as [p|] eqn:El.
    + apply c7_lookup_keys in El. specialize (H2 d El). rewrite forallb_forall in H2.
      specialize (H2 a Ha). rewrite E in H2. discriminate.
    + exfalso. unfold ancestors_for, parent_for in Ha. rewrite El in Ha.
      destruct (length (c_parent sc)); destruct Ha.
Qed.

Definition kreg_okb (sc : chart) : bool :=
  forallb (fun p => forallb (fun c => match state_for sc c with Some _ => true | None => false end)
                            (snd p)) (c_children sc).

Lemma c7_olookup_some_In {V} (d : list (option name * V)) k v : olookup k d = Some v -> In (k, v) d.
Proof.
  induction d as [|[k' v'] d IH]; simpl; [discriminate|]. destruct (opt_eqb str_eqb k k') eqn:E.
  - apply c7_ostr_eqb_spec in E. intros H; inversion H; subst. left; reflexivity.
  - intros H. right. apply IH; exact H.
Qed.

Lemma kreg_okb_sound sc :
  kreg_okb sc = true -> forall p c, In c (children_for sc p) -> state_for sc c <> None.
Proof.
  unfold kreg_okb. rewrite forallb_forall. intros H p c Hc. unfold children_for in Hc.
  destruct (olookup (Some p) (c_children sc)) as [l|] eqn:E; [|destruct Hc].
  apply c7_olookup_some_In in E. specialize (H _ E). cbn [snd] in H. rewrite forallb_forall in H.
  specialize (H c Hc). destruct (state_for sc c); [discriminate|discriminate].
Qed.

(* ---- reversing every declaration order is an instance of perm_chart, for every chart ---- *)
Definition rev_chart (sc : chart) : chart :=
  mkChart (c_name sc) (c_description sc) (c_preamble sc)
          (rev (c_states sc)) (rev (c_parent sc))
          (rev (map (fun p => (fst p, rev (snd p))) (c_children sc)))
          (rev (c_transitions sc)).

Theorem perm_chart_rev sc : perm_chart sc (rev_chart sc).
Proof.
  constructor; cbn [rev_chart c_states c_parent c_children c_transitions]; try apply Permutation_rev.
  exists (rev (c_children sc)). split; [apply Permutation_rev|].
  rewrite <- map_rev. induction (rev (c_children sc)) as [|[k l] d IH]; simpl; constructor; [|exact IH].
  cbn [fst snd]. split; [reflexivity|apply Permutation_rev].
Qed.

(* ---- a concrete chart: root > P (orthogonal) > { A > {a1, a2, hA (shallow history)}, B > {b1, b2} } ---- *)
Definition c07_chart : chart :=
  let mk n k i m := (n, mkState n k i m (Some (String.append "enter " n)) (Some (String.append "exit " n)) [] [] []) in
  mkChart "c07" None None
    [mk "root" KCompound (Some "P") None; mk "P" KOrthogonal None None;
     mk "A" KCompound (Some "a1") None; mk "B" KCompound (Some "b1") None;
     mk "a1" KBasic None None; mk "a2" KBasic None None; mk "hA" KShallow None (Some "a1");
     mk "b1" KBasic None None; mk "b2" KBasic None None]
    [("root", None); ("P", Some "root"); ("A", Some "P"); ("B", Some "P"); ("a1", Some "A");
     ("a2", Some "A"); ("hA", Some "A"); ("b1", Some "B"); ("b2", Some "B")]
    [(None, ["root"]); (Some "root", ["P"]); (Some "P", ["A"; "B"]); (Some "A", ["a1"; "a2"; "hA"]);
     (Some "B", ["b1"; "b2"])]
    [mkTrans "a1" (Some "a2") (Some "go") None (Some "x = 1") 0 [] [] [];
     mkTrans "b1" (Some "b2") (Some "go") None None 0 [] [] [];
     mkTrans "a2" (Some "a1") (Some "go") (Some "g") None 0 ["pre"] [] [];
     mkTrans "P" (Some "P") (Some "reset") None None 0 [] [] []].

Definition c07_chart' : chart := rev_chart c07_chart.

(* index of a transition of c07_chart in c07_chart' *)
Definition c07_pi (i : nat) : nat := if Nat.ltb i 4 then (3 - i)%nat else i.

Example c07_desc_ok : desc_ok c07_chart /\ desc_ok c07_chart'.
Proof. split; apply desc_okb_sound; vm_compute; reflexivity. Qed.

Example c07_decl_wf : decl_wf c07_chart.
Proof.
  constructor.
  - apply c7_nodupb_sound. vm_compute. reflexivity.
  - apply c7_nodupb_sound. vm_compute. reflexivity.
  - cbn. repeat (constructor; [simpl; intuition congruence|]). constructor.
  - cbn. intros n m Hn Hm.
    repeat (destruct Hn as [Hn|Hn]; [try discriminate Hn|]); try contradiction.
    repeat (destruct Hm as [Hm|Hm]; [try discriminate Hm|]); try contradiction.
    congruence.
  - apply kreg_okb_sound. vm_compute. reflexivity.
Qed.

Example c07_chart_perm : chart_perm c07_chart c07_chart' c07_pi.
Proof.
  constructor.
  - apply perm_chart_struct; [apply perm_chart_rev|apply c07_decl_wf|apply c07_desc_ok|apply c07_desc_ok].
  - intros i. do 4 (destruct i as [|i]; [reflexivity|]). destruct i; reflexivity.
  - intros i j. unfold c07_pi. destruct (Nat.ltb_spec i 4), (Nat.ltb_spec j 4); intros; lia.
  - reflexivity.
Qed.

(* a deterministic evaluator that does not look at the owner of the code: guards hold, actions
   send nothing; the listener records the meta events *)
Definition c07_exec (c : call unit) (x : unit) : option (unit * list event) := Some (x, []).
Definition c07_eval (c : call unit) (x : unit) : option bool := Some true.
Definition c07_emit (t : Z) (m : meta) (x : list meta) : list meta * option err := (m :: x, None).

Definition c07_init : mstate unit (list meta) := mkM (init_istate 0 0 false tt) [] [].

(* initial step; "go" (two transitions in the orthogonal regions); "go" again; "reset" *)
Definition c07_run (sc : chart) :=
  let step s := execute_once unit (list meta) c07_exec c07_eval c07_emit sc 50 0 s in
  let q e s := fst (queue unit (list meta) (mkEvent External e []) s) in
  let '(s1, r1) := step c07_init in
  let '(s2, r2) := step (q "go" s1) in
  let '(s3, r3) := step (q "go" s2) in
  let '(s4, r4) := step (q "reset" s3) in
  ([r1; r2; r3; r4], sort_names (i_config (m_i s4)), m_x s4, i_memory (m_i s4)).

Definition c07_map_result (r : option macrostep + err) : option macrostep + err :=
  match r with inl m => inl (macmap c07_pi m) | inr e => inr (emap c07_pi e) end.

(* the two declaration orders produce the same macro steps (transition indices renamed), the same
   final configuration, the same sequence of meta events and the same history memory *)
Example c07_same_runs :
  let '(rs, cfg, metas, memo) := c07_run c07_chart in
  c07_run c07_chart' = (map c07_map_result rs, cfg, metas, memo).
Proof. vm_compute. reflexivity. Qed.

(* the run is not trivial: the second macro step fires two transitions, the fourth exits and
   re-enters the orthogonal state (recording the shallow history of A) *)
Example c07_run_shape :
  let '(rs, cfg, metas, memo) := c07_run c07_chart in
  map (fun r => match r with
                | inl (Some (_, steps)) => map ms_trans steps
                | _ => []
                end) rs
  = [[None; None; None; None; None]; [Some 0; Some 1]; [Some 2]; [Some 3; None; None; None]]
  /\ cfg = ["A"; "B"; "P"; "a1"; "b1"; "root"]
  /\ memo = [("hA", ["a1"])].
Proof. vm_compute. repeat split. Qed.

(* the declaration orders really differ: children of P and the transitions are swapped *)
Example c07_orders_differ :
  children_for c07_chart "P" = ["A"; "B"] /\ children_for c07_chart' "P" = ["B"; "A"]
  /\ map t_source (c_transitions c07_chart) = ["a1"; "b1"; "a2"; "P"]
  /\ map t_source (c_transitions c07_chart') = ["P"; "a2"; "b1"; "a1"].
Proof. vm_compute. repeat split. Qed.

(* the hypotheses of C07_decl_order are satisfied by this instance *)
Example c07_decl_order_instance :
  forall fuel now,
    decl_outcome c07_pi
      (execute_once unit (list meta) c07_exec c07_eval c07_emit c07_chart fuel now c07_init)
      (execute_once unit (list meta) c07_exec c07_eval c07_emit c07_chart' fuel now c07_init).
Proof.
  intros fuel now. apply C07_decl_order.
  - apply c07_chart_perm.
  - reflexivity.
  - reflexivity.
  - intros t m x e H. discriminate H.
  - apply run_equiv_init.
Qed.

(* hash seed: the same chart, the configuration set enumerated in two orders *)
Definition c07_state (cfg : list name) : mstate unit (list meta) :=
  mkM (mkIState 0 true 0 [] cfg [] [] [] [] [(0%Z, mkEvent External "go" [])] false tt []) [] [].

Example c07_hashseed_instance :
  ms_equiv (c07_state ["root"; "P"; "A"; "B"; "a1"; "b1"]) (c07_state ["b1"; "a1"; "B"; "root"; "A"; "P"]).
Proof.
  split; [|split; reflexivity].
  exists ["b1"; "a1"; "B"; "root"; "A"; "P"], []. split; [|split; [apply c7_mem_rel_refl|reflexivity]].
  cbn [c07_state m_i i_config].
  apply (Permutation_cons_app ["b1"; "a1"; "B"] ["A"; "P"] "root").
  apply (Permutation_cons_app ["b1"; "a1"; "B"; "A"] [] "P").
  apply (Permutation_cons_app ["b1"; "a1"; "B"] [] "A").
  apply (Permutation_cons_app ["b1"; "a1"] [] "B").
  apply (Permutation_cons_app ["b1"] [] "a1"). apply Permutation_refl.
Qed.

Example c07_hashseed_run :
  snd (execute_once unit (list meta) c07_exec c07_eval c07_emit c07_chart 50 0
         (c07_state ["root"; "P"; "A"; "B"; "a1"; "b1"]))
  = snd (execute_once unit (list meta) c07_exec c07_eval c07_emit c07_chart 50 0
         (c07_state ["b1"; "a1"; "B"; "root"; "A"; "P"])).
Proof. vm_compute. reflexivity. Qed.


(* ================================================================== Part 6: named corollaries *)
(* ---- from a simulation with the identity renaming to the readable statement ---- *)
Lemma same_outcome_of_sim {ctx X A} (m1 m2 : M ctx X A) :
  sim idx_id ctx X (fun t1 t2 => t2 = t1) (fun e1 e2 => e2 = e1) eq m1 m2 ->
  forall s1 s2, ms_equiv s1 s2 -> same_outcome (m1 s1) (m2 s2).
Proof.
  intros Hsim s1 s2 (HI & Hx & Ht).
  assert (HS : SR idx_id ctx X (fun t1 t2 => t2 = t1) s1 s2).
  { split; [apply hs_equiv_IR; exact HI|]. split; assumption. }
  specialize (Hsim s1 s2 HS). unfold orel in Hsim. unfold same_outcome.
  destruct (m1 s1) as [s1' [a|e1]], (m2 s2) as [s2' [b|e2]]; try contradiction; cbn [fst snd].
  - destruct Hsim as [(HI' & Hx' & Ht') ->]. split; [reflexivity|].
    split; [apply hs_equiv_IR; exact HI'|]. split; assumption.
  - destruct Hsim as [(HI' & Hx' & Ht') ->]. split; [reflexivity|].
    split; [apply hs_equiv_err_IRe; exact HI'|]. split; assumption.
Qed.

Ltac c7_id_side :=
  first [ assumption
        | solve [intros; apply emap_id]
        | solve [intros; rewrite ?cmap_id; reflexivity]
        | solve [intros; subst; rewrite ?cmap_id, ?(map_id_ext idx_id) by reflexivity; reflexivity]
        | solve [intros; assumption] ].

Section Corollaries.
  Variable ctx X : Type.
  Variable exec : call ctx -> ctx -> option (ctx * list event).
  Variable eval : call ctx -> ctx -> option bool.
  Variable emit : Z -> meta -> X -> X * option err.

  (* ---------------- goal 2: children lists / dictionaries declared in another order ---------------- *)
  Section DeclChildren.
    Variable sc1 sc2 : chart.
    Hypothesis HSE : struct_equiv sc1 sc2.

    Corollary C07_decl_ancestors n : ancestors_for sc2 n = ancestors_for sc1 n.
    Proof. destruct HSE. eapply c7_anc; eassumption. Qed.
    Corollary C07_decl_depth n : depth_for sc2 n = depth_for sc1 n.
    Proof. destruct HSE. eapply c7_depth; eassumption. Qed.
    Corollary C07_decl_lca a b : least_common_ancestor sc2 a b = least_common_ancestor sc1 a b.
    Proof. destruct HSE. eapply c7_lca; eassumption. Qed.
    Corollary C07_decl_descendants n :
      Permutation (descendants_for sc1 n) (descendants_for sc2 n)
      /\ sort (exit_order_leb sc2) (descendants_for sc2 n) = sort (exit_order_leb sc1) (descendants_for sc1 n).
    Proof. destruct HSE. split; [auto|]. eapply c7_sorted_desc; eassumption. Qed.
    Corollary C07_decl_sorted_children n :
      sort_names (children_for sc2 n) = sort_names (children_for sc1 n).
    Proof. destruct HSE. symmetry. apply c7_sort_names_perm. auto. Qed.
    Corollary C07_decl_root : root sc2 = root sc1.
    Proof. apply HSE. Qed.
    Corollary C07_decl_stays_below lca t : stays_below sc2 lca t = stays_below sc1 lca t.
    Proof. destruct HSE. eapply c7_stays_below; eassumption. Qed.
    Corollary C07_decl_check_pair t1 t2 : check_pair sc2 t1 t2 = check_pair sc1 t1 t2.
    Proof. destruct HSE. eapply c7_check_pair; eassumption. Qed.
    Corollary C07_decl_create_step cfg1 cfg2 ev it :
      Permutation cfg1 cfg2 -> create_step sc2 cfg2 ev it = create_step sc1 cfg1 ev it.
    Proof.
      intros HP. destruct HSE.
      rewrite <- (imap_id it) at 1. rewrite <- (mmap_id (create_step sc1 cfg1 ev it)).
      eapply c7_create_step; eassumption.
    Qed.
    Corollary C07_decl_leaf_for cfg1 cfg2 :
      Permutation cfg1 cfg2 ->
      Permutation (leaf_for sc1 cfg1) (leaf_for sc2 cfg2)
      /\ sort (leaf_order_leb sc2) (leaf_for sc2 cfg2) = sort (leaf_order_leb sc1) (leaf_for sc1 cfg1).
    Proof.
      intros HP. destruct HSE.
      assert (HL : Permutation (leaf_for sc1 cfg1) (leaf_for sc2 cfg2)) by (eapply c7_leaf_for; eassumption).
      split; [exact HL|].
      rewrite (c7_sort_ext (leaf_order_leb sc2) (exit_order_leb sc1) _
                 (c7_exit_order sc1 sc2 se_parent0 se_plen0)).
      symmetry. apply c7_sort_exit_perm. exact HL.
    Qed.
    Corollary C07_decl_configuration cfg1 cfg2 :
      Permutation cfg1 cfg2 -> configuration sc2 cfg2 = configuration sc1 cfg1.
    Proof. intros HP. destruct HSE. eapply c7_configuration; eassumption. Qed.
    Corollary C07_decl_stabilization_step (i1 i2 : istate ctx) :
      hs_equiv i1 i2 -> create_stabilization_step ctx sc2 i2 = create_stabilization_step ctx sc1 i1.
    Proof.
      intros HI. apply hs_equiv_IR in HI. destruct HSE. eapply (c7_css sc1 sc2 idx_id); eassumption.
    Qed.
    Corollary C07_decl_record_history active1 active2 st (s1 s2 : mstate ctx X) :
      Permutation active1 active2 -> ms_equiv s1 s2 ->
      same_outcome (record_history ctx X sc1 active1 st s1) (record_history ctx X sc2 active2 st s2).
    Proof.
      intros HP HS. apply same_outcome_of_sim; [|exact HS].
      eapply sim_weaken; [|destruct HSE; eapply (sim_record_history sc1 sc2 idx_id); try eassumption;
                           c7_id_side].
      intros [] [] _. reflexivity.
    Qed.

    (* transitions in the same order: selection (result and trace of guard evaluations), full runs *)
    Hypothesis Htrs : c_transitions sc2 = c_transitions sc1.

    Corollary C07_decl_select_transitions ev cfg1 cfg2 (s1 s2 : mstate ctx X) :
      Permutation cfg1 cfg2 -> ms_equiv s1 s2 ->
      same_outcome (select_transitions ctx X eval sc1 ev cfg1 s1)
                   (select_transitions ctx X eval sc2 ev cfg2 s2).
    Proof.
      intros HP HS. apply same_outcome_of_sim; [|exact HS].
      eapply sim_weaken;
        [|destruct HSE; eapply (sim_select_A sc1 sc2 idx_id); try eassumption;
          try (apply itransitions_id; exact Htrs); try (intros i; rewrite Htrs; reflexivity);
          c7_id_side].
      intros a b ->. symmetry. apply map_id_ext. apply imap_id.
    Qed.

    Corollary C07_decl_children_ops ops (s1 s2 : mstate ctx X) :
      ms_equiv s1 s2 ->
      same_outcome (run_ops ctx X exec eval emit sc1 ops s1) (run_ops ctx X exec eval emit sc2 ops s2).
    Proof.
      intros HS. apply same_outcome_of_sim; [|exact HS].
      eapply sim_weaken;
        [|destruct HSE; eapply (sim_run_ops sc1 sc2 idx_id); try eassumption; try c7_id_side].
      - intros a b ->. symmetry. unfold macsmap. apply map_id_ext. intros [t ex]. cbn [fst snd].
        rewrite (map_id_ext _ _ mmap_id). reflexivity.
      - intros fuel now.
        eapply (sim_execute_once_A sc1 sc2 idx_id); try eassumption;
          try (apply itransitions_id; exact Htrs); try (intros i; rewrite Htrs; reflexivity);
          c7_id_side.
    Qed.
  End DeclChildren.

  (* ---------------- goal 1: the same chart, sets enumerated in another order ---------------- *)
  Variable sc : chart.

  Corollary C07_hashseed_considered ev cfg1 cfg2 :
    Permutation cfg1 cfg2 -> considered sc ev cfg2 = considered sc ev cfg1.
  Proof.
    intros HP. unfold considered. apply filter_ext. intros it.
    rewrite (c7_mem_perm _ _ _ HP). reflexivity.
  Qed.
  Corollary C07_hashseed_select_transitions ev cfg1 cfg2 (s1 s2 : mstate ctx X) :
    Permutation cfg1 cfg2 -> ms_equiv s1 s2 ->
    same_outcome (select_transitions ctx X eval sc ev cfg1 s1) (select_transitions ctx X eval sc ev cfg2 s2).
  Proof. apply C07_decl_select_transitions; [apply struct_equiv_refl|reflexivity]. Qed.
  Corollary C07_hashseed_create_steps cfg1 cfg2 ev ts :
    Permutation cfg1 cfg2 -> create_steps sc cfg2 ev ts = create_steps sc cfg1 ev ts.
  Proof.
    intros HP. unfold create_steps. apply map_ext. intros it.
    apply C07_decl_create_step; [apply struct_equiv_refl|exact HP].
  Qed.
  Corollary C07_hashseed_leaf_for cfg1 cfg2 :
    Permutation cfg1 cfg2 ->
    Permutation (leaf_for sc cfg1) (leaf_for sc cfg2)
    /\ sort (leaf_order_leb sc) (leaf_for sc cfg2) = sort (leaf_order_leb sc) (leaf_for sc cfg1).
  Proof. apply C07_decl_leaf_for. apply struct_equiv_refl. Qed.
  Corollary C07_hashseed_stabilization_step (i1 i2 : istate ctx) :
    hs_equiv i1 i2 -> create_stabilization_step ctx sc i2 = create_stabilization_step ctx sc i1.
  Proof. apply C07_decl_stabilization_step. apply struct_equiv_refl. Qed.
  Corollary C07_hashseed_configuration cfg1 cfg2 :
    Permutation cfg1 cfg2 -> configuration sc cfg2 = configuration sc cfg1.
  Proof. apply C07_decl_configuration. apply struct_equiv_refl. Qed.
  Corollary C07_hashseed_mk_call (i1 i2 : istate ctx) k o idx cd ev :
    hs_equiv i1 i2 -> mk_call ctx sc i2 k o idx cd ev = mk_call ctx sc i1 k o idx cd ev.
  Proof.
    intros HI. apply hs_equiv_IR in HI. rewrite <- (omap_id o) at 1.
    rewrite (c7_mk_call sc sc idx_id (fun i => eq_refl) (fun i j H => H) ctx i1 i2 k o idx cd ev (proj1 HI)).
    apply cmap_id.
  Qed.
  Corollary C07_hashseed_record_history active1 active2 st (s1 s2 : mstate ctx X) :
    Permutation active1 active2 -> ms_equiv s1 s2 ->
    same_outcome (record_history ctx X sc active1 st s1) (record_history ctx X sc active2 st s2).
  Proof. apply C07_decl_record_history. apply struct_equiv_refl. Qed.
  Corollary C07_hashseed_config_updates x cfg1 cfg2 :
    Permutation cfg1 cfg2 ->
    Permutation (set_add x cfg1) (set_add x cfg2) /\ Permutation (remove_first x cfg1) (remove_first x cfg2).
  Proof. intros HP. split; [apply c7_set_add_perm|apply c7_remove_first_perm]; exact HP. Qed.
  Corollary C07_hashseed_ops ops (s1 s2 : mstate ctx X) :
    ms_equiv s1 s2 ->
    same_outcome (run_ops ctx X exec eval emit sc ops s1) (run_ops ctx X exec eval emit sc ops s2).
  Proof. apply C07_decl_children_ops; [apply struct_equiv_refl|reflexivity]. Qed.
End Corollaries.

(* ---------------- goal 3: transitions declared in another order ---------------- *)
Definition select_outcome (pi : nat -> nat) {ctx X}
           (o1 o2 : mstate ctx X * (list itrans + err)) : Prop :=
  match o1, o2 with
  | (s1, inl ts1), (s2, inl ts2) => run_equiv pi s1 s2 /\ BP pi ts1 ts2
  | (s1, inr e1), (s2, inr e2) => run_equiv_err pi s1 s2 /\ ERB pi e1 e2
  | _, _ => False
  end.

(* _select_transitions selects the same transitions (BP: the same blocks, one per source state, in
   the same order; inside a block the declaration order shows).  The guards are evaluated in another
   order (the guard observations are not compared by run_equiv) but they are pure, so the values
   agree; if some guard cannot be evaluated both runs fail with a guard CodeEvaluationError, possibly
   of different transitions. *)
Theorem C07_decl_transitions :
  forall (ctx X : Type) (eval : call ctx -> ctx -> option bool) (sc1 sc2 : chart) (pi : nat -> nat),
    chart_perm sc1 sc2 pi ->
    (forall c x, eval (cmap pi c) x = eval c x) ->
    forall ev cfg1 cfg2 (s1 s2 : mstate ctx X),
      Permutation cfg1 cfg2 -> run_equiv pi s1 s2 ->
      select_outcome pi (select_transitions ctx X eval sc1 ev cfg1 s1)
                        (select_transitions ctx X eval sc2 ev cfg2 s2).
Proof.
  intros ctx X eval sc1 sc2 pi [[H1 H2 H3 H4 H5 H6 H7] Htr Hinj Hlen] Heval ev cfg1 cfg2 s1 s2 HP HS.
  assert (Hsim : sim pi ctx X (RtB pi ctx) (ERB pi) (BP pi)
                     (select_transitions ctx X eval sc1 ev cfg1) (select_transitions ctx X eval sc2 ev cfg2)).
  { eapply (sim_select_B sc1 sc2 pi); eassumption. }
  specialize (Hsim s1 s2 HS). unfold orel in Hsim. unfold select_outcome.
  destruct (select_transitions ctx X eval sc1 ev cfg1 s1) as [s1' [a|e1]],
           (select_transitions ctx X eval sc2 ev cfg2 s2) as [s2' [b|e2]]; exact Hsim.
Qed.

(* the selected sets correspond through the bijection; as records they are the same multiset *)
Theorem C07_selected_same_set pi ts1 ts2 :
  (forall i j, pi i = pi j -> i = j) -> BP pi ts1 ts2 ->
  (forall it, In (imap pi it) ts2 <-> In it ts1) /\ Permutation (map snd ts1) (map snd ts2).
Proof.
  intros Hinj HB. split; [apply BP_same_set; assumption|].
  apply (PM_snd pi). apply BP_perm. exact HB.
Qed.

(* _sort_transitions: the same error, or the same ordered list of transitions *)
Theorem C07_sort_transitions_decl :
  forall (ctx X : Type) (sc1 sc2 : chart) (pi : nat -> nat),
    chart_perm sc1 sc2 pi ->
    forall ts1 ts2, BP pi ts1 ts2 ->
    forall (s1 s2 : mstate ctx X),
      snd (sort_transitions ctx X sc2 ts2 s2)
      = match snd (sort_transitions ctx X sc1 ts1 s1) with
        | inl r => inl (map (imap pi) r)
        | inr e => inr e
        end.
Proof.
  intros ctx X sc1 sc2 pi [[H1 H2 H3 H4 H5 H6 H7] Htr Hinj Hlen] ts1 ts2 HB s1 s2.
  rewrite !sort_transitions_pure. cbn [snd].
  pose proof (C07_error_kind sc1 sc2 pi H1 H2 H3 H5 ts1 ts2 HB) as E2.
  pose proof (BP_length pi _ _ HB) as HL.
  destruct (check_pairs sc1 ts1) as [e|] eqn:E.
  - destruct ts1 as [|a [|b l]]; [discriminate E|discriminate E|].
    destruct ts2 as [|a2 [|b2 l2]]; try discriminate HL. rewrite E2. reflexivity.
  - rewrite (BP_none pi sc1 ts1 ts2 HB E) in *.
    destruct ts1 as [|a [|b l]]; try reflexivity.
    cbn [map]. cbn [map] in E2. rewrite E2. f_equal.
    change (imap pi a :: imap pi b :: map (imap pi) l) with (map (imap pi) (a :: b :: l)).
    apply c7_sort_map. intros x y. eapply c7_trans_order; eassumption.
Qed.

(* ---------------- goal 4 for sequences of API calls ---------------- *)
Definition ops_outcome (pi : nat -> nat) {ctx X}
           (o1 o2 : mstate ctx X * (list macrostep + err)) : Prop :=
  match o1, o2 with
  | (s1, inl m1), (s2, inl m2) => run_equiv pi s1 s2 /\ m2 = macsmap pi m1
  | (s1, inr e1), (s2, inr e2) => run_equiv_err pi s1 s2 /\ ERB pi e1 e2
  | _, _ => False
  end.

Theorem C07_decl_order_ops :
  forall (ctx X : Type) (exec : call ctx -> ctx -> option (ctx * list event))
         (eval : call ctx -> ctx -> option bool) (emit : Z -> meta -> X -> X * option err)
         (sc1 sc2 : chart) (pi : nat -> nat),
    chart_perm sc1 sc2 pi ->
    (forall c x, exec (cmap pi c) x = exec c x) ->
    (forall c x, eval (cmap pi c) x = eval c x) ->
    (forall t m x e, snd (emit t m x) = Some e -> emap pi e = e) ->
    forall ops (s1 s2 : mstate ctx X),
      run_equiv pi s1 s2 ->
      ops_outcome pi (run_ops ctx X exec eval emit sc1 ops s1) (run_ops ctx X exec eval emit sc2 ops s2).
Proof.
  intros ctx X exec eval emit sc1 sc2 pi [[H1 H2 H3 H4 H5 H6 H7] Htr Hinj Hlen] Hexec Heval Hemit
         ops s1 s2 HS.
  assert (Hsim : sim pi ctx X (RtB pi ctx) (ERB pi) (fun a b => b = macsmap pi a)
                     (run_ops ctx X exec eval emit sc1 ops) (run_ops ctx X exec eval emit sc2 ops)).
  { eapply (sim_run_ops sc1 sc2 pi); try eassumption.
    - apply ERB_map.
    - intros fuel now. eapply (sim_execute_once_B sc1 sc2 pi); eassumption. }
  specialize (Hsim s1 s2 HS). unfold orel in Hsim. unfold ops_outcome.
  destruct (run_ops ctx X exec eval emit sc1 ops s1) as [s1' [a|e1]],
           (run_ops ctx X exec eval emit sc2 ops s2) as [s2' [b|e2]]; exact Hsim.
Qed.

(* ---------------- more non-vacuity: structure-only reordering, error cases ---------------- *)
(* only the dictionaries and the children lists are reversed, the transitions keep their order *)
Definition rev_struct_chart (sc : chart) : chart :=
  mkChart (c_name sc) (c_description sc) (c_preamble sc)
          (rev (c_states sc)) (rev (c_parent sc))
          (rev (map (fun p => (fst p, rev (snd p))) (c_children sc)))
          (c_transitions sc).

Lemma perm_chart_rev_struct sc : perm_chart sc (rev_struct_chart sc).
Proof.
  constructor; cbn [rev_struct_chart c_states c_parent c_children c_transitions];
    try apply Permutation_rev; try apply Permutation_refl.
  exists (rev (c_children sc)). split; [apply Permutation_rev|].
  rewrite <- map_rev. induction (rev (c_children sc)) as [|[k l] d IH]; simpl; constructor; [|exact IH].
  cbn [fst snd]. split; [reflexivity|apply Permutation_rev].
Qed.

Example c07_struct_equiv : struct_equiv c07_chart (rev_struct_chart c07_chart).
Proof.
  apply perm_chart_struct; [apply perm_chart_rev_struct|apply c07_decl_wf|apply c07_desc_ok|].
  apply desc_okb_sound. vm_compute. reflexivity.
Qed.

(* C07_decl_children on this instance: identical results, listener states AND observation traces *)
Definition c07_run_trace (sc : chart) :=
  let step s := execute_once unit (list meta) c07_exec c07_eval c07_emit sc 50 0 s in
  let q e s := fst (queue unit (list meta) (mkEvent External e []) s) in
  let '(s1, r1) := step c07_init in
  let '(s2, r2) := step (q "go" s1) in
  let '(s3, r3) := step (q "reset" s2) in
  ([r1; r2; r3], m_tr s3, m_x s3).

Example c07_decl_children_runs :
  c07_run_trace (rev_struct_chart c07_chart) = c07_run_trace c07_chart
  /\ children_for (rev_struct_chart c07_chart) "A" = ["hA"; "a2"; "a1"].
Proof. vm_compute. split; reflexivity. Qed.

Example c07_decl_children_instance :
  forall fuel now,
    same_outcome
      (execute_once unit (list meta) c07_exec c07_eval c07_emit c07_chart fuel now c07_init)
      (execute_once unit (list meta) c07_exec c07_eval c07_emit (rev_struct_chart c07_chart) fuel now c07_init).
Proof.
  intros fuel now. apply C07_decl_children; [apply c07_struct_equiv|reflexivity|].
  split; [apply hs_equiv_refl|split; reflexivity].
Qed.

(* two enabled transitions with the same source: both declaration orders raise the same error *)
Definition c07_nd_chart : chart :=
  mkChart "nd" None None (c_states c07_chart) (c_parent c07_chart) (c_children c07_chart)
    [mkTrans "a1" (Some "a2") (Some "go") (Some "g0") None 0 [] [] [];
     mkTrans "b1" (Some "b2") (Some "go") None None 0 [] [] [];
     mkTrans "a1" (Some "a1") (Some "go") (Some "g1") None 0 [] [] []].

Definition c07_nd_state : mstate unit (list meta) :=
  mkM (mkIState 0 true 0 [] ["root"; "P"; "A"; "B"; "a1"; "b1"] [] [] [] []
                [(0%Z, mkEvent External "go" [])] false tt []) [] [].

Example c07_same_error :
  snd (execute_once unit (list meta) c07_exec c07_eval c07_emit c07_nd_chart 50 0 c07_nd_state)
    = inr ENonDeterminism
  /\ snd (execute_once unit (list meta) c07_exec c07_eval c07_emit (rev_chart c07_nd_chart) 50 0 c07_nd_state)
    = inr ENonDeterminism.
Proof. vm_compute. split; reflexivity. Qed.

(* The disjunct "two guard evaluation errors" of ERB cannot be dropped: when the guards of two
   transitions of one source both raise, the error reported is the one of the transition declared
   first, i.e. it is attributed to another transition in the other declaration order (same KIND of
   error, as C07 demands; not the same error object). *)
Definition c07_eval_fail (c : call unit) (x : unit) : option bool := None.
Definition c07_nd_pi (i : nat) : nat := if Nat.ltb i 3 then (2 - i)%nat else i.

Theorem C07_guard_error_owner_refuted :
  exists e1 e2,
    snd (execute_once unit (list meta) c07_exec c07_eval_fail c07_emit c07_nd_chart 50 0 c07_nd_state)
      = inr e1
    /\ snd (execute_once unit (list meta) c07_exec c07_eval_fail c07_emit (rev_chart c07_nd_chart) 50 0
              c07_nd_state) = inr e2
    /\ (forall i, nth_error (c_transitions (rev_chart c07_nd_chart)) (c07_nd_pi i)
                   = nth_error (c_transitions c07_nd_chart) i)
    /\ e2 <> emap c07_nd_pi e1
    /\ ERB c07_nd_pi e1 e2.
Proof.
  exists (ECode CGuard (OTrans 0) 0), (ECode CGuard (OTrans 0) 0).
  split; [vm_compute; reflexivity|]. split; [vm_compute; reflexivity|]. split.
  - intros i. do 3 (destruct i as [|i]; [reflexivity|]). destruct i; reflexivity.
  - split; [vm_compute; discriminate|]. right. exists (OTrans 0), (OTrans 0). split; reflexivity.
Qed.

(* C07_function: the model is a function of chart, evaluator, listeners and inputs (trivially) *)
Theorem C07_function :
  forall ctx X exec eval emit sc ops (s s' : mstate ctx X),
    s = s' -> run_ops ctx X exec eval emit sc ops s = run_ops ctx X exec eval emit sc ops s'.
Proof. intros. subst. reflexivity. Qed.

Print Assumptions C07_hashseed_execute_once.
Print Assumptions C07_hashseed_ops.
Print Assumptions C07_decl_children.
Print Assumptions C07_decl_children_ops.
Print Assumptions C07_error_kind.
Print Assumptions C07_decl_transitions.
Print Assumptions C07_sort_transitions_decl.
Print Assumptions C07_decl_order_ops.
Print Assumptions C07_decl_order.
Print Assumptions C07_decl_order_perm.
Print Assumptions perm_chart_rev.
Print Assumptions c07_same_runs.
Print Assumptions c07_decl_children_instance.
Print Assumptions C07_guard_error_owner_refuted.
Print Assumptions c07_decl_order_instance.
