(* WrapProofs.v -- C17 (second sentence), the EMBEDDING step: a statechart c placed under a fresh compound
   root h (`wrap c h`, the shape of the host `hroot > plug` of the harness after copy_from_statechart) behaves
   inside its host exactly as c does on its own.  (CopyProofs.C17_copy_structure: the host subtree is the renamed
   image of the guest; C17Proofs.C17_equivariance_run: renaming; this file: the new root.)

   DEFINITIONS
     wrap c h          c with the new state h = CompoundState(h, initial = root c), no code, no contracts, no
                       transitions.  Dictionary order "host built first": _states = h :: c's; _parent = (h, None) ::
                       c's with the root's entry overwritten IN PLACE by (r, Some h) (dset); _children =
                       (None, [h]) :: (Some h, [r]) :: c's entries without the key None; _transitions = c's
                       (indices unchanged).  The theorems do not depend on this order: every query goes through
                       lookup, and h is the FIRST key with parent None whatever follows.
     wrap_state h t0   interpreter state: configuration h :: cfg (h was entered first and is never removed),
                       _entry_time / _idle_time get (h, t0) in front, everything else unchanged.
     wrap_call h       what the evaluator sees: cl_config gains h at its sorted position (insert str_leb h).
     wrap_obs / wrap_mstate h t0   observation trace mapped by wrap_call (meta events are IDENTICAL: same
                       listener calls, one emit, one listener state).
     K c n             n is a registered state of c (state_for c n <> None).
     wrap_ok c r h     the hypotheses on c (19 clauses, all decidable: wrap_okb, wrap_okb_sound),
                       incomparable with C02Proofs.wf_chart_b: root c = Some r, parent r = None, r registered;
                       h <> "", h not registered; no parent is ""; ancestors have smaller depth (C01's hypothesis,
                       anc_depth_okb); every registered state other than r has r among its ancestors; ancestors /
                       children of registered states, initial states of compound states, default memories of history
                       states, sources and targets of transitions are registered; r is nobody's child; s_name st = n;
                       |descendants_for c n| <= |_states| (the breadth-first search does not run out of fuel);
                       r is neither final nor a history state; NO FINAL STATE IS A CHILD OF r.
                       (No orthogonal-region, history-parent or transition-crossing clause of section 2 is needed.)
     wrap_inv c s      side condition on the state of c: initialised, configuration and values of the history memory
                       are registered states.  Preserved by every operation, failing ones included.
     root_active r s   r is in the configuration.  Holds after every execute_once that returns normally.
     wrap_alive        root_active at the start of every OpStep of a history.

   MAIN THEOREMS (all Qed, closed under the global context)
     C17_wrap_step     wrap_ok c r h, evaluator blind to h (exec_code' (wrap_call h cl) x = exec_code cl x, same for
                       eval_code; two evaluators allowed as in C17Proofs), ANY listeners, wrap_inv s, root_active s:
                       execute_once on wrap c h from wrap_mstate h t0 s returns EXACTLY the result of c from s (same
                       option macrostep: events, transition indices, entered / exited lists, sent events; or the same
                       error) and the post-state wrap_mstate h t0 s' (same queues, context, memory, listener state;
                       trace mapped by wrap_obs); wrap_inv s'; and root_active s' when the result is not an error.
                       Same fuel on both sides.
     C17_wrap_queue    the same for queue.
     C17_wrap_run      every history (OpQueue / OpStep) with wrap_alive: outcomes equal, final states related.
     C17_wrap_run_errfree   wrap_alive follows from root_active s when no execute_once but possibly the last one
                       raises (alive_errfree).
     C17_wrap_init     the first execute_once (uninitialised interpreter, empty configuration, c's step returns
                       normally, r <> "", listeners ignore `state entered h`): wrap c h with fuel S f performs the
                       micro step [enter h] followed by exactly the micro steps of c with fuel f (add_h), ends in
                       wrap_state h now of c's post-state with wrap_inv and root_active, same listener state; its
                       trace is c's new observations mapped by wrap_obs with the two observations of the entry of h
                       (init_extra: ObMeta (MEntered h), ObExec of the empty entry code of h) buried right above
                       `step started`.
     Generic forms (Section Wrap): wrap_step_gen, wrap_queue_gen, wrap_run_gen, wrap_init_gen are parametric in the
     treatment of the OLD part of the trace (ft, Tdom with ft (o :: tr) = wrap_obs h o :: ft tr): map wrap_obs for the
     step / run theorems, ft_init (two buried observations) for the initial step; so wrap_run_gen with ft_init
     continues a run after C17_wrap_init.

   COMMUTATION LEMMAS (Section Wrap; `_w`)  one for every function of the model:
     Chart   state_for kind_of parent_for children_for root ancestors_for (anc_w: h is APPENDED) depth_for (+1)
             bfs descendants_for least_common_ancestor (lca_w: None becomes Some h, `lift`) leaf_for itransitions
     Interp  considered last_before entered_path stays_below check_pair check_against check_pairs trans_order_leb
             exit_order_leb enter_order_leb create_step create_steps stab_for_leaf stab_for_orthogonal
             create_stabilization_step configuration mk_call states_for; monadic (logical relation EQV R m' m with a
             RELATION R on results, EQVr = EQV + root_active before and after): raise_meta raise_event run_code
             eval_cond eval_conds contract state_contract trans_contract eval_guards sel_priorities sel_sources
             (the `ignored` lists differ by occurrences of h: ign_rel) sel_depths (depth labels shifted by one:
             sorted_groupby_sh) sel_eventness select_transitions sort_transitions compute_steps record_history
             exit_state enter_state process_transition apply_step stabilize run_steps consume_event check_invariants
             execute_once queue.
     Reused: C01Proofs.C01_selection (a selected transition of the root excludes every other selected source:
     select_post / nomix), C02Proofs.anc_some / anc_ind / last_before_spec / entered_spec / apply_step_inv,
     FrameLib footprints, C17Proofs sort / group lemmas and run_ops.

   BEHAVIOUR DIFFERENCES FOUND between c and wrap c h (hypotheses that cannot be dropped)
     (a) C17_wrap_step_final_child_refuted: for a well-formed chart (wf_chart_b) whose root has a FINAL child the step
         statement is false: in c the final child empties the configuration (micro step exits [f; r], the
         interpreter is final); under h the same state is an ordinary final state, nothing is exited
         (final_child_difference).  The harness excludes these charts (root_has_final_child).
     (b) check_pair: for two selected transitions one of which leaves the root, c raises StatechartError
         (state_for(None)) where wrap c h would raise NonDeterminismError (the LCA is h).  Unreachable: the
         selection never returns such a pair (select_post), so no hypothesis is needed.
     (c) C17_wrap_run_root_active_needed: an exception in the middle of a step that exits the root (action of an
         external self-loop on the root fails) leaves c with an EMPTY configuration; later macro steps change nothing
         in c, whereas in wrap c h the root h is still active and the next stabilisation re-enters r by default
         entry.  Hence wrap_alive in C17_wrap_run; after such an exception the two interpreters are still related
         (configuration [] / [h]) until the next macro step with at least one micro step.
     (d) a root that is itself final or a history state, and the first macro step (one more micro step, one more
         unit of fuel, `state entered h` seen by the listeners): excluded by wrap_ok / treated by C17_wrap_init.

   MISSING (not attempted for lack of time): the corollary composing CopyProofs.C17_copy_structure +
   C17_equivariance_run + C17_wrap_run for the harness host `hroot > plug`; a packaged run theorem starting from the
   uninitialised interpreter (C17_wrap_init followed by wrap_run_gen with ft_init); wrap_ok from wf_chart_b +
   "every name is registered" (only the checker wrap_okb is provided; c1, c2 satisfy both).  Nothing is `_partial`.

   NON-VACUITY  Module WrapExample: c1 = r > {a, b > {b1, b2}} with transitions from / to the root, an external
     self-loop and internal transitions on the root; c2 = orthogonal variant with a deep history state, guards,
     actions sending internal events, entry / exit code, invariants (C17_wrap_hypotheses_satisfiable,
     C17_wrap_example_by_theorem, C17_wrap_example_with_error, C17_wrap_example_by_computation,
     C17_wrap_example_shape, C17_wrap_init_hypotheses_satisfiable, C17_wrap_init_example_by_computation). *)
From Coq Require Import String Ascii List Bool ZArith Lia Permutation.
From Sismic Require Import Base Chart Interp.
From SismicProofs Require Import SortLib FrameLib C01Proofs C02Proofs C17Proofs.
Import ListNotations.
Open Scope string_scope.
Open Scope list_scope.

(* ------------------------------------------------------------------------------------------ *)
(* 1. Definitions                                                                              *)
(* ------------------------------------------------------------------------------------------ *)
Definition olist (o : option name) : list name := match o with Some x => [x] | None => [] end.

Definition hstate (h : name) (r : option name) : state :=
  mkState h KCompound r None None None [] [] [].

Definition is_some_key {V} (kv : option name * V) : bool :=
  match fst kv with Some _ => true | None => false end.

(* the chart c under a new compound root h.  Dictionary order: the host is built first, so h is the
   first key of _states, _parent; _children starts with None -> [h], h -> [root]; the guest's own
   entries follow in the guest's order; the guest's None -> [root] entry disappears. *)
Definition wrap (c : chart) (h : name) : chart :=
  mkChart (c_name c) (c_description c) (c_preamble c)
          ((h, hstate h (root c)) :: c_states c)
          ((h, None) :: match root c with Some r => dset r (Some h) (c_parent c) | None => c_parent c end)
          ((None, [h]) :: (Some h, olist (root c)) :: filter is_some_key (c_children c))
          (c_transitions c).

(* correspondence of interpreter states: h is active (first element of the configuration list), it was
   entered at time t0 and never left *)
Definition wrap_state {ctx} (h : name) (t0 : Z) (i : istate ctx) : istate ctx :=
  mkIState (i_id i) (i_initialized i) (i_time i) (i_memory i) (h :: i_config i)
           ((h, t0) :: i_entry i) ((h, t0) :: i_idle i)
           (i_sent i) (i_iq i) (i_eq i) (i_ignore_contract i) (i_ctx i) (i_old i).

(* what the evaluator sees: active() also reports h *)
Definition wrap_call {ctx} (h : name) (c : call ctx) : call ctx :=
  mkCall (cl_interp c) (cl_kind c) (cl_owner c) (cl_idx c) (cl_code c) (cl_event c) (cl_time c)
         (insert str_leb h (cl_config c)) (cl_entry c) (cl_idle c) (cl_sent c) (cl_old c).

Definition wrap_obs {ctx} (h : name) (o : obs ctx) : obs ctx :=
  match o with
  | ObExec c s => ObExec (wrap_call h c) s
  | ObEval c r => ObEval (wrap_call h c) r
  | _ => o
  end.

Definition wrap_mstate {ctx X} (h : name) (t0 : Z) (s : mstate ctx X) : mstate ctx X :=
  mkM (wrap_state h t0 (m_i s)) (m_x s) (map (wrap_obs h) (m_tr s)).

(* ------------------------------------------------------------------------------------------ *)
(* 2. Small generic lemmas                                                                     *)
(* ------------------------------------------------------------------------------------------ *)
Lemma str_eqb_rfl a : str_eqb a a = true.
Proof. apply str_eqb_spec. reflexivity. Qed.

Lemma str_eqb_neq a b : a <> b -> str_eqb a b = false.
Proof. intros H. destruct (str_eqb a b) eqn:E; [|reflexivity]. apply str_eqb_spec in E. contradiction. Qed.

Lemma mem_app_w x l1 l2 : mem x (l1 ++ l2) = mem x l1 || mem x l2.
Proof. induction l1 as [|y l IH]; cbn [app mem]; [reflexivity|]. rewrite IH, orb_assoc. reflexivity. Qed.

Lemma mem_cons_ne x y l : x <> y -> mem x (y :: l) = mem x l.
Proof. intros H. cbn [mem]. rewrite (str_eqb_neq x y H). reflexivity. Qed.

Lemma lookup_dset_eq_w {V} (k : name) (v : V) d : lookup k (dset k v d) = Some v.
Proof.
  induction d as [|[k' v'] d IH]; cbn [dset lookup].
  - rewrite str_eqb_rfl. reflexivity.
  - destruct (str_eqb k k') eqn:E; cbn [lookup]; rewrite ?str_eqb_rfl, ?E; auto.
Qed.

Lemma lookup_dset_ne_w {V} (n k : name) (v : V) d : n <> k -> lookup n (dset k v d) = lookup n d.
Proof.
  intros Hn. induction d as [|[k' v'] d IH]; cbn [dset lookup].
  - rewrite (str_eqb_neq n k Hn). reflexivity.
  - destruct (str_eqb k k') eqn:E; cbn [lookup].
    + apply str_eqb_spec in E. subst k'. rewrite (str_eqb_neq n k Hn). reflexivity.
    + rewrite IH. reflexivity.
Qed.

Lemma dset_length_w {V} (k : name) (v : V) d : lookup k d <> None -> length (dset k v d) = length d.
Proof.
  induction d as [|[k' v'] d IH]; cbn [dset lookup length]; [congruence|].
  destruct (str_eqb k k'); cbn [length]; [reflexivity|]. intros H. rewrite IH; auto.
Qed.

Lemma root_of_key d r : root_of d = Some r -> exists p, In (r, p) d.
Proof.
  induction d as [|[n [p|]] d IH]; cbn [root_of]; [discriminate| |].
  - intros H. destruct (IH H) as [q Hq]. exists q. right. exact Hq.
  - intros H. inversion H; subst. exists None. left. reflexivity.
Qed.

Lemma In_lookup_some {V} (k : name) (v : V) d : In (k, v) d -> lookup k d <> None.
Proof.
  induction d as [|[k' v'] d IH]; cbn [lookup]; [tauto|].
  intros [H|H].
  - inversion H; subst. rewrite str_eqb_rfl. discriminate.
  - destruct (str_eqb k k'); [discriminate|auto].
Qed.

Lemma olookup_filter_some {V} (n : name) (d : list (option name * V)) :
  olookup (Some n) (filter is_some_key d) = olookup (Some n) d.
Proof.
  induction d as [|[[k|] v] d IH]; cbn [filter is_some_key fst olookup opt_eqb]; auto.
  destruct (str_eqb n k); auto.
Qed.

Lemma find_app_w {A} (f : A -> bool) l1 l2 :
  find f (l1 ++ l2) = match find f l1 with Some x => Some x | None => find f l2 end.
Proof. induction l1 as [|x l IH]; cbn [app find]; [reflexivity|]. destruct (f x); auto. Qed.

Lemma find_ext_in {A} (f g : A -> bool) l : (forall x, In x l -> f x = g x) -> find f l = find g l.
Proof.
  induction l as [|x l IH]; intros H; cbn [find]; [reflexivity|].
  rewrite (H x (or_introl eq_refl)). destruct (g x); [reflexivity|]. apply IH. intros y Hy. apply H. right. exact Hy.
Qed.

Lemma filter_ext_in_w {A} (f g : A -> bool) l : (forall x, In x l -> f x = g x) -> filter f l = filter g l.
Proof.
  induction l as [|x l IH]; intros H; cbn [filter]; [reflexivity|].
  rewrite (H x (or_introl eq_refl)), IH; [reflexivity|]. intros y Hy. apply H. right. exact Hy.
Qed.

Lemma existsb_ext_in {A} (f g : A -> bool) l : (forall x, In x l -> f x = g x) -> existsb f l = existsb g l.
Proof.
  induction l as [|x l IH]; intros H; cbn [existsb]; [reflexivity|].
  rewrite (H x (or_introl eq_refl)), IH; [reflexivity|]. intros y Hy. apply H. right. exact Hy.
Qed.

Lemma sort_ext_in {A} (leb leb' : A -> A -> bool) (P : A -> Prop) l :
  (forall a b, P a -> P b -> leb' a b = leb a b) -> Forall P l -> sort leb' l = sort leb l.
Proof.
  intros H Hl. pose proof (sort_map_cond P (fun x => x) leb leb' H l Hl) as E.
  rewrite !map_id in E. exact E.
Qed.

Lemma insert_head {A} (leb : A -> A -> bool) x l :
  (forall y, In y l -> leb x y = true) -> insert leb x l = x :: l.
Proof. destruct l as [|y l]; intros H; cbn [insert]; [reflexivity|]. rewrite (H y (or_introl eq_refl)). reflexivity. Qed.

Lemma zn_leb_shift d1 d2 a b : zn_leb ((d1 + 1)%Z, a) ((d2 + 1)%Z, b) = zn_leb (d1, a) (d2, b).
Proof.
  unfold zn_leb. cbn [fst snd].
  replace (d1 + 1 <? d2 + 1)%Z with (d1 <? d2)%Z by (destruct (Z.ltb_spec d1 d2), (Z.ltb_spec (d1+1) (d2+1)); lia || reflexivity).
  replace (d1 + 1 =? d2 + 1)%Z with (d1 =? d2)%Z by (destruct (Z.eqb_spec d1 d2), (Z.eqb_spec (d1+1) (d2+1)); lia || reflexivity).
  reflexivity.
Qed.

Lemma zn_leb_shift_neg d1 d2 a b : zn_leb ((- (d1 + 1))%Z, a) ((- (d2 + 1))%Z, b) = zn_leb ((- d1)%Z, a) ((- d2)%Z, b).
Proof.
  unfold zn_leb. cbn [fst snd].
  replace (- (d1 + 1) <? - (d2 + 1))%Z with (- d1 <? - d2)%Z
    by (destruct (Z.ltb_spec (-d1) (-d2)), (Z.ltb_spec (-(d1+1)) (-(d2+1))); lia || reflexivity).
  replace (- (d1 + 1) =? - (d2 + 1))%Z with (- d1 =? - d2)%Z
    by (destruct (Z.eqb_spec (-d1) (-d2)), (Z.eqb_spec (-(d1+1)) (-(d2+1))); lia || reflexivity).
  reflexivity.
Qed.

Lemma anc_fuel_none c f : ancestors_fuel c f None = [].
Proof. destruct f; reflexivity. Qed.

Lemma bfs_stable c : forall f q, length q + length (bfs c f q) <= f ->
  forall f', f <= f' -> bfs c f' q = bfs c f q.
Proof.
  induction f as [|f IH]; intros q Hl f' Hf.
  - destruct q; cbn [length] in Hl; [|lia]. destruct f'; reflexivity.
  - destruct f' as [|f']; [lia|]. destruct q as [|n q]; [reflexivity|]. cbn [bfs].
    f_equal. apply IH; [|lia]. cbn [bfs length] in Hl. rewrite !app_length in *. lia.
Qed.

(* sorted_groupby when the key is shifted by one on the elements at hand *)
Definition sh {A} (p : Z * list A) : Z * list A := ((fst p + 1)%Z, snd p).

Lemma group_add_sh {A} k (v : A) gr :
  group_add Z.eqb (k + 1)%Z v (map sh gr) = map sh (group_add Z.eqb k v gr).
Proof.
  induction gr as [|[k' vs] gr IH]; cbn [map group_add sh fst snd]; [reflexivity|].
  replace (k + 1 =? k' + 1)%Z with (k =? k')%Z
    by (destruct (Z.eqb_spec k k'), (Z.eqb_spec (k+1) (k'+1)); lia || reflexivity).
  destruct (k =? k')%Z; cbn [map sh fst snd]; [reflexivity|]. rewrite IH. reflexivity.
Qed.

Lemma groups_of_sh {A} (key key' : A -> Z) l :
  Forall (fun x => key' x = (key x + 1)%Z) l ->
  groups_of key' Z.eqb l = map sh (groups_of key Z.eqb l).
Proof.
  unfold groups_of. intros Hl.
  assert (G : forall acc, fold_left (fun g v => group_add Z.eqb (key' v) v g) l (map sh acc)
                          = map sh (fold_left (fun g v => group_add Z.eqb (key v) v g) l acc)).
  { induction Hl as [|x l Hx Hl IH]; intros acc; cbn [fold_left]; [reflexivity|].
    rewrite Hx, group_add_sh. apply IH. }
  apply (G []).
Qed.

Lemma sorted_groupby_sh {A} (key key' : A -> Z) l :
  Forall (fun x => key' x = (key x + 1)%Z) l ->
  sorted_groupby key' Z.eqb Z.leb true l = map sh (sorted_groupby key Z.eqb Z.leb true l).
Proof.
  intros Hl. unfold sorted_groupby. rewrite (groups_of_sh key key' l Hl).
  apply (sort_map_cond (fun _ => True)).
  - intros a b _ _. unfold sh. cbn [fst].
    destruct (Z.leb_spec (fst b) (fst a)), (Z.leb_spec (fst b + 1) (fst a + 1)); lia || reflexivity.
  - apply Forall_forall. auto.
Qed.

(* ------------------------------------------------------------------------------------------ *)
(* 3. The chart queries on  wrap c h                                                           *)
(* ------------------------------------------------------------------------------------------ *)
Section Wrap.
  Variable c : chart.
  Variables r h : name.
  Notation c' := (wrap c h).

  (* K n: n is a registered state of c *)
  Definition K (n : name) : Prop := state_for c n <> None.

  (* ---- hypotheses on c (collected in wrap_ok below) ---- *)
  Hypothesis Hroot : root c = Some r.
  Hypothesis Hroot_par : parent_for c r = None.
  Hypothesis Hroot_K : K r.
  Hypothesis Hh_ne : h <> "".
  Hypothesis Hh_fresh : state_for c h = None.
  Hypothesis Hne : forall n, parent_for c n <> Some "".
  Hypothesis Hdepth : forall a b, In b (ancestors_for c a) -> (depth_for c b < depth_for c a)%Z.
  Hypothesis Hanc_root : forall n, K n -> n <> r -> In r (ancestors_for c n).
  Hypothesis Hanc_K : forall n a, K n -> In a (ancestors_for c n) -> K a.
  Hypothesis Hkids_K : forall n x, K n -> In x (children_for c n) -> K x.
  Hypothesis Hr_nochild : forall n, ~ In r (children_for c n).
  Hypothesis Hnames : forall n st, state_for c n = Some st -> s_name st = n.
  Hypothesis Hinit_K : forall n st i, state_for c n = Some st -> s_kind st = KCompound ->
                                      truthy (s_initial st) = Some i -> K i.
  Hypothesis Hmem_K : forall n st m, state_for c n = Some st -> is_history (s_kind st) = true ->
                                     s_memory st = Some m -> K m.
  Hypothesis Hsrc_K : forall t, In t (c_transitions c) -> K (t_source t).
  Hypothesis Htgt_K : forall t tgt, In t (c_transitions c) -> t_target t = Some tgt -> K tgt.
  Hypothesis Hdesc_len : forall n, K n -> length (descendants_for c n) <= length (c_states c).
  (* the root is neither final nor a history state, and has no final child *)
  Hypothesis Hroot_kind : forall st, state_for c r = Some st ->
                                     s_kind st <> KFinal /\ is_history (s_kind st) = false.
  Hypothesis Hnofinal : forall n st, state_for c n = Some st -> s_kind st = KFinal ->
                                     parent_for c n <> Some r.

  Lemma K_ne_h n : K n -> n <> h.
  Proof. intros Hk ->. apply Hk. exact Hh_fresh. Qed.

  Lemma r_ne_h : r <> h.
  Proof. apply K_ne_h, Hroot_K. Qed.

  Lemma K_state n : K n -> exists st, state_for c n = Some st.
  Proof. unfold K. destruct (state_for c n) as [st|]; [eauto|congruence]. Qed.

  Lemma state_K n st : state_for c n = Some st -> K n.
  Proof. unfold K. intros ->. discriminate. Qed.

  (* ---- dictionaries ---- *)
  Lemma state_for_w n : n <> h -> state_for c' n = state_for c n.
  Proof. intros Hn. unfold state_for. cbn [wrap c_states lookup]. rewrite (str_eqb_neq n h Hn). reflexivity. Qed.

  Lemma state_for_w_h : state_for c' h = Some (hstate h (Some r)).
  Proof. unfold state_for. cbn [wrap c_states lookup]. rewrite str_eqb_rfl, Hroot. reflexivity. Qed.

  Lemma kind_of_w n : n <> h -> kind_of c' n = kind_of c n.
  Proof. intros Hn. unfold kind_of. rewrite state_for_w by exact Hn. reflexivity. Qed.

  Lemma parent_for_w n : n <> h -> n <> r -> parent_for c' n = parent_for c n.
  Proof.
    intros Hn Hr. unfold parent_for. cbn [wrap c_parent lookup]. rewrite (str_eqb_neq n h Hn), Hroot.
    rewrite lookup_dset_ne_w by exact Hr. reflexivity.
  Qed.

  Lemma parent_for_w_r : parent_for c' r = Some h.
  Proof.
    unfold parent_for. cbn [wrap c_parent lookup]. rewrite (str_eqb_neq r h r_ne_h), Hroot.
    rewrite lookup_dset_eq_w. reflexivity.
  Qed.

  Lemma parent_for_w_h : parent_for c' h = None.
  Proof. unfold parent_for. cbn [wrap c_parent lookup]. rewrite str_eqb_rfl. reflexivity. Qed.

  Lemma children_for_w n : n <> h -> children_for c' n = children_for c n.
  Proof.
    intros Hn. unfold children_for. cbn [wrap c_children olookup opt_eqb].
    rewrite (str_eqb_neq n h Hn), olookup_filter_some. reflexivity.
  Qed.

  Lemma children_for_w_h : children_for c' h = [r].
  Proof.
    unfold children_for. cbn [wrap c_children olookup opt_eqb]. rewrite str_eqb_rfl, Hroot. reflexivity.
  Qed.

  Lemma root_w : root c' = Some h.
  Proof. reflexivity. Qed.

  Lemma parent_len_w : length (c_parent c') = S (length (c_parent c)).
  Proof.
    cbn [wrap c_parent length]. rewrite Hroot. f_equal. apply dset_length_w.
    unfold root in Hroot. destruct (root_of_key _ _ Hroot) as [p Hp]. eapply In_lookup_some; eauto.
  Qed.

  (* ---- ancestors: h is appended ---- *)
  Lemma truthy_h : truthy (Some h) = Some h.
  Proof. destruct h; [congruence|reflexivity]. Qed.

  Lemma anc_fuel_w : forall f p l,
    ancestors_fuel c f p = l ++ [r] -> (forall a, In a l -> a <> h) ->
    ancestors_fuel c' (S f) p = (l ++ [r]) ++ [h].
  Proof.
    induction f as [|f IH]; intros p l H Hl.
    - cbn [ancestors_fuel] in H. destruct l; discriminate.
    - cbn [ancestors_fuel] in H. change (ancestors_fuel c' (S (S f)) p)
        with (match truthy p with Some q => q :: ancestors_fuel c' (S f) (parent_for c' q) | None => [] end).
      destruct (truthy p) as [q|]; [|destruct l; discriminate].
      destruct l as [|a l]; cbn [app] in H; injection H as Hq H2; subst q.
      + rewrite parent_for_w_r. cbn [ancestors_fuel]. rewrite truthy_h, parent_for_w_h, anc_fuel_none.
        reflexivity.
      + assert (Har : a <> r).
        { intros ->. rewrite Hroot_par, anc_fuel_none in H2. destruct l; discriminate. }
        rewrite parent_for_w by (auto; apply Hl; left; reflexivity).
        rewrite (IH _ l H2) by (intros x Hx; apply Hl; right; exact Hx). reflexivity.
  Qed.

  Lemma anc_root : ancestors_for c r = [].
  Proof. apply C02Proofs.anc_none. exact Hroot_par. Qed.

  Lemma anc_last n : K n -> n <> r -> exists l, ancestors_for c n = l ++ [r].
  Proof.
    revert n. apply (C02Proofs.anc_ind c Hne Hdepth (fun n => K n -> n <> r -> exists l, ancestors_for c n = l ++ [r])).
    intros x IH Hk Hx. destruct (parent_for c x) as [p|] eqn:Hp.
    - rewrite (C02Proofs.anc_some c Hne Hdepth x p Hp).
      destruct (string_dec p r) as [->|Hpr].
      + exists []. rewrite anc_root. reflexivity.
      + assert (Kp : K p).
        { apply (Hanc_K x); [exact Hk|]. rewrite (C02Proofs.anc_some c Hne Hdepth x p Hp). left. reflexivity. }
        destruct (IH p eq_refl Kp Hpr) as [l Hl]. exists (p :: l). rewrite Hl. reflexivity.
    - exfalso. pose proof (Hanc_root x Hk Hx) as Hin. rewrite (C02Proofs.anc_none c x Hp) in Hin. destruct Hin.
  Qed.

  Lemma anc_w n : K n -> ancestors_for c' n = ancestors_for c n ++ [h].
  Proof.
    intros Hk. destruct (string_dec n r) as [->|Hn].
    - rewrite anc_root. unfold ancestors_for. rewrite parent_for_w_r, parent_len_w.
      cbn [ancestors_fuel]. rewrite truthy_h, parent_for_w_h, anc_fuel_none. reflexivity.
    - destruct (anc_last n Hk Hn) as [l Hl]. unfold ancestors_for. rewrite parent_len_w.
      rewrite parent_for_w by (auto using K_ne_h). fold (ancestors_for c n).
      unfold ancestors_for in Hl. rewrite (anc_fuel_w _ _ l Hl); [fold (ancestors_for c n); rewrite <- Hl; reflexivity|].
      intros a Ha. apply K_ne_h. apply (Hanc_K n); [exact Hk|]. unfold ancestors_for. rewrite Hl.
      apply in_or_app. left. exact Ha.
  Qed.

  Lemma anc_w_h : ancestors_for c' h = [].
  Proof. apply C02Proofs.anc_none. exact parent_for_w_h. Qed.

  Lemma anc_not_h n : K n -> ~ In h (ancestors_for c n).
  Proof. intros Hk Hin. apply (K_ne_h h); [|reflexivity]. apply (Hanc_K n); assumption. Qed.

  Lemma depth_w n : K n -> depth_for c' n = (depth_for c n + 1)%Z.
  Proof. intros Hk. unfold depth_for. rewrite anc_w by exact Hk. rewrite app_length. cbn [length]. lia. Qed.

  Lemma depth_w_h : depth_for c' h = 1%Z.
  Proof. unfold depth_for. rewrite anc_w_h. reflexivity. Qed.

  Lemma depth_pos n : (1 <= depth_for c n)%Z.
  Proof. unfold depth_for. lia. Qed.

  (* ---- descendants ---- *)
  Lemma bfs_K : forall f q, Forall K q -> Forall K (bfs c f q).
  Proof.
    induction f as [|f IH]; intros q Hq; cbn [bfs]; [constructor|].
    destruct q as [|n q]; [constructor|]. inversion Hq; subst.
    assert (Hch : Forall K (children_for c n)) by (apply Forall_forall; intros x Hx; eapply Hkids_K; eauto).
    apply Forall_app. split; [exact Hch|]. apply IH. apply Forall_app. split; assumption.
  Qed.

  Lemma bfs_w : forall f q, Forall K q -> bfs c' f q = bfs c f q.
  Proof.
    induction f as [|f IH]; intros q Hq; cbn [bfs]; [reflexivity|].
    destruct q as [|n q]; [reflexivity|]. inversion Hq; subst.
    rewrite children_for_w by (apply K_ne_h; assumption). f_equal. apply IH.
    apply Forall_app. split; [assumption|]. apply Forall_forall. intros x Hx. eapply Hkids_K; eauto.
  Qed.

  Lemma desc_K n : K n -> Forall K (descendants_for c n).
  Proof. intros Hk. apply bfs_K. constructor; [exact Hk|constructor]. Qed.

  Lemma desc_w n : K n -> descendants_for c' n = descendants_for c n.
  Proof.
    intros Hk. unfold descendants_for. cbn [wrap c_states length].
    rewrite bfs_w by (constructor; [exact Hk|constructor]).
    apply bfs_stable; [|lia]. fold (descendants_for c n). specialize (Hdesc_len n Hk). cbn [length]. lia.
  Qed.

  Lemma desc_w_h : In r (descendants_for c' h).
  Proof.
    unfold descendants_for. cbn [bfs]. rewrite children_for_w_h. left. reflexivity.
  Qed.

  Lemma desc_not_r n : ~ In r (descendants_for c n).
  Proof.
    intros H. apply C02Proofs.desc_reach in H. destruct H as [x Hx|m x _ Hx]; eapply Hr_nochild; eauto.
  Qed.

  Lemma mem_h_K l : Forall K l -> mem h l = false.
  Proof.
    intros Hl. apply mem_false_iff. intros Hin. rewrite Forall_forall in Hl.
    apply (K_ne_h h (Hl h Hin)). reflexivity.
  Qed.

  Lemma mem_hcons x cfg : K x -> mem x (h :: cfg) = mem x cfg.
  Proof. intros Hk. apply mem_cons_ne. apply K_ne_h, Hk. Qed.

  (* ---- least common ancestor ---- *)
  Definition lift (o : option name) : option name := Some (match o with Some l => l | None => h end).

  Lemma lca_w a b : K a -> K b ->
    least_common_ancestor c' a b = lift (least_common_ancestor c a b).
  Proof.
    intros Ka Kb. unfold least_common_ancestor, lift. rewrite !anc_w by assumption.
    rewrite find_app_w.
    rewrite (find_ext_in (fun s => mem s (ancestors_for c b ++ [h])) (fun s => mem s (ancestors_for c b))).
    - destruct (find _ (ancestors_for c a)); [reflexivity|].
      cbn [find]. rewrite mem_app_w. cbn [mem]. rewrite str_eqb_rfl, orb_true_r. reflexivity.
    - intros x Hx. rewrite mem_app_w. cbn [mem].
      rewrite (str_eqb_neq x h) by (apply K_ne_h; apply (Hanc_K a); assumption).
      rewrite !orb_false_r. reflexivity.
  Qed.

  Lemma lca_in a b l : least_common_ancestor c a b = Some l ->
    In l (ancestors_for c a) /\ In l (ancestors_for c b).
  Proof.
    unfold least_common_ancestor. intros H. apply find_some in H. destruct H as [H1 H2].
    split; [exact H1|]. apply mem_In. exact H2.
  Qed.

  Lemma lca_some a b : K a -> K b -> a <> r -> b <> r -> least_common_ancestor c a b <> None.
  Proof.
    intros Ka Kb Ha Hb H. unfold least_common_ancestor in H.
    pose proof (find_none _ _ H r (Hanc_root a Ka Ha)) as H'. cbv beta in H'.
    apply mem_false_iff in H'. apply H'. apply Hanc_root; assumption.
  Qed.

  Lemma last_before_w : forall l cur lca,
    ~ In h l -> (forall x, lca = Some x -> In x l) ->
    last_before (lift lca) (l ++ [h]) cur = last_before lca l cur.
  Proof.
    induction l as [|a l IH]; intros cur lca Hh Hl; cbn [app last_before].
    - destruct lca as [x|]; [destruct (Hl x eq_refl)|]. unfold lift, ostr_eqb. cbn [opt_eqb].
      rewrite str_eqb_rfl. reflexivity.
    - assert (E : ostr_eqb (Some a) (lift lca) = ostr_eqb (Some a) lca).
      { unfold lift, ostr_eqb. destruct lca as [x|]; cbn [opt_eqb]; [reflexivity|].
        apply str_eqb_neq. intros ->. apply Hh. left. reflexivity. }
      rewrite E. destruct (ostr_eqb (Some a) lca) eqn:E2; [reflexivity|].
      apply IH; [intros H; apply Hh; right; exact H|].
      intros x Hx. destruct (Hl x Hx) as [->|H]; [|exact H].
      subst lca. unfold ostr_eqb in E2. cbn [opt_eqb] in E2. rewrite str_eqb_rfl in E2. discriminate.
  Qed.

  Lemma entered_path_w : forall l acc lca,
    ~ In h l -> (forall x, lca = Some x -> In x l) ->
    entered_path (lift lca) (l ++ [h]) acc = entered_path lca l acc.
  Proof.
    induction l as [|a l IH]; intros acc lca Hh Hl; cbn [app entered_path].
    - destruct lca as [x|]; [destruct (Hl x eq_refl)|]. unfold lift, ostr_eqb. cbn [opt_eqb].
      rewrite str_eqb_rfl. reflexivity.
    - assert (E : ostr_eqb (Some a) (lift lca) = ostr_eqb (Some a) lca).
      { unfold lift, ostr_eqb. destruct lca as [x|]; cbn [opt_eqb]; [reflexivity|].
        apply str_eqb_neq. intros ->. apply Hh. left. reflexivity. }
      rewrite E. destruct (ostr_eqb (Some a) lca) eqn:E2; [reflexivity|].
      apply IH; [intros H; apply Hh; right; exact H|].
      intros x Hx. destruct (Hl x Hx) as [->|H]; [|exact H].
      subst lca. unfold ostr_eqb in E2. cbn [opt_eqb] in E2. rewrite str_eqb_rfl in E2. discriminate.
  Qed.

  Lemma last_before_K lca : forall l cur, K cur -> Forall K l -> K (last_before lca l cur).
  Proof.
    induction l as [|a l IH]; intros cur Hc Hl; cbn [last_before]; [exact Hc|].
    inversion Hl; subst. destruct (ostr_eqb (Some a) lca); auto.
  Qed.

  Lemma anc_K n : K n -> Forall K (ancestors_for c n).
  Proof. intros Hk. apply Forall_forall. intros a Ha. eapply Hanc_K; eauto. Qed.

  (* ---------------------------------------------------------------------------------------- *)
  (* 4. Pure functions of the interpreter                                                      *)
  (* ---------------------------------------------------------------------------------------- *)
  Definition srcK (it : itrans) : Prop := K (t_source (snd it)).
  Definition tgtK (it : itrans) : Prop := forall tgt, t_target (snd it) = Some tgt -> K tgt.

  Lemma itrans_K it : In it (itransitions c) -> srcK it /\ tgtK it.
  Proof.
    intros H. apply index_from_In in H. split; [apply Hsrc_K; exact H|].
    intros tgt Ht. eapply Htgt_K; eauto.
  Qed.

  Lemma considered_w ev cfg : considered c' ev (h :: cfg) = considered c ev cfg.
  Proof.
    unfold considered. change (itransitions c') with (itransitions c).
    apply filter_ext_in_w. intros it Hit. rewrite mem_hcons by (apply itrans_K; exact Hit). reflexivity.
  Qed.

  Lemma considered_K ev cfg : Forall (fun it => srcK it /\ tgtK it) (considered c ev cfg).
  Proof. apply Forall_forall. intros it H. apply filter_In in H. apply itrans_K. tauto. Qed.

  Lemma stays_below_w lca t :
    K (t_source t) -> (forall x, lca = Some x -> In x (ancestors_for c (t_source t))) ->
    stays_below c' (lift lca) t = stays_below c lca t.
  Proof.
    intros Hk Hl. unfold stays_below. destruct (t_target t) as [tgt|]; [|reflexivity].
    destruct tgt as [|ch tl]; [reflexivity|].
    rewrite anc_w by exact Hk. rewrite last_before_w by (auto using anc_not_h).
    rewrite desc_w; [reflexivity|]. apply last_before_K; [exact Hk|apply anc_K; exact Hk].
  Qed.

  (* the pairs the conflict check may see: same source, or neither source is the root *)
  Definition pairok (a b : name) : Prop := a = b \/ (a <> r /\ b <> r).

  Lemma check_pair_w t1 t2 :
    K (t_source t1) -> K (t_source t2) -> pairok (t_source t1) (t_source t2) ->
    check_pair c' t1 t2 = check_pair c t1 t2.
  Proof.
    intros K1 K2 Hp. unfold check_pair. rewrite lca_w by assumption.
    destruct (str_eqb (t_source t1) (t_source t2)) eqn:E; [reflexivity|].
    destruct Hp as [Hp|[H1 H2]]; [apply str_eqb_spec in Hp; congruence|].
    pose proof (lca_some _ _ K1 K2 H1 H2) as Hs.
    destruct (least_common_ancestor c (t_source t1) (t_source t2)) as [l|] eqn:El; [|congruence].
    destruct (lca_in _ _ _ El) as [I1 I2]. unfold lift.
    rewrite kind_of_w by (apply K_ne_h; eapply Hanc_K; eauto).
    destruct (kind_of c l) as [[]|]; try reflexivity.
    change (Some l) with (lift (Some l)) at 1 2.
    rewrite !stays_below_w; auto; intros x Hx; inversion Hx; subst; assumption.
  Qed.

  Lemma check_against_w t1 rest :
    K (t_source t1) -> Forall (fun it => srcK it /\ pairok (t_source t1) (t_source (snd it))) rest ->
    check_against c' t1 rest = check_against c t1 rest.
  Proof.
    intros K1 H. induction H as [|it rest [Hk Hp] _ IH]; cbn [check_against]; [reflexivity|].
    rewrite check_pair_w by assumption. rewrite IH. reflexivity.
  Qed.

  Definition nomix (ts : list itrans) : Prop :=
    forall a b, In a ts -> In b ts -> pairok (t_source (snd a)) (t_source (snd b)).

  Lemma check_pairs_w ts : Forall srcK ts -> nomix ts -> check_pairs c' ts = check_pairs c ts.
  Proof.
    induction ts as [|it ts IH]; intros Hk Hm; cbn [check_pairs]; [reflexivity|].
    inversion Hk; subst. rewrite check_against_w.
    - rewrite IH; [reflexivity|assumption|]. intros a b Ha Hb. apply Hm; right; assumption.
    - assumption.
    - apply Forall_forall. intros x Hx. rewrite Forall_forall in H2. split; [apply H2; exact Hx|].
      apply Hm; [left; reflexivity|right; exact Hx].
  Qed.

  Lemma trans_order_w a b : srcK a -> srcK b -> trans_order_leb c' a b = trans_order_leb c a b.
  Proof. intros Ha Hb. unfold trans_order_leb. rewrite !depth_w by assumption. apply zn_leb_shift_neg. Qed.

  Lemma exit_order_w a b : K a -> K b -> exit_order_leb c' a b = exit_order_leb c a b.
  Proof. intros Ha Hb. unfold exit_order_leb. rewrite !depth_w by assumption. apply zn_leb_shift_neg. Qed.

  Lemma enter_order_w a b : K a -> K b -> enter_order_leb c' a b = enter_order_leb c a b.
  Proof. intros Ha Hb. unfold enter_order_leb. rewrite !depth_w by assumption. apply zn_leb_shift. Qed.

  Lemma sort_exit_w l : Forall K l -> sort (exit_order_leb c') l = sort (exit_order_leb c) l.
  Proof. apply sort_ext_in. apply exit_order_w. Qed.

  Lemma sort_enter_w l : Forall K l -> sort (enter_order_leb c') l = sort (enter_order_leb c) l.
  Proof. apply sort_ext_in. apply enter_order_w. Qed.

  Lemma filter_mem_hcons cfg l : Forall K l -> filter (fun d => mem d (h :: cfg)) l = filter (fun d => mem d cfg) l.
  Proof.
    intros Hl. apply filter_ext_in_w. intros x Hx. rewrite Forall_forall in Hl. apply mem_hcons. auto.
  Qed.

  Lemma create_step_w cfg ev it :
    srcK it -> tgtK it -> create_step c' (h :: cfg) ev it = create_step c cfg ev it.
  Proof.
    intros Hs Ht. unfold create_step. destruct (t_target (snd it)) as [tgt|] eqn:Et; [|reflexivity].
    assert (Kt : K tgt) by (apply Ht; exact Et). unfold srcK in Hs.
    rewrite lca_w by assumption. rewrite !anc_w by assumption.
    set (lca := least_common_ancestor c (t_source (snd it)) tgt).
    assert (Hl : forall x, lca = Some x -> In x (ancestors_for c (t_source (snd it))) /\ In x (ancestors_for c tgt)).
    { intros x Hx. apply lca_in. exact Hx. }
    rewrite last_before_w by (auto using anc_not_h; intros x Hx; apply Hl; exact Hx).
    rewrite entered_path_w by (auto using anc_not_h; intros x Hx; apply Hl; exact Hx).
    set (lbl := last_before lca (ancestors_for c (t_source (snd it))) (t_source (snd it))).
    assert (Kl : K lbl) by (apply last_before_K; [exact Hs|apply anc_K; exact Hs]).
    rewrite desc_w by exact Kl. rewrite sort_exit_w by (apply desc_K; exact Kl).
    rewrite filter_mem_hcons by (apply Forall_sort, desc_K; exact Kl).
    rewrite mem_hcons by exact Kl. reflexivity.
  Qed.

  Lemma create_steps_w cfg ev ts :
    Forall (fun it => srcK it /\ tgtK it) ts -> create_steps c' (h :: cfg) ev ts = create_steps c cfg ev ts.
  Proof.
    intros H. unfold create_steps. apply map_ext_in. intros it Hit. rewrite Forall_forall in H.
    apply create_step_w; apply H; exact Hit.
  Qed.

  (* ---- stabilisation ---- *)
  Definition memK (m : list (name * list name)) : Prop := Forall (fun kv => Forall K (snd kv)) m.

  Lemma memK_lookup m k l : memK m -> lookup k m = Some l -> Forall K l.
  Proof.
    intros Hm Hl. apply C17Proofs.lookup_In in Hl. unfold memK in Hm. rewrite Forall_forall in Hm.
    apply (Hm _ Hl).
  Qed.

  Lemma kids_K n : K n -> Forall K (children_for c n).
  Proof. intros Hk. apply Forall_forall. intros x Hx. eapply Hkids_K; eauto. Qed.

  Lemma stab_for_leaf_w mem_ leaf :
    K leaf -> memK mem_ -> stab_for_leaf c' mem_ leaf = stab_for_leaf c mem_ leaf.
  Proof.
    intros Hk Hm. unfold stab_for_leaf. rewrite state_for_w by (apply K_ne_h; exact Hk).
    destruct (state_for c leaf) as [st|] eqn:Es; [|reflexivity].
    destruct (s_kind st) eqn:Ek; try reflexivity.
    - rewrite children_for_w by (apply K_ne_h; exact Hk). reflexivity.
    - (* final: never directly below the root, in neither chart *)
      rewrite root_w, Hroot.
      assert (E1 : ostr_eqb (parent_for c leaf) (Some r) = false).
      { apply C02Proofs.ostr_eqb_false_iff. eapply Hnofinal; eauto. }
      assert (E2 : ostr_eqb (parent_for c' leaf) (Some h) = false).
      { apply C02Proofs.ostr_eqb_false_iff. destruct (string_dec leaf r) as [->|Hn].
        - exfalso. destruct (Hroot_kind st Es) as [Hf _]. contradiction.
        - rewrite parent_for_w by (auto using K_ne_h). intros Hp.
          apply (anc_not_h leaf Hk). apply C02Proofs.anc_par; assumption. }
      rewrite E1, E2. reflexivity.
    - destruct (lookup leaf mem_) as [l|] eqn:El; [|reflexivity].
      rewrite sort_enter_w by (eapply memK_lookup; eauto). reflexivity.
    - destruct (lookup leaf mem_) as [l|] eqn:El; [|reflexivity].
      rewrite sort_enter_w by (eapply memK_lookup; eauto). reflexivity.
  Qed.

  Lemma stab_for_orthogonal_w cfg n :
    K n -> stab_for_orthogonal c' (h :: cfg) n = stab_for_orthogonal c cfg n.
  Proof.
    intros Hk. unfold stab_for_orthogonal. rewrite state_for_w by (apply K_ne_h; exact Hk).
    destruct (state_for c n) as [st|]; [|reflexivity]. destruct (s_kind st); try reflexivity.
    rewrite children_for_w by (apply K_ne_h; exact Hk).
    rewrite (filter_ext_in_w (fun ch => negb (mem ch (h :: cfg))) (fun ch => negb (mem ch cfg))); [reflexivity|].
    intros x Hx. rewrite mem_hcons; [reflexivity|]. eapply Hkids_K; eauto.
  Qed.

  Lemma stab_for_orthogonal_w_h cfg : stab_for_orthogonal c' cfg h = None.
  Proof. unfold stab_for_orthogonal. rewrite state_for_w_h. reflexivity. Qed.

  Lemma first_some_ext_in {A B} (f g : A -> option B) l :
    (forall x, In x l -> f x = g x) -> first_some f l = first_some g l.
  Proof.
    induction l as [|x l IH]; intros H; cbn [first_some]; [reflexivity|].
    rewrite (H x (or_introl eq_refl)). destruct (g x); [reflexivity|]. apply IH. intros y Hy. apply H. right. exact Hy.
  Qed.

  Lemma leaf_for_w cfg : Forall K cfg -> In r cfg -> leaf_for c' (h :: cfg) = leaf_for c cfg.
  Proof.
    intros Hc Hr. unfold leaf_for. cbn [filter].
    assert (E : existsb (fun d => mem d (h :: cfg)) (descendants_for c' h) = true).
    { apply existsb_exists. exists r. split; [apply desc_w_h|]. apply mem_In. right. exact Hr. }
    rewrite E. cbn [negb]. apply filter_ext_in_w. intros n Hn. rewrite Forall_forall in Hc.
    rewrite desc_w by auto. f_equal. apply existsb_ext_in. intros d Hd. apply mem_hcons.
    pose proof (desc_K n (Hc n Hn)) as Hd'. rewrite Forall_forall in Hd'. auto.
  Qed.

  Lemma enter_sort_hcons cfg :
    Forall K cfg -> sort (enter_order_leb c') (h :: cfg) = h :: sort (enter_order_leb c) cfg.
  Proof.
    intros Hc. cbn [sort]. rewrite sort_enter_w by exact Hc. apply insert_head.
    intros y Hy. apply sort_In in Hy. rewrite Forall_forall in Hc.
    unfold enter_order_leb, zn_leb. cbn [fst snd]. rewrite depth_w_h, depth_w by auto.
    pose proof (depth_pos y). apply orb_true_iff. left. apply Z.ltb_lt. lia.
  Qed.

  Lemma css_w {ctx} (t0 : Z) (i : istate ctx) :
    Forall K (i_config i) -> memK (i_memory i) -> In r (i_config i) ->
    create_stabilization_step ctx c' (wrap_state h t0 i) = create_stabilization_step ctx c i.
  Proof.
    intros Hc Hm Hr. unfold create_stabilization_step. cbn [wrap_state i_config i_memory].
    rewrite leaf_for_w by assumption.
    change (leaf_order_leb c') with (exit_order_leb c'). change (leaf_order_leb c) with (exit_order_leb c).
    assert (Hl : Forall K (leaf_for c (i_config i))) by (unfold leaf_for; apply Forall_filter; exact Hc).
    rewrite sort_exit_w by exact Hl.
    rewrite (first_some_ext_in (stab_for_leaf c' (i_memory i)) (stab_for_leaf c (i_memory i))).
    2:{ intros x Hx. apply sort_In in Hx. rewrite Forall_forall in Hl. apply stab_for_leaf_w; auto. }
    destruct (first_some (stab_for_leaf c (i_memory i)) _); [reflexivity|].
    rewrite enter_sort_hcons by exact Hc. cbn [first_some]. rewrite stab_for_orthogonal_w_h.
    apply first_some_ext_in. intros x Hx. apply sort_In in Hx. rewrite Forall_forall in Hc.
    apply stab_for_orthogonal_w. auto.
  Qed.

  (* ---- configuration (order of the invariant checks) ---- *)
  Lemma configuration_w cfg : Forall K cfg -> configuration c' (h :: cfg) = h :: configuration c cfg.
  Proof.
    intros Hc. unfold configuration. cbn [map sort].
    rewrite (map_ext_in (fun n => (depth_for c' n, n)) (fun n => (fun p : Z * name => ((fst p + 1)%Z, snd p)) (depth_for c n, n))).
    2:{ intros n Hn. rewrite Forall_forall in Hc. cbn [fst snd]. rewrite depth_w by auto. reflexivity. }
    rewrite <- (map_map (fun n => (depth_for c n, n)) (fun p : Z * name => ((fst p + 1)%Z, snd p))).
    rewrite (sort_map_cond (fun _ => True) (fun p : Z * name => ((fst p + 1)%Z, snd p)) zn_leb zn_leb).
    - rewrite depth_w_h. rewrite insert_head.
      + cbn [map snd]. rewrite map_map. cbn [snd]. reflexivity.
      + intros y Hy. apply in_map_iff in Hy. destruct Hy as [[d n] [<- Hy]]. cbn [fst snd].
        apply sort_In in Hy. apply in_map_iff in Hy. destruct Hy as [n' [E _]]. inversion E; subst.
        unfold zn_leb. cbn [fst snd]. pose proof (depth_pos n). apply orb_true_iff. left. apply Z.ltb_lt. lia.
    - intros [d1 a] [d2 b] _ _. cbn [fst snd]. apply zn_leb_shift.
    - apply Forall_forall. auto.
  Qed.

  (* ---- evaluator calls ---- *)
  Definition owner_ok (o : owner) : Prop := forall n, owner_state c o = Some n -> n <> h.

  Lemma owner_ok_trans i : owner_ok (OTrans i).
  Proof.
    intros n H. cbn [owner_state] in H. destruct (nth_error (c_transitions c) i) as [t|] eqn:E; [|discriminate].
    inversion H; subst. apply K_ne_h, Hsrc_K. eapply nth_error_In; eauto.
  Qed.

  Lemma owner_ok_state n : K n -> owner_ok (OState n).
  Proof. intros Hk m H. inversion H; subst. apply K_ne_h, Hk. Qed.

  Lemma mk_call_w {ctx} t0 (i : istate ctx) k o idx cd ev :
    owner_ok o ->
    mk_call ctx c' (wrap_state h t0 i) k o idx cd ev = wrap_call h (mk_call ctx c i k o idx cd ev).
  Proof.
    intros Ho. unfold mk_call, wrap_call.
    change (owner_state c' o) with (owner_state c o).
    cbn [wrap_state i_id i_time i_config i_entry i_idle i_sent i_old
         cl_interp cl_kind cl_owner cl_idx cl_code cl_event cl_time cl_config cl_entry cl_idle cl_sent cl_old].
    unfold sort_names at 1. cbn [sort]. fold (sort_names (i_config i)).
    destruct (owner_state c o) as [n|] eqn:E; [|reflexivity].
    cbn [lookup]. rewrite (str_eqb_neq n h (Ho n E)). reflexivity.
  Qed.

  (* names produced by the step constructors are registered states *)
  Lemma entered_path_K lca : forall l acc, Forall K l -> Forall K acc -> Forall K (entered_path lca l acc).
  Proof.
    induction l as [|a l IH]; intros acc Hl Ha; cbn [entered_path]; [exact Ha|].
    inversion Hl; subst. destruct (ostr_eqb (Some a) lca); [exact Ha|]. apply IH; [assumption|constructor; assumption].
  Qed.

  Lemma create_step_K cfg ev it :
    srcK it -> tgtK it ->
    Forall K (ms_entered (create_step c cfg ev it)) /\ Forall K (ms_exited (create_step c cfg ev it)).
  Proof.
    intros Hs Ht. unfold create_step. destruct (t_target (snd it)) as [tgt|] eqn:Et; cbn [ms_entered ms_exited];
      [|split; constructor].
    assert (Kt : K tgt) by (apply Ht; exact Et).
    set (lca := least_common_ancestor c (t_source (snd it)) tgt).
    set (lbl := last_before lca (ancestors_for c (t_source (snd it))) (t_source (snd it))).
    assert (Kl : K lbl) by (apply last_before_K; [exact Hs|apply anc_K; exact Hs]).
    split.
    - apply entered_path_K; [apply anc_K; exact Kt|constructor; [exact Kt|constructor]].
    - apply Forall_app. split.
      + apply Forall_filter, Forall_sort, desc_K, Kl.
      + destruct (mem lbl cfg); constructor; [exact Kl|constructor].
  Qed.

  Lemma stab_for_leaf_K m leaf step :
    K leaf -> memK m -> stab_for_leaf c m leaf = Some (inl step) ->
    Forall K (ms_entered step) /\ Forall K (ms_exited step) /\ ~ In r (ms_exited step).
  Proof.
    intros Hk Hm. unfold stab_for_leaf. destruct (state_for c leaf) as [st|] eqn:Es; [|discriminate].
    assert (Hleaf_r : is_history (s_kind st) = true -> leaf <> r).
    { intros Hh ->. destruct (Hroot_kind st Es) as [_ Hr]. congruence. }
    destruct (s_kind st) eqn:Ek.
    - discriminate.
    - destruct (truthy (s_initial st)) as [i|] eqn:Ei; [|discriminate]. intros H; inversion H; subst.
      cbn [ms_entered ms_exited]. split; [|split; [constructor|intros []]].
      constructor; [|constructor]. eapply Hinit_K; eauto.
    - destruct (children_for c leaf) as [|a l] eqn:Ec; [discriminate|]. intros H; inversion H; subst.
      cbn [ms_entered ms_exited]. split; [|split; [constructor|intros []]].
      apply (Forall_sort str_leb K (a :: l)). rewrite <- Ec. apply kids_K, Hk.
    - destruct (ostr_eqb (parent_for c leaf) (root c)) eqn:E; [|discriminate].
      exfalso. apply C02Proofs.ostr_eqb_iff in E. rewrite Hroot in E. eapply Hnofinal; eauto.
    - destruct (lookup leaf m) as [l|] eqn:El.
      + intros H; inversion H; subst. cbn [ms_entered ms_exited].
        split; [apply Forall_sort; eapply memK_lookup; eauto|].
        split; [constructor; [exact Hk|constructor]|].
        intros [<-|[]]. apply Hleaf_r; reflexivity.
      + destruct (s_memory st) as [mm|] eqn:Em; [|discriminate]. intros H; inversion H; subst.
        cbn [ms_entered ms_exited].
        split; [constructor; [|constructor]; eapply Hmem_K; eauto; rewrite Ek; reflexivity|].
        split; [constructor; [exact Hk|constructor]|].
        intros [<-|[]]. apply Hleaf_r; reflexivity.
    - destruct (lookup leaf m) as [l|] eqn:El.
      + intros H; inversion H; subst. cbn [ms_entered ms_exited].
        split; [apply Forall_sort; eapply memK_lookup; eauto|].
        split; [constructor; [exact Hk|constructor]|].
        intros [<-|[]]. apply Hleaf_r; reflexivity.
      + destruct (s_memory st) as [mm|] eqn:Em; [|discriminate]. intros H; inversion H; subst.
        cbn [ms_entered ms_exited].
        split; [constructor; [|constructor]; eapply Hmem_K; eauto; rewrite Ek; reflexivity|].
        split; [constructor; [exact Hk|constructor]|].
        intros [<-|[]]. apply Hleaf_r; reflexivity.
  Qed.

  Lemma stab_for_orthogonal_K cfg n step :
    K n -> stab_for_orthogonal c cfg n = Some (inl step) ->
    Forall K (ms_entered step) /\ Forall K (ms_exited step) /\ ~ In r (ms_exited step).
  Proof.
    intros Hk. unfold stab_for_orthogonal. destruct (state_for c n) as [st|]; [|discriminate].
    destruct (s_kind st); try discriminate.
    destruct (filter _ (children_for c n)) as [|a l] eqn:Ef; [discriminate|].
    intros H; inversion H; subst. cbn [ms_entered ms_exited]. split; [|split; [constructor|intros []]].
    apply (Forall_sort str_leb K (a :: l)). rewrite <- Ef. apply Forall_filter, kids_K, Hk.
  Qed.

  Lemma css_K {ctx} (i : istate ctx) step :
    Forall K (i_config i) -> memK (i_memory i) ->
    create_stabilization_step ctx c i = Some (inl step) ->
    Forall K (ms_entered step) /\ Forall K (ms_exited step) /\ ~ In r (ms_exited step).
  Proof.
    intros Hc Hm. unfold create_stabilization_step.
    destruct (first_some (stab_for_leaf c (i_memory i)) _) as [y|] eqn:E1.
    - intros H; inversion H; subst. apply C02Proofs.first_some_some in E1. destruct E1 as [x [Hx E1]].
      apply sort_In in Hx. unfold leaf_for in Hx. apply filter_In in Hx. rewrite Forall_forall in Hc.
      apply (stab_for_leaf_K (i_memory i) x step); [apply Hc; tauto|exact Hm|exact E1].
    - intros H. apply C02Proofs.first_some_some in H. destruct H as [x [Hx E2]].
      apply sort_In in Hx. rewrite Forall_forall in Hc.
      apply (stab_for_orthogonal_K (i_config i) x step); [apply Hc; exact Hx|exact E2].
  Qed.

  Lemma states_for_w l : ~ In h l -> states_for c' l = states_for c l.
  Proof.
    induction l as [|n l IH]; intros Hl; cbn [states_for]; [reflexivity|].
    rewrite state_for_w by (intros ->; apply Hl; left; reflexivity).
    rewrite IH by (intros H; apply Hl; right; exact H). reflexivity.
  Qed.

  Lemma states_for_names : forall l sts, states_for c l = Some sts -> map s_name sts = l.
  Proof.
    induction l as [|n l IH]; intros sts; cbn [states_for].
    - intros H; inversion H; reflexivity.
    - destruct (state_for c n) as [st|] eqn:E; [|discriminate].
      destruct (states_for c l) as [rr|]; [|discriminate]. intros H; inversion H; subst.
      cbn [map]. rewrite (Hnames n st E), (IH rr eq_refl). reflexivity.
  Qed.

  Lemma Forall_K_not_h l : Forall K l -> ~ In h l.
  Proof. intros Hl Hin. rewrite Forall_forall in Hl. apply (K_ne_h h (Hl h Hin)). reflexivity. Qed.

  (* ---------------------------------------------------------------------------------------- *)
  (* 5. The monadic layer                                                                      *)
  (* ---------------------------------------------------------------------------------------- *)
  Variable ctx : Type.
  Variable X : Type.
  Variables exec_code exec_code' : call ctx -> ctx -> option (ctx * list event).
  Variables eval_code eval_code' : call ctx -> ctx -> option bool.
  Variable emit : Z -> meta -> X -> X * option err.
  (* the evaluator does not notice that h is active *)
  Hypothesis exec_indep : forall cl x, exec_code' (wrap_call h cl) x = exec_code cl x.
  Hypothesis eval_indep : forall cl x, eval_code' (wrap_call h cl) x = eval_code cl x.
  Variable t0 : Z.
  (* correspondence of the observation traces: every new observation is mapped by wrap_obs; what
     happens to the old part is left open (map wrap_obs for the step theorem; two extra observations
     buried in the trace for the initial step) *)
  Variable ft : list (obs ctx) -> list (obs ctx).
  Variable Tdom : list (obs ctx) -> Prop.
  Hypothesis ft_cons : forall o tr, Tdom tr -> ft (o :: tr) = wrap_obs h o :: ft tr.
  Hypothesis Tdom_cons : forall o tr, Tdom tr -> Tdom (o :: tr).

  Notation mst := (mstate ctx X).
  Notation ist := (istate ctx).
  Notation MM := (Interp.M ctx X).
  Notation Wi := (wrap_state h t0).

  Definition W (s : mst) : mst := mkM (Wi (m_i s)) (m_x s) (ft (m_tr s)).

  Definition invi (i : ist) : Prop :=
    i_initialized i = true /\ Forall K (i_config i) /\ memK (i_memory i).
  Definition inv (s : mst) : Prop := invi (m_i s) /\ Tdom (m_tr s).

  Definition rel_res {A} (R : A -> A -> Prop) (x' x : A + err) : Prop :=
    match x', x with
    | inl a', inl a => R a' a
    | inr e', inr e => e' = e
    | _, _ => False
    end.

  Definition EQV {A} (R : A -> A -> Prop) (m' m : MM A) : Prop :=
    forall s, inv s ->
      fst (m' (W s)) = W (fst (m s)) /\ inv (fst (m s)) /\ rel_res R (snd (m' (W s))) (snd (m s)).

  Lemma eqv_ret {A} (R : A -> A -> Prop) a' a : R a' a -> EQV R (ret ctx X a') (ret ctx X a).
  Proof. intros Hr s Hs. cbn. auto. Qed.

  Lemma eqv_fail {A} (R : A -> A -> Prop) e : EQV R (fail ctx X e) (fail ctx X e).
  Proof. intros s Hs. cbn. auto. Qed.

  Lemma eqv_bind {A B} (R1 : A -> A -> Prop) (R2 : B -> B -> Prop) (m' m : MM A) (f' f : A -> MM B) :
    EQV R1 m' m -> (forall a' a, R1 a' a -> EQV R2 (f' a') (f a)) ->
    EQV R2 (bind ctx X m' f') (bind ctx X m f).
  Proof.
    intros Hm Hf s Hs. unfold bind. destruct (Hm s Hs) as (E & I1 & Rr).
    destruct (m' (W s)) as [s1' [a'|e']], (m s) as [s1 [a|e]]; cbn [fst snd rel_res] in *; try contradiction.
    - subst s1'. apply Hf; assumption.
    - subst. auto.
  Qed.

  Lemma eqv_weaken {A} (R R' : A -> A -> Prop) (m' m : MM A) :
    EQV R m' m -> (forall a' a, R a' a -> R' a' a) -> EQV R' m' m.
  Proof.
    intros Hm HR s Hs. destruct (Hm s Hs) as (E & I1 & Rr). split; [exact E|]. split; [exact I1|].
    destruct (snd (m' (W s))), (snd (m s)); cbn [rel_res] in *; auto.
  Qed.

  (* add a fact about the result of the run of c *)
  Lemma eqv_strengthen {A} (R : A -> A -> Prop) (Q : A -> Prop) (m' m : MM A) :
    EQV R m' m -> (forall s a, inv s -> snd (m s) = inl a -> Q a) ->
    EQV (fun a' a => R a' a /\ Q a) m' m.
  Proof.
    intros Hm HQ s Hs. destruct (Hm s Hs) as (E & I1 & Rr). split; [exact E|]. split; [exact I1|].
    specialize (HQ s). destruct (snd (m' (W s))), (snd (m s)); cbn [rel_res] in *; auto.
  Qed.

  Lemma eqv_get_bind {B} (R : B -> B -> Prop) (f' f : ist -> MM B) :
    (forall i, invi i -> EQV R (f' (Wi i)) (f i)) ->
    EQV R (bind ctx X (get ctx X) f') (bind ctx X (get ctx X) f).
  Proof. intros H s Hs. unfold bind, get. cbn [W m_i]. apply (H (m_i s) (proj1 Hs) s Hs). Qed.

  Lemma eqv_put i : invi i -> EQV eq (put ctx X (Wi i)) (put ctx X i).
  Proof. intros Hi s Hs. unfold put. cbn. split; [reflexivity|]. split; [split; [exact Hi|apply Hs]|reflexivity]. Qed.

  Lemma eqv_modify g' g :
    (forall i, g' (Wi i) = Wi (g i)) -> (forall i, invi i -> invi (g i)) ->
    EQV eq (modify ctx X g') (modify ctx X g).
  Proof.
    intros Hg Hi s Hs. unfold modify, W. cbn [fst snd m_i m_x m_tr rel_res]. rewrite Hg.
    split; [reflexivity|]. split; [split; [apply Hi, Hs|apply Hs]|reflexivity].
  Qed.

  Lemma eqv_observe o : EQV eq (observe ctx X (wrap_obs h o)) (observe ctx X o).
  Proof.
    intros s Hs. unfold observe, W. cbn [fst snd m_i m_x m_tr rel_res].
    rewrite ft_cons by apply Hs. split; [reflexivity|]. split; [split; [apply Hs|apply Tdom_cons, Hs]|reflexivity].
  Qed.

  Lemma eqv_mapM {A B} (P : A -> Prop) (f' f : A -> MM B) l :
    (forall x, P x -> EQV eq (f' x) (f x)) -> Forall P l -> EQV eq (mapM ctx X f' l) (mapM ctx X f l).
  Proof.
    intros H Hl. induction Hl as [|x l Hx Hl IH]; cbn [mapM]; [apply eqv_ret; reflexivity|].
    eapply eqv_bind; [apply H, Hx|]. intros y' y ->.
    eapply eqv_bind; [apply IH|]. intros ys' ys ->. apply eqv_ret. reflexivity.
  Qed.

  Lemma eqv_iterM {A} (P : A -> Prop) (f' f : A -> MM unit) l :
    (forall x, P x -> EQV eq (f' x) (f x)) -> Forall P l -> EQV eq (iterM ctx X f' l) (iterM ctx X f l).
  Proof.
    intros H Hl. induction Hl as [|x l Hx Hl IH]; cbn [iterM]; [apply eqv_ret; reflexivity|].
    eapply eqv_bind; [apply H, Hx|]. intros _ _ _. exact IH.
  Qed.

  (* ---- listeners ---- *)
  Lemma raise_meta_eqv m : EQV eq (raise_meta ctx X emit m) (raise_meta ctx X emit m).
  Proof.
    intros s Hs. unfold raise_meta, W. cbn [m_i m_x m_tr wrap_state i_time].
    destruct (emit (i_time (m_i s)) m (m_x s)) as [x' [e|]]; cbn [fst snd m_i m_x m_tr rel_res];
      rewrite ft_cons by apply Hs;
      (split; [reflexivity|]; split; [split; [apply Hs|apply Tdom_cons, Hs]|reflexivity]).
  Qed.

  Lemma queue_event_w (i : ist) e : queue_event (Wi i) e = Wi (queue_event i e).
  Proof. unfold queue_event. destruct (e_kind e); reflexivity. Qed.

  Lemma queue_event_invi (i : ist) e : invi i -> invi (queue_event i e).
  Proof. unfold queue_event, invi. destruct (e_kind e); cbn; auto. Qed.

  Lemma raise_event_eqv e : EQV eq (raise_event ctx X emit e) (raise_event ctx X emit e).
  Proof.
    unfold raise_event. destruct (e_kind e).
    - apply eqv_ret. reflexivity.
    - eapply eqv_bind.
      + apply eqv_modify; [intros i; apply queue_event_w|intros i; apply queue_event_invi].
      + intros _ _ _. eapply eqv_bind; [apply raise_meta_eqv|]. intros _ _ _.
        destruct (has_delay e); [apply raise_meta_eqv|apply eqv_ret; reflexivity].
    - apply raise_meta_eqv.
  Qed.

  (* ---- evaluator calls ---- *)
  Lemma run_code_eqv k o cd ev :
    owner_ok o ->
    EQV eq (run_code ctx X exec_code' c' k o cd ev) (run_code ctx X exec_code c k o cd ev).
  Proof.
    intros Ho. unfold run_code. apply eqv_get_bind. intros i Hi.
    rewrite mk_call_w by exact Ho. change (i_ctx (Wi i)) with (i_ctx i). rewrite exec_indep.
    destruct cd as [cd|].
    - destruct (exec_code (mk_call ctx c i k o 0 (Some cd) ev) (i_ctx i)) as [[x' sent]|].
      + eapply eqv_bind; [apply (eqv_observe (ObExec _ (Some sent)))|]. intros _ _ _.
        eapply eqv_bind; [apply (eqv_put (set_ctx ctx x' i)); exact Hi|]. intros _ _ _.
        apply eqv_ret. reflexivity.
      + eapply eqv_bind; [apply (eqv_observe (ObExec _ None))|]. intros _ _ _. apply eqv_fail.
    - eapply eqv_bind; [apply (eqv_observe (ObExec _ (Some [])))|]. intros _ _ _. apply eqv_ret. reflexivity.
  Qed.

  Lemma eval_cond_eqv k o idx cd ev :
    owner_ok o ->
    EQV eq (eval_cond ctx X eval_code' c' k o idx cd ev) (eval_cond ctx X eval_code c k o idx cd ev).
  Proof.
    intros Ho. unfold eval_cond. apply eqv_get_bind. intros i Hi.
    rewrite mk_call_w by exact Ho. change (i_ctx (Wi i)) with (i_ctx i). rewrite eval_indep.
    destruct (eval_code (mk_call ctx c i k o idx (Some cd) ev) (i_ctx i)) as [b|].
    - eapply eqv_bind; [apply (eqv_observe (ObEval _ (Some b)))|]. intros _ _ _. apply eqv_ret. reflexivity.
    - eapply eqv_bind; [apply (eqv_observe (ObEval _ None))|]. intros _ _ _. apply eqv_fail.
  Qed.

  Lemma eval_conds_eqv k o cds ev : owner_ok o -> forall idx,
    EQV eq (eval_conds ctx X eval_code' c' k o idx cds ev) (eval_conds ctx X eval_code c k o idx cds ev).
  Proof.
    intros Ho. induction cds as [|cd cds IH]; intros idx; cbn [eval_conds]; [apply eqv_ret; reflexivity|].
    eapply eqv_bind; [apply eval_cond_eqv; exact Ho|]. intros b' b ->.
    destruct b; [apply IH|apply eqv_fail].
  Qed.

  Lemma contract_eqv k o pre post inv_ ev :
    owner_ok o ->
    EQV eq (contract ctx X eval_code' c' k o pre post inv_ ev) (contract ctx X eval_code c k o pre post inv_ ev).
  Proof.
    intros Ho. unfold contract. apply eqv_get_bind. intros i Hi.
    change (i_ignore_contract (Wi i)) with (i_ignore_contract i).
    destruct (i_ignore_contract i); [apply eqv_ret; reflexivity|].
    destruct k; try (apply eqv_ret; reflexivity); try (apply eval_conds_eqv; exact Ho).
    eapply eqv_bind; [|intros _ _ _; apply eval_conds_eqv; exact Ho].
    destruct inv_, post; try (apply eqv_ret; reflexivity);
      (apply eqv_modify; [intros j; reflexivity|intros j Hj; exact Hj]).
  Qed.

  Lemma state_contract_eqv k st ev :
    K (s_name st) ->
    EQV eq (state_contract ctx X eval_code' c' k st ev) (state_contract ctx X eval_code c k st ev).
  Proof. intros Hk. unfold state_contract. apply contract_eqv. apply owner_ok_state, Hk. Qed.

  Lemma trans_contract_eqv k it ev :
    EQV eq (trans_contract ctx X eval_code' c' k it ev) (trans_contract ctx X eval_code c k it ev).
  Proof. unfold trans_contract. apply contract_eqv. apply owner_ok_trans. Qed.

  (* ---- _select_transitions ---- *)
  Lemma eval_guards_eqv exposed ts :
    EQV eq (eval_guards ctx X eval_code' c' exposed ts) (eval_guards ctx X eval_code c exposed ts).
  Proof.
    induction ts as [|it ts IH]; cbn [eval_guards]; [apply eqv_ret; reflexivity|].
    eapply (eqv_bind eq).
    - destruct (t_guard (snd it)) as [g|]; [apply eval_cond_eqv, owner_ok_trans|apply eqv_ret; reflexivity].
    - intros ok' ok ->. eapply eqv_bind; [apply IH|]. intros r' r0 ->. apply eqv_ret. reflexivity.
  Qed.

  Lemma sel_priorities_eqv exposed gs :
    EQV eq (sel_priorities ctx X eval_code' c' exposed gs) (sel_priorities ctx X eval_code c exposed gs).
  Proof.
    induction gs as [|[z ts] gs IH]; cbn [sel_priorities]; [apply eqv_ret; reflexivity|].
    eapply eqv_bind; [apply eval_guards_eqv|]. intros r' r0 ->.
    destruct r0; [exact IH|apply eqv_ret; reflexivity].
  Qed.

  (* the `ignored` lists differ by occurrences of h only *)
  Definition ign_rel (ig' ig : list name) : Prop := forall x, x <> h -> mem x ig' = mem x ig.
  Definition Rsel (r' r0 : list itrans * list name) : Prop := fst r' = fst r0 /\ ign_rel (snd r') (snd r0).

  Lemma ign_rel_step ig' ig src : K src -> ign_rel ig' ig ->
    ign_rel (ig' ++ ancestors_for c' src ++ [src]) (ig ++ ancestors_for c src ++ [src]).
  Proof.
    intros Hk Hi x Hx. rewrite anc_w by exact Hk. rewrite !mem_app_w. rewrite (Hi x Hx).
    cbn [mem]. rewrite (str_eqb_neq x h Hx). rewrite !orb_false_r. reflexivity.
  Qed.

  Lemma sel_sources_eqv exposed gs :
    Forall (fun g : name * list itrans => K (fst g)) gs ->
    forall selected ig' ig, ign_rel ig' ig ->
      EQV Rsel (sel_sources ctx X eval_code' c' exposed gs selected ig')
               (sel_sources ctx X eval_code c exposed gs selected ig).
  Proof.
    intros Hg. induction Hg as [|[src ts] gs Hk Hg IH]; intros selected ig' ig Hi; cbn [sel_sources].
    - apply eqv_ret. split; [reflexivity|exact Hi].
    - cbn [fst] in Hk. rewrite (Hi src (K_ne_h src Hk)).
      destruct (mem src ig); [apply IH; exact Hi|].
      eapply eqv_bind; [apply sel_priorities_eqv|]. intros r' r0 ->.
      destruct r0; [apply IH; exact Hi|]. apply IH. apply ign_rel_step; assumption.
  Qed.

  Lemma source_labels_K ts :
    Forall srcK ts ->
    Forall (fun g : name * list itrans => K (fst g))
           (sorted_groupby (fun it : itrans => t_source (snd it)) str_eqb str_leb false ts).
  Proof.
    intros H. unfold sorted_groupby. apply Forall_sort. apply (groups_of_PK _ _ K). exact H.
  Qed.

  Definition groupsK {L} (gs : list (L * list itrans)) : Prop := Forall (fun g => Forall srcK (snd g)) gs.

  Lemma sel_depths_eqv exposed gs' gs :
    Forall2 (fun g' g : Z * list itrans => snd g' = snd g) gs' gs -> groupsK gs ->
    forall selected ig' ig, ign_rel ig' ig ->
      EQV Rsel (sel_depths ctx X eval_code' c' exposed gs' selected ig')
               (sel_depths ctx X eval_code c exposed gs selected ig).
  Proof.
    intros H2. induction H2 as [|[d' ts'] [d ts] gs' gs E H2 IH]; intros Hg selected ig' ig Hi; cbn [sel_depths].
    - apply eqv_ret. split; [reflexivity|exact Hi].
    - cbn [snd] in E. subst ts'. inversion Hg; subst. cbn [snd] in *.
      eapply eqv_bind; [apply sel_sources_eqv; [apply source_labels_K; assumption|exact Hi]|].
      intros r' r0 [E1 E2]. rewrite E1. apply IH; assumption.
  Qed.

  Lemma depth_groups_w ts :
    Forall srcK ts ->
    Forall2 (fun g' g : Z * list itrans => snd g' = snd g)
      (sorted_groupby (fun it : itrans => depth_for c' (t_source (snd it))) Z.eqb Z.leb true ts)
      (sorted_groupby (fun it : itrans => depth_for c (t_source (snd it))) Z.eqb Z.leb true ts).
  Proof.
    intros H.
    rewrite (sorted_groupby_sh (fun it : itrans => depth_for c (t_source (snd it)))
                               (fun it : itrans => depth_for c' (t_source (snd it))) ts).
    - induction (sorted_groupby _ Z.eqb Z.leb true ts) as [|g l IH]; constructor; auto.
    - apply Forall_forall. intros it Hit. rewrite Forall_forall in H. apply depth_w. apply H. exact Hit.
  Qed.

  Lemma sel_eventness_eqv event gs :
    groupsK gs -> forall selected,
      EQV eq (sel_eventness ctx X eval_code' c' event gs selected)
             (sel_eventness ctx X eval_code c event gs selected).
  Proof.
    intros Hg. induction Hg as [|[b ts] gs Hts Hg IH]; intros selected; cbn [sel_eventness].
    - apply eqv_ret. reflexivity.
    - destruct selected as [|a sel]; [|apply eqv_ret; reflexivity]. cbn [snd] in Hts.
      eapply eqv_bind.
      + apply sel_depths_eqv; [apply depth_groups_w; exact Hts|apply sorted_groupby_Fsnd; exact Hts|].
        intros x _. reflexivity.
      + intros r' r0 [E1 _]. rewrite E1. apply IH.
  Qed.

  Lemma select_transitions_eqv event cfg :
    EQV eq (select_transitions ctx X eval_code' c' event (h :: cfg))
           (select_transitions ctx X eval_code c event cfg).
  Proof.
    unfold select_transitions. rewrite considered_w. apply sel_eventness_eqv.
    apply sorted_groupby_Fsnd. apply Forall_forall. intros it Hit.
    pose proof (considered_K event cfg) as Hc. rewrite Forall_forall in Hc. apply Hc. exact Hit.
  Qed.

  (* what the declarative characterisation of the selection (C01) says about the selected list *)
  Definition selP (ts : list itrans) : Prop := Forall (fun it => srcK it /\ tgtK it) ts /\ nomix ts.

  Lemma select_post event cfg (s s' : mst) sel :
    Forall K cfg -> select_transitions ctx X eval_code c event cfg s = (s', inl sel) -> selP sel.
  Proof.
    intros Hc H. destruct (C01_selection ctx X eval_code c Hdepth event cfg s s' sel H) as [Hsel _].
    assert (HK : forall it, In it sel -> srcK it /\ tgtK it).
    { intros it Hit. apply Hsel in Hit. destruct Hit as [Hin _]. apply itrans_K. exact Hin. }
    assert (Hroot_alone : forall a b, In a sel -> In b sel -> t_source (snd a) = r ->
                                      t_source (snd b) <> t_source (snd a) -> False).
    { intros a b Ha Hb Ear Hne'. apply Hsel in Ha. apply Hsel in Hb.
      destruct Ha as (_ & _ & Hno & _). destruct Hb as (Hbin & Hbc & _).
      apply Hno. exists b. split; [exact Hbin|]. split; [exact Hbc|].
      unfold inner. rewrite Ear. apply Hanc_root; [apply itrans_K; exact Hbin|congruence]. }
    split; [apply Forall_forall; exact HK|].
    intros a b Ha Hb. unfold pairok.
    destruct (string_dec (t_source (snd a)) (t_source (snd b))) as [E|E]; [left; exact E|right].
    split; intros Er.
    - apply (Hroot_alone a b Ha Hb Er). congruence.
    - apply (Hroot_alone b a Hb Ha Er). congruence.
  Qed.

  (* ---- _sort_transitions ---- *)
  Lemma sort_transitions_eqv ts :
    selP ts ->
    EQV (fun a' a => a' = a /\ Forall (fun it => srcK it /\ tgtK it) a)
        (sort_transitions ctx X c' ts) (sort_transitions ctx X c ts).
  Proof.
    intros [Hk Hm]. unfold sort_transitions.
    assert (Hs : Forall srcK ts) by (eapply Forall_impl; [|exact Hk]; cbv beta; tauto).
    destruct ts as [|a [|b ts]]; try (apply eqv_ret; split; [reflexivity|exact Hk]).
    rewrite check_pairs_w by assumption.
    destruct (check_pairs c (a :: b :: ts)); [apply eqv_fail|].
    rewrite (sort_ext_in (trans_order_leb c) (trans_order_leb c') srcK) by (auto using trans_order_w).
    apply eqv_ret. split; [reflexivity|]. apply Forall_sort. exact Hk.
  Qed.

  (* ---- _compute_steps ---- *)
  Lemma snd_eq {A} (m : MM A) (s : mst) a : snd (m s) = inl a -> m s = (fst (m s), inl a).
  Proof. destruct (m s) as [s1 x]. cbn. intros ->. reflexivity. Qed.

  (* a transition step that exits the root of c enters it again *)
  Lemma create_step_keeps_root cfg ev it :
    srcK it -> tgtK it ->
    In r (ms_exited (create_step c cfg ev it)) -> In r (ms_entered (create_step c cfg ev it)).
  Proof.
    intros Hs Ht. unfold create_step. destruct (t_target (snd it)) as [tgt|] eqn:Et; cbn [ms_entered ms_exited];
      [|intros []].
    assert (Kt : K tgt) by (apply Ht; exact Et).
    set (lca := least_common_ancestor c (t_source (snd it)) tgt).
    assert (Hl : forall x, lca = Some x -> In x (ancestors_for c (t_source (snd it))) /\ In x (ancestors_for c tgt)).
    { intros x Hx. apply lca_in. exact Hx. }
    intros Hin. apply in_app_or in Hin.
    assert (Elbl : last_before lca (ancestors_for c (t_source (snd it))) (t_source (snd it)) = r).
    { destruct Hin as [Hin|Hin].
      - apply filter_In in Hin. destruct Hin as [Hin _]. apply sort_In in Hin. exfalso. eapply desc_not_r; eauto.
      - destruct (mem _ cfg); [|destruct Hin]. destruct Hin as [E|[]]. exact E. }
    destruct (C02Proofs.last_before_spec c Hne Hdepth lca (t_source (snd it))) as [_ Hp];
      [intros x Hx; apply Hl; exact Hx|].
    rewrite Elbl, Hroot_par in Hp. rewrite <- Hp.
    apply (C02Proofs.entered_spec c Hne Hdepth None tgt r); [discriminate|].
    split; [|exact I]. unfold C02Proofs.under.
    destruct (string_dec tgt r) as [E|E]; [left; exact E|right; apply Hanc_root; assumption].
  Qed.

  Definition step_ok (step : microstep) : Prop := Forall K (ms_entered step) /\ Forall K (ms_exited step).

  Definition step_good (step : microstep) : Prop :=
    step_ok step /\ (In r (ms_exited step) -> In r (ms_entered step)).

  Lemma compute_steps_eqv :
    EQV (fun a' a => a' = a /\ Forall step_good a)
        (compute_steps ctx X eval_code' c') (compute_steps ctx X eval_code c).
  Proof.
    unfold compute_steps. apply eqv_get_bind. intros i Hi.
    change (i_initialized (Wi i)) with (i_initialized i). destruct Hi as (Hini & Hc & Hm).
    rewrite Hini. cbn [negb]. change (select_event (Wi i)) with (select_event i).
    change (i_config (Wi i)) with (h :: i_config i).
    eapply eqv_bind.
    { apply (eqv_strengthen eq selP); [apply select_transitions_eqv|].
      intros s a _ Ha. apply snd_eq in Ha. eapply select_post; eauto. }
    intros ts' ts [-> Hts].
    eapply eqv_bind; [apply (eqv_observe (ObSelected (map fst ts)))|]. intros _ _ _.
    destruct ts as [|t1 ts1].
    - destruct (select_event i); apply eqv_ret; (split; [reflexivity|]); [|constructor].
      constructor; [|constructor]. split; [split; constructor|intros []].
    - eapply eqv_bind; [apply sort_transitions_eqv; exact Hts|]. intros ts2' ts2 [-> Hts2].
      apply eqv_get_bind. intros i2 Hi2. change (i_config (Wi i2)) with (h :: i_config i2).
      rewrite create_steps_w by exact Hts2. apply eqv_ret. split; [reflexivity|].
      unfold create_steps. apply Forall_forall. intros st Hst. apply in_map_iff in Hst.
      destruct Hst as [it [<- Hit]]. rewrite Forall_forall in Hts2. destruct (Hts2 it Hit) as [H1 H2].
      split; [apply create_step_K; assumption|apply create_step_keeps_root; assumption].
  Qed.

  (* ---- _apply_step ---- *)
  Lemma memK_dset m k v : memK m -> Forall K v -> memK (dset k v m).
  Proof.
    intros Hm Hv. induction Hm as [|[k' v'] m Hp Hm IH]; cbn [dset].
    - constructor; [exact Hv|constructor].
    - destruct (str_eqb k k'); constructor; auto.
  Qed.

  Lemma modify_memory_eqv child v :
    Forall K v ->
    EQV eq (modify ctx X (fun s => set_memory ctx (dset child v (i_memory s)) s))
           (modify ctx X (fun s => set_memory ctx (dset child v (i_memory s)) s)).
  Proof.
    intros Hv. apply eqv_modify; [intros i; reflexivity|].
    intros i (H1 & H2 & H3). split; [exact H1|]. split; [exact H2|]. cbn [set_memory i_memory].
    apply memK_dset; assumption.
  Qed.

  Lemma filter_mem_active (l active : list name) :
    Forall K l -> filter (fun n => mem n l) (h :: active) = filter (fun n => mem n l) active.
  Proof. intros Hl. cbn [filter]. rewrite (mem_h_K l Hl). reflexivity. Qed.

  Lemma record_history_eqv active st :
    K (s_name st) -> Forall K active ->
    EQV eq (record_history ctx X c' (h :: active) st) (record_history ctx X c active st).
  Proof.
    intros Hk Hact. unfold record_history. destruct (s_kind st); try (apply eqv_ret; reflexivity).
    rewrite !children_for_w by (apply K_ne_h; exact Hk).
    apply (eqv_iterM K); [|apply kids_K; exact Hk].
    intros child Hch. rewrite state_for_w by (apply K_ne_h; exact Hch).
    destruct (state_for c child) as [cs|]; [|apply eqv_fail].
    destruct (s_kind cs); try (apply eqv_ret; reflexivity).
    - rewrite filter_mem_active by (apply kids_K; exact Hk).
      destruct (filter (fun n => mem n (children_for c (s_name st))) active) as [|a [|b l]] eqn:E;
        try apply eqv_fail.
      apply modify_memory_eqv. rewrite <- E. apply Forall_filter. exact Hact.
    - rewrite desc_w by exact Hk. rewrite filter_mem_active by (apply desc_K; exact Hk).
      pose proof (Forall_filter (fun n => mem n (descendants_for c (s_name st))) K _ Hact) as Hf.
      destruct (filter (fun n => mem n (descendants_for c (s_name st))) active) as [|a l]; [apply eqv_fail|].
      apply modify_memory_eqv. unfold sort_names. apply Forall_sort. exact Hf.
  Qed.

  Lemma Forall_remove_first_K x l : Forall K l -> Forall K (remove_first x l).
  Proof.
    induction 1 as [|y l Hy Hl IH]; cbn [remove_first]; [constructor|]. destruct (str_eqb x y); auto.
  Qed.

  Lemma exit_state_eqv active ev st :
    K (s_name st) -> Forall K active ->
    EQV eq (exit_state ctx X exec_code' eval_code' emit c' (h :: active) ev st)
           (exit_state ctx X exec_code eval_code emit c active ev st).
  Proof.
    intros Hk Hact. unfold exit_state.
    eapply eqv_bind; [apply run_code_eqv, owner_ok_state, Hk|]. intros sent' sent ->.
    eapply eqv_bind; [apply record_history_eqv; assumption|]. intros _ _ _.
    apply eqv_get_bind. intros i Hi. change (i_config (Wi i)) with (h :: i_config i).
    eapply (eqv_bind eq).
    { rewrite mem_hcons by exact Hk. destruct (mem (s_name st) (i_config i)); [|apply eqv_fail].
      cbn [remove_first]. rewrite (str_eqb_neq (s_name st) h (K_ne_h _ Hk)).
      apply (eqv_put (set_config ctx (remove_first (s_name st) (i_config i)) i)).
      destruct Hi as (H1 & H2 & H3). split; [exact H1|]. split; [|exact H3].
      cbn [set_config i_config]. apply Forall_remove_first_K. exact H2. }
    intros _ _ _. eapply eqv_bind; [apply state_contract_eqv; exact Hk|]. intros _ _ _.
    eapply eqv_bind; [apply raise_meta_eqv|]. intros _ _ _. apply eqv_ret. reflexivity.
  Qed.

  Lemma enter_state_eqv ev st :
    K (s_name st) ->
    EQV eq (enter_state ctx X exec_code' eval_code' emit c' ev st)
           (enter_state ctx X exec_code eval_code emit c ev st).
  Proof.
    intros Hk. unfold enter_state.
    eapply eqv_bind; [apply state_contract_eqv; exact Hk|]. intros _ _ _.
    eapply eqv_bind; [apply run_code_eqv, owner_ok_state, Hk|]. intros sent' sent ->.
    eapply (eqv_bind eq).
    { apply eqv_modify.
      - intros i. unfold set_idle, set_entry, set_config, wrap_state.
        cbn [i_id i_initialized i_time i_memory i_config i_entry i_idle i_sent i_iq i_eq i_ignore_contract i_ctx i_old].
        cbn [dset]. rewrite (str_eqb_neq (s_name st) h (K_ne_h _ Hk)).
        unfold set_add. rewrite mem_hcons by exact Hk.
        destruct (mem (s_name st) (i_config i)); reflexivity.
      - intros i (H1 & H2 & H3). split; [exact H1|]. split; [|exact H3].
        cbn [set_idle set_entry set_config i_config]. unfold set_add.
        destruct (mem (s_name st) (i_config i)); [exact H2|]. apply Forall_app. split; [exact H2|].
        constructor; [exact Hk|constructor]. }
    intros _ _ _. eapply eqv_bind; [apply raise_meta_eqv|]. intros _ _ _. apply eqv_ret. reflexivity.
  Qed.

  Lemma process_transition_eqv ev i :
    EQV eq (process_transition ctx X exec_code' eval_code' emit c' ev i)
           (process_transition ctx X exec_code eval_code emit c ev i).
  Proof.
    unfold process_transition. change (c_transitions c') with (c_transitions c).
    destruct (nth_error (c_transitions c) i) as [t|] eqn:Et; [|apply eqv_fail].
    eapply eqv_bind; [apply trans_contract_eqv|]. intros _ _ _.
    eapply eqv_bind; [apply trans_contract_eqv|]. intros _ _ _.
    eapply eqv_bind; [apply run_code_eqv, owner_ok_trans|]. intros sent' sent ->.
    eapply eqv_bind; [apply trans_contract_eqv|]. intros _ _ _.
    eapply eqv_bind; [apply trans_contract_eqv|]. intros _ _ _.
    eapply (eqv_bind eq).
    { apply eqv_modify; [|intros j Hj; exact Hj].
      intros j. unfold set_idle, wrap_state.
      cbn [i_id i_initialized i_time i_memory i_config i_entry i_idle i_sent i_iq i_eq i_ignore_contract i_ctx i_old].
      cbn [dset]. rewrite (str_eqb_neq (t_source t) h); [reflexivity|].
      apply K_ne_h, Hsrc_K. eapply nth_error_In; eauto. }
    intros _ _ _. eapply eqv_bind; [apply raise_meta_eqv|]. intros _ _ _. apply eqv_ret. reflexivity.
  Qed.


  Lemma states_for_K : forall l sts, states_for c l = Some sts -> Forall (fun st => K (s_name st)) sts.
  Proof.
    induction l as [|n l IH]; intros sts; cbn [states_for].
    - intros H; inversion H; constructor.
    - destruct (state_for c n) as [st|] eqn:E; [|discriminate].
      destruct (states_for c l) as [rr|]; [|discriminate]. intros H; inversion H; subst.
      constructor; [rewrite (Hnames n st E); eapply state_K; eauto|auto].
  Qed.

  Lemma apply_step_eqv step :
    step_ok step ->
    EQV eq (apply_step ctx X exec_code' eval_code' emit c' step)
           (apply_step ctx X exec_code eval_code emit c step).
  Proof.
    intros [Hen Hex]. unfold apply_step.
    rewrite !states_for_w by (apply Forall_K_not_h; assumption).
    destruct (states_for c (ms_entered step)) as [entered|] eqn:Een; [|apply eqv_fail].
    destruct (states_for c (ms_exited step)) as [exited|] eqn:Eex; [|apply eqv_fail].
    apply eqv_get_bind. intros i0 Hi0. change (i_config (Wi i0)) with (h :: i_config i0).
    eapply eqv_bind.
    { apply (eqv_mapM (fun st => K (s_name st))); [|eapply states_for_K; eauto].
      intros st Hst. apply exit_state_eqv; [exact Hst|apply Hi0]. }
    intros sent1' sent1 ->.
    eapply (eqv_bind eq).
    { destruct (ms_trans step); [apply process_transition_eqv|apply eqv_ret; reflexivity]. }
    intros sent2' sent2 ->.
    eapply eqv_bind.
    { apply (eqv_mapM (fun st => K (s_name st))); [|eapply states_for_K; eauto].
      intros st Hst. apply enter_state_eqv. exact Hst. }
    intros sent3' sent3 ->.
    eapply eqv_bind.
    { apply (eqv_iterM (fun _ => True)); [|apply Forall_forall; auto]. intros e _.
      eapply eqv_bind; [apply raise_event_eqv|]. intros _ _ _.
      apply eqv_modify; [intros j; reflexivity|intros j Hj; exact Hj]. }
    intros _ _ _. apply eqv_ret. reflexivity.
  Qed.

  (* ---------------------------------------------------------------------------------------- *)
  (* 6. The part of the macro step that needs the root of c to be active                       *)
  (* ---------------------------------------------------------------------------------------- *)
  Definition rootin (s : mst) : Prop := In r (i_config (m_i s)).

  Definition EQVr {A} (R : A -> A -> Prop) (m' m : MM A) : Prop :=
    forall s, inv s -> rootin s ->
      fst (m' (W s)) = W (fst (m s)) /\ inv (fst (m s)) /\ rel_res R (snd (m' (W s))) (snd (m s))
      /\ (forall a, snd (m s) = inl a -> rootin (fst (m s))).

  Lemma eqvr_ret {A} (R : A -> A -> Prop) a' a : R a' a -> EQVr R (ret ctx X a') (ret ctx X a).
  Proof.
    intros Hr s Hs Hroot'. cbn. split; [reflexivity|]. split; [exact Hs|]. split; [exact Hr|].
    intros _ _. exact Hroot'.
  Qed.

  Lemma eqvr_fail {A} (R : A -> A -> Prop) e : EQVr R (fail ctx X e) (fail ctx X e).
  Proof.
    intros s Hs Hr. cbn. split; [reflexivity|]. split; [exact Hs|]. split; [reflexivity|].
    intros a H. discriminate.
  Qed.

  Lemma eqvr_bind {A B} (R1 : A -> A -> Prop) (R2 : B -> B -> Prop) (m' m : MM A) (f' f : A -> MM B) :
    EQVr R1 m' m -> (forall a' a, R1 a' a -> EQVr R2 (f' a') (f a)) ->
    EQVr R2 (bind ctx X m' f') (bind ctx X m f).
  Proof.
    intros Hm Hf s Hs Hr. unfold bind. destruct (Hm s Hs Hr) as (E & I1 & Rr & Hp).
    destruct (m' (W s)) as [s1' [a'|e']], (m s) as [s1 [a|e]]; cbn [fst snd rel_res] in *; try contradiction.
    - subst s1'. apply Hf; auto. apply (Hp a). reflexivity.
    - subst. split; [reflexivity|]. split; [exact I1|]. split; [reflexivity|]. intros a H. discriminate.
  Qed.

  Lemma eqvr_lift {A} (R : A -> A -> Prop) (m' m : MM A) :
    EQV R m' m -> (forall s a, rootin s -> snd (m s) = inl a -> rootin (fst (m s))) -> EQVr R m' m.
  Proof.
    intros Hm Hp s Hs Hr. destruct (Hm s Hs) as (E & I1 & Rr).
    split; [exact E|]. split; [exact I1|]. split; [exact Rr|]. intros a Ha. eapply Hp; eauto.
  Qed.

  Lemma eqvr_lift_cfg {A} (R : A -> A -> Prop) (m' m : MM A) :
    EQV R m' m -> (forall s, i_config (m_i (fst (m s))) = i_config (m_i s)) -> EQVr R m' m.
  Proof. intros Hm Hc. apply eqvr_lift; [exact Hm|]. intros s a Hr _. unfold rootin. rewrite Hc. exact Hr. Qed.

  Lemma eqvr_get_bind {B} (R : B -> B -> Prop) (f' f : ist -> MM B) :
    (forall i, invi i -> In r (i_config i) -> EQVr R (f' (Wi i)) (f i)) ->
    EQVr R (bind ctx X (get ctx X) f') (bind ctx X (get ctx X) f).
  Proof. intros H s Hs Hr. unfold bind, get. cbn [W m_i]. apply (H (m_i s) (proj1 Hs) Hr s Hs Hr). Qed.

  (* the configuration after a successful apply_step *)
  Lemma In_remove_first_ne x y l : x <> y -> In x l -> In x (remove_first y l).
  Proof.
    intros Hn. induction l as [|z l IH]; cbn [remove_first]; [tauto|].
    intros [E|H]; destruct (str_eqb y z) eqn:Eq.
    - apply str_eqb_spec in Eq. congruence.
    - left. exact E.
    - exact H.
    - right. auto.
  Qed.

  Lemma In_set_add_l x y l : In x l -> In x (set_add y l).
  Proof. intros H. unfold set_add. destruct (mem y l); [exact H|]. apply in_or_app. left. exact H. Qed.

  Lemma In_set_add_same x l : In x (set_add x l).
  Proof.
    unfold set_add. destruct (mem x l) eqn:E; [apply mem_In; exact E|]. apply in_or_app. right. left. reflexivity.
  Qed.

  Lemma In_exit_all exi : forall l, In r l -> ~ In r (map s_name exi) -> In r (C02Proofs.exit_all exi l).
  Proof.
    unfold C02Proofs.exit_all. induction exi as [|st exi IH]; intros l Hl Hn; cbn [fold_left]; [exact Hl|].
    apply IH; [|intros H; apply Hn; right; exact H].
    apply In_remove_first_ne; [|exact Hl]. intros E. apply Hn. left. symmetry. exact E.
  Qed.

  Lemma In_enter_all_l ent : forall l, In r l -> In r (C02Proofs.enter_all ent l).
  Proof.
    unfold C02Proofs.enter_all. induction ent as [|st ent IH]; intros l Hl; cbn [fold_left]; [exact Hl|].
    apply IH. apply In_set_add_l. exact Hl.
  Qed.

  Lemma In_enter_all_r ent : forall l, In r (map s_name ent) -> In r (C02Proofs.enter_all ent l).
  Proof.
    unfold C02Proofs.enter_all. induction ent as [|st ent IH]; intros l Hin; cbn [fold_left]; [destruct Hin|].
    destruct Hin as [E|Hin]; [|apply IH; exact Hin].
    apply (In_enter_all_l ent). rewrite E. apply In_set_add_same.
  Qed.

  Lemma apply_step_rootin step (s : mst) a :
    (In r (ms_exited step) -> In r (ms_entered step)) -> rootin s ->
    snd (apply_step ctx X exec_code eval_code emit c step s) = inl a ->
    rootin (fst (apply_step ctx X exec_code eval_code emit c step s)).
  Proof.
    intros Hk Hr Ha. apply snd_eq in Ha.
    destruct (C02Proofs.apply_step_inv ctx X exec_code eval_code emit c (fun _ => True) step s _ a Ha)
      as (ent & exi & Een & Eex & Ecfg & _).
    unfold rootin. rewrite Ecfg. apply states_for_names in Een. apply states_for_names in Eex.
    destruct (in_dec string_dec r (ms_exited step)) as [Hin|Hnin].
    - apply In_enter_all_r. rewrite Een. apply Hk, Hin.
    - apply In_enter_all_l. apply In_exit_all; [exact Hr|]. rewrite Eex. exact Hnin.
  Qed.

  Lemma apply_step_eqvr step :
    step_good step ->
    EQVr eq (apply_step ctx X exec_code' eval_code' emit c' step)
            (apply_step ctx X exec_code eval_code emit c step).
  Proof.
    intros [Hok Hk]. apply eqvr_lift; [apply apply_step_eqv; exact Hok|].
    intros s a Hr Ha. eapply apply_step_rootin; eauto.
  Qed.

  Lemma stabilize_eqvr fuel :
    EQVr eq (stabilize ctx X exec_code' eval_code' emit c' fuel)
            (stabilize ctx X exec_code eval_code emit c fuel).
  Proof.
    induction fuel as [|f IH]; cbn [stabilize]; [apply eqvr_fail|].
    apply eqvr_get_bind. intros i (Hini & Hc & Hm) Hr. rewrite css_w by assumption.
    destruct (create_stabilization_step ctx c i) as [[step|e]|] eqn:Ecss.
    - destruct (css_K i step Hc Hm Ecss) as (H1 & H2 & H3).
      eapply eqvr_bind; [apply apply_step_eqvr; split; [split; assumption|intros H; contradiction]|].
      intros a' a ->. eapply eqvr_bind; [apply IH|]. intros r' r0 ->. apply eqvr_ret. reflexivity.
    - apply eqvr_fail.
    - apply eqvr_ret. reflexivity.
  Qed.

  Lemma run_steps_eqvr fuel steps :
    Forall step_good steps ->
    EQVr eq (run_steps ctx X exec_code' eval_code' emit c' fuel steps)
            (run_steps ctx X exec_code eval_code emit c fuel steps).
  Proof.
    intros H. induction H as [|st rest Hst H IH]; cbn [run_steps]; [apply eqvr_ret; reflexivity|].
    eapply eqvr_bind; [apply apply_step_eqvr; exact Hst|]. intros a' a ->.
    eapply eqvr_bind; [apply stabilize_eqvr|]. intros ss' ss ->.
    eapply eqvr_bind; [apply IH|]. intros r' r0 ->. apply eqvr_ret. reflexivity.
  Qed.

  (* ---- consume_event, check_invariants ---- *)
  Lemma consume_event_eqv : EQV eq (consume_event ctx X) (consume_event ctx X).
  Proof.
    unfold consume_event. apply eqv_get_bind. intros i Hi.
    change (i_iq (Wi i)) with (i_iq i). change (i_eq (Wi i)) with (i_eq i). change (i_time (Wi i)) with (i_time i).
    assert (Hq : forall q, EQV eq (put ctx X (set_iq ctx q (Wi i))) (put ctx X (set_iq ctx q i))).
    { intros q. apply (eqv_put (set_iq ctx q i)). exact Hi. }
    assert (He : forall q, EQV eq (put ctx X (set_eq ctx q (Wi i))) (put ctx X (set_eq ctx q i))).
    { intros q. apply (eqv_put (set_eq ctx q i)). exact Hi. }
    assert (Hr : forall o : option event, EQV eq (ret ctx X o) (ret ctx X o)) by (intros o; apply eqv_ret; reflexivity).
    assert (Hext : EQV eq
              match i_eq i with
              | (t2, e2) :: q2 => if (t2 <=? i_time i)%Z
                                  then bind ctx X (put ctx X (set_eq ctx q2 (Wi i))) (fun _ => ret ctx X (Some e2))
                                  else ret ctx X None
              | [] => ret ctx X None
              end
              match i_eq i with
              | (t2, e2) :: q2 => if (t2 <=? i_time i)%Z
                                  then bind ctx X (put ctx X (set_eq ctx q2 i)) (fun _ => ret ctx X (Some e2))
                                  else ret ctx X None
              | [] => ret ctx X None
              end).
    { destruct (i_eq i) as [|[t2 e2] q2]; [apply Hr|]. destruct (t2 <=? i_time i)%Z; [|apply Hr].
      eapply eqv_bind; [apply He|]. intros _ _ _. apply Hr. }
    destruct (i_iq i) as [|[t e] q']; [exact Hext|]. destruct (t <=? i_time i)%Z; [|exact Hext].
    eapply eqv_bind; [apply Hq|]. intros _ _ _. apply Hr.
  Qed.

  Lemma consume_event_cfg (s : mst) : i_config (m_i (fst (consume_event ctx X s))) = i_config (m_i s).
  Proof.
    unfold consume_event, bind, get, put, ret.
    destruct (i_iq (m_i s)) as [|[t e] q']; [|destruct (t <=? i_time (m_i s))%Z; [reflexivity|]];
      (destruct (i_eq (m_i s)) as [|[t2 e2] q2]; [reflexivity|destruct (t2 <=? i_time (m_i s))%Z; reflexivity]).
  Qed.

  Lemma eqv_skip_l {A} (R : A -> A -> Prop) (m0 : MM unit) (m' m : MM A) :
    (forall s, m0 s = (s, inl tt)) -> EQV R m' m -> EQV R (bind ctx X m0 (fun _ => m')) m.
  Proof. intros H0 Hm s Hs. unfold bind. rewrite H0. apply Hm. exact Hs. Qed.

  Lemma state_contract_h_noop k ev (s : mst) :
    k = CInv ->
    state_contract ctx X eval_code' c' k (hstate h (Some r)) ev s = (s, inl tt).
  Proof.
    intros ->. unfold state_contract, contract, bind, get. cbn [hstate s_name s_pre s_post s_inv eval_conds].
    destruct (i_ignore_contract (m_i s)); reflexivity.
  Qed.

  Lemma check_invariants_eqv ev :
    EQV eq (check_invariants ctx X eval_code' c' ev) (check_invariants ctx X eval_code c ev).
  Proof.
    unfold check_invariants. apply eqv_get_bind. intros i Hi. change (i_config (Wi i)) with (h :: i_config i).
    destruct Hi as (_ & Hc & _). rewrite configuration_w by exact Hc. cbn [iterM]. rewrite state_for_w_h.
    apply eqv_skip_l; [intros s; apply state_contract_h_noop; reflexivity|].
    assert (Hcf : Forall K (configuration c (i_config i))).
    { unfold configuration. apply Forall_forall. intros n Hn. apply in_map_iff in Hn.
      destruct Hn as [[d n'] [<- Hn]]. apply sort_In in Hn. apply in_map_iff in Hn.
      destruct Hn as [n2 [E Hn]]. inversion E; subst. rewrite Forall_forall in Hc. cbn. auto. }
    apply (eqv_iterM K); [|exact Hcf]. intros n Hn. rewrite state_for_w by (apply K_ne_h; exact Hn).
    destruct (state_for c n) as [st|] eqn:E; [|apply eqv_fail].
    apply state_contract_eqv. rewrite (Hnames n st E). exact Hn.
  Qed.

  Lemma pair_eta {A B} (p : A * B) : p = (fst p, snd p).
  Proof. destruct p; reflexivity. Qed.

  (* ---- execute_once ---- *)
  Lemma execute_once_eqvr fuel now :
    EQVr eq (execute_once ctx X exec_code' eval_code' emit c' fuel now)
            (execute_once ctx X exec_code eval_code emit c fuel now).
  Proof.
    unfold execute_once.
    eapply (eqvr_bind eq).
    { apply eqvr_lift_cfg; [apply eqv_modify; [intros i; reflexivity|intros i Hi; exact Hi]|]. intros s. reflexivity. }
    intros _ _ _.
    assert (Hmeta : forall m, EQVr eq (raise_meta ctx X emit m) (raise_meta ctx X emit m)).
    { intros m. apply eqvr_lift_cfg; [apply raise_meta_eqv|]. intros s.
      rewrite (FrameLib.raise_meta_footprint ctx X emit m s _ _ (pair_eta _)). reflexivity. }
    eapply eqvr_bind; [apply Hmeta|]. intros _ _ _.
    eapply eqvr_bind.
    { apply eqvr_lift_cfg; [apply compute_steps_eqv|]. intros s.
      destruct (FrameLib.compute_steps_footprint ctx X eval_code c s _ _ (pair_eta _)) as [[x Hx] _].
      rewrite Hx. reflexivity. }
    intros steps' steps [-> Hsteps].
    eapply (eqvr_bind eq).
    { destruct steps as [|first rest]; [apply eqvr_ret; reflexivity|].
      eapply (eqvr_bind eq).
      { destruct (ms_event first) as [e0|]; [|apply eqvr_ret; reflexivity].
        eapply eqvr_bind; [apply eqvr_lift_cfg; [apply consume_event_eqv|apply consume_event_cfg]|].
        intros e' e ->. destruct e as [e|]; [apply Hmeta|apply eqvr_fail]. }
      intros _ _ _.
      eapply eqvr_bind; [apply run_steps_eqvr; exact Hsteps|]. intros ex' ex ->.
      apply eqvr_get_bind. intros i Hi Hr. change (i_time (Wi i)) with (i_time i). apply eqvr_ret. reflexivity. }
    intros macro' macro ->.
    eapply (eqvr_bind eq).
    { apply eqvr_lift_cfg; [apply check_invariants_eqv|]. intros s.
      match goal with |- context [check_invariants ctx X eval_code c ?ev s] =>
        destruct (FrameLib.check_invariants_footprint ctx X eval_code c ev s _ _
                    (pair_eta (check_invariants ctx X eval_code c ev s))) as [Hx _] end.
      rewrite Hx. reflexivity. }
    intros _ _ _. eapply eqvr_bind; [apply Hmeta|]. intros _ _ _. apply eqvr_ret. reflexivity.
  Qed.

  Lemma queue_eqv e : EQV eq (queue ctx X e) (queue ctx X e).
  Proof. unfold queue. apply eqv_modify; [intros i; apply queue_event_w|intros i; apply queue_event_invi]. Qed.

  (* ---------------------------------------------------------------------------------------- *)
  (* 7. Step and run theorems (generic in the treatment of the old trace)                      *)
  (* ---------------------------------------------------------------------------------------- *)
  Lemma rel_res_eq {A} (x' x : A + err) : rel_res eq x' x -> x' = x.
  Proof. destruct x', x; cbn [rel_res]; intros H; try contradiction; congruence. Qed.

  Theorem wrap_step_gen fuel now (s : mst) :
    inv s -> rootin s ->
    execute_once ctx X exec_code' eval_code' emit c' fuel now (W s)
    = (W (fst (execute_once ctx X exec_code eval_code emit c fuel now s)),
       snd (execute_once ctx X exec_code eval_code emit c fuel now s))
    /\ inv (fst (execute_once ctx X exec_code eval_code emit c fuel now s))
    /\ (forall m, snd (execute_once ctx X exec_code eval_code emit c fuel now s) = inl m ->
                  rootin (fst (execute_once ctx X exec_code eval_code emit c fuel now s))).
  Proof.
    intros Hs Hr. destruct (execute_once_eqvr fuel now s Hs Hr) as (E & I1 & Rr & Hp).
    split; [|split; [exact I1|exact Hp]].
    rewrite (pair_eta (execute_once ctx X exec_code' eval_code' emit c' fuel now (W s))).
    rewrite E, (rel_res_eq _ _ Rr). reflexivity.
  Qed.

  Theorem wrap_queue_gen e (s : mst) :
    inv s ->
    queue ctx X e (W s) = (W (fst (queue ctx X e s)), inl tt) /\ inv (fst (queue ctx X e s))
    /\ i_config (m_i (fst (queue ctx X e s))) = i_config (m_i s).
  Proof.
    intros Hs. destruct (queue_eqv e s Hs) as (E & I1 & Rr). split; [|split; [exact I1|]].
    - rewrite (pair_eta (queue ctx X e (W s))). rewrite E. f_equal.
    - unfold queue, modify, queue_event. cbn [fst m_i]. destruct (e_kind e); reflexivity.
  Qed.

  (* the root of c is active whenever a macro step starts *)
  Fixpoint alive (fuel : nat) (ops : list op) (s : mst) : Prop :=
    match ops with
    | [] => True
    | OpQueue e :: rest => alive fuel rest (fst (queue ctx X e s))
    | OpStep now :: rest =>
        rootin s /\ alive fuel rest (fst (execute_once ctx X exec_code eval_code emit c fuel now s))
    end.

  Theorem wrap_run_gen fuel ops : forall s : mst,
    inv s -> alive fuel ops s ->
    run_ops ctx X exec_code' eval_code' emit c' fuel ops (W s)
    = (W (fst (run_ops ctx X exec_code eval_code emit c fuel ops s)),
       snd (run_ops ctx X exec_code eval_code emit c fuel ops s))
    /\ inv (fst (run_ops ctx X exec_code eval_code emit c fuel ops s)).
  Proof.
    induction ops as [|o ops IH]; intros s Hs Ha; cbn [run_ops].
    - split; [reflexivity|exact Hs].
    - destruct o as [e|now]; cbn [alive] in Ha.
      + destruct (wrap_queue_gen e s Hs) as (E & I1 & _). rewrite E. cbn [fst]. apply IH; assumption.
      + destruct Ha as [Hr Ha]. destruct (wrap_step_gen fuel now s Hs Hr) as (E & I1 & _).
        rewrite E. cbn [fst snd]. destruct (IH _ I1 Ha) as [E2 I2]. rewrite E2. cbn [fst snd].
        split; [reflexivity|exact I2].
  Qed.

  (* error-free runs keep the root active *)
  Definition is_inl {A B} (x : A + B) : Prop := match x with inl _ => True | inr _ => False end.

  Lemma alive_errfree fuel ops : forall s : mst,
    inv s -> rootin s ->
    Forall is_inl (removelast (snd (run_ops ctx X exec_code eval_code emit c fuel ops s))) ->
    alive fuel ops s.
  Proof.
    induction ops as [|o ops IH]; intros s Hs Hr Hf; cbn [alive]; [exact I|].
    destruct o as [e|now]; cbn [run_ops] in Hf.
    - destruct (wrap_queue_gen e s Hs) as (_ & I1 & Ec). apply IH; [exact I1| |exact Hf].
      unfold rootin. rewrite Ec. exact Hr.
    - split; [exact Hr|]. cbn [snd] in Hf.
      destruct (wrap_step_gen fuel now s Hs Hr) as (_ & I1 & Hp).
      set (o := execute_once ctx X exec_code eval_code emit c fuel now s) in *.
      destruct (snd (run_ops ctx X exec_code eval_code emit c fuel ops (fst o))) as [|x l] eqn:El.
      + clear Hf. (* no further step: the remaining operations only queue events *)
        assert (G : forall ops' (s' : mst), snd (run_ops ctx X exec_code eval_code emit c fuel ops' s') = [] ->
                                            alive fuel ops' s').
        { induction ops' as [|o' ops' IH']; intros s' H'; cbn [alive]; [exact I|].
          destruct o' as [e'|now']; cbn [run_ops snd] in H'; [apply IH'; exact H'|discriminate]. }
        apply G. exact El.
      + assert (Hinl : is_inl (snd o)).
        { change (removelast (snd o :: x :: l)) with (snd o :: removelast (x :: l)) in Hf.
          inversion Hf; assumption. }
        apply IH; [exact I1| |].
        * destruct (snd o) as [m|e] eqn:Eo; [|destruct Hinl]. apply (Hp m). reflexivity.
        * rewrite El. change (removelast (snd o :: x :: l)) with (snd o :: removelast (x :: l)) in Hf.
          inversion Hf; assumption.
  Qed.

  (* ---------------------------------------------------------------------------------------- *)
  (* 7b. The initial macro step                                                                *)
  (* ---------------------------------------------------------------------------------------- *)
  Hypothesis emit_h : forall t x, emit t (MEntered h) x = (x, None).
  Hypothesis Hr_ne : r <> "".

  Definition step_h : microstep := mkMicro None None [h] [] [].
  Definition step_r : microstep := mkMicro None None [r] [] [].

  Lemma desc_w_h_K : Forall K (descendants_for c' h).
  Proof.
    unfold descendants_for. cbn [bfs]. rewrite children_for_w_h. cbn [app].
    constructor; [exact Hroot_K|]. rewrite bfs_w by (constructor; [exact Hroot_K|constructor]).
    apply bfs_K. constructor; [exact Hroot_K|constructor].
  Qed.

  Lemma truthy_r : truthy (Some r) = Some r.
  Proof. destruct r; [congruence|reflexivity]. Qed.

  Lemma css_init (i : ist) :
    i_config i = [] -> create_stabilization_step ctx c' (Wi i) = Some (inl step_r).
  Proof.
    intros Hc. unfold create_stabilization_step. cbn [wrap_state i_config i_memory]. rewrite Hc.
    unfold leaf_for. cbn [filter].
    assert (E : existsb (fun d => mem d [h]) (descendants_for c' h) = false).
    { apply not_true_is_false. intros H. apply existsb_exists in H. destruct H as [d [Hd Hm]].
      pose proof desc_w_h_K as HK. rewrite Forall_forall in HK. cbn [mem] in Hm.
      rewrite (str_eqb_neq d h (K_ne_h d (HK d Hd))) in Hm. discriminate. }
    rewrite E. cbn [negb sort insert first_some]. unfold stab_for_leaf. rewrite state_for_w_h.
    cbn [hstate s_kind s_initial]. rewrite truthy_r. reflexivity.
  Qed.

  Lemma apply_step_enter_h (i : ist) x tr' :
    i_config i = [] -> i_entry i = [] -> i_idle i = [] -> i_time i = t0 ->
    apply_step ctx X exec_code' eval_code' emit c' step_h (mkM i x tr')
    = (mkM (Wi i) x (ObMeta (MEntered h)
                     :: ObExec (mkCall (i_id i) CEntry (OState h) 0 None None t0 [] None None [] None) (Some [])
                     :: tr'),
       inl step_h).
  Proof.
    intros Hc He Hi Ht. unfold apply_step, step_h. cbn [ms_entered ms_exited ms_event ms_trans states_for].
    rewrite state_for_w_h.
    unfold bind, get, ret, mapM, iterM, enter_state, state_contract, contract, run_code, observe, modify, raise_meta.
    cbn [m_i m_x m_tr hstate s_name s_pre s_post s_inv s_on_entry eval_conds bind ret].
    unfold bind, get, ret.
    destruct i as [iid iin itm imem icf ien iidl isn iiq ieq iig ictx iold].
    cbn [i_config i_entry i_idle i_time] in Hc, He, Hi, Ht. subst icf ien iidl itm.
    destruct iig; cbn; rewrite emit_h; cbn; reflexivity.
  Qed.

  Definition add_h (m : option macrostep) : option macrostep :=
    match m with Some (t, steps) => Some (t, step_h :: steps) | None => None end.

  Definition finish_c (res : mst * (list microstep + err)) : mst * (option macrostep + err) :=
    match res with
    | (s4, inl ex) =>
        bind ctx X (check_invariants ctx X eval_code c (macro_event ex))
          (fun _ => bind ctx X (raise_meta ctx X emit MStepEnded)
                      (fun _ => ret ctx X (Some (i_time (m_i s4), ex)))) s4
    | (s4, inr e) => (s4, inr e)
    end.
  Definition finish_w (res : mst * (list microstep + err)) : mst * (option macrostep + err) :=
    match res with
    | (s4, inl ex) =>
        bind ctx X (check_invariants ctx X eval_code' c' (macro_event ex))
          (fun _ => bind ctx X (raise_meta ctx X emit MStepEnded)
                      (fun _ => ret ctx X (Some (i_time (m_i s4), ex)))) s4
    | (s4, inr e) => (s4, inr e)
    end.

  Definition start_i (i : ist) : ist := set_initialized ctx true (set_sent ctx [] (set_time ctx t0 i)).

  Lemma exec_first_c fuel (s0 : mst) x1 :
    i_initialized (m_i s0) = false -> emit t0 (MStepStarted t0) (m_x s0) = (x1, None) ->
    execute_once ctx X exec_code eval_code emit c fuel t0 s0
    = finish_c (run_steps ctx X exec_code eval_code emit c fuel [step_r]
                  (mkM (start_i (m_i s0)) x1 (ObMeta (MStepStarted t0) :: m_tr s0))).
  Proof.
    intros Hini Hem. unfold execute_once, compute_steps.
    unfold bind at 1. unfold modify at 1. unfold bind at 1. unfold raise_meta at 1.
    cbn [m_i m_x m_tr set_sent set_time i_time]. rewrite Hem.
    unfold bind at 1. unfold bind at 1. unfold get at 1. cbn [m_i set_sent set_time i_initialized].
    rewrite Hini. cbn [negb]. unfold bind at 1. unfold put at 1. rewrite Hroot. unfold ret at 1.
    cbn [m_i m_x m_tr]. unfold bind at 1. unfold bind at 1. unfold bind at 1. cbn [ms_event step_r]. unfold ret at 1.
    unfold bind at 1. unfold finish_c, start_i.
    destruct (run_steps ctx X exec_code eval_code emit c fuel _ _) as [s4 [ex|e]]; [|reflexivity].
    unfold bind at 1. unfold get at 1. unfold ret at 1. reflexivity.
  Qed.

  Lemma exec_first_w fuel (s0 : mst) x1 :
    i_initialized (m_i s0) = false -> emit t0 (MStepStarted t0) (m_x s0) = (x1, None) ->
    execute_once ctx X exec_code' eval_code' emit c' fuel t0 s0
    = finish_w (run_steps ctx X exec_code' eval_code' emit c' fuel [step_h]
                  (mkM (start_i (m_i s0)) x1 (ObMeta (MStepStarted t0) :: m_tr s0))).
  Proof.
    intros Hini Hem. unfold execute_once, compute_steps.
    unfold bind at 1. unfold modify at 1. unfold bind at 1. unfold raise_meta at 1.
    cbn [m_i m_x m_tr set_sent set_time i_time]. rewrite Hem.
    unfold bind at 1. unfold bind at 1. unfold get at 1. cbn [m_i set_sent set_time i_initialized].
    rewrite Hini. cbn [negb]. unfold bind at 1. unfold put at 1. change (root c') with (Some h). unfold ret at 1.
    cbn [m_i m_x m_tr]. unfold bind at 1. unfold bind at 1. unfold bind at 1. cbn [ms_event step_h]. unfold ret at 1.
    unfold bind at 1. unfold finish_w, start_i.
    destruct (run_steps ctx X exec_code' eval_code' emit c' fuel _ _) as [s4 [ex|e]]; [|reflexivity].
    unfold bind at 1. unfold get at 1. unfold ret at 1. reflexivity.
  Qed.

  Lemma bind_inl_eq {A B} (m : MM A) (f : A -> MM B) (s s1 : mst) a :
    m s = (s1, inl a) -> bind ctx X m f s = f a s1.
  Proof. intros H. unfold bind. rewrite H. reflexivity. Qed.

  Lemma bind_inr_eq {A B} (m : MM A) (f : A -> MM B) (s s1 : mst) e :
    m s = (s1, inr e) -> bind ctx X m f s = (s1, inr e).
  Proof. intros H. unfold bind. rewrite H. reflexivity. Qed.

  Lemma apply_step_rootin_enter step (s : mst) a :
    In r (ms_entered step) ->
    snd (apply_step ctx X exec_code eval_code emit c step s) = inl a ->
    rootin (fst (apply_step ctx X exec_code eval_code emit c step s)).
  Proof.
    intros Hk Ha. apply snd_eq in Ha.
    destruct (C02Proofs.apply_step_inv ctx X exec_code eval_code emit c (fun _ => True) step s _ a Ha)
      as (ent & exi & Een & Eex & Ecfg & _).
    unfold rootin. rewrite Ecfg. apply states_for_names in Een. apply In_enter_all_r. rewrite Een. exact Hk.
  Qed.

  Lemma finish_eqv ex (s4 : mst) :
    inv s4 -> rootin s4 ->
    finish_w (W s4, inl (step_h :: ex))
    = (W (fst (finish_c (s4, inl ex))),
       match snd (finish_c (s4, inl ex)) with inl m => inl (add_h m) | inr e => inr e end)
    /\ inv (fst (finish_c (s4, inl ex))) /\ rootin (fst (finish_c (s4, inl ex))).
  Proof.
    intros Hi Hr. unfold finish_w, finish_c. cbn [macro_event step_h ms_event].
    change (i_time (m_i (W s4))) with (i_time (m_i s4)).
    set (mc := bind ctx X (check_invariants ctx X eval_code c (macro_event ex))
                 (fun _ => bind ctx X (raise_meta ctx X emit MStepEnded)
                             (fun _ => ret ctx X (Some (i_time (m_i s4), ex))))).
    set (mw := bind ctx X (check_invariants ctx X eval_code' c' (macro_event ex))
                 (fun _ => bind ctx X (raise_meta ctx X emit MStepEnded)
                             (fun _ => ret ctx X (Some (i_time (m_i s4), mkMicro None None [h] [] [] :: ex))))).
    change (mw (W s4) = (W (fst (mc s4)), match snd (mc s4) with inl m => inl (add_h m) | inr e => inr e end)
            /\ inv (fst (mc s4)) /\ rootin (fst (mc s4))).
    assert (HE : EQV (fun a' a => a' = add_h a) mw mc).
    { unfold mw, mc. eapply eqv_bind; [apply check_invariants_eqv|]. intros _ _ _.
      eapply eqv_bind; [apply raise_meta_eqv|]. intros _ _ _. apply eqv_ret. reflexivity. }
    destruct (HE s4 Hi) as (E & I1 & Rr).
    assert (Hcfg : i_config (m_i (fst (mc s4))) = i_config (m_i s4)).
    { unfold mc, bind.
      destruct (check_invariants ctx X eval_code c (macro_event ex) s4) as [s5 [u|e]] eqn:E5;
        destruct (FrameLib.check_invariants_footprint ctx X eval_code c _ s4 _ _ E5) as [Hx _]; cbn [fst].
      - destruct (raise_meta ctx X emit MStepEnded s5) as [s6 [u6|e6]] eqn:E6; unfold ret; cbn [fst];
          rewrite (FrameLib.raise_meta_footprint ctx X emit _ s5 _ _ E6), Hx; reflexivity.
      - rewrite Hx. reflexivity. }
    clearbody mc mw. remember (mc s4) as p eqn:Ep. destruct p as [s5 rc]. cbn [fst snd] in *.
    split; [|split; [exact I1|unfold rootin; rewrite Hcfg; exact Hr]].
    destruct (mw (W s4)) as [sw rw]. cbn [fst snd] in E, Rr. subst sw. f_equal.
    destruct rw as [mw'|ew], rc as [mc'|ec]; cbn [rel_res] in Rr; try contradiction.
    - rewrite Rr. reflexivity.
    - rewrite Rr. reflexivity.
  Qed.

  Lemma stabilize_first fuel (s2 : mst) :
    i_config (m_i s2) = [] ->
    stabilize ctx X exec_code' eval_code' emit c' (S fuel) (W s2)
    = bind ctx X (apply_step ctx X exec_code' eval_code' emit c' step_r)
        (fun a => bind ctx X (stabilize ctx X exec_code' eval_code' emit c' fuel) (fun rr => ret ctx X (a :: rr)))
        (W s2).
  Proof.
    intros Hc. cbn [stabilize]. unfold bind at 1. unfold get at 1. unfold W at 1 2. cbn [m_i].
    rewrite css_init by exact Hc. reflexivity.
  Qed.

  Theorem wrap_init_gen fuel (s0 : mst) tr0' m :
    i_initialized (m_i s0) = false -> i_config (m_i s0) = [] -> i_entry (m_i s0) = [] -> i_idle (m_i s0) = [] ->
    memK (i_memory (m_i s0)) ->
    Tdom (ObMeta (MStepStarted t0) :: m_tr s0) ->
    ft (ObMeta (MStepStarted t0) :: m_tr s0)
    = ObMeta (MEntered h)
      :: ObExec (mkCall (i_id (m_i s0)) CEntry (OState h) 0 None None t0 [] None None [] None) (Some [])
      :: ObMeta (MStepStarted t0) :: tr0' ->
    snd (execute_once ctx X exec_code eval_code emit c fuel t0 s0) = inl m ->
    execute_once ctx X exec_code' eval_code' emit c' (S fuel) t0 (mkM (m_i s0) (m_x s0) tr0')
    = (W (fst (execute_once ctx X exec_code eval_code emit c fuel t0 s0)), inl (add_h m))
    /\ inv (fst (execute_once ctx X exec_code eval_code emit c fuel t0 s0))
    /\ rootin (fst (execute_once ctx X exec_code eval_code emit c fuel t0 s0)).
  Proof.
    intros Hini Hcfg Hen Hid Hmem HT Hft Hsucc.
    destruct (emit t0 (MStepStarted t0) (m_x s0)) as [x1 [e|]] eqn:Hem.
    { exfalso. revert Hsucc. unfold execute_once. unfold bind at 1. unfold modify at 1. unfold bind at 1.
      unfold raise_meta at 1. cbn [m_i m_x m_tr set_sent set_time i_time]. rewrite Hem. cbn [snd]. discriminate. }
    rewrite (exec_first_c fuel s0 x1 Hini Hem) in *.
    rewrite (exec_first_w (S fuel) (mkM (m_i s0) (m_x s0) tr0') x1 Hini Hem). cbn [m_i m_x m_tr].
    set (s2 := mkM (start_i (m_i s0)) x1 (ObMeta (MStepStarted t0) :: m_tr s0)) in *.
    assert (Hi2 : inv s2).
    { split; [|exact HT]. unfold s2, start_i. cbn [m_i]. split; [reflexivity|].
      cbn [set_initialized set_sent set_time i_config i_memory]. rewrite Hcfg. split; [constructor|exact Hmem]. }
    assert (Hc2 : i_config (m_i s2) = []) by (unfold s2, start_i; cbn; exact Hcfg).
    (* wrap: the first micro step enters h *)
    cbn [run_steps] in *.
    assert (EW : apply_step ctx X exec_code' eval_code' emit c' step_h
                   (mkM (start_i (m_i s0)) x1 (ObMeta (MStepStarted t0) :: tr0')) = (W s2, inl step_h)).
    { rewrite apply_step_enter_h; try (unfold start_i; cbn; assumption); [|reflexivity].
      unfold W, s2. cbn [m_i m_x m_tr]. rewrite Hft. reflexivity. }
    rewrite (bind_inl_eq _ _ _ _ _ EW).
    (* both: the step entering r *)
    assert (Hok_r : step_ok step_r) by (split; [constructor; [exact Hroot_K|constructor]|constructor]).
    destruct (apply_step_eqv step_r Hok_r s2 Hi2) as (E3 & I3 & R3).
    destruct (apply_step ctx X exec_code eval_code emit c step_r s2) as [s3 [a|e]] eqn:Ec3.
    2:{ exfalso. rewrite (bind_inr_eq _ _ _ _ _ Ec3) in Hsucc. cbn in Hsucc. discriminate. }
    assert (Hr3 : rootin s3).
    { pose proof (apply_step_rootin_enter step_r s2 a) as G. rewrite Ec3 in G. apply G; [left; reflexivity|reflexivity]. }
    cbn [fst snd] in E3, I3, R3.
    destruct (apply_step ctx X exec_code' eval_code' emit c' step_r (W s2)) as [s3' [a'|e']] eqn:Ew3;
      cbn [fst snd rel_res] in E3, R3; [|contradiction]. subst s3' a'.
    rewrite (bind_inl_eq _ _ _ _ _ Ec3) in *.
    (* both: the stabilisation after entering r *)
    destruct (stabilize_eqvr fuel s3 I3 Hr3) as (E4 & I4 & R4 & P4).
    destruct (stabilize ctx X exec_code eval_code emit c fuel s3) as [s4 [ss|e]] eqn:Ec4.
    2:{ exfalso. rewrite (bind_inr_eq _ _ _ _ _ Ec4) in Hsucc. cbn in Hsucc. discriminate. }
    cbn [fst snd] in E4, I4, R4, P4.
    destruct (stabilize ctx X exec_code' eval_code' emit c' fuel (W s3)) as [s4' [ss'|e']] eqn:Ew4;
      cbn [fst snd rel_res] in E4, R4; [|contradiction]. subst s4' ss'.
    rewrite (bind_inl_eq _ _ _ _ _ Ec4) in *.
    assert (EWs : stabilize ctx X exec_code' eval_code' emit c' (S fuel) (W s2) = (W s4, inl (a :: ss))).
    { rewrite (stabilize_first fuel s2 Hc2). rewrite (bind_inl_eq _ _ _ _ _ Ew3).
      rewrite (bind_inl_eq _ _ _ _ _ Ew4). reflexivity. }
    rewrite (bind_inl_eq _ _ _ _ _ EWs).
    cbv beta iota delta [bind ret] in Hsucc. cbv beta iota delta [bind ret].
    change ((a :: ss) ++ []) with (a :: ss ++ []).
    destruct (finish_eqv (a :: ss ++ []) s4 I4 (P4 ss eq_refl)) as (EF & IF & RF).
    rewrite EF, Hsucc. split; [reflexivity|]. split; assumption.
  Qed.
End Wrap.

(* ------------------------------------------------------------------------------------------ *)
(* 8. The hypotheses collected; a decidable checker                                            *)
(* ------------------------------------------------------------------------------------------ *)
Definition wrap_ok (c : chart) (r h : name) : Prop :=
  root c = Some r
  /\ parent_for c r = None
  /\ K c r
  /\ h <> ""
  /\ state_for c h = None
  /\ (forall n, parent_for c n <> Some "")
  /\ (forall a b, In b (ancestors_for c a) -> (depth_for c b < depth_for c a)%Z)
  /\ (forall n, K c n -> n <> r -> In r (ancestors_for c n))
  /\ (forall n a, K c n -> In a (ancestors_for c n) -> K c a)
  /\ (forall n x, K c n -> In x (children_for c n) -> K c x)
  /\ (forall n, ~ In r (children_for c n))
  /\ (forall n st, state_for c n = Some st -> s_name st = n)
  /\ (forall n st i, state_for c n = Some st -> s_kind st = KCompound -> truthy (s_initial st) = Some i -> K c i)
  /\ (forall n st m, state_for c n = Some st -> is_history (s_kind st) = true -> s_memory st = Some m -> K c m)
  /\ (forall t, In t (c_transitions c) -> K c (t_source t))
  /\ (forall t tgt, In t (c_transitions c) -> t_target t = Some tgt -> K c tgt)
  /\ (forall n, K c n -> length (descendants_for c n) <= length (c_states c))
  /\ (forall st, state_for c r = Some st -> s_kind st <> KFinal /\ is_history (s_kind st) = false)
  /\ (forall n st, state_for c n = Some st -> s_kind st = KFinal -> parent_for c n <> Some r).

Definition isK (c : chart) (n : name) : bool :=
  match state_for c n with Some _ => true | None => false end.

Lemma isK_iff c n : isK c n = true <-> K c n.
Proof. unfold isK, K. destruct (state_for c n); split; congruence. Qed.

Definition state_okb (c : chart) (r : name) (kv : name * state) : bool :=
  let st := snd kv in
  (negb (kind_eqb (s_kind st) KCompound)
   || match truthy (s_initial st) with Some i => isK c i | None => true end)
  && (negb (is_history (s_kind st)) || match s_memory st with Some m => isK c m | None => true end)
  && (negb (kind_eqb (s_kind st) KFinal) || negb (ostr_eqb (parent_for c (fst kv)) (Some r))).

Definition wrap_okb (c : chart) (r h : name) : bool :=
  let keys := map fst (c_states c) in
  ostr_eqb (root c) (Some r) && ostr_eqb (parent_for c r) None && isK c r
  && negb (str_eqb h "") && negb (isK c h)
  && C02Proofs.chk_ne c && C01Proofs.anc_depth_okb c
  && forallb (fun n => str_eqb n r || mem r (ancestors_for c n)) keys
  && forallb (fun n => forallb (isK c) (ancestors_for c n)) keys
  && forallb (fun n => forallb (isK c) (children_for c n)) keys
  && forallb (fun kv : option name * list name => match fst kv with None => true | Some _ => negb (mem r (snd kv)) end) (c_children c)
  && C02Proofs.chk_names c
  && forallb (state_okb c r) (c_states c)
  && forallb (fun t => isK c (t_source t) && match t_target t with Some tgt => isK c tgt | None => true end)
             (c_transitions c)
  && forallb (fun n => (length (descendants_for c n) <=? length (c_states c))%nat) keys
  && match state_for c r with
     | Some st => negb (kind_eqb (s_kind st) KFinal) && negb (is_history (s_kind st))
     | None => false
     end.

Lemma K_key c n : K c n -> In n (map fst (c_states c)).
Proof.
  unfold K, state_for. destruct (lookup n (c_states c)) as [st|] eqn:E; [|congruence].
  intros _. eapply C01Proofs.lookup_In_keys; eauto.
Qed.

Lemma kind_eqb_true a b : kind_eqb a b = true <-> a = b.
Proof. destruct a, b; cbn; split; congruence. Qed.

Lemma wrap_okb_sound c r h : wrap_okb c r h = true -> wrap_ok c r h.
Proof.
  unfold wrap_okb. intros H.
  repeat (apply andb_true_iff in H; destruct H as [H ?]).
  repeat match goal with Hx : forallb _ _ = true |- _ => rewrite forallb_forall in Hx end.
  unfold wrap_ok.
  split; [apply C02Proofs.ostr_eqb_iff; assumption|].
  split; [apply C02Proofs.ostr_eqb_iff; assumption|].
  split; [apply isK_iff; assumption|].
  split; [match goal with Hx : negb (str_eqb h "") = true |- _ =>
            intros ->; rewrite str_eqb_rfl in Hx; discriminate end|].
  split; [match goal with Hx : negb (isK c h) = true |- _ =>
            unfold isK in Hx; destruct (state_for c h); [discriminate|reflexivity] end|].
  split; [apply C02Proofs.chk_ne_sound; assumption|].
  split; [apply C01Proofs.anc_depth_okb_sound; assumption|].
  split.
  { intros n Hk Hn. match goal with Hx : forall x, In x _ -> str_eqb x r || _ = true |- _ =>
      pose proof (Hx n (K_key c n Hk)) as Hy end.
    apply orb_true_iff in Hy. destruct Hy as [Hy|Hy]; [apply str_eqb_spec in Hy; contradiction|].
    apply mem_In. exact Hy. }
  split.
  { intros n a Hk Ha. apply isK_iff.
    match goal with Hx : forall x, In x _ -> forallb (isK c) (ancestors_for c x) = true |- _ =>
      specialize (Hx n (K_key c n Hk)); rewrite forallb_forall in Hx; apply Hx; exact Ha end. }
  split.
  { intros n x Hk Hx. apply isK_iff.
    match goal with Hy : forall x, In x _ -> forallb (isK c) (children_for c x) = true |- _ =>
      specialize (Hy n (K_key c n Hk)); rewrite forallb_forall in Hy; apply Hy; exact Hx end. }
  split.
  { intros n Hin. unfold children_for in Hin.
    destruct (olookup (Some n) (c_children c)) as [l|] eqn:E; [|destruct Hin].
    apply C02Proofs.olookup_In in E.
    match goal with Hy : forall x, In x (c_children c) -> _ |- _ => specialize (Hy _ E); cbn [fst snd] in Hy;
      apply negb_true_iff, mem_false_iff in Hy; contradiction end. }
  split; [apply C02Proofs.chk_names_sound; assumption|].
  assert (Hst : forall n st, state_for c n = Some st -> state_okb c r (n, st) = true).
  { intros n st E. match goal with Hy : forall x, In x (c_states c) -> state_okb c r x = true |- _ => apply Hy end.
    apply C17Proofs.lookup_In. exact E. }
  split.
  { intros n st i E Ek Ei. specialize (Hst n st E). unfold state_okb in Hst. cbn [fst snd] in Hst.
    apply andb_true_iff in Hst. destruct Hst as [Hst _]. apply andb_true_iff in Hst. destruct Hst as [Hst _].
    rewrite Ek, Ei in Hst. cbn in Hst. apply isK_iff. exact Hst. }
  split.
  { intros n st m E Ek Em. specialize (Hst n st E). unfold state_okb in Hst. cbn [fst snd] in Hst.
    apply andb_true_iff in Hst. destruct Hst as [Hst _]. apply andb_true_iff in Hst. destruct Hst as [_ Hst].
    rewrite Ek, Em in Hst. cbn in Hst. apply isK_iff. exact Hst. }
  assert (Htr : forall t, In t (c_transitions c) ->
                 isK c (t_source t) && match t_target t with Some tgt => isK c tgt | None => true end = true).
  { intros t Ht. match goal with Hy : forall x, In x (c_transitions c) -> _ |- _ => apply Hy; exact Ht end. }
  split.
  { intros t Ht. specialize (Htr t Ht). apply andb_true_iff in Htr. apply isK_iff. tauto. }
  split.
  { intros t tgt Ht Et. specialize (Htr t Ht). apply andb_true_iff in Htr. rewrite Et in Htr. apply isK_iff. tauto. }
  split.
  { intros n Hk.
    match goal with Hy : forall x, In x _ -> (length (descendants_for c x) <=? _)%nat = true |- _ =>
      specialize (Hy n (K_key c n Hk)); apply Nat.leb_le in Hy; exact Hy end. }
  split.
  { intros st E. match goal with Hy : match state_for c r with _ => _ end = true |- _ => rewrite E in Hy;
      apply andb_true_iff in Hy; destruct Hy as [Hy1 Hy2] end.
    split.
    - intros Ek. rewrite Ek in Hy1. discriminate.
    - apply negb_true_iff. assumption. }
  intros n st E Ek Ep. specialize (Hst n st E). unfold state_okb in Hst. cbn [fst snd] in Hst.
  apply andb_true_iff in Hst. destruct Hst as [_ Hst]. rewrite Ek, Ep in Hst. cbn in Hst.
  rewrite str_eqb_rfl in Hst. discriminate.
Qed.

(* ------------------------------------------------------------------------------------------ *)
(* 9. Main theorems                                                                            *)
(* ------------------------------------------------------------------------------------------ *)
Section Main.
  Variable c : chart.
  Variables r h : name.
  Hypothesis Hok : wrap_ok c r h.
  Variable ctx : Type.
  Variable X : Type.
  Variables exec_code exec_code' : call ctx -> ctx -> option (ctx * list event).
  Variables eval_code eval_code' : call ctx -> ctx -> option bool.
  Variable emit : Z -> meta -> X -> X * option err.
  Hypothesis exec_indep : forall cl x, exec_code' (wrap_call h cl) x = exec_code cl x.
  Hypothesis eval_indep : forall cl x, eval_code' (wrap_call h cl) x = eval_code cl x.
  Variable t0 : Z.

  (* side conditions on the interpreter state of c: initialised; configuration and history memory
     consist of registered states (preserved by every operation, also by failing ones) *)
  Definition wrap_inv (s : mstate ctx X) : Prop := invi c ctx (m_i s).
  (* the root of c is active (preserved by every execute_once that returns normally) *)
  Definition root_active (s : mstate ctx X) : Prop := In r (i_config (m_i s)).

  Lemma inv_of_wrap_inv s : wrap_inv s -> inv c ctx X (fun _ => True) s.
  Proof. intros H. split; [exact H|exact I]. Qed.

  Theorem C17_wrap_step fuel now (s : mstate ctx X) :
    wrap_inv s -> root_active s ->
    execute_once ctx X exec_code' eval_code' emit (wrap c h) fuel now (wrap_mstate h t0 s)
    = (wrap_mstate h t0 (fst (execute_once ctx X exec_code eval_code emit c fuel now s)),
       snd (execute_once ctx X exec_code eval_code emit c fuel now s))
    /\ wrap_inv (fst (execute_once ctx X exec_code eval_code emit c fuel now s))
    /\ (forall m, snd (execute_once ctx X exec_code eval_code emit c fuel now s) = inl m ->
                  root_active (fst (execute_once ctx X exec_code eval_code emit c fuel now s))).
  Proof.
    intros Hi Hr.
    destruct Hok as (H1 & H2 & H3 & H4 & H5 & H6 & H7 & H8 & H9 & H10 & H11 & H12 & H13 & H14 & H15 & H16 & H17 & H18 & H19).
    destruct (wrap_step_gen c r h H1 H2 H3 H4 H5 H6 H7 H8 H9 H10 H11 H12 H13 H14 H15 H16 H17 H18 H19
                ctx X exec_code exec_code' eval_code eval_code' emit exec_indep eval_indep t0
                (map (wrap_obs h)) (fun _ => True) (fun o tr _ => eq_refl) (fun _ _ _ => I)
                fuel now s (inv_of_wrap_inv s Hi) Hr) as (E & I1 & Hp).
    split; [exact E|]. split; [apply I1|exact Hp].
  Qed.

  Theorem C17_wrap_queue e (s : mstate ctx X) :
    wrap_inv s ->
    queue ctx X e (wrap_mstate h t0 s) = (wrap_mstate h t0 (fst (queue ctx X e s)), inl tt)
    /\ wrap_inv (fst (queue ctx X e s)).
  Proof.
    intros Hi.
    destruct Hok as (H1 & H2 & H3 & H4 & H5 & H6 & H7 & H8 & H9 & H10 & H11 & H12 & H13 & H14 & H15 & H16 & H17 & H18 & H19).
    destruct (wrap_queue_gen c h ctx X t0 (map (wrap_obs h)) (fun _ => True) e s (inv_of_wrap_inv s Hi))
      as (E & I1 & _).
    split; [exact E|apply I1].
  Qed.

  (* every sequence of operations, as long as the root of c is active when a macro step starts *)
  Definition wrap_alive fuel ops (s : mstate ctx X) : Prop :=
    alive c r ctx X exec_code eval_code emit fuel ops s.

  Theorem C17_wrap_run fuel ops (s : mstate ctx X) :
    wrap_inv s -> wrap_alive fuel ops s ->
    run_ops ctx X exec_code' eval_code' emit (wrap c h) fuel ops (wrap_mstate h t0 s)
    = (wrap_mstate h t0 (fst (run_ops ctx X exec_code eval_code emit c fuel ops s)),
       snd (run_ops ctx X exec_code eval_code emit c fuel ops s))
    /\ wrap_inv (fst (run_ops ctx X exec_code eval_code emit c fuel ops s)).
  Proof.
    intros Hi Ha.
    destruct Hok as (H1 & H2 & H3 & H4 & H5 & H6 & H7 & H8 & H9 & H10 & H11 & H12 & H13 & H14 & H15 & H16 & H17 & H18 & H19).
    destruct (wrap_run_gen c r h H1 H2 H3 H4 H5 H6 H7 H8 H9 H10 H11 H12 H13 H14 H15 H16 H17 H18 H19
                ctx X exec_code exec_code' eval_code eval_code' emit exec_indep eval_indep t0
                (map (wrap_obs h)) (fun _ => True) (fun o tr _ => eq_refl) (fun _ _ _ => I)
                fuel ops s (inv_of_wrap_inv s Hi) Ha) as (E & I1).
    split; [exact E|apply I1].
  Qed.

  (* in particular: runs in which no execute_once (except possibly the last one) raises *)
  Theorem C17_wrap_run_errfree fuel ops (s : mstate ctx X) :
    wrap_inv s -> root_active s ->
    Forall is_inl (removelast (snd (run_ops ctx X exec_code eval_code emit c fuel ops s))) ->
    run_ops ctx X exec_code' eval_code' emit (wrap c h) fuel ops (wrap_mstate h t0 s)
    = (wrap_mstate h t0 (fst (run_ops ctx X exec_code eval_code emit c fuel ops s)),
       snd (run_ops ctx X exec_code eval_code emit c fuel ops s))
    /\ wrap_inv (fst (run_ops ctx X exec_code eval_code emit c fuel ops s)).
  Proof.
    intros Hi Hr Hf. apply C17_wrap_run; [exact Hi|]. unfold wrap_alive.
    destruct Hok as (H1 & H2 & H3 & H4 & H5 & H6 & H7 & H8 & H9 & H10 & H11 & H12 & H13 & H14 & H15 & H16 & H17 & H18 & H19).
    apply (alive_errfree c r h H1 H2 H3 H4 H5 H6 H7 H8 H9 H10 H11 H12 H13 H14 H15 H16 H17 H18 H19
             ctx X exec_code exec_code' eval_code eval_code' emit exec_indep eval_indep t0
             (map (wrap_obs h)) (fun _ => True) (fun o tr _ => eq_refl) (fun _ _ _ => I)
             fuel ops s (inv_of_wrap_inv s Hi) Hr Hf).
  Qed.
End Main.

(* ------------------------------------------------------------------------------------------ *)
(* 9b. The initial macro step and runs from the initial state                                  *)
(* ------------------------------------------------------------------------------------------ *)
(* trace correspondence with `extra` buried below the observations made after `old` *)
Definition ft_init {ctx} (h : name) (extra old : list (obs ctx)) (tr : list (obs ctx)) : list (obs ctx) :=
  map (wrap_obs h) (firstn (length tr - length old) tr) ++ extra
  ++ map (wrap_obs h) (skipn (length tr - length old) tr).

Lemma ft_init_app {ctx} h (extra old T : list (obs ctx)) :
  ft_init h extra old (T ++ old) = map (wrap_obs h) T ++ extra ++ map (wrap_obs h) old.
Proof.
  unfold ft_init. rewrite app_length. replace (length T + length old - length old) with (length T) by lia.
  rewrite firstn_app, firstn_all, Nat.sub_diag. cbn [firstn]. rewrite app_nil_r.
  rewrite skipn_app, skipn_all, Nat.sub_diag. cbn [skipn app]. reflexivity.
Qed.

Lemma ft_init_cons {ctx} h (extra old : list (obs ctx)) o tr :
  (exists T, tr = T ++ old) -> ft_init h extra old (o :: tr) = wrap_obs h o :: ft_init h extra old tr.
Proof.
  intros [T ->]. change (o :: T ++ old) with ((o :: T) ++ old). rewrite !ft_init_app. reflexivity.
Qed.

Section Init.
  Variable c : chart.
  Variables r h : name.
  Hypothesis Hok : wrap_ok c r h.
  Hypothesis Hr_ne : r <> "".
  Variable ctx : Type.
  Variable X : Type.
  Variables exec_code exec_code' : call ctx -> ctx -> option (ctx * list event).
  Variables eval_code eval_code' : call ctx -> ctx -> option bool.
  Variable emit : Z -> meta -> X -> X * option err.
  Hypothesis exec_indep : forall cl x, exec_code' (wrap_call h cl) x = exec_code cl x.
  Hypothesis eval_indep : forall cl x, eval_code' (wrap_call h cl) x = eval_code cl x.
  (* the listeners do not react to the entry of h *)
  Hypothesis emit_h : forall t x, emit t (MEntered h) x = (x, None).

  (* the two observations wrap c h makes when it enters h *)
  Definition init_extra (id : nat) (now : Z) : list (obs ctx) :=
    [ObMeta (MEntered h); ObExec (mkCall id CEntry (OState h) 0 None None now [] None None [] None) (Some [])].

  (* the first execute_once (uninitialised interpreter, c's step returns normally): wrap c h performs the micro
     step [enter h] followed by exactly the micro steps of c; it needs one more unit of stabilisation fuel *)
  Theorem C17_wrap_init fuel now (s0 : mstate ctx X) m :
    i_initialized (m_i s0) = false -> i_config (m_i s0) = [] -> i_entry (m_i s0) = [] -> i_idle (m_i s0) = [] ->
    memK c (i_memory (m_i s0)) ->
    snd (execute_once ctx X exec_code eval_code emit c fuel now s0) = inl m ->
    let s1 := fst (execute_once ctx X exec_code eval_code emit c fuel now s0) in
    exists T,
      m_tr s1 = T ++ ObMeta (MStepStarted now) :: m_tr s0
      /\ execute_once ctx X exec_code' eval_code' emit (wrap c h) (S fuel) now
           (mkM (m_i s0) (m_x s0) (map (wrap_obs h) (m_tr s0)))
         = (mkM (wrap_state h now (m_i s1)) (m_x s1)
                (map (wrap_obs h) T ++ init_extra (i_id (m_i s0)) now
                 ++ ObMeta (MStepStarted now) :: map (wrap_obs h) (m_tr s0)),
            inl (add_h h m))
      /\ wrap_inv c ctx X s1 /\ root_active r ctx X s1.
  Proof.
    intros Hini Hcfg Hen Hid Hmem Hsucc s1.
    set (old := ObMeta (MStepStarted now) :: m_tr s0).
    set (extra := init_extra (i_id (m_i s0)) now).
    destruct Hok as (H1 & H2 & H3 & H4 & H5 & H6 & H7 & H8 & H9 & H10 & H11 & H12 & H13 & H14 & H15 & H16 & H17 & H18 & H19).
    destruct (wrap_init_gen c r h H1 H2 H3 H4 H5 H6 H7 H8 H9 H10 H11 H12 H13 H14 H15 H17 H18 H19
                ctx X exec_code exec_code' eval_code eval_code' emit exec_indep eval_indep now
                (ft_init h extra old) (fun tr => exists T, tr = T ++ old)
                (fun o tr Ht => ft_init_cons h extra old o tr Ht)
                (fun o tr Ht => match Ht with ex_intro _ T E => ex_intro _ (o :: T) (f_equal (cons o) E) end)
                emit_h Hr_ne fuel s0 (map (wrap_obs h) (m_tr s0)) m Hini Hcfg Hen Hid Hmem
                (ex_intro _ [] eq_refl) (ft_init_app h extra old []) Hsucc) as (E & [Ii [T HT]] & Hr).
    fold s1 in E, Ii, HT, Hr. exists T. split; [exact HT|]. split; [|split; [exact Ii|exact Hr]].
    rewrite E. unfold W. rewrite HT, ft_init_app. reflexivity.
  Qed.
End Init.

(* ------------------------------------------------------------------------------------------ *)
(* 10. Non-vacuity and the hypotheses that cannot be dropped                                   *)
(* ------------------------------------------------------------------------------------------ *)
Module WrapExample.
  Definition st n k i m := (n, mkState n k i m (Some "en") (Some "x") [] [] ["inv"]).
  Definition tr s t e := mkTrans s t (Some e) (Some "g") (Some "act") 0%Z [] [] [].

  (* r > {a, b > {b1, b2}} with transitions from / to the root, an external self-loop on the root and
     internal transitions on the root and on a *)
  Definition c1 : chart :=
    mkChart "c1" None None
      [st "r" KCompound (Some "a") None; st "a" KBasic None None; st "b" KCompound (Some "b1") None;
       st "b1" KBasic None None; st "b2" KBasic None None]
      [("r", None); ("a", Some "r"); ("b", Some "r"); ("b1", Some "b"); ("b2", Some "b")]
      [(None, ["r"]); (Some "r", ["a"; "b"]); (Some "a", []); (Some "b", ["b1"; "b2"]); (Some "b1", []); (Some "b2", [])]
      [tr "a" (Some "b") "e"; tr "b1" (Some "b2") "f"; tr "b" (Some "a") "g"; tr "r" (Some "r") "loop";
       tr "b2" (Some "r") "top"; tr "r" None "int"; tr "a" None "int"].

  (* orthogonal variant: r > {a, o || {p > {p1, p2}, q > {q1, q2, qh (deep history)}}} *)
  Definition c2 : chart :=
    mkChart "c2" None None
      [st "r" KCompound (Some "a") None; st "a" KBasic None None; st "o" KOrthogonal None None;
       st "p" KCompound (Some "p1") None; st "p1" KBasic None None; st "p2" KBasic None None;
       st "q" KCompound (Some "q1") None; st "q1" KBasic None None; st "q2" KBasic None None;
       st "qh" KDeep None (Some "q2")]
      [("r", None); ("a", Some "r"); ("o", Some "r"); ("p", Some "o"); ("p1", Some "p"); ("p2", Some "p");
       ("q", Some "o"); ("q1", Some "q"); ("q2", Some "q"); ("qh", Some "q")]
      [(None, ["r"]); (Some "r", ["a"; "o"]); (Some "a", []); (Some "o", ["p"; "q"]);
       (Some "p", ["p1"; "p2"]); (Some "q", ["q1"; "q2"; "qh"]); (Some "p1", []); (Some "p2", []);
       (Some "q1", []); (Some "q2", []); (Some "qh", [])]
      [tr "a" (Some "o") "e"; tr "p1" (Some "p2") "f"; tr "q1" (Some "q2") "f"; tr "o" (Some "a") "g";
       tr "a" (Some "qh") "h"; tr "q2" (Some "q1") "k"; tr "p2" (Some "p1") "k"; tr "r" (Some "r") "loop";
       tr "p2" (Some "a") "x"; tr "q2" (Some "a") "x"; tr "q" None "f"].

  (* an evaluator that counts the executed fragments and looks at the code and the kind of call but
     not at the configuration; actions send an internal event *)
  Definition exec0 (cl : call nat) (x : nat) : option (nat * list event) :=
    Some (S x, match cl_kind cl with CAction => [mkEvent Internal "done" []] | _ => [] end).
  Definition eval0 (cl : call nat) (x : nat) : option bool :=
    Some (match cl_code cl with Some "g" | Some "inv" => true | _ => false end).
  Definition emit0 (t : Z) (m : meta) (x : nat) : nat * option err := (S x, None).
  Definition ev n := mkEvent External n [].
  Definition s0 : mstate nat nat := mkM (init_istate 0 0 false 0) 0 [].
  Definition run (c : chart) ops s := run_ops nat nat exec0 eval0 emit0 c 20 ops s.
  (* the state after the first macro step *)
  Definition s1 c := fst (run c [OpStep 0] s0).
  Definition ops1 :=
    [OpQueue (ev "e"); OpStep 1; OpStep 1; OpQueue (ev "f"); OpStep 2; OpStep 2; OpQueue (ev "g"); OpStep 3; OpStep 3;
     OpQueue (ev "loop"); OpStep 4; OpStep 4; OpQueue (ev "e"); OpQueue (ev "f"); OpQueue (ev "top"); OpStep 5; OpStep 5;
     OpStep 5; OpStep 5; OpStep 6; OpQueue (ev "int"); OpStep 7; OpStep 7].
  Definition ops2 :=
    [OpQueue (ev "e"); OpStep 1; OpStep 1; OpQueue (ev "f"); OpStep 2; OpStep 2; OpStep 2; OpStep 2; OpQueue (ev "g");
     OpStep 3; OpStep 3; OpQueue (ev "h"); OpStep 4; OpStep 4; OpQueue (ev "k"); OpStep 5; OpStep 5; OpStep 5;
     OpQueue (ev "loop"); OpStep 6; OpStep 6; OpQueue (ev "e"); OpQueue (ev "f"); OpStep 7; OpStep 7;
     OpStep 7; OpStep 7; OpStep 7; OpStep 7].
  (* ... followed by two conflicting transitions (both regions leave the orthogonal state): ConflictingTransitionsError,
     after which the run goes on *)
  Definition ops2x := ops2 ++ [OpQueue (ev "x"); OpStep 8; OpQueue (ev "g"); OpStep 9; OpStep 9].
  Definition image (r : mstate nat nat * list (option macrostep + err)) := (wrap_mstate "H" 0 (fst r), snd r).
  Definition shape (r : list (option macrostep + err)) : list (list (list name * list name)) :=
    map (fun o => match o with
                  | inl (Some m) => map (fun s => (ms_entered s, ms_exited s)) (snd m)
                  | _ => []
                  end) r.

  Example c1_ok : wrap_ok c1 "r" "H".
  Proof. apply wrap_okb_sound. vm_compute. reflexivity. Qed.
  Example c2_ok : wrap_ok c2 "r" "H".
  Proof. apply wrap_okb_sound. vm_compute. reflexivity. Qed.
  (* the charts are also well formed in the sense of C02Proofs / WFProofs *)
  Example c1_c2_wf : C02Proofs.wf_chart_b c1 = true /\ C02Proofs.wf_chart_b c2 = true.
  Proof. split; vm_compute; reflexivity. Qed.

  Lemma invi_b_sound c (i : istate nat) :
    i_initialized i = true -> forallb (isK c) (i_config i) = true ->
    forallb (fun kv => forallb (isK c) (snd kv)) (i_memory i) = true -> invi c nat i.
  Proof.
    intros H1 H2 H3. split; [exact H1|]. split.
    - apply Forall_forall. intros n Hn. rewrite forallb_forall in H2. apply isK_iff. auto.
    - apply Forall_forall. intros kv Hkv. rewrite forallb_forall in H3. specialize (H3 kv Hkv).
      apply Forall_forall. intros n Hn. rewrite forallb_forall in H3. apply isK_iff. auto.
  Qed.

  (* the hypotheses of C17_wrap_step / C17_wrap_run are satisfiable *)
  Lemma exec0_indep : forall cl x, exec0 (wrap_call "H" cl) x = exec0 cl x.
  Proof. reflexivity. Qed.
  Lemma eval0_indep : forall cl x, eval0 (wrap_call "H" cl) x = eval0 cl x.
  Proof. reflexivity. Qed.
  Lemma c2_inv : wrap_inv c2 nat nat (s1 c2).
  Proof. apply invi_b_sound; vm_compute; reflexivity. Qed.
  Lemma c2_root : root_active "r" nat nat (s1 c2).
  Proof. vm_compute. tauto. Qed.
  Lemma c2_errfree : Forall is_inl (removelast (snd (run_ops nat nat exec0 eval0 emit0 c2 20 ops2 (s1 c2)))).
  Proof. vm_compute. repeat constructor. Qed.
  Lemma c2_alive : alive c2 "r" nat nat exec0 eval0 emit0 20 ops2x (s1 c2).
  Proof. vm_compute. tauto. Qed.

  Example C17_wrap_hypotheses_satisfiable :
    wrap_ok c2 "r" "H"
    /\ (forall cl x, exec0 (wrap_call "H" cl) x = exec0 cl x)
    /\ (forall cl x, eval0 (wrap_call "H" cl) x = eval0 cl x)
    /\ wrap_inv c2 nat nat (s1 c2) /\ root_active "r" nat nat (s1 c2)
    /\ Forall is_inl (removelast (snd (run_ops nat nat exec0 eval0 emit0 c2 20 ops2 (s1 c2))))
    /\ wrap_alive c2 "r" nat nat exec0 eval0 emit0 20 ops2x (s1 c2).
  Proof.
    exact (conj c2_ok (conj exec0_indep (conj eval0_indep (conj c2_inv (conj c2_root (conj c2_errfree c2_alive)))))).
  Qed.

  (* the run theorems applied to the instance: an error-free run ... *)
  Example C17_wrap_example_by_theorem :
    run_ops nat nat exec0 eval0 emit0 (wrap c2 "H") 20 ops2 (wrap_mstate "H" 0 (s1 c2))
    = (wrap_mstate "H" 0 (fst (run_ops nat nat exec0 eval0 emit0 c2 20 ops2 (s1 c2))),
       snd (run_ops nat nat exec0 eval0 emit0 c2 20 ops2 (s1 c2))).
  Proof.
    exact (proj1 (C17_wrap_run_errfree c2 "r" "H" c2_ok nat nat exec0 exec0 eval0 eval0 emit0 exec0_indep eval0_indep
                    0%Z 20 ops2 (s1 c2) c2_inv c2_root c2_errfree)).
  Qed.

  (* ... and a run with an error in the middle (the root is active at every step: C17_wrap_run) *)
  Example C17_wrap_example_with_error :
    nth 21 (snd (run c2 ops2x (s1 c2))) (inl None) = inr EConflict
    /\ run_ops nat nat exec0 eval0 emit0 (wrap c2 "H") 20 ops2x (wrap_mstate "H" 0 (s1 c2))
       = (wrap_mstate "H" 0 (fst (run_ops nat nat exec0 eval0 emit0 c2 20 ops2x (s1 c2))),
          snd (run_ops nat nat exec0 eval0 emit0 c2 20 ops2x (s1 c2))).
  Proof.
    split; [vm_compute; reflexivity|].
    exact (proj1 (C17_wrap_run c2 "r" "H" c2_ok nat nat exec0 exec0 eval0 eval0 emit0 exec0_indep eval0_indep
                    0%Z 20 ops2x (s1 c2) c2_inv c2_alive)).
  Qed.

  (* ... and the same equations checked by evaluating both runs (independent of the theorem) *)
  Example C17_wrap_example_by_computation :
    run (wrap c1 "H") ops1 (wrap_mstate "H" 0 (s1 c1)) = image (run c1 ops1 (s1 c1))
    /\ run (wrap c2 "H") ops2x (wrap_mstate "H" 0 (s1 c2)) = image (run c2 ops2x (s1 c2)).
  Proof. split; vm_compute; reflexivity. Qed.

  (* the runs are not trivial *)
  Example C17_wrap_example_shape :
    shape (snd (run c2 ops2 (s1 c2)))
    = [ [(["o"], ["a"]); (["p"; "q"], []); (["p1"], []); (["q1"], [])];
        [([], [])];
        [(["p2"], ["p1"]); (["q2"], ["q1"])];
        [([], [])]; [([], [])]; [];
        [(["a"], ["p2"; "q2"; "p"; "q"; "o"])];
        [([], [])];
        [(["o"; "q"; "qh"], ["a"]); (["q2"], ["qh"]); (["p"], []); (["p1"], [])];
        [([], [])];
        [(["q1"], ["q2"])];
        [([], [])]; [];
        [(["r"], ["p1"; "q1"; "p"; "q"; "o"; "r"]); (["a"], [])];
        [([], [])];
        [(["o"], ["a"]); (["p"; "q"], []); (["p1"], []); (["q1"], [])];
        [([], [])];
        [(["p2"], ["p1"]); (["q2"], ["q1"])];
        [([], [])]; [([], [])];
        [] ].
  Proof. vm_compute. reflexivity. Qed.

  (* the initial macro step: listeners that do not react to the entry of "H" *)
  Definition emit1 (t : Z) (m : meta) (x : nat) : nat * option err :=
    match m with
    | MEntered n => if String.eqb n "H" then (x, None) else (S x, None)
    | _ => (S x, None)
    end.
  Lemma emit1_h : forall t x, emit1 t (MEntered "H") x = (x, None).
  Proof. reflexivity. Qed.

  Definition m0 : option macrostep :=
    Some (0%Z, [mkMicro None None ["r"] [] []; mkMicro None None ["a"] [] []]).
  Lemma c2_first : snd (execute_once nat nat exec0 eval0 emit1 c2 20 0 s0) = inl m0.
  Proof. vm_compute. reflexivity. Qed.

  (* the hypotheses of C17_wrap_init are satisfiable *)
  Example C17_wrap_init_hypotheses_satisfiable :
    wrap_ok c2 "r" "H" /\ "r" <> ""
    /\ (forall t x, emit1 t (MEntered "H") x = (x, None))
    /\ i_initialized (m_i s0) = false /\ i_config (m_i s0) = [] /\ i_entry (m_i s0) = [] /\ i_idle (m_i s0) = []
    /\ memK c2 (i_memory (m_i s0))
    /\ snd (execute_once nat nat exec0 eval0 emit1 c2 20 0 s0) = inl m0.
  Proof.
    split; [exact c2_ok|]. split; [discriminate|]. split; [exact emit1_h|].
    repeat (split; [reflexivity|]). split; [constructor|exact c2_first].
  Qed.

  (* its conclusion on the instance, checked by evaluating both first steps *)
  Example C17_wrap_init_example_by_computation :
    snd (execute_once nat nat exec0 eval0 emit1 (wrap c2 "H") 21 0 s0) = inl (add_h "H" m0)
    /\ m_i (fst (execute_once nat nat exec0 eval0 emit1 (wrap c2 "H") 21 0 s0))
       = wrap_state "H" 0 (m_i (fst (execute_once nat nat exec0 eval0 emit1 c2 20 0 s0)))
    /\ m_x (fst (execute_once nat nat exec0 eval0 emit1 (wrap c2 "H") 21 0 s0))
       = m_x (fst (execute_once nat nat exec0 eval0 emit1 c2 20 0 s0))
    /\ length (m_tr (fst (execute_once nat nat exec0 eval0 emit1 (wrap c2 "H") 21 0 s0)))
       = 2 + length (m_tr (fst (execute_once nat nat exec0 eval0 emit1 c2 20 0 s0))).
  Proof. repeat split; vm_compute; reflexivity. Qed.
End WrapExample.

(* ------------------------------------------------------------------------------------------ *)
(* 11. Hypotheses that cannot be dropped (behaviour differences between c and wrap c h)        *)
(* ------------------------------------------------------------------------------------------ *)
Module WrapRefutations.
  Import WrapExample.
  Definition bst n k i := (n, mkState n k i None None None [] [] []).
  Definition btr s t e := mkTrans s t (Some e) None None 0%Z [] [] [].

  (* (a) a FINAL child of the root: in c reaching it empties the configuration (the interpreter becomes
     final); under a new root the same state is an ordinary final state of a compound state *)
  Definition c_final : chart :=
    mkChart "final child" None None
      [bst "r" KCompound (Some "a"); bst "a" KBasic None; bst "f" KFinal None]
      [("r", None); ("a", Some "r"); ("f", Some "r")]
      [(None, ["r"]); (Some "r", ["a"; "f"]); (Some "a", []); (Some "f", [])]
      [btr "a" (Some "f") "e"].
  Definition final_ops := [OpQueue (ev "e"); OpStep 1].

  (* the statement of C17_wrap_step for every chart that is well formed (wf_chart_b), every fresh h *)
  Definition wrap_step_statement (c : chart) (r h : name) : Prop :=
    forall (s : mstate nat nat) now,
      wrap_inv c nat nat s -> root_active r nat nat s ->
      execute_once nat nat exec0 eval0 emit0 (wrap c h) 20 now (wrap_mstate h 0 s)
      = (wrap_mstate h 0 (fst (execute_once nat nat exec0 eval0 emit0 c 20 now s)),
         snd (execute_once nat nat exec0 eval0 emit0 c 20 now s)).

  Theorem C17_wrap_step_final_child_refuted :
    exists c r h,
      C02Proofs.wf_chart_b c = true /\ root c = Some r /\ h <> "" /\ state_for c h = None
      /\ ~ wrap_step_statement c r h.
  Proof.
    exists c_final, "r", "H". split; [vm_compute; reflexivity|]. split; [reflexivity|].
    split; [discriminate|]. split; [reflexivity|].
    intros H.
    specialize (H (fst (queue nat nat (ev "e") (s1 c_final))) 1%Z).
    assert (Hi : wrap_inv c_final nat nat (fst (queue nat nat (ev "e") (s1 c_final))))
      by (apply invi_b_sound; vm_compute; reflexivity).
    assert (Hr : root_active "r" nat nat (fst (queue nat nat (ev "e") (s1 c_final)))) by (vm_compute; tauto).
    specialize (H Hi Hr).
    apply (f_equal (fun o => i_config (m_i (fst o)))) in H. vm_compute in H. discriminate H.
  Qed.

  (* what differs: the configurations after the step, and the exited states *)
  Example final_child_difference :
    i_config (m_i (fst (run c_final final_ops (s1 c_final)))) = []
    /\ i_config (m_i (fst (run (wrap c_final "H") final_ops (wrap_mstate "H" 0 (s1 c_final))))) = ["H"; "r"; "f"]
    /\ shape (snd (run c_final final_ops (s1 c_final))) = [[(["f"], ["a"]); ([], ["f"; "r"])]]
    /\ shape (snd (run (wrap c_final "H") final_ops (wrap_mstate "H" 0 (s1 c_final)))) = [[(["f"], ["a"])]].
  Proof. repeat split; vm_compute; reflexivity. Qed.

  (* c_final violates exactly the last clause of wrap_ok *)
  Example final_child_not_ok : wrap_okb c_final "r" "H" = false.
  Proof. vm_compute. reflexivity. Qed.

  (* (b) the side condition "the root of c is active" of the run theorem: an exception in the middle of a
     step that leaves and re-enters the root (here: the action of an external self-loop on the root fails)
     leaves c with an EMPTY configuration -- a later macro step (here: an event nobody listens to is
     consumed) changes nothing -- whereas in wrap c h the new root is still active and the stabilisation
     at the end of that macro step re-enters r and a by default entry *)
  Definition c_loop : chart :=
    mkChart "loop" None None
      [bst "r" KCompound (Some "a"); bst "a" KBasic None]
      [("r", None); ("a", Some "r")]
      [(None, ["r"]); (Some "r", ["a"]); (Some "a", [])]
      [mkTrans "r" (Some "r") (Some "loop") None (Some "boom") 0%Z [] [] []].
  Definition exec_boom (cl : call nat) (x : nat) : option (nat * list event) :=
    match cl_code cl with Some "boom" => None | _ => Some (S x, []) end.
  Definition runb (c : chart) ops s := run_ops nat nat exec_boom eval0 emit0 c 20 ops s.
  Definition loop_ops := [OpQueue (ev "loop"); OpStep 1; OpQueue (ev "zzz"); OpStep 2].

  Theorem C17_wrap_run_root_active_needed :
    wrap_ok c_loop "r" "H"
    /\ (forall cl x, exec_boom (wrap_call "H" cl) x = exec_boom cl x)
    /\ wrap_inv c_loop nat nat (fst (runb c_loop [OpStep 0] s0))
    /\ root_active "r" nat nat (fst (runb c_loop [OpStep 0] s0))
    /\ snd (runb c_loop loop_ops (fst (runb c_loop [OpStep 0] s0)))
       = [inr (ECode CAction (OTrans 0) 0); inl (Some (2%Z, [mkMicro (Some (ev "zzz")) None [] [] []]))]
    /\ i_config (m_i (fst (runb c_loop loop_ops (fst (runb c_loop [OpStep 0] s0))))) = []
    /\ shape (snd (runb (wrap c_loop "H") loop_ops (wrap_mstate "H" 0 (fst (runb c_loop [OpStep 0] s0)))))
       = [[]; [([], []); (["r"], []); (["a"], [])]].
  Proof.
    split; [apply wrap_okb_sound; vm_compute; reflexivity|]. split; [reflexivity|].
    split; [apply invi_b_sound; vm_compute; reflexivity|]. split; [vm_compute; tauto|].
    split; [vm_compute; reflexivity|]. split; vm_compute; reflexivity.
  Qed.
End WrapRefutations.

(* PRINT-ASSUMPTIONS *)
Print Assumptions wrap_okb_sound.
Print Assumptions C17_wrap_step.
Print Assumptions C17_wrap_queue.
Print Assumptions C17_wrap_run.
Print Assumptions C17_wrap_run_errfree.
Print Assumptions C17_wrap_init.
Print Assumptions WrapExample.C17_wrap_hypotheses_satisfiable.
Print Assumptions WrapExample.C17_wrap_example_by_theorem.
Print Assumptions WrapExample.C17_wrap_example_with_error.
Print Assumptions WrapExample.C17_wrap_init_hypotheses_satisfiable.
Print Assumptions WrapRefutations.C17_wrap_step_final_child_refuted.
Print Assumptions WrapRefutations.C17_wrap_run_root_active_needed.
