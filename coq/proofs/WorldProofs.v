(* WorldProofs.v -- the concrete listeners of theories/World.v: recorders, bound callables, bound
   interpreters, property statecharts (C10 delivery / fail fast / sync, C15 delivery / filter /
   detach). *)
From Coq Require Import String List Bool ZArith Lia PeanoNat.
From Sismic Require Import Base Chart Interp World.
From SismicProofs Require Import MetaProofs.
Import ListNotations.
Open Scope list_scope.

(* ------------------------------------------------------------------ nat-keyed dictionaries *)
Lemma nlookup_nset_eq {V} k (v : V) d : nlookup k (nset k v d) = Some v.
Proof.
  induction d as [|[k' v'] d IH]; cbn.
  - now rewrite Nat.eqb_refl.
  - destruct (Nat.eqb k k') eqn:E; cbn.
    + now rewrite Nat.eqb_refl.
    + now rewrite E.
Qed.
Lemma nlookup_nset_neq {V} k k' (v : V) d : k' <> k -> nlookup k' (nset k v d) = nlookup k' d.
Proof.
  intros Hne. induction d as [|[k2 v2] d IH]; cbn.
  - destruct (Nat.eqb k' k) eqn:E; [apply Nat.eqb_eq in E; contradiction | reflexivity].
  - destruct (Nat.eqb k k2) eqn:E; cbn.
    + apply Nat.eqb_eq in E; subst k2.
      destruct (Nat.eqb k' k) eqn:E'; [apply Nat.eqb_eq in E'; contradiction | reflexivity].
    + destruct (Nat.eqb k' k2); [reflexivity | exact IH].
Qed.

Section WorldProofs.
  Variable ctx : Type.
  Variable exec_code : call ctx -> ctx -> option (ctx * list event).
  Variable eval_code : call ctx -> ctx -> option bool.

  Notation world := (World.world ctx).
  Notation deliver_one := (World.deliver_one ctx exec_code eval_code).
  Notation deliver := (World.deliver ctx exec_code eval_code).
  Notation emit1 := (World.emit1 ctx exec_code eval_code).
  Notation execute0 := (World.execute0 ctx exec_code eval_code).
  Notation execute_once1 := (World.execute_once1 ctx exec_code eval_code).

  (* what a listener has got so far *)
  Definition log (w : world) (id : nat) : list meta :=
    match nlookup id (w_logs w) with Some x => x | None => [] end.
  Definition calls (w : world) (id : nat) : list event :=
    match nlookup id (w_calls w) with Some x => x | None => [] end.
  Definition bound (w : world) (id : nat) : option (istate ctx) := nlookup id (w_bound w).
  Definition prop (w : world) (id : nat) : option (chart * istate ctx) := nlookup id (w_props w).

  Definition is_rec (id : nat) (l : listener) : bool :=
    match l with LRec id' => Nat.eqb id id' | _ => false end.
  Definition is_callable (id : nat) (l : listener) : bool :=
    match l with LCallable id' => Nat.eqb id id' | _ => false end.
  Definition is_interp (id : nat) (l : listener) : bool :=
    match l with LInterp id' => Nat.eqb id id' | _ => false end.
  Definition is_prop (id : nat) (l : listener) : bool :=
    match l with LProp id' => Nat.eqb id id' | _ => false end.

  (* InternalEventListener's filter: what a bound callable / interpreter gets for a meta-event *)
  Definition forwarded (m : meta) : list event :=
    match m with MSent e => [as_external e] | _ => [] end.

  (* ---------------------------------------------------------------- one listener *)
  Lemma deliver_one_frame now m l w :
    w_listeners (fst (deliver_one now m l w)) = w_listeners w /\
    w_fuel (fst (deliver_one now m l w)) = w_fuel w.
  Proof.
    destruct l as [id|id|id|id]; cbn [World.deliver_one].
    - cbn. auto.
    - destruct m; cbn; auto.
    - destruct m; cbn; auto. destruct (nlookup id (w_bound w)); cbn; auto.
    - destruct (nlookup id (w_props w)) as [[psc ps]|]; cbn; auto.
      destruct (World.execute0 _ _ _ _ _ _ _) as [ms [res|e]]; cbn; auto.
      destruct (is_final (m_i ms)); cbn; auto.
  Qed.

  (* a recorder, a bound callable and a bound interpreter never raise *)
  Lemma deliver_one_no_error now m l w :
    (forall id, l <> LProp id) -> snd (deliver_one now m l w) = None.
  Proof.
    intros Hl. destruct l as [id|id|id|id]; cbn [World.deliver_one].
    - reflexivity.
    - destruct m; reflexivity.
    - destruct m; try reflexivity. destruct (nlookup id (w_bound w)); reflexivity.
    - exfalso. eapply Hl; reflexivity.
  Qed.

  (* logs: a recorder appends exactly m to its own log; nobody else touches any log *)
  Lemma deliver_one_log now m l w id :
    log (fst (deliver_one now m l w)) id = log w id ++ (if is_rec id l then [m] else []).
  Proof.
    destruct l as [id'|id'|id'|id']; cbn [World.deliver_one is_rec].
    - unfold log; cbn. destruct (Nat.eqb id id') eqn:E.
      + apply Nat.eqb_eq in E; subst id'. now rewrite nlookup_nset_eq.
      + apply Nat.eqb_neq in E. rewrite nlookup_nset_neq by exact E. now rewrite app_nil_r.
    - destruct m; cbn; now rewrite app_nil_r.
    - destruct m; cbn; try now rewrite app_nil_r.
      destruct (nlookup id' (w_bound w)); cbn; now rewrite app_nil_r.
    - destruct (nlookup id' (w_props w)) as [[psc ps]|]; cbn; [|now rewrite app_nil_r].
      destruct (World.execute0 _ _ _ _ _ _ _) as [ms [res|e]]; cbn; [|now rewrite app_nil_r].
      destruct (is_final (m_i ms)); cbn; now rewrite app_nil_r.
  Qed.

  (* C15_filter for callables: only 'event sent' is forwarded, as an external event *)
  Lemma deliver_one_calls now m l w id :
    calls (fst (deliver_one now m l w)) id = calls w id ++ (if is_callable id l then forwarded m else []).
  Proof.
    destruct l as [id'|id'|id'|id']; cbn [World.deliver_one is_callable].
    - cbn. now rewrite app_nil_r.
    - destruct (Nat.eqb id id') eqn:E.
      + apply Nat.eqb_eq in E; subst id'.
        destruct m; cbn [forwarded fst]; try now rewrite app_nil_r.
        unfold calls; cbn. now rewrite nlookup_nset_eq.
      + apply Nat.eqb_neq in E.
        destruct m; cbn [fst]; try now rewrite app_nil_r.
        unfold calls; cbn. rewrite nlookup_nset_neq by exact E. now rewrite app_nil_r.
    - destruct m; cbn; try now rewrite app_nil_r.
      destruct (nlookup id' (w_bound w)); cbn; now rewrite app_nil_r.
    - destruct (nlookup id' (w_props w)) as [[psc ps]|]; cbn; [|now rewrite app_nil_r].
      destruct (World.execute0 _ _ _ _ _ _ _) as [ms [res|e]]; cbn; [|now rewrite app_nil_r].
      destruct (is_final (m_i ms)); cbn; now rewrite app_nil_r.
  Qed.

  (* bound interpreters: 'event sent' is queued, as an external event, by the bound
     interpreter's own _queue_event (so with its own time); anything else leaves it alone *)
  Definition queue_all (evs : list event) (bi : istate ctx) : istate ctx :=
    fold_left (fun bi e => queue_event bi e) evs bi.

  Lemma deliver_one_bound now m l w id :
    bound (fst (deliver_one now m l w)) id =
    if is_interp id l then option_map (queue_all (forwarded m)) (bound w id) else bound w id.
  Proof.
    destruct l as [id'|id'|id'|id']; cbn [World.deliver_one is_interp].
    - reflexivity.
    - destruct m; reflexivity.
    - unfold bound. destruct (Nat.eqb id id') eqn:E.
      + apply Nat.eqb_eq in E; subst id'.
        destruct m; cbn [forwarded fst queue_all fold_left];
          try (destruct (nlookup id (w_bound w)); reflexivity).
        destruct (nlookup id (w_bound w)) as [bi|] eqn:B; cbn.
        * now rewrite nlookup_nset_eq.
        * now rewrite B.
      + apply Nat.eqb_neq in E.
        destruct m; cbn [fst]; try reflexivity.
        destruct (nlookup id' (w_bound w)) as [bi|] eqn:B; cbn; [|reflexivity].
        now rewrite nlookup_nset_neq by exact E.
    - destruct (nlookup id' (w_props w)) as [[psc ps]|]; cbn; [|reflexivity].
      destruct (World.execute0 _ _ _ _ _ _ _) as [ms [res|e]]; cbn; [|reflexivity].
      destruct (is_final (m_i ms)); reflexivity.
  Qed.

  (* the external event a bound interpreter gets: same name and parameters (delay included),
     inserted in its EXTERNAL queue at its own time + delay, internal queue untouched *)
  Lemma delay_of_as_external e : delay_of (as_external e) = delay_of e.
  Proof. reflexivity. Qed.
  Lemma queue_event_as_external (bi : istate ctx) e :
    queue_event bi (as_external e) =
    set_eq ctx (queue_insert (i_eq bi) (i_time bi + delay_of e)%Z (as_external e)) bi.
  Proof. reflexivity. Qed.
  Lemma as_external_fields e :
    e_kind (as_external e) = External /\ e_name (as_external e) = e_name e /\
    e_data (as_external e) = e_data e.
  Proof. auto. Qed.

  (* ---------------------------------------------------------------- a list of listeners *)
  (* calling the listeners in list order, ignoring errors *)
  Definition run (now : Z) (m : meta) (ls : list listener) (w : world) : world :=
    fold_left (fun w l => fst (deliver_one now m l w)) ls w.
  (* none of them raises *)
  Fixpoint all_ok (now : Z) (m : meta) (ls : list listener) (w : world) : Prop :=
    match ls with
    | [] => True
    | l :: rest => snd (deliver_one now m l w) = None /\ all_ok now m rest (fst (deliver_one now m l w))
    end.

  Lemma run_cons now m l rest w :
    run now m (l :: rest) w = run now m rest (fst (deliver_one now m l w)).
  Proof. reflexivity. Qed.
  Lemma run_app now m a b w : run now m (a ++ b) w = run now m b (run now m a w).
  Proof. apply fold_left_app. Qed.

  (* C10_failfast (delivery).  deliver calls the listeners in list (= attach/bind) order and stops
     at the first one that raises: the listeners before it returned normally, the ones after it
     are not called, the error is that listener's, the world is the one it left. *)
  Theorem C10_failfast_deliver now m ls w w' r :
    deliver now m ls w = (w', r) ->
    match r with
    | None => all_ok now m ls w /\ w' = run now m ls w
    | Some e => exists pre l post,
        ls = pre ++ l :: post /\ all_ok now m pre w /\
        deliver_one now m l (run now m pre w) = (w', Some e)
    end.
  Proof.
    revert w. induction ls as [|l rest IH]; intros w H; cbn [World.deliver] in H.
    - inversion H; subst. split; [exact I | reflexivity].
    - destruct (deliver_one now m l w) as [w1 [e|]] eqn:E.
      + inversion H; subst. exists [], l, rest. repeat split; auto.
      + apply IH in H. destruct r as [e|].
        * destruct H as (pre & l' & post & -> & Hok & Hd).
          exists (l :: pre), l', post. repeat split.
          -- cbn. now rewrite E.
          -- cbn. rewrite E. exact Hok.
          -- cbn. rewrite E. exact Hd.
        * destruct H as [Hok ->]. cbn. rewrite E. auto.
  Qed.

  (* whatever the outcome, the world reflects exactly the listeners called so far *)
  Corollary deliver_called now m ls w w' r :
    deliver now m ls w = (w', r) ->
    exists called, prefix called ls /\ w' = run now m called w /\ (r = None -> called = ls).
  Proof.
    intros H. apply C10_failfast_deliver in H. destruct r as [e|].
    - destruct H as (pre & l & post & -> & _ & Hd).
      exists (pre ++ [l]). repeat split.
      + exists post. now rewrite <- app_assoc.
      + rewrite run_app. cbn. now rewrite Hd.
      + discriminate.
    - destruct H as [_ ->]. exists ls. repeat split; auto. apply prefix_refl.
  Qed.

  Lemma deliver_ok_run now m ls w :
    snd (deliver now m ls w) = None -> fst (deliver now m ls w) = run now m ls w.
  Proof.
    destruct (deliver now m ls w) as [w' r] eqn:E. cbn. intros ->.
    apply C10_failfast_deliver in E. tauto.
  Qed.

  Lemma run_frame now m ls w :
    w_listeners (run now m ls w) = w_listeners w /\ w_fuel (run now m ls w) = w_fuel w.
  Proof.
    revert w. induction ls as [|l rest IH]; intros w; [cbn; auto|]. rewrite run_cons.
    destruct (IH (fst (deliver_one now m l w))) as [-> ->]. apply deliver_one_frame.
  Qed.

  Definition count (p : listener -> bool) (ls : list listener) : nat := length (filter p ls).

  Lemma repeat_concat {A} (a : list A) n k :
    concat (repeat a n) ++ concat (repeat a k) = concat (repeat a (n + k)).
  Proof. induction n as [|n IH]; cbn; [reflexivity|]. now rewrite <- app_assoc, IH. Qed.

  Lemma run_log now m ls w id :
    log (run now m ls w) id = log w id ++ repeat m (count (is_rec id) ls).
  Proof.
    revert w. induction ls as [|l rest IH]; intros w.
    - cbn. now rewrite app_nil_r.
    - rewrite run_cons, IH, deliver_one_log.
      unfold count. cbn [filter]. destruct (is_rec id l); cbn.
      + now rewrite <- app_assoc.
      + now rewrite app_nil_r.
  Qed.

  Lemma run_calls now m ls w id :
    calls (run now m ls w) id = calls w id ++ concat (repeat (forwarded m) (count (is_callable id) ls)).
  Proof.
    revert w. induction ls as [|l rest IH]; intros w.
    - cbn. now rewrite app_nil_r.
    - rewrite run_cons, IH, deliver_one_calls.
      unfold count. cbn [filter]. destruct (is_callable id l); cbn.
      + now rewrite <- app_assoc.
      + now rewrite app_nil_r.
  Qed.

  Lemma run_bound now m ls w id :
    bound (run now m ls w) id =
    option_map (queue_all (concat (repeat (forwarded m) (count (is_interp id) ls)))) (bound w id).
  Proof.
    revert w. induction ls as [|l rest IH]; intros w.
    - cbn. now destruct (bound w id).
    - rewrite run_cons, IH, deliver_one_bound.
      unfold count. cbn [filter]. destruct (is_interp id l); cbn; [|reflexivity].
      destruct (bound w id) as [bi|]; cbn; [|reflexivity].
      unfold queue_all. now rewrite fold_left_app.
  Qed.

  (* C10_recorder_gets_all / C15_detach.  When no listener raises, every recorder in the list
     gets m appended once per occurrence (exactly once when it is attached once) and nothing
     else; a recorder that is not in the list (never attached, or detached) gets nothing.
     When a listener raises, the same holds for the listeners called so far. *)
  Theorem C10_recorder_gets_all now m ls w w' :
    deliver now m ls w = (w', None) ->
    forall id, log w' id = log w id ++ repeat m (count (is_rec id) ls).
  Proof.
    intros H id. apply C10_failfast_deliver in H. destruct H as [_ ->]. apply run_log.
  Qed.

  Corollary C10_recorder_once now m ls w w' id :
    deliver now m ls w = (w', None) -> count (is_rec id) ls = 1 -> log w' id = log w id ++ [m].
  Proof. intros H C. rewrite (C10_recorder_gets_all _ _ _ _ _ H), C. reflexivity. Qed.

  Lemma count_0 p ls : (forall l, In l ls -> p l = false) -> count p ls = 0.
  Proof.
    intros H. unfold count. induction ls as [|l rest IH]; cbn; [reflexivity|].
    rewrite (H l) by (left; reflexivity). apply IH. intros l' Hl. apply H. now right.
  Qed.

  Theorem C15_detach now m ls w w' r id :
    deliver now m ls w = (w', r) ->
    (~ In (LRec id) ls -> log w' id = log w id) /\
    (~ In (LCallable id) ls -> calls w' id = calls w id) /\
    (~ In (LInterp id) ls -> bound w' id = bound w id).
  Proof.
    intros H. apply deliver_called in H. destruct H as (called & [post ->] & -> & _).
    repeat split; intros Hn.
    - rewrite run_log, count_0; [cbn; now rewrite app_nil_r|].
      intros l Hl. destruct l; cbn; auto. destruct (Nat.eqb id id0) eqn:E; auto.
      apply Nat.eqb_eq in E; subst. exfalso. apply Hn. apply in_or_app. now left.
    - rewrite run_calls, count_0; [cbn; now rewrite app_nil_r|].
      intros l Hl. destruct l; cbn; auto. destruct (Nat.eqb id id0) eqn:E; auto.
      apply Nat.eqb_eq in E; subst. exfalso. apply Hn. apply in_or_app. now left.
    - rewrite run_bound, count_0; [cbn; now destruct (bound w id)|].
      intros l Hl. destruct l; cbn; auto. destruct (Nat.eqb id id0) eqn:E; auto.
      apply Nat.eqb_eq in E; subst. exfalso. apply Hn. apply in_or_app. now left.
  Qed.

  (* C15_delivery / C15_filter.  When no listener raises: a bound callable receives as_external e
     (once per binding) exactly when the meta-event is 'event sent e' and nothing for any other
     meta-event (user meta-events, event consumed, delayed event sent, ...); a bound interpreter
     gets it queued in its external queue by its own queue_event and is otherwise unchanged. *)
  Theorem C15_delivery now m ls w w' :
    deliver now m ls w = (w', None) ->
    forall id,
      calls w' id = calls w id ++ concat (repeat (forwarded m) (count (is_callable id) ls)) /\
      bound w' id =
        option_map (queue_all (concat (repeat (forwarded m) (count (is_interp id) ls)))) (bound w id).
  Proof.
    intros H id. apply C10_failfast_deliver in H. destruct H as [_ ->].
    split; [apply run_calls | apply run_bound].
  Qed.

  Corollary C15_delivery_once now m ls w w' id :
    deliver now m ls w = (w', None) ->
    (count (is_callable id) ls = 1 -> calls w' id = calls w id ++ forwarded m) /\
    (count (is_interp id) ls = 1 -> bound w' id = option_map (queue_all (forwarded m)) (bound w id)).
  Proof.
    intros H. destruct (C15_delivery _ _ _ _ _ H id) as [Hc Hb]. split; intros C.
    - rewrite Hc, C. cbn. now rewrite app_nil_r.
    - rewrite Hb, C. cbn. now rewrite app_nil_r.
  Qed.

  Theorem C15_filter m : (forall e, m <> MSent e) -> forwarded m = [].
  Proof. intros H. destruct m; try reflexivity. exfalso. eapply H; reflexivity. Qed.
End WorldProofs.
