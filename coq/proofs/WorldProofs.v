(* WorldProofs.v -- the concrete listeners of theories/World.v: recorders, bound callables, bound
   interpreters, property statecharts (C10 delivery / fail fast / sync / non-intrusive, C15
   delivery / filter / detach / prefix).  Depends on MetaProofs.v.  No axioms.

   One meta-event, one listener:   deliver_one_log / _calls / _bound / _frame / _no_error,
                                   queue_event_as_external, C10_failfast_prop(_iff), C10_sync.
   One meta-event, all listeners:  C10_failfast_deliver, deliver_called, C10_recorder_gets_all,
                                   C10_recorder_once, C15_detach, C15_delivery(_once), C15_filter,
                                   C10_failfast_emit1.
   Successive meta-events:         feed1_ok_run (event-major, listener-minor in binding order),
                                   feed1_log / feed1_calls / feed1_bound.
   A whole execute_once1:          C10_complete_recorder, C15_delivery_complete,
                                   C10_prefix_recorder, C15_prefix_callable,
                                   C10_nonintrusive_world / _no_prop / _returns.
   Module Example: non-vacuity (vm_compute): recorder log = spec_meta on a concrete chart with a
   recorder, a bound callable, a bound interpreter and a property statechart attached.

   Notes.  The world keeps one log per listener, so the global delivery order is stated through
   the shape of the folds (run = left fold over the listener list, feed = left fold over the
   meta-events) rather than through one global log.  "PropertyStatechartError exactly when final"
   is C10_failfast_prop_iff, for the case where the property interpreter's own execution returned
   normally; its own errors are propagated unchanged (C10_failfast_prop). *)
From Coq Require Import String List Bool ZArith Lia PeanoNat.
From Sismic Require Import Base Chart Interp World.
From SismicProofs Require Import MetaProofs.
Import ListNotations.
Open Scope list_scope.

(* ------------------------------------------------------------------ nat-keyed dictionaries *)
Lemma nlookup_nset_eq {V} k (v : V) d : nlookup k (nset k v d) = Some v.
Proof.
  induction d as [|[k' v'] d IH]; cbn.
  - now rewrite Nat.eqb_refl.
  - destruct (Nat.eqb k k') eqn:E; cbn.
    + now rewrite Nat.eqb_refl.
    + now rewrite E.
Qed.
Lemma nlookup_nset_neq {V} k k' (v : V) d : k' <> k -> nlookup k' (nset k v d) = nlookup k' d.
Proof.
  intros Hne. induction d as [|[k2 v2] d IH]; cbn.
  - destruct (Nat.eqb k' k) eqn:E; [apply Nat.eqb_eq in E; contradiction | reflexivity].
  - destruct (Nat.eqb k k2) eqn:E; cbn.
    + apply Nat.eqb_eq in E; subst k2.
      destruct (Nat.eqb k' k) eqn:E'; [apply Nat.eqb_eq in E'; contradiction | reflexivity].
    + destruct (Nat.eqb k' k2); [reflexivity | exact IH].
Qed.

Section WorldProofs.
  Variable ctx : Type.
  Variable exec_code : call ctx -> ctx -> option (ctx * list event).
  Variable eval_code : call ctx -> ctx -> option bool.

  Notation world := (World.world ctx).
  Notation deliver_one := (World.deliver_one ctx exec_code eval_code).
  Notation deliver := (World.deliver ctx exec_code eval_code).
  Notation emit1 := (World.emit1 ctx exec_code eval_code).
  Notation execute0 := (World.execute0 ctx exec_code eval_code).
  Notation execute_once1 := (World.execute_once1 ctx exec_code eval_code).

  (* what a listener has got so far *)
  Definition log (w : world) (id : nat) : list meta :=
    match nlookup id (w_logs w) with Some x => x | None => [] end.
  Definition calls (w : world) (id : nat) : list event :=
    match nlookup id (w_calls w) with Some x => x | None => [] end.
  Definition bound (w : world) (id : nat) : option (istate ctx) := nlookup id (w_bound w).
  Definition prop (w : world) (id : nat) : option (chart * istate ctx) := nlookup id (w_props w).

  Definition is_rec (id : nat) (l : listener) : bool :=
    match l with LRec id' => Nat.eqb id id' | _ => false end.
  Definition is_callable (id : nat) (l : listener) : bool :=
    match l with LCallable id' => Nat.eqb id id' | _ => false end.
  Definition is_interp (id : nat) (l : listener) : bool :=
    match l with LInterp id' => Nat.eqb id id' | _ => false end.
  Definition is_prop (id : nat) (l : listener) : bool :=
    match l with LProp id' => Nat.eqb id id' | _ => false end.

  (* InternalEventListener's filter: what a bound callable / interpreter gets for a meta-event *)
  Definition forwarded (m : meta) : list event :=
    match m with MSent e => [as_external e] | _ => [] end.

  (* ---------------------------------------------------------------- one listener *)
  Lemma deliver_one_frame now m l w :
    w_listeners (fst (deliver_one now m l w)) = w_listeners w /\
    w_fuel (fst (deliver_one now m l w)) = w_fuel w.
  Proof.
    destruct l as [id|id|id|id]; cbn [World.deliver_one].
    - cbn. auto.
    - destruct m; cbn; auto.
    - destruct m; cbn; auto. destruct (nlookup id (w_bound w)); cbn; auto.
    - destruct (nlookup id (w_props w)) as [[psc ps]|]; cbn; auto.
      destruct (World.execute0 _ _ _ _ _ _ _) as [ms [res|e]]; cbn; auto.
      destruct (is_final (m_i ms)); cbn; auto.
  Qed.

  (* a recorder, a bound callable and a bound interpreter never raise *)
  Lemma deliver_one_no_error now m l w :
    (forall id, l <> LProp id) -> snd (deliver_one now m l w) = None.
  Proof.
    intros Hl. destruct l as [id|id|id|id]; cbn [World.deliver_one].
    - reflexivity.
    - destruct m; reflexivity.
    - destruct m; try reflexivity. destruct (nlookup id (w_bound w)); reflexivity.
    - exfalso. eapply Hl; reflexivity.
  Qed.

  (* logs: a recorder appends exactly m to its own log; nobody else touches any log *)
  Lemma deliver_one_log now m l w id :
    log (fst (deliver_one now m l w)) id = log w id ++ (if is_rec id l then [m] else []).
  Proof.
    destruct l as [id'|id'|id'|id']; cbn [World.deliver_one is_rec].
    - unfold log; cbn. destruct (Nat.eqb id id') eqn:E.
      + apply Nat.eqb_eq in E; subst id'. now rewrite nlookup_nset_eq.
      + apply Nat.eqb_neq in E. rewrite nlookup_nset_neq by exact E. now rewrite app_nil_r.
    - destruct m; cbn; now rewrite app_nil_r.
    - destruct m; cbn; try now rewrite app_nil_r.
      destruct (nlookup id' (w_bound w)); cbn; now rewrite app_nil_r.
    - destruct (nlookup id' (w_props w)) as [[psc ps]|]; cbn; [|now rewrite app_nil_r].
      destruct (World.execute0 _ _ _ _ _ _ _) as [ms [res|e]]; cbn; [|now rewrite app_nil_r].
      destruct (is_final (m_i ms)); cbn; now rewrite app_nil_r.
  Qed.

  (* C15_filter for callables: only 'event sent' is forwarded, as an external event *)
  Lemma deliver_one_calls now m l w id :
    calls (fst (deliver_one now m l w)) id = calls w id ++ (if is_callable id l then forwarded m else []).
  Proof.
    destruct l as [id'|id'|id'|id']; cbn [World.deliver_one is_callable].
    - cbn. now rewrite app_nil_r.
    - destruct (Nat.eqb id id') eqn:E.
      + apply Nat.eqb_eq in E; subst id'.
        destruct m; cbn [forwarded fst]; try now rewrite app_nil_r.
        unfold calls; cbn. now rewrite nlookup_nset_eq.
      + apply Nat.eqb_neq in E.
        destruct m; cbn [fst]; try now rewrite app_nil_r.
        unfold calls; cbn. rewrite nlookup_nset_neq by exact E. now rewrite app_nil_r.
    - destruct m; cbn; try now rewrite app_nil_r.
      destruct (nlookup id' (w_bound w)); cbn; now rewrite app_nil_r.
    - destruct (nlookup id' (w_props w)) as [[psc ps]|]; cbn; [|now rewrite app_nil_r].
      destruct (World.execute0 _ _ _ _ _ _ _) as [ms [res|e]]; cbn; [|now rewrite app_nil_r].
      destruct (is_final (m_i ms)); cbn; now rewrite app_nil_r.
  Qed.

  (* bound interpreters: 'event sent' is queued, as an external event, by the bound
     interpreter's own _queue_event (so with its own time); anything else leaves it alone *)
  Definition queue_all (evs : list event) (bi : istate ctx) : istate ctx :=
    fold_left (fun bi e => queue_event bi e) evs bi.

  Lemma deliver_one_bound now m l w id :
    bound (fst (deliver_one now m l w)) id =
    if is_interp id l then option_map (queue_all (forwarded m)) (bound w id) else bound w id.
  Proof.
    destruct l as [id'|id'|id'|id']; cbn [World.deliver_one is_interp].
    - reflexivity.
    - destruct m; reflexivity.
    - unfold bound. destruct (Nat.eqb id id') eqn:E.
      + apply Nat.eqb_eq in E; subst id'.
        destruct m; cbn [forwarded fst queue_all fold_left];
          try (destruct (nlookup id (w_bound w)); reflexivity).
        destruct (nlookup id (w_bound w)) as [bi|] eqn:B; cbn.
        * now rewrite nlookup_nset_eq.
        * now rewrite B.
      + apply Nat.eqb_neq in E.
        destruct m; cbn [fst]; try reflexivity.
        destruct (nlookup id' (w_bound w)) as [bi|] eqn:B; cbn; [|reflexivity].
        now rewrite nlookup_nset_neq by exact E.
    - destruct (nlookup id' (w_props w)) as [[psc ps]|]; cbn; [|reflexivity].
      destruct (World.execute0 _ _ _ _ _ _ _) as [ms [res|e]]; cbn; [|reflexivity].
      destruct (is_final (m_i ms)); reflexivity.
  Qed.

  (* the external event a bound interpreter gets: same name and parameters (delay included),
     inserted in its EXTERNAL queue at its own time + delay, internal queue untouched *)
  Lemma delay_of_as_external e : delay_of (as_external e) = delay_of e.
  Proof. reflexivity. Qed.
  Lemma queue_event_as_external (bi : istate ctx) e :
    queue_event bi (as_external e) =
    set_eq ctx (queue_insert (i_eq bi) (i_time bi + delay_of e)%Z (as_external e)) bi.
  Proof. reflexivity. Qed.
  Lemma as_external_fields e :
    e_kind (as_external e) = External /\ e_name (as_external e) = e_name e /\
    e_data (as_external e) = e_data e.
  Proof. auto. Qed.

  (* ---------------------------------------------------------------- a list of listeners *)
  (* calling the listeners in list order, ignoring errors *)
  Definition run (now : Z) (m : meta) (ls : list listener) (w : world) : world :=
    fold_left (fun w l => fst (deliver_one now m l w)) ls w.
  (* none of them raises *)
  Fixpoint all_ok (now : Z) (m : meta) (ls : list listener) (w : world) : Prop :=
    match ls with
    | [] => True
    | l :: rest => snd (deliver_one now m l w) = None /\ all_ok now m rest (fst (deliver_one now m l w))
    end.

  Lemma run_cons now m l rest w :
    run now m (l :: rest) w = run now m rest (fst (deliver_one now m l w)).
  Proof. reflexivity. Qed.
  Lemma run_app now m a b w : run now m (a ++ b) w = run now m b (run now m a w).
  Proof. apply fold_left_app. Qed.

  (* C10_failfast (delivery).  deliver calls the listeners in list (= attach/bind) order and stops
     at the first one that raises: the listeners before it returned normally, the ones after it
     are not called, the error is that listener's, the world is the one it left. *)
  Theorem C10_failfast_deliver now m ls w w' r :
    deliver now m ls w = (w', r) ->
    match r with
    | None => all_ok now m ls w /\ w' = run now m ls w
    | Some e => exists pre l post,
        ls = pre ++ l :: post /\ all_ok now m pre w /\
        deliver_one now m l (run now m pre w) = (w', Some e)
    end.
  Proof.
    revert w. induction ls as [|l rest IH]; intros w H; cbn [World.deliver] in H.
    - inversion H; subst. split; [exact I | reflexivity].
    - destruct (deliver_one now m l w) as [w1 [e|]] eqn:E.
      + inversion H; subst. exists [], l, rest. repeat split; auto.
      + apply IH in H. destruct r as [e|].
        * destruct H as (pre & l' & post & -> & Hok & Hd).
          exists (l :: pre), l', post. repeat split.
          -- cbn. now rewrite E.
          -- cbn. rewrite E. exact Hok.
          -- cbn. rewrite E. exact Hd.
        * destruct H as [Hok ->]. cbn. rewrite E. auto.
  Qed.

  (* whatever the outcome, the world reflects exactly the listeners called so far *)
  Corollary deliver_called now m ls w w' r :
    deliver now m ls w = (w', r) ->
    exists called, prefix called ls /\ w' = run now m called w /\ (r = None -> called = ls).
  Proof.
    intros H. apply C10_failfast_deliver in H. destruct r as [e|].
    - destruct H as (pre & l & post & -> & _ & Hd).
      exists (pre ++ [l]). repeat split.
      + exists post. now rewrite <- app_assoc.
      + rewrite run_app. cbn. now rewrite Hd.
      + discriminate.
    - destruct H as [_ ->]. exists ls. repeat split; auto. apply prefix_refl.
  Qed.

  Lemma deliver_ok_run now m ls w :
    snd (deliver now m ls w) = None -> fst (deliver now m ls w) = run now m ls w.
  Proof.
    destruct (deliver now m ls w) as [w' r] eqn:E. cbn. intros ->.
    apply C10_failfast_deliver in E. tauto.
  Qed.

  Lemma run_frame now m ls w :
    w_listeners (run now m ls w) = w_listeners w /\ w_fuel (run now m ls w) = w_fuel w.
  Proof.
    revert w. induction ls as [|l rest IH]; intros w; [cbn; auto|]. rewrite run_cons.
    destruct (IH (fst (deliver_one now m l w))) as [-> ->]. apply deliver_one_frame.
  Qed.

  Definition count (p : listener -> bool) (ls : list listener) : nat := length (filter p ls).

  Lemma repeat_concat {A} (a : list A) n k :
    concat (repeat a n) ++ concat (repeat a k) = concat (repeat a (n + k)).
  Proof. induction n as [|n IH]; cbn; [reflexivity|]. now rewrite <- app_assoc, IH. Qed.

  Lemma run_log now m ls w id :
    log (run now m ls w) id = log w id ++ repeat m (count (is_rec id) ls).
  Proof.
    revert w. induction ls as [|l rest IH]; intros w.
    - cbn. now rewrite app_nil_r.
    - rewrite run_cons, IH, deliver_one_log.
      unfold count. cbn [filter]. destruct (is_rec id l); cbn.
      + now rewrite <- app_assoc.
      + now rewrite app_nil_r.
  Qed.

  Lemma run_calls now m ls w id :
    calls (run now m ls w) id = calls w id ++ concat (repeat (forwarded m) (count (is_callable id) ls)).
  Proof.
    revert w. induction ls as [|l rest IH]; intros w.
    - cbn. now rewrite app_nil_r.
    - rewrite run_cons, IH, deliver_one_calls.
      unfold count. cbn [filter]. destruct (is_callable id l); cbn.
      + now rewrite <- app_assoc.
      + now rewrite app_nil_r.
  Qed.

  Lemma run_bound now m ls w id :
    bound (run now m ls w) id =
    option_map (queue_all (concat (repeat (forwarded m) (count (is_interp id) ls)))) (bound w id).
  Proof.
    revert w. induction ls as [|l rest IH]; intros w.
    - cbn. now destruct (bound w id).
    - rewrite run_cons, IH, deliver_one_bound.
      unfold count. cbn [filter]. destruct (is_interp id l); cbn; [|reflexivity].
      destruct (bound w id) as [bi|]; cbn; [|reflexivity].
      unfold queue_all. now rewrite fold_left_app.
  Qed.

  (* C10_recorder_gets_all / C15_detach.  When no listener raises, every recorder in the list
     gets m appended once per occurrence (exactly once when it is attached once) and nothing
     else; a recorder that is not in the list (never attached, or detached) gets nothing.
     When a listener raises, the same holds for the listeners called so far. *)
  Theorem C10_recorder_gets_all now m ls w w' :
    deliver now m ls w = (w', None) ->
    forall id, log w' id = log w id ++ repeat m (count (is_rec id) ls).
  Proof.
    intros H id. apply C10_failfast_deliver in H. destruct H as [_ ->]. apply run_log.
  Qed.

  Corollary C10_recorder_once now m ls w w' id :
    deliver now m ls w = (w', None) -> count (is_rec id) ls = 1 -> log w' id = log w id ++ [m].
  Proof. intros H C. rewrite (C10_recorder_gets_all _ _ _ _ _ H), C. reflexivity. Qed.

  Lemma count_0 p ls : (forall l, In l ls -> p l = false) -> count p ls = 0.
  Proof.
    intros H. unfold count. induction ls as [|l rest IH]; cbn; [reflexivity|].
    rewrite (H l) by (left; reflexivity). apply IH. intros l' Hl. apply H. now right.
  Qed.

  Theorem C15_detach now m ls w w' r id :
    deliver now m ls w = (w', r) ->
    (~ In (LRec id) ls -> log w' id = log w id) /\
    (~ In (LCallable id) ls -> calls w' id = calls w id) /\
    (~ In (LInterp id) ls -> bound w' id = bound w id).
  Proof.
    intros H. apply deliver_called in H. destruct H as (called & [post ->] & -> & _).
    repeat split; intros Hn.
    - rewrite run_log, count_0; [cbn; now rewrite app_nil_r|].
      intros l Hl. destruct l; cbn; auto. destruct (Nat.eqb id id0) eqn:E; auto.
      apply Nat.eqb_eq in E; subst. exfalso. apply Hn. apply in_or_app. now left.
    - rewrite run_calls, count_0; [cbn; now rewrite app_nil_r|].
      intros l Hl. destruct l; cbn; auto. destruct (Nat.eqb id id0) eqn:E; auto.
      apply Nat.eqb_eq in E; subst. exfalso. apply Hn. apply in_or_app. now left.
    - rewrite run_bound, count_0; [cbn; now destruct (bound w id)|].
      intros l Hl. destruct l; cbn; auto. destruct (Nat.eqb id id0) eqn:E; auto.
      apply Nat.eqb_eq in E; subst. exfalso. apply Hn. apply in_or_app. now left.
  Qed.

  (* C15_delivery / C15_filter.  When no listener raises: a bound callable receives as_external e
     (once per binding) exactly when the meta-event is 'event sent e' and nothing for any other
     meta-event (user meta-events, event consumed, delayed event sent, ...); a bound interpreter
     gets it queued in its external queue by its own queue_event and is otherwise unchanged. *)
  Theorem C15_delivery now m ls w w' :
    deliver now m ls w = (w', None) ->
    forall id,
      calls w' id = calls w id ++ concat (repeat (forwarded m) (count (is_callable id) ls)) /\
      bound w' id =
        option_map (queue_all (concat (repeat (forwarded m) (count (is_interp id) ls)))) (bound w id).
  Proof.
    intros H id. apply C10_failfast_deliver in H. destruct H as [_ ->].
    split; [apply run_calls | apply run_bound].
  Qed.

  Corollary C15_delivery_once now m ls w w' id :
    deliver now m ls w = (w', None) ->
    (count (is_callable id) ls = 1 -> calls w' id = calls w id ++ forwarded m) /\
    (count (is_interp id) ls = 1 -> bound w' id = option_map (queue_all (forwarded m)) (bound w id)).
  Proof.
    intros H. destruct (C15_delivery _ _ _ _ _ H id) as [Hc Hb]. split; intros C.
    - rewrite Hc, C. cbn. now rewrite app_nil_r.
    - rewrite Hb, C. cbn. now rewrite app_nil_r.
  Qed.

  Theorem C15_filter m : (forall e, m <> MSent e) -> forwarded m = [].
  Proof. intros H. destruct m; try reflexivity. exfalso. eapply H; reflexivity. Qed.

  (* ---------------------------------------------------------------- property statecharts *)
  (* PropertyStatechartListener.__call__: queue the meta-event, execute(), raise if final *)
  Definition prop_run (w : world) (now : Z) (m : meta) (psc : chart) (ps : istate ctx) :=
    execute0 psc (w_fuel w) now (queue_event ps (meta_to_event m)).

  Definition prop_outcome (id : nat) (ms : mstate ctx unit) (res : list macrostep + err) : option err :=
    match res with
    | inr e => Some e
    | inl _ => if is_final (m_i ms) then Some (EProperty id) else None
    end.

  (* C10_failfast (property statecharts).  The listener of a property statechart raises the error
     of its interpreter's own execution if there is one, otherwise PropertyStatechartError exactly
     when that interpreter is final after having executed the meta-event at the monitored
     interpreter's step time; the property interpreter keeps its new state in both cases. *)
  Theorem C10_failfast_prop now m id w psc ps :
    prop w id = Some (psc, ps) ->
    deliver_one now m (LProp id) w =
      (mkWorld (w_listeners w) (w_logs w) (w_calls w) (w_bound w)
               (nset id (psc, m_i (fst (prop_run w now m psc ps))) (w_props w))
               (m_tr (fst (prop_run w now m psc ps)) ++ w_tr w) (w_fuel w),
       prop_outcome id (fst (prop_run w now m psc ps)) (snd (prop_run w now m psc ps))).
  Proof.
    unfold prop, prop_run, prop_outcome. intros P. cbn [World.deliver_one]. rewrite P.
    destruct (World.execute0 _ _ _ _ _ _ _) as [ms [res|e]]; cbn [fst snd]; [|reflexivity].
    destruct (is_final (m_i ms)); reflexivity.
  Qed.

  Corollary C10_failfast_prop_iff now m id w psc ps macros :
    prop w id = Some (psc, ps) ->
    snd (prop_run w now m psc ps) = inl macros ->
    (snd (deliver_one now m (LProp id) w) = Some (EProperty id)
       <-> is_final (m_i (fst (prop_run w now m psc ps))) = true) /\
    (snd (deliver_one now m (LProp id) w) = None
       <-> is_final (m_i (fst (prop_run w now m psc ps))) = false).
  Proof.
    intros P R. rewrite (C10_failfast_prop _ _ _ _ _ _ P). cbn [snd]. unfold prop_outcome.
    rewrite R. destruct (is_final _); split; split; intros H; try reflexivity; discriminate.
  Qed.

  Lemma deliver_one_prop_unbound now m id w : prop w id = None -> deliver_one now m (LProp id) w = (w, None).
  Proof. unfold prop. intros P. cbn [World.deliver_one]. now rewrite P. Qed.

  (* C10_sync.  While handling a meta-event at the monitored interpreter's step time now, every
     execute_once of the property interpreter runs at now: afterwards its time is now, every
     evaluator call it made (appended to w_tr) saw time = now, every macro step it returned is
     stamped now. *)
  Theorem C10_sync now m id w psc ps w' r :
    prop w id = Some (psc, ps) -> w_fuel w <> O ->
    deliver_one now m (LProp id) w = (w', r) ->
    exists ps', prop w' id = Some (psc, ps') /\ i_time ps' = now /\
      (exists l, w_tr w' = l ++ w_tr w /\ Forall (time_obs ctx now) l) /\
      (forall macros, snd (prop_run w now m psc ps) = inl macros -> Forall (fun ms => fst ms = now) macros).
  Proof.
    intros P Hf H. rewrite (C10_failfast_prop _ _ _ _ _ _ P) in H. inversion H; subst w' r. clear H.
    unfold prop_run, World.execute0.
    destruct (execute ctx unit exec_code eval_code emit0 psc (w_fuel w) now _) as [ms res] eqn:E.
    apply C10_sync_execute in E. destruct E as (T & (l & L & F & _) & Mac). cbn [fst snd].
    exists (m_i ms). repeat split.
    - unfold prop; cbn. apply nlookup_nset_eq.
    - destruct T as [T|T]; [contradiction | exact T].
    - exists l. cbn in L. rewrite app_nil_r in L. cbn. rewrite L. auto.
    - exact Mac.
  Qed.

  (* ---------------------------------------------------------------- successive meta-events *)
  Notation feed1 := (feed world emit1).
  Notation feed_ok1 := (feed_ok world emit1).

  Lemma emit1_frame now m w :
    w_listeners (fst (emit1 now m w)) = w_listeners w /\ w_fuel (fst (emit1 now m w)) = w_fuel w.
  Proof.
    unfold World.emit1. destruct (deliver now m (w_listeners w) w) as [w' r] eqn:E. cbn.
    apply deliver_called in E. destruct E as (called & _ & -> & _). apply run_frame.
  Qed.

  Lemma emit1_called now m w :
    exists called, prefix called (w_listeners w) /\ fst (emit1 now m w) = run now m called w.
  Proof.
    unfold World.emit1. destruct (deliver now m (w_listeners w) w) as [w' r] eqn:E. cbn.
    apply deliver_called in E. destruct E as (called & Pc & -> & _). eauto.
  Qed.

  Lemma feed1_listeners now ms : forall w, w_listeners (feed1 now ms w) = w_listeners w.
  Proof.
    induction ms as [|m ms IH]; intros w; [reflexivity|].
    change (feed1 now (m :: ms) w) with (feed1 now ms (fst (emit1 now m w))).
    rewrite IH. apply emit1_frame.
  Qed.

  (* Delivery order: listener-minor in binding order (run is a left fold over the listener
     list), event-major (feed is a left fold over the meta-events). *)
  Lemma feed1_ok_run now ms : forall w,
    feed_ok1 now ms w ->
    feed1 now ms w = fold_left (fun w m => run now m (w_listeners w) w) ms w.
  Proof.
    induction ms as [|m ms IH]; intros w H; [reflexivity|].
    destruct H as [H1 H2].
    change (feed1 now (m :: ms) w) with (feed1 now ms (fst (emit1 now m w))).
    rewrite (IH _ H2). cbn [fold_left]. unfold World.emit1. now rewrite deliver_ok_run.
  Qed.

  Lemma feed1_log now ms id : forall w,
    feed_ok1 now ms w ->
    log (feed1 now ms w) id =
    log w id ++ flat_map (fun m => repeat m (count (is_rec id) (w_listeners w))) ms.
  Proof.
    induction ms as [|m ms IH]; intros w H.
    - cbn. now rewrite app_nil_r.
    - destruct H as [H1 H2].
      change (feed1 now (m :: ms) w) with (feed1 now ms (fst (emit1 now m w))).
      rewrite (IH _ H2). destruct (emit1_frame now m w) as [-> _].
      unfold World.emit1 at 1. rewrite deliver_ok_run by exact H1. rewrite run_log.
      cbn [flat_map]. now rewrite <- app_assoc.
  Qed.

  Lemma feed1_calls now ms id : forall w,
    feed_ok1 now ms w ->
    calls (feed1 now ms w) id =
    calls w id ++ flat_map (fun m => concat (repeat (forwarded m) (count (is_callable id) (w_listeners w)))) ms.
  Proof.
    induction ms as [|m ms IH]; intros w H.
    - cbn. now rewrite app_nil_r.
    - destruct H as [H1 H2].
      change (feed1 now (m :: ms) w) with (feed1 now ms (fst (emit1 now m w))).
      rewrite (IH _ H2). destruct (emit1_frame now m w) as [-> _].
      unfold World.emit1 at 1. rewrite deliver_ok_run by exact H1. rewrite run_calls.
      cbn [flat_map]. now rewrite <- app_assoc.
  Qed.

  Lemma feed1_bound now ms id : forall w,
    feed_ok1 now ms w ->
    bound (feed1 now ms w) id =
    option_map (queue_all (flat_map (fun m => concat (repeat (forwarded m) (count (is_interp id) (w_listeners w)))) ms))
               (bound w id).
  Proof.
    induction ms as [|m ms IH]; intros w H.
    - cbn. now destruct (bound w id).
    - destruct H as [H1 H2].
      change (feed1 now (m :: ms) w) with (feed1 now ms (fst (emit1 now m w))).
      rewrite (IH _ H2). destruct (emit1_frame now m w) as [-> _].
      unfold World.emit1 at 1. rewrite deliver_ok_run by exact H1. rewrite run_bound.
      destruct (bound w id) as [bi|]; cbn [option_map flat_map]; [|reflexivity].
      unfold queue_all. now rewrite fold_left_app.
  Qed.

  Lemma flat_map_single {A} (l : list A) : flat_map (fun m => [m]) l = l.
  Proof. induction l as [|x l IH]; cbn; congruence. Qed.

  Lemma flat_map_forwarded ms : flat_map forwarded ms = map as_external (sent_events_of ms).
  Proof.
    induction ms as [|m ms IH]; [reflexivity|]. cbn [flat_map]. unfold sent_events_of in *.
    cbn [flat_map]. rewrite map_app, <- IH. destruct m; reflexivity.
  Qed.

  (* ---------------------------------------------------------------- end to end: execute_once1 *)
  (* what the listeners went through during one execute_once of the monitored interpreter *)
  Lemma execute_once1_listeners sc fuel now s w ms r :
    execute_once1 sc fuel now s w = (ms, r) ->
    i_time (m_i ms) = now /\
    m_x ms = feed1 now (tr_metas ctx (m_tr ms)) w /\
    emits_ok ctx world emit1 now (m_tr ms) w (err_of r).
  Proof.
    unfold World.execute_once1. intros H. apply C13_frozen in H.
    destruct H as (T & (l & L & _ & Hx & O) & _). cbn [m_tr m_x] in *. rewrite app_nil_r in L. subst l.
    auto.
  Qed.

  (* C10_complete, listener side.  During an execute_once that returns macro, a recorder attached
     once receives exactly spec_meta now macro: every meta-event once, in order. *)
  Theorem C10_complete_recorder sc fuel now s w ms macro id :
    names_ok sc ->
    execute_once1 sc fuel now s w = (ms, inl macro) ->
    count (is_rec id) (w_listeners w) = 1 ->
    log (m_x ms) id = log w id ++ spec_meta sc now macro.
  Proof.
    intros Hn H C. pose proof (execute_once1_listeners _ _ _ _ _ _ _ H) as (_ & Hx & O).
    apply emits_ok_None in O.
    unfold World.execute_once1 in H. apply (C10_complete _ _ _ _ _ _ _ _ _ _ _ Hn) in H.
    destruct H as (l & L & Ml). cbn [m_tr] in L. rewrite app_nil_r in L. subst l.
    rewrite Hx, (feed1_log _ _ _ _ O), C, Ml. cbn [repeat].
    now rewrite (flat_map_single (spec_meta sc now macro)).
  Qed.

  (* C15_delivery, end to end.  During an execute_once that returns macro, a callable bound once
     receives, as external events with the same name and parameters, exactly the internal events
     of macro.sent_events, in order; a bound interpreter gets them queued (external queue, its own
     time + delay), in that order.  Nothing for user meta-events or consumed events. *)
  Theorem C15_delivery_complete sc fuel now s w ms macro id :
    names_ok sc ->
    execute_once1 sc fuel now s w = (ms, inl macro) ->
    (count (is_callable id) (w_listeners w) = 1 ->
       calls (m_x ms) id = calls w id ++ map as_external (macro_internal_sent macro)) /\
    (count (is_interp id) (w_listeners w) = 1 ->
       bound (m_x ms) id = option_map (queue_all (map as_external (macro_internal_sent macro))) (bound w id)).
  Proof.
    intros Hn H. pose proof (execute_once1_listeners _ _ _ _ _ _ _ H) as (_ & Hx & O).
    apply emits_ok_None in O.
    unfold World.execute_once1 in H. apply (C10_complete _ _ _ _ _ _ _ _ _ _ _ Hn) in H.
    destruct H as (l & L & Ml). cbn [m_tr] in L. rewrite app_nil_r in L. subst l.
    assert (E : forall n, n = 1 ->
                flat_map (fun m => concat (repeat (forwarded m) n)) (spec_meta sc now macro)
                = map as_external (macro_internal_sent macro)).
    { intros n ->. rewrite <- sent_events_spec_meta with (sc := sc) (now := now).
      rewrite <- flat_map_forwarded. apply flat_map_ext. intros m. cbn. apply app_nil_r. }
    split; intros C.
    - rewrite Hx, (feed1_calls _ _ _ _ O), Ml. now rewrite (E _ C).
    - rewrite Hx, (feed1_bound _ _ _ _ O), Ml. now rewrite (E _ C).
  Qed.

  Lemma count_prefix p called ls : prefix called ls -> count p called <= count p ls.
  Proof. intros [q ->]. unfold count. rewrite filter_app, app_length. lia. Qed.

  (* where the listeners are after an execute_once that raised: either all their calls returned
     normally, or they raised on the newest meta-event m and only a prefix of them was called
     for it *)
  Lemma execute_once1_failed sc fuel now s w ms e :
    names_ok sc ->
    execute_once1 sc fuel now s w = (ms, inr e) ->
    exists macro', prefix (tr_metas ctx (m_tr ms)) (spec_meta sc now macro') /\
      ((feed_ok1 now (tr_metas ctx (m_tr ms)) w /\ m_x ms = feed1 now (tr_metas ctx (m_tr ms)) w) \/
       exists m before called,
         tr_metas ctx (m_tr ms) = before ++ [m] /\ feed_ok1 now before w /\
         prefix called (w_listeners w) /\ m_x ms = run now m called (feed1 now before w)).
  Proof.
    intros Hn H. pose proof (execute_once1_listeners _ _ _ _ _ _ _ H) as (_ & Hx & O).
    unfold World.execute_once1 in H. apply (C10_prefix _ _ _ _ _ _ _ _ _ _ _ Hn) in H.
    destruct H as (l & macro' & L & P). cbn [m_tr] in L. rewrite app_nil_r in L. subst l.
    exists macro'. split; [exact P|].
    destruct O as [O|(m & l' & e' & L & _ & O & E)]; [left; auto|]. right.
    rewrite L in Hx. change (ObMeta m :: l') with ([ObMeta m] ++ l') in Hx.
    rewrite tr_metas_app in Hx. change (tr_metas ctx [ObMeta m]) with [m] in Hx.
    rewrite feed_app in Hx. cbn [feed fold_left] in Hx. fold (feed1 now (tr_metas ctx l') w) in Hx.
    destruct (emit1_called now m (feed1 now (tr_metas ctx l') w)) as (called & Pc & Hr).
    rewrite Hr in Hx. rewrite feed1_listeners in Pc.
    exists m, (tr_metas ctx l'), called. repeat split; auto.
    rewrite L. change (ObMeta m :: l') with ([ObMeta m] ++ l'). now rewrite tr_metas_app.
  Qed.

  (* C10_prefix, listener side.  When the call raises, a recorder attached once has received a
     prefix of the meta-events of some macro step. *)
  Theorem C10_prefix_recorder sc fuel now s w ms e id :
    names_ok sc ->
    execute_once1 sc fuel now s w = (ms, inr e) ->
    count (is_rec id) (w_listeners w) = 1 ->
    exists p macro', prefix p (spec_meta sc now macro') /\ log (m_x ms) id = log w id ++ p.
  Proof.
    intros Hn H C. destruct (execute_once1_failed _ _ _ _ _ _ _ Hn H) as (macro' & P & Hc).
    destruct Hc as [[O Hx]|(m & before & called & Hm & O & Pc & Hx)].
    - exists (tr_metas ctx (m_tr ms)), macro'. split; [exact P|].
      rewrite Hx, (feed1_log _ _ _ _ O), C. cbn [repeat]. now rewrite flat_map_single.
    - pose proof (count_prefix (is_rec id) _ _ Pc) as Hle. rewrite C in Hle.
      rewrite Hx, run_log, (feed1_log _ _ _ _ O), C. cbn [repeat]. rewrite flat_map_single.
      destruct (count (is_rec id) called) as [|[|n]]; [| |lia].
      + exists before, macro'. split; [|cbn; now rewrite app_nil_r].
        eapply prefix_trans; [|exact P]. exists [m]. exact Hm.
      + exists (before ++ [m]), macro'. split; [now rewrite <- Hm|]. cbn. now rewrite app_assoc.
  Qed.

  (* C15_prefix.  When the call raises, a callable bound once has received the sent events of a
     prefix of the meta-events of some macro step. *)
  Theorem C15_prefix_callable sc fuel now s w ms e id :
    names_ok sc ->
    execute_once1 sc fuel now s w = (ms, inr e) ->
    count (is_callable id) (w_listeners w) = 1 ->
    exists p macro', prefix p (spec_meta sc now macro') /\
                     calls (m_x ms) id = calls w id ++ map as_external (sent_events_of p).
  Proof.
    intros Hn H C. destruct (execute_once1_failed _ _ _ _ _ _ _ Hn H) as (macro' & P & Hc).
    assert (E : forall l, flat_map (fun m => concat (repeat (forwarded m) 1)) l
                          = map as_external (sent_events_of l)).
    { intros l. rewrite <- flat_map_forwarded. apply flat_map_ext. intros m. cbn. apply app_nil_r. }
    destruct Hc as [[O Hx]|(m & before & called & Hm & O & Pc & Hx)].
    - exists (tr_metas ctx (m_tr ms)), macro'. split; [exact P|].
      now rewrite Hx, (feed1_calls _ _ _ _ O), C, E.
    - pose proof (count_prefix (is_callable id) _ _ Pc) as Hle. rewrite C in Hle.
      rewrite Hx, run_calls, (feed1_calls _ _ _ _ O), C, E.
      destruct (count (is_callable id) called) as [|[|n]]; [| |lia].
      + exists before, macro'. split; [|cbn; now rewrite app_nil_r].
        eapply prefix_trans; [|exact P]. exists [m]. exact Hm.
      + exists (before ++ [m]), macro'. split; [now rewrite <- Hm|].
        cbn [repeat concat]. rewrite app_nil_r, <- app_assoc. f_equal.
        unfold sent_events_of. rewrite flat_map_app, map_app. f_equal.
        cbn. rewrite app_nil_r. destruct m; reflexivity.
  Qed.

  (* ---------------------------------------------------------------- who can raise *)
  Lemma deliver_no_prop now m ls : forall w,
    (forall id, ~ In (LProp id) ls) -> snd (deliver now m ls w) = None.
  Proof.
    induction ls as [|l rest IH]; intros w Hn; cbn [World.deliver]; [reflexivity|].
    assert (Hl : forall id, l <> LProp id).
    { intros id ->. apply (Hn id). now left. }
    pose proof (deliver_one_no_error now m l w Hl) as E.
    destruct (deliver_one now m l w) as [w1 [e|]]; cbn in E; [discriminate|].
    apply IH. intros id Hin. apply (Hn id). now right.
  Qed.

  Lemma feed_ok1_no_prop now ms : forall w,
    (forall id, ~ In (LProp id) (w_listeners w)) -> feed_ok1 now ms w.
  Proof.
    induction ms as [|m ms IH]; intros w Hn; cbn [feed_ok]; [exact I|]. split.
    - unfold World.emit1. now apply deliver_no_prop.
    - apply IH. destruct (emit1_frame now m w) as [-> _]. exact Hn.
  Qed.

  (* C10_failfast, listener side.  If delivering m raises e, then e was raised by a property
     statechart listener LProp id: the listeners before it in binding order returned normally,
     the ones after it were not called, and e is PropertyStatechartError(id) if its interpreter
     executed the meta-event normally and is final, or that interpreter's own error. *)
  Theorem C10_failfast_emit1 now m w e :
    snd (emit1 now m w) = Some e ->
    exists pre id post psc ps,
      w_listeners w = pre ++ LProp id :: post /\ all_ok now m pre w /\
      prop (run now m pre w) id = Some (psc, ps) /\
      e = match snd (prop_run (run now m pre w) now m psc ps) with
          | inr e' => e'
          | inl _ => EProperty id
          end /\
      (forall macros, snd (prop_run (run now m pre w) now m psc ps) = inl macros ->
                      is_final (m_i (fst (prop_run (run now m pre w) now m psc ps))) = true).
  Proof.
    unfold World.emit1. destruct (deliver now m (w_listeners w) w) as [w' r] eqn:D. cbn [snd].
    intros ->. apply C10_failfast_deliver in D. destruct D as (pre & l & post & L & Hok & Hd).
    set (w1 := run now m pre w) in *.
    assert (Hl : (forall id, l <> LProp id) -> False).
    { intros Hl. pose proof (deliver_one_no_error now m l w1 Hl) as E. rewrite Hd in E. discriminate. }
    destruct l as [id|id|id|id]; try (exfalso; apply Hl; intros ? ?; discriminate). clear Hl.
    destruct (prop w1 id) as [[psc ps]|] eqn:P.
    - exists pre, id, post, psc, ps. rewrite (C10_failfast_prop _ _ _ _ _ _ P) in Hd.
      inversion Hd as [[Hw He]]. unfold prop_outcome in He. unfold w1 in *. clear w1.
      repeat split; auto.
      + destruct (snd (prop_run (run now m pre w) now m psc ps)) as [macros|e']; [|congruence].
        destruct (is_final _); congruence.
      + intros macros Hm. rewrite Hm in He. destruct (is_final _); [reflexivity | discriminate].
    - rewrite (deliver_one_prop_unbound _ _ _ _ P) in Hd. discriminate.
  Qed.

  (* ---------------------------------------------------------------- C10_nonintrusive, world *)
  Notation execute_once0 sc fuel now s :=
    (execute_once ctx unit exec_code eval_code emit0 sc fuel now (mkM s tt [])).

  Lemma emit0_ok : forall t m x, snd (emit0 t m x) = None.
  Proof. reflexivity. Qed.

  (* The monitored run (recorders, bound callables, bound interpreters, property statecharts
     attached) against the same run with no listener at all: either some property statechart
     listener raised -- then the monitored run stopped right there with its error, the newest
     trace entry being the meta-event concerned -- or the two runs have the same outcome, the same
     final interpreter state and the same trace. *)
  Theorem C10_nonintrusive_world sc fuel now s w ms r ms0 r0 :
    execute_once1 sc fuel now s w = (ms, r) ->
    execute_once0 sc fuel now s = (ms0, r0) ->
    (m_i ms = m_i ms0 /\ m_tr ms = m_tr ms0 /\ r = r0) \/
    (exists m l' e, m_tr ms = ObMeta m :: l' /\ r = inr e /\
                    feed_ok1 now (tr_metas ctx l') w /\
                    snd (emit1 now m (feed1 now (tr_metas ctx l') w)) = Some e).
  Proof.
    unfold World.execute_once1. intros Ha Hb.
    assert (S : sim ctx world unit (mkM s w []) (mkM s tt [])) by (split; reflexivity).
    destruct (C10_nonintrusive_or_raised ctx exec_code eval_code sc world unit emit1 emit0 emit0_ok
                fuel now _ _ _ _ _ _ S Ha Hb) as [H|(m & l' & e & L & K & O & E)].
    - left. exact H.
    - right. exists m, l', e. cbn [m_tr m_x] in *. rewrite app_nil_r in L. auto.
  Qed.

  (* no property statechart attached: the listeners are invisible *)
  Corollary C10_nonintrusive_no_prop sc fuel now s w ms r ms0 r0 :
    (forall id, ~ In (LProp id) (w_listeners w)) ->
    execute_once1 sc fuel now s w = (ms, r) ->
    execute_once0 sc fuel now s = (ms0, r0) ->
    m_i ms = m_i ms0 /\ m_tr ms = m_tr ms0 /\ r = r0.
  Proof.
    intros Hn Ha Hb. destruct (C10_nonintrusive_world _ _ _ _ _ _ _ _ _ Ha Hb) as [H|H]; [exact H|].
    destruct H as (m & l' & e & _ & _ & _ & E). exfalso.
    unfold World.emit1 in E. rewrite deliver_no_prop in E; [discriminate|].
    rewrite feed1_listeners. exact Hn.
  Qed.

  (* no property statechart raised (the monitored call returned normally): same run *)
  Corollary C10_nonintrusive_returns sc fuel now s w ms macro ms0 r0 :
    execute_once1 sc fuel now s w = (ms, inl macro) ->
    execute_once0 sc fuel now s = (ms0, r0) ->
    m_i ms = m_i ms0 /\ m_tr ms = m_tr ms0 /\ r0 = inl macro.
  Proof.
    intros Ha Hb. destruct (C10_nonintrusive_world _ _ _ _ _ _ _ _ _ Ha Hb) as [(H1 & H2 & H3)|H]; [auto|].
    destruct H as (m & l' & e & _ & K & _). discriminate.
  Qed.
End WorldProofs.

(* ------------------------------------------------------------------ non-vacuity *)
(* A tiny chart r{a,b}, a --go / act--> b; the action sends an internal event (with a delay) and
   notifies a user meta-event.  One recorder, one bound callable, one bound interpreter and one
   property statechart that never goes final are attached. *)
Module Example.
  Open Scope string_scope.
  Open Scope list_scope.
  Definition st (n : name) (k : kind) (ini : option name) : state :=
    mkState n k ini None None None [] [] [].
  Definition ex_chart : chart :=
    mkChart "ex" None None
      [("r", st "r" KCompound (Some "a")); ("a", st "a" KBasic None); ("b", st "b" KBasic None)]
      [("r", None); ("a", Some "r"); ("b", Some "r")]
      [(None, ["r"]); (Some "r", ["a"; "b"]); (Some "a", []); (Some "b", [])]
      [mkTrans "a" (Some "b") (Some "go") None (Some "act") 0 [] [] []].
  (* the property statechart: one state, no transition *)
  Definition prop_chart : chart :=
    mkChart "p" None None [("p", st "p" KBasic None)] [("p", None)] [(None, ["p"]); (Some "p", [])] [].

  Definition ping : event := mkEvent Internal "ping" [("delay", VInt 3); ("x", VInt 1)].
  Definition note : event := mkEvent Meta "note" [("k", VStr "v")].
  Definition ex_exec (c : call unit) (x : unit) : option (unit * list event) :=
    match cl_kind c with CAction => Some (tt, [ping; note]) | _ => Some (tt, []) end.
  Definition ex_eval (c : call unit) (x : unit) : option bool := Some true.

  Definition w0 : world unit :=
    mkWorld [LRec 0; LCallable 1; LInterp 2; LProp 3] [] []
            [(2, init_istate 2 0%Z false tt)]
            [(3, (prop_chart, init_istate 3 0%Z false tt))] [] 10.
  Definition s0 : istate unit := init_istate 0 0%Z false tt.

  (* first step: initialisation; second step at time 5 consumes go *)
  Definition run1 := execute_once1 unit ex_exec ex_eval ex_chart 10 0%Z s0 w0.
  Definition s1 : istate unit := queue_event (m_i (fst run1)) (mkEvent External "go" []).
  Definition run2 := execute_once1 unit ex_exec ex_eval ex_chart 10 5%Z s1 (m_x (fst run1)).

  Lemma ex_names_ok : names_ok ex_chart.
  Proof. apply names_okb_sound. reflexivity. Qed.

  Example ex_run1_log :
    exists macro, snd run1 = inl macro /\
      log unit (m_x (fst run1)) 0 = spec_meta ex_chart 0%Z macro /\
      spec_meta ex_chart 0%Z macro =
        [MStepStarted 0%Z; MEntered "r"; MEntered "a"; MStepEnded].
  Proof. eexists. vm_compute. repeat split. Qed.

  Example ex_run2_log :
    exists macro, snd run2 = inl macro /\
      log unit (m_x (fst run2)) 0 = log unit (m_x (fst run1)) 0 ++ spec_meta ex_chart 5%Z macro /\
      spec_meta ex_chart 5%Z macro =
        [MStepStarted 5%Z; MConsumed (mkEvent External "go" []); MExited "a";
         MProcessed "a" (Some "b") (Some (mkEvent External "go" [])); MEntered "b";
         MSent ping; MDelayedSent ping; MUser "note" [("k", VStr "v")]; MStepEnded] /\
      calls unit (m_x (fst run2)) 1 = [as_external ping] /\
      option_map (@i_eq unit) (bound unit (m_x (fst run2)) 2) = Some [(3%Z, as_external ping)] /\
      i_iq (m_i (fst run2)) = [(8%Z, ping)] /\
      option_map (fun p => i_time (snd p)) (prop unit (m_x (fst run2)) 3) = Some 5%Z.
  Proof. eexists. vm_compute. repeat split. Qed.
End Example.

Print Assumptions C10_failfast_deliver.
Print Assumptions C10_recorder_gets_all.
Print Assumptions C15_detach.
Print Assumptions C15_delivery.
Print Assumptions C15_filter.
Print Assumptions C10_failfast_prop.
Print Assumptions C10_sync.
Print Assumptions C10_complete_recorder.
Print Assumptions C15_delivery_complete.
Print Assumptions C10_prefix_recorder.
Print Assumptions C15_prefix_callable.
Print Assumptions C10_failfast_emit1.
Print Assumptions C10_nonintrusive_world.
Print Assumptions C10_nonintrusive_no_prop.
Print Assumptions C10_nonintrusive_returns.
