(* C04Proofs.v -- property C04 "Non-determinism and conflicts are reported, never silently resolved".

   Model functions concerned: check_pair, check_against, check_pairs, stays_below, last_before,
   sort_transitions, trans_order_leb, compute_steps, execute_once (theories/Interp.v).

   STATUS: every statement asked for is proved in full (no `_partial`, no `_refuted`).
   Remarks on the statements:
     - `stays`/`leaves` take the LCA as an `option name` (that is the type of the first argument of
       `stays_below`); in all statements it is instantiated with `lca_of t1 t2`, the LCA of the two
       sources.
     - C04_no_statechart_error: the hypothesis "no source is a strict ancestor of another" is not
       needed (a common strict ancestor is enough for `least_common_ancestor` to succeed); it is
       therefore not among the hypotheses.
     - C04_nothing_happened is stated with the hypothesis `i_initialized (m_i s) = true` as requested;
       C04_origin shows the hypothesis is in fact implied by the error (an uninitialised interpreter
       never raises the two errors).
     - `Hemit` is a Section hypothesis: it appears as an explicit premise of the theorems of part 6
       once the section is closed. *)
From Coq Require Import String List Bool ZArith Lia Permutation.
From Sismic Require Import Base Chart Interp.
Import ListNotations.
Open Scope string_scope.
Open Scope list_scope.

(* ------------------------------------------------------------------ small library *)
Lemma c04_mem_In (x : name) (l : list name) : mem x l = true <-> In x l.
Proof.
  induction l as [|y l IH]; simpl.
  - split; [discriminate | tauto].
  - rewrite orb_true_iff, IH. unfold str_eqb. rewrite String.eqb_eq.
    split; intros [H|H]; auto.
Qed.

Lemma c04_find_app {A} (f : A -> bool) (l1 l2 : list A) :
  find f (l1 ++ l2) = match find f l1 with Some x => Some x | None => find f l2 end.
Proof.
  induction l1 as [|x l1 IH]; simpl; [reflexivity|]. destruct (f x); auto.
Qed.

Lemma c04_find_none_iff {A} (f : A -> bool) (l : list A) :
  find f l = None <-> forall x, In x l -> f x = false.
Proof.
  split.
  - apply find_none.
  - intros H. destruct (find f l) as [x|] eqn:Hf; [|reflexivity].
    apply find_some in Hf. destruct Hf as [Hin Hfx]. rewrite (H x Hin) in Hfx. discriminate.
Qed.

Lemma c04_insert_perm {A} (leb : A -> A -> bool) (x : A) (l : list A) :
  Permutation (insert leb x l) (x :: l).
Proof.
  induction l as [|y l IH]; simpl; [apply Permutation_refl|].
  destruct (leb x y); [apply Permutation_refl|].
  eapply Permutation_trans; [apply perm_skip; exact IH | apply perm_swap].
Qed.

Lemma c04_sort_perm {A} (leb : A -> A -> bool) (l : list A) : Permutation (sort leb l) l.
Proof.
  induction l as [|x l IH]; simpl; [apply perm_nil|].
  eapply Permutation_trans; [apply c04_insert_perm | apply perm_skip; exact IH].
Qed.

Lemma c04_sort_short {A} (leb : A -> A -> bool) (l : list A) : length l < 2 -> sort leb l = l.
Proof.
  destruct l as [|x [|y l]]; simpl; intros H; try reflexivity. lia.
Qed.

Lemma c04_last_default {A} (l : list A) (d d' : A) : l <> [] -> last l d = last l d'.
Proof.
  induction l as [|x l IH]; intros H; [congruence|].
  destruct l as [|y l]; [reflexivity|]. simpl in *. apply IH. discriminate.
Qed.

(* ================================================================== *)
Section C04.
  Variable ctx : Type.
  Variable X : Type.
  Variable exec_code : call ctx -> ctx -> option (ctx * list event).
  Variable eval_code : call ctx -> ctx -> option bool.
  Variable emit : Z -> meta -> X -> X * option err.
  Variable sc : chart.

  (* ---------------------------------------------------------------- declarative vocabulary *)
  Definition lca_of (t1 t2 : transition) : option name :=
    least_common_ancestor sc (t_source t1) (t_source t2).

  Definition separated (t1 t2 : transition) : Prop :=
    t_source t1 <> t_source t2 /\
    exists l, least_common_ancestor sc (t_source t1) (t_source t2) = Some l /\
              kind_of sc l = Some KOrthogonal.

  Definition stays (lca : option name) (t : transition) : Prop := stays_below sc lca t = true.
  Definition leaves (lca : option name) (t : transition) : Prop := stays_below sc lca t = false.

  (* the pair (t1, t2) occurs in ts at positions i < j *)
  Definition pair_at (ts : list itrans) (t1 t2 : transition) : Prop :=
    exists i j a b, i < j /\ nth_error ts i = Some a /\ nth_error ts j = Some b /\
                    snd a = t1 /\ snd b = t2.

  (* itertools.combinations(ts, 2), in its order *)
  Fixpoint pairs_of (ts : list itrans) : list (transition * transition) :=
    match ts with
    | [] => []
    | it :: rest => map (fun x => (snd it, snd x)) rest ++ pairs_of rest
    end.

  Definition offending (p : transition * transition) : bool :=
    match check_pair sc (fst p) (snd p) with Some _ => true | None => false end.

  (* ---------------------------------------------------------------- meaning of stays / last_before *)
  (* last_before: the LCA occurs among the ancestors: the state just below it on the path *)
  Lemma C04_last_before_found (l : name) (pre post : list name) (cur : name) :
    ~ In l pre ->
    last_before (Some l) (pre ++ l :: post) cur = last pre cur.
  Proof.
    revert cur. induction pre as [|a pre IH]; intros cur Hnin; simpl.
    - unfold ostr_eqb, opt_eqb, str_eqb. rewrite String.eqb_refl. reflexivity.
    - assert (Hne : a <> l) by (intros Heq; apply Hnin; left; exact Heq).
      unfold ostr_eqb, opt_eqb, str_eqb. apply String.eqb_neq in Hne. rewrite Hne.
      rewrite IH by (intros Hin; apply Hnin; right; exact Hin).
      destruct pre as [|b pre]; [reflexivity|].
      apply c04_last_default. discriminate.
  Qed.

  (* the LCA does not occur (or there is none): the topmost ancestor *)
  Lemma C04_last_before_missing (lca : option name) (anc : list name) (cur : name) :
    (forall l, lca = Some l -> ~ In l anc) ->
    last_before lca anc cur = last anc cur.
  Proof.
    revert cur. induction anc as [|a anc IH]; intros cur Hnin; [reflexivity|].
    assert (Hne : ostr_eqb (Some a) lca = false).
    { destruct lca as [l|]; [|reflexivity]. unfold ostr_eqb, opt_eqb, str_eqb.
      apply String.eqb_neq. intros Heq. apply (Hnin l eq_refl). left. exact Heq. }
    cbn [last_before]. rewrite Hne. rewrite IH. cbn [last].
    - destruct anc as [|b anc]; [reflexivity|]. apply c04_last_default. discriminate.
    - intros l Hl Hin. apply (Hnin l Hl). right. exact Hin.
  Qed.

  Lemma C04_stays_spec (lca : option name) (t : transition) :
    stays lca t <->
    t_target t = None \/ t_target t = Some "" \/
    exists tgt, t_target t = Some tgt /\
      In tgt (last_before lca (ancestors_for sc (t_source t)) (t_source t)
              :: descendants_for sc (last_before lca (ancestors_for sc (t_source t)) (t_source t))).
  Proof.
    unfold stays, stays_below. destruct (t_target t) as [tgt|].
    - destruct tgt as [|a tgt].
      + split; intros _; auto.
      + rewrite c04_mem_In. split.
        * intros Hin. right. right. exists (String a tgt). split; [reflexivity | exact Hin].
        * intros [Hn|[He|[tgt' [Heq Hin]]]]; try discriminate.
          inversion Heq; subst. exact Hin.
    - split; intros _; auto.
  Qed.

  Lemma C04_stays_or_leaves (lca : option name) (t : transition) : stays lca t \/ leaves lca t.
  Proof. unfold stays, leaves. destruct (stays_below sc lca t); auto. Qed.

  Lemma C04_separated_irrefl (t1 t2 : transition) :
    t_source t1 = t_source t2 -> ~ separated t1 t2.
  Proof. intros Heq [Hne _]. contradiction. Qed.

  (* ---------------------------------------------------------------- 1. check_pair *)
  Theorem C04_check_pair (t1 t2 : transition) :
    (check_pair sc t1 t2 = None <->
       separated t1 t2 /\ stays (lca_of t1 t2) t1 /\ stays (lca_of t1 t2) t2) /\
    (check_pair sc t1 t2 = Some ENonDeterminism <->
       t_source t1 = t_source t2 \/
       exists l k, lca_of t1 t2 = Some l /\ kind_of sc l = Some k /\ k <> KOrthogonal) /\
    (check_pair sc t1 t2 = Some EConflict <->
       separated t1 t2 /\ (leaves (lca_of t1 t2) t1 \/ leaves (lca_of t1 t2) t2)) /\
    (check_pair sc t1 t2 = Some EStatechart <->
       t_source t1 <> t_source t2 /\
       (lca_of t1 t2 = None \/ exists l, lca_of t1 t2 = Some l /\ kind_of sc l = None)).
  Proof.
    unfold separated, stays, leaves, lca_of, check_pair.
    destruct (str_eqb (t_source t1) (t_source t2)) eqn:Hsame.
    - apply String.eqb_eq in Hsame.
      split; [|split; [|split]]; (split; intros H); try discriminate; auto.
      + destruct H as [[Hne _] _]. contradiction.
      + destruct H as [[Hne _] _]. contradiction.
      + destruct H as [Hne _]. contradiction.
    - apply String.eqb_neq in Hsame.
      destruct (least_common_ancestor sc (t_source t1) (t_source t2)) as [l|] eqn:Hlca.
      + destruct (kind_of sc l) as [k|] eqn:Hk.
        * destruct (stays_below sc (Some l) t1) eqn:Hs1;
          destruct (stays_below sc (Some l) t2) eqn:Hs2;
          destruct k; simpl;
          (split; [|split; [|split]]); (split; intros H); try discriminate; auto;
          try (right; eexists; eexists; repeat split; eauto; discriminate);
          try (repeat split; auto; eexists; split; eauto; fail);
          try (destruct H as [[_ [l' [Hl' Hk']]] _]; congruence);
          try (destruct H as [_ [H|[l' [Hl' Hk']]]]; congruence);
          try (destruct H as [H|[l' [k' [Hl' [Hk' Hne]]]]]; congruence);
          try (destruct H as [_ [H _]]; discriminate);
          try (destruct H as [_ [_ H]]; discriminate);
          try (destruct H as [_ [H|H]]; discriminate).
        * split; [|split; [|split]]; (split; intros H); try discriminate; auto.
          -- destruct H as [[_ [l' [Hl' Hk']]] _]. congruence.
          -- destruct H as [H|[l' [k' [Hl' [Hk' Hne]]]]]; congruence.
          -- destruct H as [[_ [l' [Hl' Hk']]] _]. congruence.
          -- split; [exact Hsame|]. right. exists l. auto.
      + split; [|split; [|split]]; (split; intros H); try discriminate; auto.
        * destruct H as [[_ [l' [Hl' Hk']]] _]. congruence.
        * destruct H as [H|[l' [k' [Hl' [Hk' Hne]]]]]; congruence.
        * destruct H as [[_ [l' [Hl' Hk']]] _]. congruence.
  Qed.

  (* the four clauses separately, for rewriting *)
  Lemma C04_check_pair_none t1 t2 :
    check_pair sc t1 t2 = None <->
    separated t1 t2 /\ stays (lca_of t1 t2) t1 /\ stays (lca_of t1 t2) t2.
  Proof. apply C04_check_pair. Qed.
  Lemma C04_check_pair_nd t1 t2 :
    check_pair sc t1 t2 = Some ENonDeterminism <->
    t_source t1 = t_source t2 \/
    exists l k, lca_of t1 t2 = Some l /\ kind_of sc l = Some k /\ k <> KOrthogonal.
  Proof. apply C04_check_pair. Qed.
  Lemma C04_check_pair_conflict t1 t2 :
    check_pair sc t1 t2 = Some EConflict <->
    separated t1 t2 /\ (leaves (lca_of t1 t2) t1 \/ leaves (lca_of t1 t2) t2).
  Proof. apply C04_check_pair. Qed.
  Lemma C04_check_pair_statechart t1 t2 :
    check_pair sc t1 t2 = Some EStatechart <->
    t_source t1 <> t_source t2 /\
    (lca_of t1 t2 = None \/ exists l, lca_of t1 t2 = Some l /\ kind_of sc l = None).
  Proof. apply C04_check_pair. Qed.

  (* check_pair never yields another error *)
  Lemma C04_check_pair_range t1 t2 e :
    check_pair sc t1 t2 = Some e -> e = ENonDeterminism \/ e = EConflict \/ e = EStatechart.
  Proof.
    unfold check_pair. intros H.
    destruct (str_eqb (t_source t1) (t_source t2)); [inversion H; auto|].
    destruct (least_common_ancestor sc (t_source t1) (t_source t2)) as [l|]; [|inversion H; auto].
    destruct (kind_of sc l) as [k|]; [|inversion H; auto].
    destruct k; try (inversion H; auto; fail).
    destruct (stays_below sc (Some l) t1 && stays_below sc (Some l) t2); inversion H; auto.
  Qed.

  (* a non-separated pair is always an error *)
  Lemma C04_not_separated_error t1 t2 :
    ~ separated t1 t2 -> check_pair sc t1 t2 <> None.
  Proof. intros Hns Hnone. apply C04_check_pair_none in Hnone. apply Hns. apply Hnone. Qed.

  (* a separated pair yields nothing or a conflict *)
  Lemma C04_separated_cases t1 t2 :
    separated t1 t2 -> check_pair sc t1 t2 = None \/ check_pair sc t1 t2 = Some EConflict.
  Proof.
    intros Hsep.
    destruct (C04_stays_or_leaves (lca_of t1 t2) t1) as [H1|H1];
    destruct (C04_stays_or_leaves (lca_of t1 t2) t2) as [H2|H2].
    - left. apply C04_check_pair_none. auto.
    - right. apply C04_check_pair_conflict. auto.
    - right. apply C04_check_pair_conflict. auto.
    - right. apply C04_check_pair_conflict. auto.
  Qed.

  (* ---------------------------------------------------------------- pairs *)
  Lemma C04_pairs_of_spec (ts : list itrans) (t1 t2 : transition) :
    In (t1, t2) (pairs_of ts) <-> pair_at ts t1 t2.
  Proof.
    unfold pair_at. revert t1 t2. induction ts as [|it rest IH]; intros t1 t2; simpl.
    - split; [tauto|]. intros [i [j [a [b [_ [Hi _]]]]]]. destruct i; discriminate.
    - rewrite in_app_iff, in_map_iff. split.
      + intros [[b [Heq Hin]]|Hin].
        * inversion Heq; subst. apply In_nth_error in Hin. destruct Hin as [k Hk].
          exists 0, (S k), it, b. repeat split; auto. lia.
        * apply IH in Hin. destruct Hin as [i [j [a [b [Hlt [Hi [Hj [Ha Hb]]]]]]]].
          exists (S i), (S j), a, b. repeat split; auto. lia.
      + intros [i [j [a [b [Hlt [Hi [Hj [Ha Hb]]]]]]]].
        destruct j as [|j]; [lia|]. simpl in Hj. destruct i as [|i]; simpl in Hi.
        * left. inversion Hi; subst. exists b. split; [reflexivity|].
          eapply nth_error_In. exact Hj.
        * right. apply IH. exists i, j, a, b. repeat split; auto. lia.
  Qed.

  Lemma C04_pairs_of_length (ts : list itrans) :
    length (pairs_of ts) * 2 = length ts * (length ts - 1).
  Proof.
    induction ts as [|it rest IH]; [reflexivity|].
    cbn [pairs_of length]. rewrite app_length, map_length.
    change (@length (nat * transition) rest) with (@length itrans rest).
    remember (length rest) as n eqn:Hn. remember (length (pairs_of rest)) as m eqn:Hm.
    destruct n as [|n]; [simpl in *; lia|].
    replace (S (S n) - 1) with (S n) by lia. replace (S n - 1) with n in IH by lia. nia.
  Qed.

  (* ---------------------------------------------------------------- 5. the first offending pair decides *)
  Lemma C04_check_against_find (t1 : transition) (rest : list itrans) :
    check_against sc t1 rest =
    match find offending (map (fun x => (t1, snd x)) rest) with
    | Some p => check_pair sc (fst p) (snd p)
    | None => None
    end.
  Proof.
    induction rest as [|it rest IH]; simpl; [reflexivity|].
    unfold offending at 1. simpl.
    destruct (check_pair sc t1 (snd it)) as [e|] eqn:Hcp; simpl.
    - symmetry. exact Hcp.
    - exact IH.
  Qed.

  Theorem C04_first_pair (ts : list itrans) :
    check_pairs sc ts =
    match find offending (pairs_of ts) with
    | Some p => check_pair sc (fst p) (snd p)
    | None => None
    end.
  Proof.
    induction ts as [|it rest IH]; simpl; [reflexivity|].
    rewrite c04_find_app, C04_check_against_find.
    destruct (find offending (map (fun x => (snd it, snd x)) rest)) as [p|] eqn:Hf.
    - apply find_some in Hf. destruct Hf as [_ Hoff]. unfold offending in Hoff.
      destruct (check_pair sc (fst p) (snd p)) as [e|]; [reflexivity | discriminate].
    - exact IH.
  Qed.

  (* the same, in relational form *)
  Theorem C04_first_pair_some (ts : list itrans) (e : err) :
    check_pairs sc ts = Some e ->
    exists t1 t2,
      find offending (pairs_of ts) = Some (t1, t2) /\
      pair_at ts t1 t2 /\
      check_pair sc t1 t2 = Some e /\
      (e = ENonDeterminism \/ e = EConflict \/ e = EStatechart).
  Proof.
    rewrite C04_first_pair. intros H.
    destruct (find offending (pairs_of ts)) as [[t1 t2]|] eqn:Hf; [|discriminate].
    simpl in H. exists t1, t2. split; [reflexivity|].
    apply find_some in Hf. destruct Hf as [Hin _].
    split; [apply C04_pairs_of_spec; exact Hin|].
    split; [exact H|]. eapply C04_check_pair_range. exact H.
  Qed.

  (* ---------------------------------------------------------------- 2. no error *)
  Theorem C04_ok (ts : list itrans) :
    check_pairs sc ts = None <->
    forall t1 t2, pair_at ts t1 t2 -> check_pair sc t1 t2 = None.
  Proof.
    rewrite C04_first_pair. split.
    - intros H t1 t2 Hp. apply C04_pairs_of_spec in Hp.
      destruct (find offending (pairs_of ts)) as [p|] eqn:Hf.
      + apply find_some in Hf. destruct Hf as [_ Hoff]. unfold offending in Hoff.
        rewrite H in Hoff. discriminate.
      + pose proof (find_none _ _ Hf _ Hp) as Hoff. unfold offending in Hoff. simpl in Hoff.
        destruct (check_pair sc t1 t2); [discriminate | reflexivity].
    - intros H.
      assert (Hf : find offending (pairs_of ts) = None).
      { apply c04_find_none_iff. intros [t1 t2] Hin. unfold offending. simpl.
        rewrite (H t1 t2); [reflexivity|]. apply C04_pairs_of_spec. exact Hin. }
      rewrite Hf. reflexivity.
  Qed.

  Corollary C04_ok_separated (ts : list itrans) :
    check_pairs sc ts = None <->
    forall t1 t2, pair_at ts t1 t2 ->
      separated t1 t2 /\ stays (lca_of t1 t2) t1 /\ stays (lca_of t1 t2) t2.
  Proof.
    rewrite C04_ok. split; intros H t1 t2 Hp.
    - apply C04_check_pair_none. apply H. exact Hp.
    - apply C04_check_pair_none. apply H. exact Hp.
  Qed.

  Theorem C04_ok_sort (ts : list itrans) (s : mstate ctx X) :
    (forall t1 t2, pair_at ts t1 t2 ->
       separated t1 t2 /\ stays (lca_of t1 t2) t1 /\ stays (lca_of t1 t2) t2) ->
    sort_transitions ctx X sc ts s = (s, inl (sort (trans_order_leb sc) ts)) /\
    Permutation (sort (trans_order_leb sc) ts) ts.
  Proof.
    intros H. split; [|apply c04_sort_perm].
    apply C04_ok_separated in H. unfold sort_transitions.
    destruct ts as [|a [|b ts]]; try reflexivity.
    rewrite H. reflexivity.
  Qed.

  (* ---------------------------------------------------------------- 3. non-determinism *)
  Lemma C04_sort_transitions_error (ts : list itrans) (s : mstate ctx X) (e : err) :
    2 <= length ts -> check_pairs sc ts = Some e ->
    sort_transitions ctx X sc ts s = (s, inr e).
  Proof.
    intros Hlen Hcp. unfold sort_transitions.
    destruct ts as [|a [|b ts]]; simpl in Hlen; try lia.
    rewrite Hcp. reflexivity.
  Qed.

  Theorem C04_nd (ts : list itrans) (s : mstate ctx X) :
    2 <= length ts ->
    (exists t1 t2, pair_at ts t1 t2 /\ ~ separated t1 t2) ->
    (forall t1 t2, pair_at ts t1 t2 ->
       check_pair sc t1 t2 <> Some EConflict /\ check_pair sc t1 t2 <> Some EStatechart) ->
    sort_transitions ctx X sc ts s = (s, inr ENonDeterminism).
  Proof.
    intros Hlen [t1 [t2 [Hp Hns]]] Hno.
    apply C04_sort_transitions_error; [exact Hlen|].
    destruct (check_pairs sc ts) as [e|] eqn:Hcp.
    - apply C04_first_pair_some in Hcp.
      destruct Hcp as [u1 [u2 [_ [Hpu [Hcu Hrange]]]]].
      destruct (Hno u1 u2 Hpu) as [Hnc Hnst].
      destruct Hrange as [He|[He|He]]; subst e; [reflexivity | contradiction | contradiction].
    - exfalso. apply (C04_not_separated_error t1 t2 Hns).
      apply (proj1 (C04_ok ts) Hcp). exact Hp.
  Qed.

  (* ---------------------------------------------------------------- 4. conflict *)
  Theorem C04_conflict (ts : list itrans) (s : mstate ctx X) :
    2 <= length ts ->
    (forall t1 t2, pair_at ts t1 t2 -> separated t1 t2) ->
    (exists t1 t2, pair_at ts t1 t2 /\
       (leaves (lca_of t1 t2) t1 \/ leaves (lca_of t1 t2) t2)) ->
    sort_transitions ctx X sc ts s = (s, inr EConflict).
  Proof.
    intros Hlen Hsep [t1 [t2 [Hp Hleave]]].
    apply C04_sort_transitions_error; [exact Hlen|].
    destruct (check_pairs sc ts) as [e|] eqn:Hcp.
    - apply C04_first_pair_some in Hcp.
      destruct Hcp as [u1 [u2 [_ [Hpu [Hcu _]]]]].
      destruct (C04_separated_cases u1 u2 (Hsep u1 u2 Hpu)) as [Hc|Hc]; congruence.
    - exfalso.
      assert (Hc : check_pair sc t1 t2 = Some EConflict).
      { apply C04_check_pair_conflict. split; [apply Hsep; exact Hp | exact Hleave]. }
      rewrite (proj1 (C04_ok ts) Hcp t1 t2 Hp) in Hc. discriminate.
  Qed.

  (* ---------------------------------------------------------------- 5b. EStatechart *)
  Lemma C04_lca_exists (a b x : name) :
    In x (ancestors_for sc a) -> In x (ancestors_for sc b) ->
    exists l, least_common_ancestor sc a b = Some l /\
              In l (ancestors_for sc a) /\ In l (ancestors_for sc b).
  Proof.
    intros Ha Hb. unfold least_common_ancestor.
    destruct (find (fun s => mem s (ancestors_for sc b)) (ancestors_for sc a)) as [l|] eqn:Hf.
    - apply find_some in Hf. destruct Hf as [Hin Hm]. apply c04_mem_In in Hm. eauto.
    - pose proof (find_none _ _ Hf x Ha) as Hm. simpl in Hm.
      apply c04_mem_In in Hb. congruence.
  Qed.

  (* When check_pairs reports EStatechart, the decisive pair has different sources and either no
     common strict ancestor at all or an LCA that names no state. *)
  Theorem C04_statechart_error_cause (ts : list itrans) :
    check_pairs sc ts = Some EStatechart ->
    exists t1 t2, pair_at ts t1 t2 /\ t_source t1 <> t_source t2 /\
      ((forall x, In x (ancestors_for sc (t_source t1)) -> ~ In x (ancestors_for sc (t_source t2)))
       \/ exists l, lca_of t1 t2 = Some l /\ kind_of sc l = None).
  Proof.
    intros H. apply C04_first_pair_some in H.
    destruct H as [t1 [t2 [_ [Hp [Hc _]]]]]. exists t1, t2. split; [exact Hp|].
    apply C04_check_pair_statechart in Hc. destruct Hc as [Hne [Hnone|Hk]].
    - split; [exact Hne|]. left. intros x Hx1 Hx2.
      destruct (C04_lca_exists _ _ x Hx1 Hx2) as [l [Hl _]]. unfold lca_of in Hnone. congruence.
    - split; [exact Hne|]. right. exact Hk.
  Qed.

  (* In a chart with a root the selected transitions have sources with a common strict ancestor
     (given here as a hypothesis); then EStatechart is impossible unless kind_of fails on an LCA. *)
  Theorem C04_no_statechart_error (ts : list itrans) :
    (forall t1 t2, pair_at ts t1 t2 -> t_source t1 <> t_source t2 ->
       exists x, In x (ancestors_for sc (t_source t1)) /\ In x (ancestors_for sc (t_source t2))) ->
    (forall t1 t2 l, pair_at ts t1 t2 -> lca_of t1 t2 = Some l -> kind_of sc l <> None) ->
    check_pairs sc ts <> Some EStatechart.
  Proof.
    intros Hcommon Hkind H. apply C04_statechart_error_cause in H.
    destruct H as [t1 [t2 [Hp [Hne [Hnone|[l [Hl Hk]]]]]]].
    - destruct (Hcommon t1 t2 Hp Hne) as [x [Hx1 Hx2]]. exact (Hnone x Hx1 Hx2).
    - exact (Hkind t1 t2 l Hp Hl Hk).
  Qed.

  Corollary C04_error_is_nd_or_conflict (ts : list itrans) (e : err) :
    (forall t1 t2, pair_at ts t1 t2 -> t_source t1 <> t_source t2 ->
       exists x, In x (ancestors_for sc (t_source t1)) /\ In x (ancestors_for sc (t_source t2))) ->
    (forall t1 t2 l, pair_at ts t1 t2 -> lca_of t1 t2 = Some l -> kind_of sc l <> None) ->
    check_pairs sc ts = Some e -> e = ENonDeterminism \/ e = EConflict.
  Proof.
    intros Hcommon Hkind H.
    pose proof (C04_no_statechart_error ts Hcommon Hkind) as Hno.
    destruct (C04_first_pair_some ts e H) as [_ [_ [_ [_ [_ [He|[He|He]]]]]]]; auto.
    subst e. contradiction.
  Qed.


  (* ================================================================ 6. nothing happened *)
  (* The listeners never raise the two errors themselves. *)
  Hypothesis Hemit : forall (t : Z) (m : meta) (x x' : X) (e : err),
      emit t m x = (x', Some e) -> e <> ENonDeterminism /\ e <> EConflict.

  Definition noNDC (e : err) : Prop := e <> ENonDeterminism /\ e <> EConflict.

  (* a computation that never fails with NonDeterminismError / ConflictingTransitionsError *)
  Definition safe {A} (m : M ctx X A) : Prop :=
    forall s s' e, m s = (s', inr e) -> noNDC e.

  (* ---- monad plumbing ---- *)
  Lemma bind_inv {A B} (m : M ctx X A) (f : A -> M ctx X B) s s' r :
    bind ctx X m f s = (s', r) ->
    (exists e, m s = (s', inr e) /\ r = inr e) \/
    (exists a s1, m s = (s1, inl a) /\ f a s1 = (s', r)).
  Proof.
    unfold bind. destruct (m s) as [s1 [a|e]]; intros H.
    - right. eauto.
    - left. inversion H; subst. eauto.
  Qed.

  Lemma bind_get {B} (f : istate ctx -> M ctx X B) s :
    bind ctx X (get ctx X) f s = f (m_i s) s.
  Proof. reflexivity. Qed.
  Lemma bind_put {B} (i : istate ctx) (f : unit -> M ctx X B) s :
    bind ctx X (put ctx X i) f s = f tt (mkM i (m_x s) (m_tr s)).
  Proof. reflexivity. Qed.
  Lemma bind_modify {B} (g : istate ctx -> istate ctx) (f : unit -> M ctx X B) s :
    bind ctx X (modify ctx X g) f s = f tt (mkM (g (m_i s)) (m_x s) (m_tr s)).
  Proof. reflexivity. Qed.
  Lemma bind_observe {B} (o : obs ctx) (f : unit -> M ctx X B) s :
    bind ctx X (observe ctx X o) f s = f tt (mkM (m_i s) (m_x s) (o :: m_tr s)).
  Proof. reflexivity. Qed.
  Lemma bind_ret {A B} (a : A) (f : A -> M ctx X B) s :
    bind ctx X (ret ctx X a) f s = f a s.
  Proof. reflexivity. Qed.

  Lemma safe_ret {A} (a : A) : safe (ret ctx X a).
  Proof. intros s s' e H. discriminate. Qed.
  Lemma safe_fail {A} (e : err) : noNDC e -> safe (@fail ctx X A e).
  Proof. intros He s s' e' H. inversion H; subst. exact He. Qed.
  Lemma safe_get : safe (get ctx X).
  Proof. intros s s' e H. discriminate. Qed.
  Lemma safe_put i : safe (put ctx X i).
  Proof. intros s s' e H. discriminate. Qed.
  Lemma safe_modify g : safe (modify ctx X g).
  Proof. intros s s' e H. discriminate. Qed.
  Lemma safe_observe o : safe (observe ctx X o).
  Proof. intros s s' e H. discriminate. Qed.
  Lemma safe_bind {A B} (m : M ctx X A) (f : A -> M ctx X B) :
    safe m -> (forall a, safe (f a)) -> safe (bind ctx X m f).
  Proof.
    intros Hm Hf s s' e H. apply bind_inv in H.
    destruct H as [[e' [H1 H2]]|[a [s1 [H1 H2]]]].
    - inversion H2; subst. eapply Hm. exact H1.
    - eapply Hf. exact H2.
  Qed.
  Lemma safe_mapM {A B} (f : A -> M ctx X B) (l : list A) :
    (forall a, safe (f a)) -> safe (mapM ctx X f l).
  Proof.
    intros Hf. induction l as [|x l IH]; simpl.
    - apply safe_ret.
    - apply safe_bind; [apply Hf|]. intros y. apply safe_bind; [exact IH|]. intros ys. apply safe_ret.
  Qed.
  Lemma safe_iterM {A} (f : A -> M ctx X unit) (l : list A) :
    (forall a, safe (f a)) -> safe (iterM ctx X f l).
  Proof.
    intros Hf. induction l as [|x l IH]; simpl.
    - apply safe_ret.
    - apply safe_bind; [apply Hf|]. intros _. exact IH.
  Qed.

  Lemma safe_raise_meta (m : meta) : safe (raise_meta ctx X emit m).
  Proof.
    intros s s' e H. unfold raise_meta in H.
    destruct (emit (i_time (m_i s)) m (m_x s)) as [x' [e'|]] eqn:He.
    - inversion H; subst. eapply Hemit. exact He.
    - discriminate.
  Qed.

  Ltac safe_tac :=
    repeat match goal with
      | |- safe (ret _ _ _) => apply safe_ret
      | |- safe (get _ _) => apply safe_get
      | |- safe (put _ _ _) => apply safe_put
      | |- safe (modify _ _ _) => apply safe_modify
      | |- safe (observe _ _ _) => apply safe_observe
      | |- safe (raise_meta _ _ _ _) => apply safe_raise_meta
      | |- safe (fail _ _ _) => apply safe_fail; split; discriminate
      | |- safe (bind _ _ _ _) => apply safe_bind; [| intros ?; cbv beta zeta]
      | |- safe (mapM _ _ _ _) => apply safe_mapM; intros ?; cbv beta zeta
      | |- safe (iterM _ _ _ _) => apply safe_iterM; intros ?; cbv beta zeta
      | |- safe (match ?x with _ => _ end) => destruct x eqn:?
      | |- safe (if ?x then _ else _) => destruct x eqn:?
      | |- safe (let _ := _ in _) => cbv zeta
      end.

  (* ---- which errors the evaluator-facing functions can produce ---- *)
  Lemma C04_eval_cond_errors k o idx cd ev s s' e :
    eval_cond ctx X eval_code sc k o idx cd ev s = (s', inr e) -> e = ECode k o idx.
  Proof.
    unfold eval_cond. rewrite bind_get.
    destruct (eval_code _ (i_ctx (m_i s))) as [b|]; rewrite bind_observe; unfold ret, fail;
      intros H; inversion H; reflexivity.
  Qed.

  Lemma C04_run_code_errors k o cd ev s s' e :
    run_code ctx X exec_code sc k o cd ev s = (s', inr e) -> e = ECode k o 0.
  Proof.
    unfold run_code. rewrite bind_get. destruct cd as [c|].
    - destruct (exec_code _ (i_ctx (m_i s))) as [[c' sent]|]; rewrite bind_observe.
      + rewrite bind_put. unfold ret. intros H. discriminate.
      + unfold fail. intros H. inversion H. reflexivity.
    - rewrite bind_observe. unfold ret. intros H. discriminate.
  Qed.

  Lemma C04_eval_conds_errors k o cds ev : forall idx s s' e,
    eval_conds ctx X eval_code sc k o idx cds ev s = (s', inr e) ->
    exists i, e = EContract k o i \/ e = ECode k o i.
  Proof.
    induction cds as [|cd rest IH]; intros idx s s' e H; simpl in H.
    - discriminate.
    - apply bind_inv in H. destruct H as [[e' [H1 H2]]|[b [s1 [H1 H2]]]].
      + inversion H2; subst. apply C04_eval_cond_errors in H1. eauto.
      + destruct b.
        * eapply IH. exact H2.
        * unfold fail in H2. inversion H2. eauto.
  Qed.

  Lemma C04_contract_errors k o pre post inv ev s s' e :
    contract ctx X eval_code sc k o pre post inv ev s = (s', inr e) ->
    exists k' i, e = EContract k' o i \/ e = ECode k' o i.
  Proof.
    unfold contract. rewrite bind_get.
    destruct (i_ignore_contract (m_i s)); [intros H; discriminate|].
    destruct k; try (intros H; discriminate).
    - intros H. apply bind_inv in H. destruct H as [[e' [H1 H2]]|[u [s1 [H1 H2]]]].
      + destruct inv; destruct post; discriminate.
      + apply C04_eval_conds_errors in H2. destruct H2 as [i Hi]. eauto.
    - intros H. apply C04_eval_conds_errors in H. destruct H as [i Hi]. eauto.
    - intros H. apply C04_eval_conds_errors in H. destruct H as [i Hi]. eauto.
  Qed.

  Lemma safe_eval_cond k o idx cd ev : safe (eval_cond ctx X eval_code sc k o idx cd ev).
  Proof. intros s s' e H. apply C04_eval_cond_errors in H. subst. split; discriminate. Qed.
  Lemma safe_run_code k o cd ev : safe (run_code ctx X exec_code sc k o cd ev).
  Proof. intros s s' e H. apply C04_run_code_errors in H. subst. split; discriminate. Qed.
  Lemma safe_contract k o pre post inv ev : safe (contract ctx X eval_code sc k o pre post inv ev).
  Proof.
    intros s s' e H. apply C04_contract_errors in H. destruct H as [k' [i [H|H]]]; subst;
      split; discriminate.
  Qed.
  Lemma safe_state_contract k st ev : safe (state_contract ctx X eval_code sc k st ev).
  Proof. apply safe_contract. Qed.
  Lemma safe_trans_contract k it ev : safe (trans_contract ctx X eval_code sc k it ev).
  Proof. apply safe_contract. Qed.

  Lemma safe_raise_event e : safe (raise_event ctx X emit e).
  Proof. unfold raise_event. safe_tac. Qed.

  Lemma safe_record_history active st : safe (record_history ctx X sc active st).
  Proof. unfold record_history. safe_tac. Qed.

  Lemma safe_exit_state active ev st :
    safe (exit_state ctx X exec_code eval_code emit sc active ev st).
  Proof.
    unfold exit_state.
    repeat first [ apply safe_run_code | apply safe_record_history | apply safe_state_contract
                 | progress safe_tac ].
  Qed.

  Lemma safe_enter_state ev st :
    safe (enter_state ctx X exec_code eval_code emit sc ev st).
  Proof.
    unfold enter_state.
    repeat first [ apply safe_run_code | apply safe_state_contract | progress safe_tac ].
  Qed.

  Lemma safe_process_transition ev i :
    safe (process_transition ctx X exec_code eval_code emit sc ev i).
  Proof.
    unfold process_transition.
    repeat first [ apply safe_run_code | apply safe_trans_contract | progress safe_tac ].
  Qed.

  Lemma safe_apply_step step :
    safe (apply_step ctx X exec_code eval_code emit sc step).
  Proof.
    unfold apply_step.
    repeat first [ apply safe_exit_state | apply safe_enter_state | apply safe_process_transition
                 | apply safe_raise_event | progress safe_tac ].
  Qed.

  Lemma first_some_range {A B} (f : A -> option B) (P : B -> Prop) (l : list A) (y : B) :
    (forall a b, f a = Some b -> P b) -> first_some f l = Some y -> P y.
  Proof.
    intros Hf. induction l as [|x l IH]; simpl; [discriminate|].
    destruct (f x) as [b|] eqn:Hfx.
    - intros H. inversion H; subst. eapply Hf. exact Hfx.
    - exact IH.
  Qed.

  Ltac fin :=
    let H := fresh "H" in let e' := fresh "e'" in let He' := fresh "He'" in
    intros H; try discriminate H; injection H as H; subst; intros e' He';
    try discriminate He'; injection He' as He'; subst; reflexivity.

  (* _create_stabilization_step only fails with StatechartError *)
  Lemma C04_stabilization_step_errors (i : istate ctx) (e : err) :
    create_stabilization_step ctx sc i = Some (inr e) -> e = EStatechart.
  Proof.
    unfold create_stabilization_step.
    set (P := fun r : microstep + err => forall e', r = inr e' -> e' = EStatechart).
    assert (Hleaf : forall a b, stab_for_leaf sc (i_memory i) a = Some b -> P b).
    { intros a b. unfold stab_for_leaf, P.
      destruct (state_for sc a) as [st|]; [|fin].
      destruct (s_kind st).
      - fin.
      - destruct (truthy (s_initial st)); fin.
      - destruct (children_for sc a); fin.
      - destruct (ostr_eqb (parent_for sc a) (root sc)); [|fin].
        destruct (root sc); fin.
      - destruct (lookup a (i_memory i)); [fin|].
        destruct (s_memory st); fin.
      - destruct (lookup a (i_memory i)); [fin|].
        destruct (s_memory st); fin. }
    assert (Horth : forall a b, stab_for_orthogonal sc (i_config i) a = Some b -> P b).
    { intros a b. unfold stab_for_orthogonal, P.
      destruct (state_for sc a) as [st|]; [|fin].
      destruct (s_kind st); try fin.
      destruct (filter _ (children_for sc a)); fin. }
    destruct (first_some (stab_for_leaf sc (i_memory i)) _) as [r|] eqn:Hfs.
    - intros H. inversion H; subst. eapply (first_some_range _ P _ _ Hleaf Hfs). reflexivity.
    - intros H. eapply (first_some_range _ P _ _ Horth H). reflexivity.
  Qed.

  Lemma safe_stabilize fuel : safe (stabilize ctx X exec_code eval_code emit sc fuel).
  Proof.
    induction fuel as [|f IH]; simpl.
    - apply safe_fail. split; discriminate.
    - apply safe_bind; [apply safe_get|]. intros i.
      destruct (create_stabilization_step ctx sc i) as [[step|e]|] eqn:Hc.
      + apply safe_bind; [apply safe_apply_step|]. intros a.
        apply safe_bind; [exact IH|]. intros r. apply safe_ret.
      + apply C04_stabilization_step_errors in Hc. subst. apply safe_fail. split; discriminate.
      + apply safe_ret.
  Qed.

  Lemma safe_run_steps fuel steps : safe (run_steps ctx X exec_code eval_code emit sc fuel steps).
  Proof.
    induction steps as [|st rest IH]; simpl.
    - apply safe_ret.
    - apply safe_bind; [apply safe_apply_step|]. intros a.
      apply safe_bind; [apply safe_stabilize|]. intros ss.
      apply safe_bind; [exact IH|]. intros r. apply safe_ret.
  Qed.

  Lemma safe_consume_event : safe (consume_event ctx X).
  Proof. unfold consume_event. safe_tac. Qed.

  Lemma safe_check_invariants ev : safe (check_invariants ctx X eval_code sc ev).
  Proof.
    unfold check_invariants.
    repeat first [ apply safe_state_contract | progress safe_tac ].
  Qed.

  (* everything execute_once does after _compute_steps *)
  Definition after_compute (fuel : nat) (steps : list microstep) : M ctx X (option macrostep) :=
    bind ctx X
      (match steps with
       | [] => ret ctx X None
       | first :: _ =>
           bind ctx X
             (match ms_event first with
              | Some _ =>
                  bind ctx X (consume_event ctx X)
                    (fun e => match e with
                              | Some ev => raise_meta ctx X emit (MConsumed ev)
                              | None => fail ctx X EStatechart
                              end)
              | None => ret ctx X tt
              end)
             (fun _ =>
                bind ctx X (run_steps ctx X exec_code eval_code emit sc fuel steps)
                  (fun executed =>
                     bind ctx X (get ctx X) (fun s => ret ctx X (Some (i_time s, executed)))))
       end)
      (fun macro =>
         bind ctx X
           (check_invariants ctx X eval_code sc
              (match macro with Some (_, ex) => macro_event ex | None => None end))
           (fun _ => bind ctx X (raise_meta ctx X emit MStepEnded) (fun _ => ret ctx X macro))).

  Lemma execute_once_unfold fuel now :
    execute_once ctx X exec_code eval_code emit sc fuel now =
    bind ctx X (modify ctx X (fun s => set_sent ctx [] (set_time ctx now s)))
      (fun _ => bind ctx X (raise_meta ctx X emit (MStepStarted now))
         (fun _ => bind ctx X (compute_steps ctx X eval_code sc) (after_compute fuel))).
  Proof. reflexivity. Qed.

  Lemma safe_after_compute fuel steps : safe (after_compute fuel steps).
  Proof.
    unfold after_compute.
    repeat first [ apply safe_consume_event | apply safe_run_steps | apply safe_check_invariants
                 | progress safe_tac ].
  Qed.

  (* ---- frame of _select_transitions: only guards are evaluated, nothing else changes ---- *)
  Definition guard_ev (o : obs ctx) : Prop :=
    match o with ObEval c _ => cl_kind c = CGuard | _ => False end.

  Definition gframe {A} (m : M ctx X A) : Prop :=
    forall s s' r, m s = (s', r) ->
      m_i s' = m_i s /\ m_x s' = m_x s /\
      (exists new, m_tr s' = new ++ m_tr s /\ Forall guard_ev new) /\
      (forall e, r = inr e -> exists i idx, e = ECode CGuard (OTrans i) idx).

  Lemma gframe_ret {A} (a : A) : gframe (ret ctx X a).
  Proof.
    intros s s' r H. inversion H; subst. repeat split; auto.
    - exists []. split; [reflexivity | constructor].
    - intros e He. discriminate.
  Qed.

  Lemma gframe_bind {A B} (m : M ctx X A) (f : A -> M ctx X B) :
    gframe m -> (forall a, gframe (f a)) -> gframe (bind ctx X m f).
  Proof.
    intros Hm Hf s s' r H. apply bind_inv in H.
    destruct H as [[e' [H1 H2]]|[a [s1 [H1 H2]]]].
    - subst r. destruct (Hm _ _ _ H1) as [Hi1 [Hx1 [Hn1 He1]]].
      split; [exact Hi1|]. split; [exact Hx1|]. split; [exact Hn1|].
      intros e He. inversion He; subst e. apply He1. reflexivity.
    - destruct (Hm _ _ _ H1) as [Hi1 [Hx1 [[n1 [Ht1 Hg1]] _]]].
      destruct (Hf a _ _ _ H2) as [Hi2 [Hx2 [[n2 [Ht2 Hg2]] He2]]].
      split; [congruence|]. split; [congruence|]. split; [|exact He2].
      exists (n2 ++ n1). split.
      + rewrite Ht2, Ht1. apply app_assoc.
      + apply Forall_app. split; assumption.
  Qed.

  Lemma gframe_eval_guard i g ev :
    gframe (eval_cond ctx X eval_code sc CGuard (OTrans i) 0 g ev).
  Proof.
    intros s s' r. unfold eval_cond. rewrite bind_get.
    destruct (eval_code _ (i_ctx (m_i s))) as [b|]; rewrite bind_observe; unfold ret, fail;
      intros H; inversion H; subst; simpl; (repeat split; auto).
    - eexists [_]. split; [reflexivity|]. constructor; [reflexivity | constructor].
    - intros e He. discriminate.
    - eexists [_]. split; [reflexivity|]. constructor; [reflexivity | constructor].
    - intros e He. inversion He. eauto.
  Qed.

  Ltac gframe_tac :=
    repeat first
      [ apply gframe_ret | apply gframe_eval_guard
      | apply gframe_bind; [| intros ?; cbv beta zeta]
      | match goal with
        | |- gframe (match ?x with _ => _ end) => destruct x eqn:?
        | |- gframe (if ?x then _ else _) => destruct x eqn:?
        | H : _ |- _ => solve [apply H]
        end ].

  Lemma gframe_eval_guards ev ts : gframe (eval_guards ctx X eval_code sc ev ts).
  Proof. induction ts as [|it rest IH]; simpl; gframe_tac. Qed.

  Lemma gframe_sel_priorities ev groups : gframe (sel_priorities ctx X eval_code sc ev groups).
  Proof.
    induction groups as [|[p ts] rest IH]; simpl; [apply gframe_ret|].
    apply gframe_bind; [apply gframe_eval_guards|]. intros r. destruct r; gframe_tac.
  Qed.

  Lemma gframe_sel_sources ev groups : forall selected ignored,
    gframe (sel_sources ctx X eval_code sc ev groups selected ignored).
  Proof.
    induction groups as [|[src ts] rest IH]; intros selected ignored; simpl; [apply gframe_ret|].
    destruct (mem src ignored); [apply IH|].
    apply gframe_bind; [apply gframe_sel_priorities|]. intros r. destruct r; apply IH.
  Qed.

  Lemma gframe_sel_depths ev groups : forall selected ignored,
    gframe (sel_depths ctx X eval_code sc ev groups selected ignored).
  Proof.
    induction groups as [|[d ts] rest IH]; intros selected ignored; simpl; [apply gframe_ret|].
    apply gframe_bind; [apply gframe_sel_sources|]. intros r. apply IH.
  Qed.

  Lemma gframe_sel_eventness ev groups : forall selected,
    gframe (sel_eventness ctx X eval_code sc ev groups selected).
  Proof.
    induction groups as [|[h ts] rest IH]; intros selected; simpl; [apply gframe_ret|].
    destruct selected; [|apply gframe_ret].
    apply gframe_bind; [apply gframe_sel_depths|]. intros r. apply IH.
  Qed.

  (* _select_transitions: interpreter state and listener state untouched, the trace only grows
     by guard evaluations, and the only possible failure is a CodeEvaluationError of a guard *)
  Theorem C04_select_transitions_frame ev states :
    gframe (select_transitions ctx X eval_code sc ev states).
  Proof. unfold select_transitions. apply gframe_sel_eventness. Qed.

  (* ---- origin of the two errors ---- *)
  (* the state of the model right after "step started" has been announced *)
  Definition started (now : Z) (s : mstate ctx X) : mstate ctx X :=
    mkM (set_sent ctx [] (set_time ctx now (m_i s)))
        (fst (emit now (MStepStarted now) (m_x s)))
        (ObMeta (MStepStarted now) :: m_tr s).

  Theorem C04_origin (fuel : nat) (now : Z) (s s' : mstate ctx X) (e : err) :
    execute_once ctx X exec_code eval_code emit sc fuel now s = (s', inr e) ->
    e = ENonDeterminism \/ e = EConflict ->
    i_initialized (m_i s) = true /\
    snd (emit now (MStepStarted now) (m_x s)) = None /\
    exists s2 ts,
      select_transitions ctx X eval_code sc
        (select_event (m_i (started now s))) (i_config (m_i s)) (started now s) = (s2, inl ts) /\
      2 <= length ts /\
      check_pairs sc ts = Some e /\
      sort_transitions ctx X sc ts (mkM (m_i s2) (m_x s2) (ObSelected (map fst ts) :: m_tr s2))
        = (s', inr e) /\
      s' = mkM (m_i s2) (m_x s2) (ObSelected (map fst ts) :: m_tr s2).
  Proof.
    intros H He.
    assert (Hbad : ~ noNDC e) by (intros [H1 H2]; destruct He; contradiction).
    rewrite execute_once_unfold, bind_modify in H.
    apply bind_inv in H. destruct H as [[e' [H1 H2]]|[u [s1 [H1 H2]]]].
    { inversion H2; subst e'. exfalso. apply Hbad. eapply safe_raise_meta. exact H1. }
    unfold raise_meta in H1. simpl in H1.
    destruct (emit now (MStepStarted now) (m_x s)) as [x' [e'|]] eqn:Hem; [discriminate|].
    injection H1 as Hs1 _. subst s1.
    apply bind_inv in H2. destruct H2 as [[e' [H1 H2]]|[steps [s3 [H1 H2]]]].
    2:{ exfalso. apply Hbad. eapply safe_after_compute. exact H2. }
    inversion H2; subst e'; clear H2.
    unfold compute_steps in H1. rewrite bind_get in H1. simpl in H1.
    assert (Hst : started now s =
                  mkM (set_sent ctx [] (set_time ctx now (m_i s))) x'
                      (ObMeta (MStepStarted now) :: m_tr s)).
    { unfold started. rewrite Hem. reflexivity. }
    rewrite <- Hst in H1.
    destruct (i_initialized (m_i s)) eqn:Hinit; simpl in H1.
    2:{ rewrite bind_put in H1. destruct (root sc); unfold ret, fail in H1; inversion H1; subst.
        destruct He; discriminate. }
    split; [reflexivity|]. split; [reflexivity|].
    apply bind_inv in H1. destruct H1 as [[e' [H1 H2]]|[ts [s2 [H1 H2]]]].
    { inversion H2; subst e'. apply C04_select_transitions_frame in H1.
      destruct H1 as [_ [_ [_ Herr]]]. destruct (Herr e eq_refl) as [i [idx Hi]].
      subst e. destruct He; discriminate. }
    exists s2, ts. replace (m_i (started now s)) with (set_sent ctx [] (set_time ctx now (m_i s)))
      by reflexivity.
    split; [exact H1|].
    rewrite bind_observe in H2.
    destruct ts as [|a [|b ts]].
    - destruct (select_event _); unfold ret in H2; discriminate.
    - unfold sort_transitions in H2. rewrite bind_ret, bind_get in H2. unfold ret in H2. discriminate.
    - unfold sort_transitions in H2 |- *.
      destruct (check_pairs sc (a :: b :: ts)) as [e0|] eqn:Hcp.
      + unfold bind, fail in H2. inversion H2; subst. simpl. repeat split; auto. lia.
      + rewrite bind_ret, bind_get in H2. unfold ret in H2. discriminate.
  Qed.

  (* ---- 6. the statement ---- *)
  Definition is_meta (o : obs ctx) : bool := match o with ObMeta _ => true | _ => false end.

  Lemma guard_ev_filter_meta (l : list (obs ctx)) : Forall guard_ev l -> filter is_meta l = [].
  Proof.
    induction 1 as [|o l Ho Hl IH]; simpl; [reflexivity|].
    destruct o; simpl in *; try contradiction. exact IH.
  Qed.

  Theorem C04_nothing_happened (fuel : nat) (now : Z) (s s' : mstate ctx X) (e : err) :
    execute_once ctx X exec_code eval_code emit sc fuel now s = (s', inr e) ->
    e = ENonDeterminism \/ e = EConflict ->
    i_initialized (m_i s) = true ->
    (* configuration, context, memory, queues, entry/idle times, __old__: untouched *)
    m_i s' = set_sent ctx [] (set_time ctx now (m_i s)) /\
    (* the listeners only saw "step started" *)
    m_x s' = fst (emit now (MStepStarted now) (m_x s)) /\
    exists new,
      m_tr s' = new ++ m_tr s /\
      (forall c r, ~ In (ObExec c r) new) /\
      (forall c r, In (ObEval c r) new -> cl_kind c = CGuard) /\
      (forall m, In (ObMeta m) new <-> m = MStepStarted now) /\
      filter is_meta new = [ObMeta (MStepStarted now)] /\
      (* exact shape; the error is the verdict of check_pairs on the selected transitions *)
      exists ts evals,
        new = ObSelected (map fst ts) :: evals ++ [ObMeta (MStepStarted now)] /\
        Forall guard_ev evals /\ 2 <= length ts /\ check_pairs sc ts = Some e.
  Proof.
    intros H He _.
    destruct (C04_origin fuel now s s' e H He) as [_ [_ [s2 [ts [Hsel [Hlen [Hcp [_ Hs']]]]]]]].
    apply C04_select_transitions_frame in Hsel.
    destruct Hsel as [Hi [Hx [[evals [Htr Hg]] _]]].
    subst s'. simpl. split; [exact Hi|]. split; [exact Hx|].
    exists (ObSelected (map fst ts) :: evals ++ [ObMeta (MStepStarted now)]).
    assert (Hin : forall o, In o (ObSelected (map fst ts) :: evals ++ [ObMeta (MStepStarted now)]) ->
                  o = ObSelected (map fst ts) \/ guard_ev o \/ o = ObMeta (MStepStarted now)).
    { intros o [Ho|Ho]; [left; symmetry; exact Ho|]. apply in_app_iff in Ho. destruct Ho as [Ho|Ho].
      - right. left. rewrite Forall_forall in Hg. apply Hg. exact Ho.
      - right. right. destruct Ho as [Ho|[]]. symmetry. exact Ho. }
    split; [|split; [|split; [|split; [|split]]]].
    - rewrite Htr. simpl. rewrite <- app_assoc. reflexivity.
    - intros c r Hc. destruct (Hin _ Hc) as [Ho|[Ho|Ho]]; try discriminate. exact Ho.
    - intros c r Hc. destruct (Hin _ Hc) as [Ho|[Ho|Ho]]; try discriminate. exact Ho.
    - intros m. split.
      + intros Hc. destruct (Hin _ Hc) as [Ho|[Ho|Ho]]; try discriminate.
        * contradiction.
        * inversion Ho. reflexivity.
      + intros Hm. subst m. right. apply in_app_iff. right. left. reflexivity.
    - simpl. rewrite filter_app. rewrite (guard_ev_filter_meta _ Hg). reflexivity.
    - exists ts, evals. repeat split; auto.
  Qed.

  (* an interpreter that is not initialised never raises the two errors *)
  Corollary C04_uninitialized_no_error (fuel : nat) (now : Z) (s s' : mstate ctx X) (e : err) :
    i_initialized (m_i s) = false ->
    execute_once ctx X exec_code eval_code emit sc fuel now s = (s', inr e) ->
    e <> ENonDeterminism /\ e <> EConflict.
  Proof.
    intros Hinit H. split; intros He; subst e.
    - destruct (C04_origin fuel now s s' _ H (or_introl eq_refl)) as [Hi _]. congruence.
    - destruct (C04_origin fuel now s s' _ H (or_intror eq_refl)) as [Hi _]. congruence.
  Qed.

End C04.

(* ================================================================== 7. non-vacuity *)
Module C04Examples.

  Definition st (n : name) (k : kind) : name * state :=
    (n, mkState n k None None None None [] [] []).
  Definition tr (src : name) (tgt : option name) : transition :=
    mkTrans src tgt None None None 0 [] [] [].

  (* root (orthogonal) with two compound regions A = {a1, a2} and B = {b1, b2} *)
  Definition ex_chart (trs : list transition) : chart :=
    mkChart "ex" None None
      [st "root" KOrthogonal; st "A" KCompound; st "B" KCompound;
       st "a1" KBasic; st "a2" KBasic; st "b1" KBasic; st "b2" KBasic]
      [("root", None); ("A", Some "root"); ("B", Some "root");
       ("a1", Some "A"); ("a2", Some "A"); ("b1", Some "B"); ("b2", Some "B")]
      [(None, ["root"]); (Some "root", ["A"; "B"]); (Some "A", ["a1"; "a2"]);
       (Some "B", ["b1"; "b2"]); (Some "a1", []); (Some "a2", []); (Some "b1", []); (Some "b2", [])]
      trs.

  Definition t_a12 := tr "a1" (Some "a2").     (* stays inside region A *)
  Definition t_b12 := tr "b1" (Some "b2").     (* stays inside region B *)
  Definition t_a11 := tr "a1" (Some "a1").     (* a second transition of a1 *)
  Definition t_b1a2 := tr "b1" (Some "a2").    (* leaves region B *)
  Definition t_bint := tr "b1" None.           (* internal transition of b1 *)
  Definition t_AB := tr "A" (Some "B").        (* source A: the LCA with a1 is root, with b1 too *)

  Definition sc0 := ex_chart [].

  Example ex_ok : check_pairs sc0 [(0, t_a12); (1, t_b12)] = None.
  Proof. vm_compute. reflexivity. Qed.

  Example ex_ok_internal : check_pairs sc0 [(0, t_a12); (1, t_bint)] = None.
  Proof. vm_compute. reflexivity. Qed.

  Example ex_nd : check_pairs sc0 [(0, t_a12); (1, t_a11)] = Some ENonDeterminism.
  Proof. vm_compute. reflexivity. Qed.

  Example ex_conflict : check_pairs sc0 [(0, t_a12); (1, t_b1a2)] = Some EConflict.
  Proof. vm_compute. reflexivity. Qed.

  (* the first offending pair in combinations order decides: (t_a12, t_b1a2) comes before
     (t_a12, t_a11) in the first list, after it in the second *)
  Example ex_first_pair_1 :
    check_pairs sc0 [(0, t_a12); (1, t_b1a2); (2, t_a11)] = Some EConflict.
  Proof. vm_compute. reflexivity. Qed.
  Example ex_first_pair_2 :
    check_pairs sc0 [(0, t_a12); (2, t_a11); (1, t_b1a2)] = Some ENonDeterminism.
  Proof. vm_compute. reflexivity. Qed.

  (* an unknown source: StatechartError *)
  Example ex_statechart : check_pairs sc0 [(0, t_a12); (1, tr "zz" None)] = Some EStatechart.
  Proof. vm_compute. reflexivity. Qed.

  (* the declarative vocabulary on the example *)
  Example ex_separated : separated sc0 t_a12 t_b12.
  Proof. split; [discriminate|]. exists "root". split; vm_compute; reflexivity. Qed.
  Example ex_stays : stays sc0 (lca_of sc0 t_a12 t_b12) t_a12 /\ stays sc0 (lca_of sc0 t_a12 t_b12) t_b12.
  Proof. split; vm_compute; reflexivity. Qed.
  Example ex_leaves : leaves sc0 (lca_of sc0 t_a12 t_b1a2) t_b1a2.
  Proof. vm_compute. reflexivity. Qed.
  Example ex_not_separated : ~ separated sc0 t_a12 t_a11.
  Proof. apply C04_separated_irrefl. reflexivity. Qed.

  Lemma pair_at_two (a b : itrans) (t1 t2 : transition) :
    pair_at [a; b] t1 t2 <-> t1 = snd a /\ t2 = snd b.
  Proof.
    split.
    - intros [i [j [x [y [Hlt [Hi [Hj [Hx Hy]]]]]]]].
      destruct j as [|[|j]]; simpl in Hj.
      + lia.
      + destruct i as [|i]; [|lia]. simpl in Hi. inversion Hi; inversion Hj; subst. auto.
      + destruct j; discriminate.
    - intros [H1 H2]. exists 0, 1, a, b. simpl. repeat split; auto.
  Qed.

  (* the hypotheses of C04_ok_sort, C04_nd and C04_conflict are satisfiable *)
  Example ex_ok_sort_applies (X : Type) (s : mstate unit X) :
    sort_transitions unit X sc0 [(0, t_a12); (1, t_b12)] s
    = (s, inl (sort (trans_order_leb sc0) [(0, t_a12); (1, t_b12)])).
  Proof.
    apply C04_ok_sort. intros t1 t2 Hp. apply pair_at_two in Hp. destruct Hp as [H1 H2]. subst.
    split; [exact ex_separated | exact ex_stays].
  Qed.

  Example ex_nd_applies (X : Type) (s : mstate unit X) :
    sort_transitions unit X sc0 [(0, t_a12); (1, t_a11)] s = (s, inr ENonDeterminism).
  Proof.
    apply C04_nd.
    - simpl. lia.
    - exists t_a12, t_a11. split; [apply pair_at_two; auto | exact ex_not_separated].
    - intros t1 t2 Hp. apply pair_at_two in Hp. destruct Hp as [H1 H2]. subst.
      split; vm_compute; discriminate.
  Qed.

  Example ex_conflict_applies (X : Type) (s : mstate unit X) :
    sort_transitions unit X sc0 [(0, t_a12); (1, t_b1a2)] s = (s, inr EConflict).
  Proof.
    apply C04_conflict.
    - simpl. lia.
    - intros t1 t2 Hp. apply pair_at_two in Hp. destruct Hp as [H1 H2]. subst.
      split; [discriminate|]. exists "root". split; vm_compute; reflexivity.
    - exists t_a12, t_b1a2. split; [apply pair_at_two; auto|]. right. exact ex_leaves.
  Qed.

  (* end to end: execute_once on an initialised interpreter whose configuration is
     {root, A, B, a1, b1}; code, guards and listeners are trivial *)
  Definition exec0 (c : call unit) (x : unit) : option (unit * list event) := Some (x, []).
  Definition eval0 (c : call unit) (x : unit) : option bool := Some true.
  Definition emit0 (t : Z) (m : meta) (x : unit) : unit * option err := (x, None).
  Definition i0 : istate unit :=
    mkIState 0 true 0 [] ["root"; "A"; "B"; "a1"; "b1"] [("root", 0%Z)] [("root", 0%Z)]
             [mkEvent Internal "old" []] [] [(0%Z, mkEvent External "e" [])] false tt [].
  Definition s0 : mstate unit unit := mkM i0 tt [].

  Lemma emit0_ok : forall (t : Z) (m : meta) (x x' : unit) (e : err),
      emit0 t m x = (x', Some e) -> e <> ENonDeterminism /\ e <> EConflict.
  Proof. intros t m x x' e H. discriminate. Qed.

  Example ex_execute_nd :
    let r := execute_once unit unit exec0 eval0 emit0 (ex_chart [t_a12; t_a11]) 10 5 s0 in
    snd r = inr ENonDeterminism /\
    m_i (fst r) = set_sent unit [] (set_time unit 5 i0) /\
    m_tr (fst r) = [ObSelected [0; 1]; ObMeta (MStepStarted 5)].
  Proof. vm_compute. repeat split. Qed.

  Example ex_execute_conflict :
    let r := execute_once unit unit exec0 eval0 emit0 (ex_chart [t_a12; t_b1a2]) 10 5 s0 in
    snd r = inr EConflict /\
    m_i (fst r) = set_sent unit [] (set_time unit 5 i0) /\
    m_tr (fst r) = [ObSelected [0; 1]; ObMeta (MStepStarted 5)].
  Proof. vm_compute. repeat split. Qed.

  (* C04_nothing_happened instantiated on the example *)
  Example ex_nothing_happened :
    forall s', execute_once unit unit exec0 eval0 emit0 (ex_chart [t_a12; t_a11]) 10 5 s0
               = (s', inr ENonDeterminism) ->
    m_i s' = set_sent unit [] (set_time unit 5 i0).
  Proof.
    intros s' H.
    apply (C04_nothing_happened unit unit exec0 eval0 emit0 (ex_chart [t_a12; t_a11]) emit0_ok
             10 5 s0 s' ENonDeterminism H (or_introl eq_refl) eq_refl).
  Qed.

  (* and without offending pair the step is executed *)
  Example ex_execute_ok :
    exists s' ms,
      execute_once unit unit exec0 eval0 emit0 (ex_chart [t_a12; t_b12]) 10 5 s0 = (s', inl (Some ms)) /\
      sort_names (i_config (m_i s')) = ["A"; "B"; "a2"; "b2"; "root"].
  Proof. eexists. eexists. vm_compute. split; reflexivity. Qed.

End C04Examples.

Print Assumptions C04_check_pair.
Print Assumptions C04_ok.
Print Assumptions C04_ok_sort.
Print Assumptions C04_nd.
Print Assumptions C04_conflict.
Print Assumptions C04_first_pair.
Print Assumptions C04_first_pair_some.
Print Assumptions C04_statechart_error_cause.
Print Assumptions C04_no_statechart_error.
Print Assumptions C04_error_is_nd_or_conflict.
Print Assumptions C04_select_transitions_frame.
Print Assumptions C04_origin.
Print Assumptions C04_nothing_happened.
Print Assumptions C04_uninitialized_no_error.
Print Assumptions C04_eval_cond_errors.
Print Assumptions C04_run_code_errors.
Print Assumptions C04_contract_errors.
Print Assumptions C04_stabilization_step_errors.
Print Assumptions C04Examples.ex_execute_nd.
Print Assumptions C04Examples.ex_nothing_happened.
