(* C05Proofs.v -- property C05 "Event queues: one event per step, internal first, FIFO, delays
   respected", proved for the interpreter model of theories/Interp.v, for EVERY chart, every code
   semantics (exec_code / eval_code) and every listener behaviour (emit).

   STATUS: all five statements are proved in full; nothing is weakened, nothing is refuted, no
   `_partial` theorem.  Main theorems (all "Closed under the global context"):

     C05_insert            _queue_event: position of the new entry (FIFO), frame, invariant
     C05_which             _select_event: internal head if due, else external head if due; minimality
     C05_consume           consuming = what _select_event returns, removes exactly that head
     C05_step              one execute_once (ANY outcome): invariant kept, at most one pop (the
                           selected event, due <= now, signalled to the listeners exactly then),
                           then inserts of the internal events sent, in order; link with the result
     C05_step_gen          the same without assuming the invariant (structure only)
     C05_conservation      consumed + pending' = pending + sent internal  (Permutation and lengths)
     C05_conservation_run  the same over any sequence of queue()/execute_once() calls
     C05_delay             consumed entry is due; some entry due <-> an event is considered
     C05_delay_progress    (extra) a due entry is never ignored: the step is a non-empty macro step
     compute_steps_considers   "considered" = handed to _select_transitions
     Example.*             non-vacuity by computation

   Remarks on the model (not defects): queue_event files a Meta-kind event in the external queue
   (Python would too: `not isinstance(event, InternalEvent)`); raise_event ignores External events
   (Python raises ValueError; send/notify never build one). *)
From Coq Require Import List ZArith Lia Bool Sorted Permutation.
From Sismic Require Import Base Chart Interp.
From SismicProofs Require Import FrameLib.
Import ListNotations.
Open Scope list_scope.

(* ================================================================== queues as lists *)
Notation entry := (Z * event)%type.
Definition due (te : entry) : Z := fst te.

Definition due_le (a b : entry) : Prop := (due a <= due b)%Z.
Definition q_sorted (q : list entry) : Prop := StronglySorted due_le q.

Lemma q_sorted_Sorted q : q_sorted q <-> Sorted due_le q.
Proof.
  split; [apply StronglySorted_Sorted|apply Sorted_StronglySorted].
  intros a b c. unfold due_le. lia.
Qed.

Lemma ss_app_inv (l1 l2 : list entry) :
  q_sorted (l1 ++ l2) ->
  q_sorted l1 /\ q_sorted l2 /\ Forall (fun a => Forall (due_le a) l2) l1.
Proof.
  unfold q_sorted. induction l1 as [|a l1 IH]; simpl; intros H.
  - repeat split; auto. constructor.
  - inversion H as [|x l Hs Hf]; subst. destruct (IH Hs) as (S1 & S2 & F).
    apply Forall_app in Hf. destruct Hf as [F1 F2].
    repeat split; auto; constructor; auto.
Qed.

Lemma ss_app_intro (l1 l2 : list entry) :
  q_sorted l1 -> q_sorted l2 -> Forall (fun a => Forall (due_le a) l2) l1 -> q_sorted (l1 ++ l2).
Proof.
  unfold q_sorted. induction l1 as [|a l1 IH]; simpl; intros S1 S2 F; auto.
  inversion S1 as [|x l Hs Hf]; subst. inversion F as [|y l' Fa Fl]; subst.
  constructor; [apply IH; auto|]. apply Forall_app. split; auto.
Qed.

(* ---- insert_at / takeWhile ---- *)
Lemma insert_at_app {A} (x : A) (l1 l2 : list A) :
  insert_at (length l1) x (l1 ++ l2) = l1 ++ x :: l2.
Proof. induction l1 as [|a l1 IH]; simpl; [destruct l2; reflexivity|]. f_equal. exact IH. Qed.

Lemma takeWhile_split {A} (p : A -> bool) (l : list A) :
  exists l2, l = takeWhile p l ++ l2 /\ Forall (fun a => p a = true) (takeWhile p l) /\
             match l2 with [] => True | y :: _ => p y = false end.
Proof.
  induction l as [|a l (l2 & E & F & N)]; simpl.
  - exists []. repeat split; auto.
  - destruct (p a) eqn:Pa.
    + exists l2. simpl. repeat split; auto. f_equal. exact E.
    + exists (a :: l). simpl. repeat split; auto.
Qed.

(* ---- the bisect key collapses to the due time when all kinds agree ---- *)
Definition ext_flag (e : event) : bool := negb (ekind_eqb (e_kind e) Internal).

Lemma qkey_leb_same_class (te : entry) t e :
  ext_flag (snd te) = ext_flag e ->
  qkey_leb (qkey te) (qkey (t, e)) = (fst te <=? t)%Z.
Proof.
  unfold qkey_leb, qkey, ext_flag. simpl. intros ->.
  destruct (negb (ekind_eqb (e_kind e) Internal)); simpl;
    rewrite ?andb_true_r; destruct (Z.ltb_spec (fst te) t), (Z.eqb_spec (fst te) t),
      (Z.leb_spec (fst te) t); simpl; auto; lia.
Qed.

(* _queue_event on one queue whose entries all have the class of the new event *)
Lemma queue_insert_spec (q : list entry) t e :
  q_sorted q -> Forall (fun te => ext_flag (snd te) = ext_flag e) q ->
  exists l1 l2,
    q = l1 ++ l2 /\ queue_insert q t e = l1 ++ (t, e) :: l2 /\
    Forall (fun te => (due te <= t)%Z) l1 /\ Forall (fun te => (t < due te)%Z) l2.
Proof.
  intros S K. unfold queue_insert, bisect_right.
  destruct (takeWhile_split (fun te => qkey_leb (qkey te) (qkey (t, e))) q) as (l2 & E & F & N).
  remember (takeWhile (fun te => qkey_leb (qkey te) (qkey (t, e))) q) as l1 eqn:El1.
  clear El1. exists l1, l2. split; [exact E|]. split.
  - rewrite E. apply insert_at_app.
  - rewrite E in K, S. apply Forall_app in K. destruct K as [K1 K2].
    apply ss_app_inv in S. destruct S as (S1 & S2 & S12). split.
    + apply Forall_forall. intros te Hte.
      pose proof (proj1 (Forall_forall _ _) F te Hte) as Hp. cbv beta in Hp.
      rewrite qkey_leb_same_class in Hp; [|exact (proj1 (Forall_forall _ _) K1 te Hte)].
      apply Z.leb_le. exact Hp.
    + destruct l2 as [|y l2]; [constructor|].
      inversion K2 as [|y' l' Ky Kl]; subst.
      rewrite qkey_leb_same_class in N; [|exact Ky]. apply Z.leb_gt in N.
      inversion S2 as [|y' l' Sl Fy]; subst.
      constructor; [exact N|]. eapply Forall_impl; [|exact Fy].
      intros a Ha. cbv beta in Ha. unfold due_le, due in *. lia.
Qed.

Lemma insert_sorted (l1 l2 : list entry) (x : entry) :
  q_sorted (l1 ++ l2) ->
  Forall (fun te => (due te <= due x)%Z) l1 -> Forall (fun te => (due x < due te)%Z) l2 ->
  q_sorted (l1 ++ x :: l2).
Proof.
  intros S F1 F2. apply ss_app_inv in S. destruct S as (S1 & S2 & S12).
  apply ss_app_intro; auto.
  - unfold q_sorted. constructor; [exact S2|]. eapply Forall_impl; [|exact F2].
    intros a Ha. cbv beta in Ha. unfold due_le. lia.
  - apply Forall_forall. intros a Ha. constructor.
    + exact (proj1 (Forall_forall _ _) F1 a Ha).
    + exact (proj1 (Forall_forall _ _) S12 a Ha).
Qed.

Lemma queue_insert_perm (q : list entry) t e : Permutation (queue_insert q t e) ((t, e) :: q).
Proof.
  unfold queue_insert. generalize (bisect_right q (qkey (t, e))). intros n. revert n.
  induction q as [|a q IH]; intros [|n]; simpl; auto.
  eapply perm_trans; [apply perm_skip, IH|]. apply perm_swap.
Qed.

(* ================================================================== the queue invariant *)
Definition Q_inv {ctx} (i : istate ctx) : Prop :=
  q_sorted (i_iq i) /\ q_sorted (i_eq i) /\
  Forall (fun te => e_kind (snd te) = Internal) (i_iq i) /\
  Forall (fun te => e_kind (snd te) <> Internal) (i_eq i).

Lemma ext_flag_internal e : ext_flag e = false <-> e_kind e = Internal.
Proof. unfold ext_flag. destruct (e_kind e); simpl; split; congruence. Qed.

Lemma ext_flag_external e : ext_flag e = true <-> e_kind e <> Internal.
Proof. unfold ext_flag. destruct (e_kind e); simpl; split; congruence. Qed.

(* one queue, one class: insertion keeps it sorted and of that class *)
Lemma queue_insert_inv (P : event -> Prop) (q : list entry) t e :
  (forall a b, P a -> P b -> ext_flag a = ext_flag b) ->
  q_sorted q -> Forall (fun te => P (snd te)) q -> P e ->
  q_sorted (queue_insert q t e) /\ Forall (fun te => P (snd te)) (queue_insert q t e).
Proof.
  intros HP S F Pe.
  destruct (queue_insert_spec q t e S) as (l1 & l2 & E & -> & F1 & F2).
  { eapply Forall_impl; [|exact F]. intros a Pa. apply HP; auto. }
  subst q. split.
  - apply insert_sorted; auto.
  - apply Forall_app in F. destruct F as [Fa Fb]. apply Forall_app. split; auto.
Qed.

Lemma internal_class a b : e_kind a = Internal -> e_kind b = Internal -> ext_flag a = ext_flag b.
Proof. intros Ha Hb. apply ext_flag_internal in Ha, Hb. congruence. Qed.

Lemma external_class a b : e_kind a <> Internal -> e_kind b <> Internal -> ext_flag a = ext_flag b.
Proof. intros Ha Hb. apply ext_flag_external in Ha, Hb. congruence. Qed.

Definition opt_list {A} (o : option A) : list A := match o with Some a => [a] | None => [] end.

Lemma list_neq_cons {A} (a : A) (l : list A) : l <> a :: l.
Proof. intros H. apply (f_equal (@length _)) in H. simpl in H. lia. Qed.

Section C05.
  Variable ctx : Type.
  Variable X : Type.
  Variable exec_code : call ctx -> ctx -> option (ctx * list event).
  Variable eval_code : call ctx -> ctx -> option bool.
  Variable emit : Z -> meta -> X -> X * option err.
  Variable sc : chart.

  Notation ist := (istate ctx).
  Notation mst := (mstate ctx X).
  Local Notation set_iq := (Interp.set_iq ctx).
  Local Notation set_eq := (Interp.set_eq ctx).
  Local Notation set_time := (Interp.set_time ctx).
  Local Notation set_sent := (Interp.set_sent ctx).
  Local Notation consume_event := (Interp.consume_event ctx X).
  Local Notation compute_steps := (Interp.compute_steps ctx X eval_code sc).
  Local Notation select_transitions := (Interp.select_transitions ctx X eval_code sc).
  Local Notation execute_once := (Interp.execute_once ctx X exec_code eval_code emit sc).
  Local Notation execute_once_tail := (FrameLib.execute_once_tail ctx X exec_code eval_code emit sc).
  Local Notation macro_part := (FrameLib.macro_part ctx X exec_code eval_code emit sc).
  Local Notation consume_part := (FrameLib.consume_part ctx X emit).
  Local Notation finish_part := (FrameLib.finish_part ctx X eval_code emit sc).
  Local Notation run_steps := (Interp.run_steps ctx X exec_code eval_code emit sc).
  Local Notation raise_meta := (Interp.raise_meta ctx X emit).
  Local Notation queue := (Interp.queue ctx X).
  Local Notation upd := (FrameLib.upd ctx X).
  Local Notation qins := (FrameLib.qins ctx).
  Local Notation qevol := (FrameLib.qevol ctx).
  Local Notation same_queues := (FrameLib.same_queues ctx).

  (* ================================================================ C05_insert *)
  (* _queue_event: the entry (time + delay, e) goes into the queue of e's class, after every entry
     with due <= it and before every entry with due > it (FIFO among equal due times); no other
     field changes; the invariant is kept. *)
  Theorem C05_insert (i : ist) (e : event) :
    Q_inv i ->
    let t := (i_time i + delay_of e)%Z in
    let q := if is_internal e then i_iq i else i_eq i in
    exists l1 l2,
      q = l1 ++ l2 /\
      Forall (fun te => (due te <= t)%Z) l1 /\
      Forall (fun te => (due te > t)%Z) l2 /\
      queue_event i e = (if is_internal e then set_iq (l1 ++ (t, e) :: l2) i
                         else set_eq (l1 ++ (t, e) :: l2) i) /\
      Q_inv (queue_event i e).
  Proof.
    intros (Si & Se & Ki & Ke) t q. unfold is_internal in *. subst q.
    destruct (e_kind e) eqn:K; simpl.
    - (* External *)
      destruct (queue_insert_spec (i_eq i) t e Se) as (l1 & l2 & E & EI & F1 & F2).
      { eapply Forall_impl; [|exact Ke]. intros a Ha. apply external_class; auto. congruence. }
      exists l1, l2. split; [exact E|]. split; [exact F1|]. split.
      { eapply Forall_impl; [|exact F2]. intros a Ha. cbv beta in Ha. lia. }
      unfold queue_event. rewrite K. fold t. rewrite EI. split; [reflexivity|].
      unfold Q_inv; simpl. rewrite <- EI.
      destruct (queue_insert_inv (fun ev => e_kind ev <> Internal) (i_eq i) t e external_class Se Ke)
        as [A B]; [congruence|]. auto.
    - (* Internal *)
      destruct (queue_insert_spec (i_iq i) t e Si) as (l1 & l2 & E & EI & F1 & F2).
      { eapply Forall_impl; [|exact Ki]. intros a Ha. apply internal_class; auto. }
      exists l1, l2. split; [exact E|]. split; [exact F1|]. split.
      { eapply Forall_impl; [|exact F2]. intros a Ha. cbv beta in Ha. lia. }
      unfold queue_event. rewrite K. fold t. rewrite EI. split; [reflexivity|].
      unfold Q_inv; simpl. rewrite <- EI.
      destruct (queue_insert_inv (fun ev => e_kind ev = Internal) (i_iq i) t e internal_class Si Ki K)
        as [A B]. auto.
    - (* Meta: handled as a non-internal event *)
      destruct (queue_insert_spec (i_eq i) t e Se) as (l1 & l2 & E & EI & F1 & F2).
      { eapply Forall_impl; [|exact Ke]. intros a Ha. apply external_class; auto. congruence. }
      exists l1, l2. split; [exact E|]. split; [exact F1|]. split.
      { eapply Forall_impl; [|exact F2]. intros a Ha. cbv beta in Ha. lia. }
      unfold queue_event. rewrite K. fold t. rewrite EI. split; [reflexivity|].
      unfold Q_inv; simpl. rewrite <- EI.
      destruct (queue_insert_inv (fun ev => e_kind ev <> Internal) (i_eq i) t e external_class Se Ke)
        as [A B]; [congruence|]. auto.
  Qed.

  (* ================================================================ C05_which *)
  Definition head_due (now : Z) (q : list entry) (e : event) : Prop :=
    exists t q', q = (t, e) :: q' /\ (t <= now)%Z.
  Definition no_head_due (now : Z) (q : list entry) : Prop :=
    q = [] \/ exists t e q', q = (t, e) :: q' /\ (t > now)%Z.

  Lemma due_head_Some now q e : due_head now q = Some e <-> head_due now q e.
  Proof.
    unfold due_head, head_due. destruct q as [|[t e'] q'].
    - split; [discriminate|]. intros (t & q' & H & _). discriminate.
    - destruct (Z.leb_spec t now).
      + split.
        * intros H0. inversion H0; subst. exists t, q'. auto.
        * intros (t0 & q0 & H0 & _). inversion H0; subst. reflexivity.
      + split; [discriminate|]. intros (t0 & q0 & H0 & L). inversion H0; subst. lia.
  Qed.

  Lemma due_head_None now q : due_head now q = None <-> no_head_due now q.
  Proof.
    unfold due_head, no_head_due. destruct q as [|[t e'] q'].
    - split; auto.
    - destruct (Z.leb_spec t now).
      + split; [discriminate|]. intros [H0|(t0 & e0 & q0 & H0 & L)]; [discriminate|].
        inversion H0; subst. lia.
      + split; auto. intros _. right. exists t, e', q'. split; auto. lia.
  Qed.

  (* in a sorted queue the head has the minimal due time ... *)
  Lemma head_minimal (te : entry) q :
    q_sorted (te :: q) -> Forall (fun te' => (due te <= due te')%Z) q.
  Proof. intros H. inversion H; subst. assumption. Qed.

  (* ... so some entry is due iff the head is *)
  Lemma due_exists_iff_head now q :
    q_sorted q ->
    (Exists (fun te => (due te <= now)%Z) q <-> exists e, due_head now q = Some e).
  Proof.
    intros S. split.
    - intros H. destruct q as [|[t e] q']; [inversion H|]. exists e. simpl.
      apply head_minimal in S. apply Exists_cons in H. destruct H as [H|H].
      + simpl in H. apply Z.leb_le in H. rewrite H. reflexivity.
      + apply Exists_exists in H. destruct H as (te & Hin & Hd).
        pose proof (proj1 (Forall_forall _ _) S te Hin) as Hm. simpl in Hm.
        assert (L : (t <= now)%Z) by (unfold due in *; lia).
        apply Z.leb_le in L. rewrite L. reflexivity.
    - intros (e & H). apply due_head_Some in H. destruct H as (t & q' & -> & L).
      apply Exists_cons_hd. exact L.
  Qed.

  Lemma no_head_due_all now q :
    q_sorted q -> due_head now q = None -> Forall (fun te => (due te > now)%Z) q.
  Proof.
    intros S H. apply Forall_forall. intros te Hin.
    destruct (Z_le_gt_dec (due te) now) as [L|G]; [|exact G].
    assert (E : Exists (fun te => (due te <= now)%Z) q) by (apply Exists_exists; eauto).
    apply (due_exists_iff_head now q S) in E. destruct E as (e & E). congruence.
  Qed.

  (* _select_event: head of the internal queue if due, else head of the external queue if due.
     (1) exact characterisation;  (2,3) by sortedness "some entry is due" = "the head is due";
     (4) a due internal entry always wins and the selected entry has the minimal due time of its
     queue (ties: it is the head, i.e. by C05_insert the earliest inserted);  (5) an external event
     is selected only when no internal entry at all is due, and then it is the minimum of the
     external queue: nothing is overtaken. *)
  Theorem C05_which (i : ist) :
    Q_inv i ->
    let now := i_time i in
    (forall e, select_event i = Some e <->
               head_due now (i_iq i) e \/ (no_head_due now (i_iq i) /\ head_due now (i_eq i) e)) /\
    (select_event i = None <-> no_head_due now (i_iq i) /\ no_head_due now (i_eq i)) /\
    (select_event i = None <->
       Forall (fun te => (due te > now)%Z) (i_iq i) /\ Forall (fun te => (due te > now)%Z) (i_eq i)) /\
    (Exists (fun te => (due te <= now)%Z) (i_iq i) ->
       exists t e q, i_iq i = (t, e) :: q /\ select_event i = Some e /\ e_kind e = Internal /\
                     (t <= now)%Z /\ Forall (fun te => (t <= due te)%Z) q) /\
    (forall e, select_event i = Some e -> e_kind e <> Internal ->
       Forall (fun te => (due te > now)%Z) (i_iq i) /\
       exists t q, i_eq i = (t, e) :: q /\ (t <= now)%Z /\ Forall (fun te => (t <= due te)%Z) q).
  Proof using.
    clear X exec_code eval_code emit sc.
    intros (Si & Se & Ki & Ke) now. unfold select_event. fold now.
    split; [|split; [|split; [|split]]].
    - intros e. destruct (due_head now (i_iq i)) as [e1|] eqn:D1.
      + split.
        * intros H. inversion H; subst. left. apply due_head_Some, D1.
        * intros [H|[H _]].
          -- apply due_head_Some in H. congruence.
          -- apply due_head_None in H. congruence.
      + rewrite due_head_Some. split.
        * intros H. right. split; [apply due_head_None, D1|exact H].
        * intros [H|[_ H]]; [|exact H]. apply due_head_Some in H. congruence.
    - destruct (due_head now (i_iq i)) as [e1|] eqn:D1.
      + split; [discriminate|]. intros [H _]. apply due_head_None in H. congruence.
      + rewrite due_head_None. split; [intros H; split; [apply due_head_None, D1|exact H]|tauto].
    - destruct (due_head now (i_iq i)) as [e1|] eqn:D1.
      + split; [discriminate|]. intros [H _]. exfalso.
        apply due_head_Some in D1. destruct D1 as (t & q' & E & L). rewrite E in H.
        inversion H; subst. simpl in *. lia.
      + split.
        * intros H. split; apply no_head_due_all; auto.
        * intros [_ H]. destruct (due_head now (i_eq i)) as [e2|] eqn:D2; [|reflexivity]. exfalso.
          apply due_head_Some in D2. destruct D2 as (t & q' & E & L). rewrite E in H.
          inversion H; subst. simpl in *. lia.
    - intros H. apply (due_exists_iff_head now _ Si) in H. destruct H as (e & H).
      rewrite H. apply due_head_Some in H. destruct H as (t & q & E & L).
      exists t, e, q. rewrite E in Si, Ki. split; [exact E|]. split; [reflexivity|].
      split; [inversion Ki; subst; assumption|]. split; [exact L|].
      apply head_minimal in Si. exact Si.
    - intros e H Hk. destruct (due_head now (i_iq i)) as [e1|] eqn:D1.
      + exfalso. inversion H; subst. apply due_head_Some in D1. destruct D1 as (t & q & E & _).
        rewrite E in Ki. inversion Ki; subst. simpl in *. contradiction.
      + split; [apply no_head_due_all; auto|].
        apply due_head_Some in H. destruct H as (t & q & E & L). exists t, q.
        split; [exact E|]. split; [exact L|]. rewrite E in Se. apply head_minimal in Se. exact Se.
  Qed.

  (* ================================================================ C05_consume *)
  (* the queue transformation performed by consuming: the due head of the internal queue, else the
     due head of the external queue, else nothing *)
  Inductive pop (now : Z) (iq eq : list entry) : option entry -> list entry -> list entry -> Prop :=
  | pop_none : pop now iq eq None iq eq
  | pop_int te q : iq = te :: q -> (due te <= now)%Z -> pop now iq eq (Some te) q eq
  | pop_ext te q : eq = te :: q -> (due te <= now)%Z -> due_head now iq = None ->
                   pop now iq eq (Some te) iq q.

  (* _select_event(consume=True): returns what _select_event(consume=False) returns, removes
     exactly that head entry, changes nothing else (in ANY state, no invariant needed) *)
  Theorem C05_consume (s : mst) :
    exists s',
      consume_event s = (s', inl (select_event (m_i s))) /\
      m_x s' = m_x s /\ m_tr s' = m_tr s /\
      match select_event (m_i s) with
      | None => s' = s
      | Some e =>
          (exists t q, i_iq (m_i s) = (t, e) :: q /\ (t <= i_time (m_i s))%Z /\
                       m_i s' = set_iq q (m_i s)) \/
          (exists t q, due_head (i_time (m_i s)) (i_iq (m_i s)) = None /\
                       i_eq (m_i s) = (t, e) :: q /\ (t <= i_time (m_i s))%Z /\
                       m_i s' = set_eq q (m_i s))
      end.
  Proof.
    unfold Interp.consume_event, Interp.bind, Interp.get, select_event, due_head.
    destruct (i_iq (m_i s)) as [|[t e] q] eqn:Ei.
    - destruct (i_eq (m_i s)) as [|[t2 e2] q2] eqn:Ee.
      + exists s. auto.
      + destruct (Z.leb_spec t2 (i_time (m_i s))).
        * eexists. split; [reflexivity|]. simpl. split; [reflexivity|]. split; [reflexivity|].
          right. exists t2, q2. auto.
        * exists s. auto.
    - destruct (Z.leb_spec t (i_time (m_i s))).
      + eexists. split; [reflexivity|]. simpl. split; [reflexivity|]. split; [reflexivity|].
        left. exists t, q. auto.
      + destruct (i_eq (m_i s)) as [|[t2 e2] q2] eqn:Ee.
        * exists s. auto.
        * destruct (Z.leb_spec t2 (i_time (m_i s))).
          -- eexists. split; [reflexivity|]. simpl. split; [reflexivity|]. split; [reflexivity|].
             right. exists t2, q2. auto.
          -- exists s. auto.
  Qed.

  (* the same, as a `pop` *)
  Lemma consume_event_pop s s' r :
    consume_event s = (s', r) ->
    exists c, r = inl (option_map snd c) /\ option_map snd c = select_event (m_i s) /\
              pop (i_time (m_i s)) (i_iq (m_i s)) (i_eq (m_i s)) c (i_iq (m_i s')) (i_eq (m_i s')) /\
              i_time (m_i s') = i_time (m_i s) /\ m_tr s' = m_tr s.
  Proof.
    destruct (C05_consume s) as (s1 & E & _ & Tr & H). rewrite E. intros H0. inversion H0; subst.
    clear H0 E. destruct (select_event (m_i s)) as [e|].
    - destruct H as [(t & q & Ei & L & Hs)|(t & q & D & Ee & L & Hs)]; rewrite Hs.
      + exists (Some (t, e)). simpl. repeat split; auto. eapply pop_int; eauto.
      + exists (Some (t, e)). simpl. repeat split; auto. eapply pop_ext; eauto.
    - subst. exists None. simpl. repeat split; auto. constructor.
  Qed.

  Lemma pop_none_iff now (iq eq : list entry) c iq1 eq1 :
    pop now iq eq c iq1 eq1 -> (c = None <-> iq1 = iq /\ eq1 = eq).
  Proof.
    intros P. destruct P as [|te q Hq L|te q Hq L D].
    - split; auto.
    - split; [discriminate|]. intros [A _]. exfalso.
      rewrite A in Hq. exact (list_neq_cons _ _ Hq).
    - split; [discriminate|]. intros [_ A]. exfalso.
      rewrite A in Hq. exact (list_neq_cons _ _ Hq).
  Qed.

  Lemma pop_select now (i : ist) c iq1 eq1 :
    pop now (i_iq i) (i_eq i) c iq1 eq1 -> c <> None ->
    option_map snd c = select_event (set_time now i).
  Proof.
    intros P Hc. unfold select_event. simpl. destruct P as [|[t e] q Hq L|[t e] q Hq L D].
    - congruence.
    - rewrite Hq. simpl in *. apply Z.leb_le in L. rewrite L. reflexivity.
    - rewrite D, Hq. simpl in *. apply Z.leb_le in L. rewrite L. reflexivity.
  Qed.

  Lemma pop_due now (iq eq : list entry) te iq1 eq1 :
    pop now iq eq (Some te) iq1 eq1 -> (due te <= now)%Z.
  Proof. intros P. inversion P; subst; assumption. Qed.

  (* ================================================================ C05_step *)
  (* ---- the invariant is kept by insertions of internal events and by pops ---- *)
  Lemma ins_all_inv now l (q : list entry) :
    Forall (fun e => e_kind e = Internal) l ->
    q_sorted q -> Forall (fun te => e_kind (snd te) = Internal) q ->
    q_sorted (ins_all now l q) /\ Forall (fun te => e_kind (snd te) = Internal) (ins_all now l q).
  Proof.
    intros Hl. revert q. induction Hl as [|e l He Hl IH]; intros q S K; simpl; auto.
    destruct (queue_insert_inv (fun ev => e_kind ev = Internal) q (now + delay_of e)%Z e
                internal_class S K He) as [S' K'].
    apply IH; auto.
  Qed.

  Lemma Q_inv_qins l (i i' : ist) : Q_inv i -> qins l i i' -> Q_inv i'.
  Proof.
    intros (Si & Se & Ki & Ke) (E1 & E2 & _). unfold Q_inv. rewrite E1, E2.
    destruct (ins_all_inv (i_time i) (internals l) (i_iq i) (internals_Forall l) Si Ki) as [A B].
    auto.
  Qed.

  Lemma sorted_tail (te : entry) q : q_sorted (te :: q) -> q_sorted q.
  Proof. intros H. inversion H; subst. assumption. Qed.

  (* ---- what _compute_steps returns: all steps carry the same event, and it is either None or
          the event _select_event sees ---- *)
  Lemma create_steps_event cfg ev ts :
    Forall (fun st => ms_event st = ev) (create_steps sc cfg ev ts).
  Proof.
    unfold create_steps. apply Forall_forall. intros st H. apply in_map_iff in H.
    destruct H as (it & <- & _). unfold create_step. destruct (t_target (snd it)); reflexivity.
  Qed.

  Lemma compute_steps_events s s' steps :
    compute_steps s = (s', inl steps) ->
    exists ev, Forall (fun st => ms_event st = ev) steps /\
               (ev = None \/ (ev = select_event (m_i s) /\ steps <> [])).
  Proof.
    unfold Interp.compute_steps. unfold Interp.bind at 1, Interp.get at 1.
    destruct (negb (i_initialized (m_i s))).
    - intros H. apply bind_inv in H. destruct H as [(e & _ & H)|(a & s1 & _ & H)]; [discriminate|].
      destruct (root sc); inversion H; subst. exists None. split; [|auto]. repeat constructor.
    - cbv zeta. intros H. apply bind_inv in H.
      destruct H as [(e & _ & H)|(ts & s1 & _ & H)]; [discriminate|].
      apply bind_inv in H. destruct H as [(e & _ & H)|(u & s2 & _ & H)]; [discriminate|].
      destruct ts as [|t ts].
      + destruct (select_event (m_i s)) as [e|]; inversion H; subst.
        * exists (Some e). split; [repeat constructor|]. right. split; [reflexivity|discriminate].
        * exists None. split; [constructor|auto].
      + apply bind_inv in H. destruct H as [(e & _ & H)|(ts' & s3 & Hs & H)]; [discriminate|].
        apply bind_inv in H. destruct H as [(e & _ & H)|(i4 & s4 & _ & H)]; [discriminate|].
        inversion H; subst. eexists. split; [apply create_steps_event|].
        assert (Hne : ts' <> []).
        { unfold Interp.sort_transitions in Hs. destruct ts as [|t2 ts].
          - inversion Hs; subst. discriminate.
          - destruct (check_pairs sc (t :: t2 :: ts)); inversion Hs; subst.
            simpl. generalize (sort (trans_order_leb sc) ts). intros l.
            destruct (insert (trans_order_leb sc) t2 l) eqn:E2.
            + destruct l; simpl in E2; [discriminate|].
              destruct (trans_order_leb sc t2 i); discriminate.
            + simpl. destruct (trans_order_leb sc t i); discriminate. }
        destruct ts' as [|it ts']; [contradiction|].
        destruct (t_event (snd it)); [right; split; [reflexivity|discriminate]|left; reflexivity].
  Qed.

  (* ---- the effect of a step on the queues, as a relation ---- *)
  (* consumed : the entry removed (None = none);  sent : the events raised by the executed code, in
     sending order (only the internal ones are queued) *)
  Definition step_rel (consumed : option entry) (sent : list event) (i i' : ist) : Prop :=
    exists iq1 eq1,
      pop (i_time i) (i_iq i) (i_eq i) consumed iq1 eq1 /\
      i_iq i' = ins_all (i_time i) (internals sent) iq1 /\
      i_eq i' = eq1 /\
      i_time i' = i_time i.

  Lemma step_rel_same i i' : same_queues i i' -> step_rel None [] i i'.
  Proof. intros (A & B & C). exists (i_iq i), (i_eq i). repeat split; auto. constructor. Qed.

  Lemma step_rel_same_l c l a b d : same_queues a b -> step_rel c l b d -> step_rel c l a d.
  Proof.
    intros (A & B & C) (iq1 & eq1 & P & E1 & E2 & E3). exists iq1, eq1.
    rewrite A, B, C in *. auto.
  Qed.

  Lemma step_rel_qins c l l' a b d : step_rel c l a b -> qins l' b d -> step_rel c (l ++ l') a d.
  Proof.
    intros (iq1 & eq1 & P & E1 & E2 & E3) (F1 & F2 & F3). exists iq1, eq1.
    split; [exact P|]. rewrite internals_app, ins_all_app, F1, F2, F3, E1, E3. auto.
  Qed.

  Lemma step_rel_same_r c l a b d : step_rel c l a b -> same_queues b d -> step_rel c l a d.
  Proof.
    intros H K. rewrite <- (app_nil_r l). eapply step_rel_qins; [exact H|]. apply qins_nil, K.
  Qed.

  Lemma step_rel_Q_inv c l i i' : Q_inv i -> step_rel c l i i' -> Q_inv i'.
  Proof.
    intros (Si & Se & Ki & Ke) (iq1 & eq1 & P & E1 & E2 & E3).
    assert (Q1 : q_sorted iq1 /\ q_sorted eq1 /\
                 Forall (fun te => e_kind (snd te) = Internal) iq1 /\
                 Forall (fun te => e_kind (snd te) <> Internal) eq1).
    { inversion P; subst; auto.
      - match goal with H : i_iq i = _ |- _ => rewrite H in Si, Ki end.
        apply sorted_tail in Si. inversion Ki; subst. auto.
      - match goal with H : i_eq i = _ |- _ => rewrite H in Se, Ke end.
        apply sorted_tail in Se. inversion Ke; subst. auto. }
    destruct Q1 as (S1 & S2 & K1 & K2). unfold Q_inv. rewrite E1, E2.
    destruct (ins_all_inv (i_time i) (internals l) iq1 (internals_Forall l) S1 K1) as [A B]. auto.
  Qed.

  (* ---- ... and on the trace: the 'event consumed' meta events handed to the listeners ---- *)
  Definition consumed_obs (tr : list (obs ctx)) : list event :=
    flat_map (fun o => match o with ObMeta (MConsumed e) => [e] | _ => [] end) tr.

  (* the trace grew by `new`, which contains 'event consumed' for exactly oe *)
  Definition tr_rel (oe : option event) (s s' : mst) : Prop :=
    exists new, m_tr s' = new ++ m_tr s /\ consumed_obs new = opt_list oe.

  Definition quiet_tr (t t' : list (obs ctx)) : Prop :=
    exists new, t' = new ++ t /\ consumed_obs new = [].
  Notation quiet := (liftT ctx X quiet_tr).

  Lemma consumed_obs_app a b : consumed_obs (a ++ b) = consumed_obs a ++ consumed_obs b.
  Proof. apply flat_map_app. Qed.

  Lemma quiet_refl t : quiet_tr t t.
  Proof. exists []. auto. Qed.

  Lemma quiet_trans a b c : quiet_tr a b -> quiet_tr b c -> quiet_tr a c.
  Proof.
    intros (n1 & -> & C1) (n2 & -> & C2). exists (n2 ++ n1). rewrite app_assoc. split; auto.
    rewrite consumed_obs_app, C1, C2. reflexivity.
  Qed.

  Lemma quiet_frame : mframe ctx X emit quiet.
  Proof.
    apply mframe_trace.
    - apply quiet_refl.
    - apply quiet_trans.
    - intros t o Ho. exists [o]. split; [reflexivity|]. destruct o; try discriminate; reflexivity.
    - intros t m Hm. exists [ObMeta m]. split; [reflexivity|]. destruct m; try discriminate; reflexivity.
  Qed.

  Lemma tr_rel_l oe a b c : quiet a b -> tr_rel oe b c -> tr_rel oe a c.
  Proof.
    intros (n1 & E1 & C1) (n2 & E2 & C2). exists (n2 ++ n1). rewrite E2, E1, app_assoc.
    split; auto. rewrite consumed_obs_app, C1, C2, app_nil_r. reflexivity.
  Qed.

  Lemma tr_rel_r oe a b c : tr_rel oe a b -> quiet b c -> tr_rel oe a c.
  Proof.
    intros (n1 & E1 & C1) (n2 & E2 & C2). exists (n2 ++ n1). rewrite E2, E1, app_assoc.
    split; auto. rewrite consumed_obs_app, C1, C2. reflexivity.
  Qed.

  (* both together *)
  Notation sq := (rconj ctx X (lift ctx X same_queues) quiet).

  Lemma sq_frame : mframe ctx X emit sq.
  Proof. apply mframe_conj; [apply mframe_lift, same_queues_frame|apply quiet_frame]. Qed.

  Definition step_relM (consumed : option entry) (sent : list event) (s s' : mst) : Prop :=
    step_rel consumed sent (m_i s) (m_i s') /\ tr_rel (option_map snd consumed) s s'.

  Lemma step_relM_same s s' : sq s s' -> step_relM None [] s s'.
  Proof. intros [A B]. split; [apply step_rel_same, A|exact B]. Qed.

  Lemma step_relM_l c l a b d : sq a b -> step_relM c l b d -> step_relM c l a d.
  Proof.
    intros [A B] [C D]. split; [eapply step_rel_same_l; eauto|eapply tr_rel_l; eauto].
  Qed.

  Lemma step_relM_r c l a b d : step_relM c l a b -> sq b d -> step_relM c l a d.
  Proof.
    intros [C D] [A B]. split; [eapply step_rel_same_r; eauto|eapply tr_rel_r; eauto].
  Qed.

  Lemma step_relM_qins c l l' a b d :
    step_relM c l a b -> qins l' (m_i b) (m_i d) -> quiet b d -> step_relM c (l ++ l') a d.
  Proof.
    intros [C D] A B. split; [eapply step_rel_qins; eauto|eapply tr_rel_r; eauto].
  Qed.

  Lemma sq_refl s : sq s s.
  Proof. apply (mf_refl _ _ _ _ sq_frame). Qed.

  Lemma raise_meta_sq m s s' r :
    (forall e, m <> MConsumed e) -> raise_meta m s = (s', r) -> sq s s'.
  Proof.
    intros Hm H. apply raise_meta_inv in H. destruct H as (_ & Hi & Ht & _). split.
    - unfold lift. rewrite Hi. apply (cf_refl _ _ (same_queues_frame ctx)).
    - exists [ObMeta m]. split; [exact Ht|]. destruct m; try reflexivity. exfalso. eapply Hm; eauto.
  Qed.

  Lemma compute_steps_sq s s' r : compute_steps s = (s', r) -> sq s s'.
  Proof. apply (mf_compute_steps _ _ _ _ _ _ sq_frame). Qed.

  Lemma finish_part_sq macro s s' r : finish_part macro s = (s', r) -> sq s s'.
  Proof.
    apply (mf_finish_part _ _ _ _ _ _ sq_frame). intros s0.
    eapply raise_meta_sq; [|apply surjective_pairing]. intros e; discriminate.
  Qed.

  Lemma run_steps_quiet fuel steps s s' r : run_steps fuel steps s = (s', r) -> quiet s s'.
  Proof.
    apply (mf_run_steps _ _ _ _ _ _ _ quiet_frame). apply msend_trace, quiet_refl.
  Qed.

  Lemma macro_event_all_none steps :
    Forall (fun st => ms_event st = None) steps -> macro_event steps = None.
  Proof. induction 1 as [|a l Ha _ IH]; simpl; auto. rewrite Ha. exact IH. Qed.

  (* ---- consume (if the first step carries an event) + run the steps ---- *)
  Lemma macro_part_spec fuel steps ev s s' r :
    Forall (fun st => ms_event st = ev) steps ->
    (ev = None \/ ev = select_event (m_i s)) ->
    macro_part fuel steps s = (s', r) ->
    exists consumed sent,
      step_relM consumed sent s s' /\
      match r with
      | inl (Some (t, ex)) => t = i_time (m_i s) /\ ex <> [] /\
                              option_map snd consumed = macro_event ex /\
                              sent = concat (map ms_sent ex)
      | inl None => steps = [] /\ consumed = None /\ sent = []
      | inr _ => True
      end.
  Proof.
    intros Hev Hsel. unfold FrameLib.macro_part. destruct steps as [|first rest].
    - intros H. inversion H; subst. exists None, []. split; [|auto].
      apply step_relM_same, sq_refl.
    - intros H. apply bind_inv in H.
      assert (Hfirst : ms_event first = ev) by (inversion Hev; assumption).
      (* the consumption part *)
      assert (Hc : forall s1 r1, consume_part first s = (s1, r1) ->
                exists c, step_relM c [] s s1 /\ (r1 = inl tt -> option_map snd c = ev)).
      { intros s1 r1. unfold FrameLib.consume_part. rewrite Hfirst. destruct ev as [e0|].
        - destruct Hsel as [Hsel|Hsel]; [discriminate|].
          intros H1. apply bind_inv in H1.
          destruct H1 as [(x & H1 & _)|(oe & s2 & H1 & H2)].
          + apply consume_event_pop in H1. destruct H1 as (c & Hr & _). discriminate.
          + apply consume_event_pop in H1. destruct H1 as (c & Hr & Hse & P & T & Tr).
            inversion Hr; subst oe. rewrite Hse, <- Hsel in H2.
            apply raise_meta_inv in H2. destruct H2 as (_ & Hi & Ht & _).
            exists c. split; [|intros _; congruence]. split.
            * rewrite Hi. eexists _, _. split; [exact P|]. simpl. auto.
            * exists [ObMeta (MConsumed e0)]. rewrite Ht, Tr. split; [reflexivity|].
              rewrite Hse, <- Hsel. reflexivity.
        - intros H1. inversion H1; subst. exists None. split; [|reflexivity].
          apply step_relM_same, sq_refl. }
      destruct H as [(x & H & ->)|([] & s1 & H1 & H2)].
      + destruct (Hc _ _ H) as (c & R & _). exists c, []. split; [exact R|exact I].
      + destruct (Hc _ _ H1) as (c & R & Hce). specialize (Hce eq_refl).
        apply bind_inv in H2. destruct H2 as [(x & H & ->)|(ex & s2 & H2 & H3)].
        * pose proof (run_steps_quiet _ _ _ _ _ H) as Qt.
          apply run_steps_qins in H. destruct H as (l' & Q).
          exists c, ([] ++ l'). split; [exact (step_relM_qins _ _ _ _ _ _ R Q Qt)|exact I].
        * pose proof (run_steps_quiet _ _ _ _ _ H2) as Qt.
          apply run_steps_qins in H2. destruct H2 as (Q & Me & Ne).
          inversion H3; subst. exists c, ([] ++ concat (map ms_sent ex)).
          split; [exact (step_relM_qins _ _ _ _ _ _ R Q Qt)|].
          destruct Q as (_ & _ & T2). destruct R as [(_ & _ & _ & _ & _ & T1) _].
          split; [congruence|]. split; [apply Ne; discriminate|]. split; [|reflexivity].
          rewrite Hce, Me. simpl. destruct (ms_event first) as [e0|] eqn:F; [reflexivity|].
          symmetry. apply macro_event_all_none. inversion Hev; assumption.
  Qed.

  Lemma finish_part_result macro s s' m : finish_part macro s = (s', inl m) -> m = macro.
  Proof.
    unfold FrameLib.finish_part. intros H.
    apply bind_inv in H. destruct H as [(x & _ & H)|(a & s1 & _ & H)]; [discriminate|].
    apply bind_inv in H. destruct H as [(x & _ & H)|(b & s2 & _ & H)]; [discriminate|].
    inversion H; subst. reflexivity.
  Qed.

  (* what the outcome r of execute_once says about the consumed entry and the sent events *)
  Definition outcome_ok (now : Z) (r : option macrostep + err) (consumed : option entry)
             (sent : list event) : Prop :=
    match r with
    | inl (Some (t, steps)) => t = now /\ steps <> [] /\
                               option_map snd consumed = macro_event steps /\
                               sent = concat (map ms_sent steps)
    | inl None => consumed = None /\ sent = []
    | inr _ => True
    end.

  Lemma tail_spec fuel now s s' r :
    execute_once_tail fuel now s = (s', r) ->
    exists consumed sent,
      step_relM consumed sent s s' /\ outcome_ok (i_time (m_i s)) r consumed sent.
  Proof.
    unfold FrameLib.execute_once_tail. intros H.
    apply bind_inv in H. destruct H as [(x & H & ->)|([] & s1 & H1 & H)].
    { exists None, []. split; [|exact I]. apply step_relM_same.
      eapply raise_meta_sq; [|exact H]; intros e; discriminate. }
    assert (Q1 : sq s s1) by (eapply raise_meta_sq; [|exact H1]; intros e; discriminate).
    apply bind_inv in H. destruct H as [(x & H & ->)|(steps & s2 & H2 & H)].
    { exists None, []. split; [|exact I]. apply step_relM_same.
      apply (mf_trans _ _ _ _ sq_frame _ _ _ Q1). eapply compute_steps_sq; eauto. }
    assert (Q2 : sq s1 s2) by (eapply compute_steps_sq; eauto).
    assert (Q12 : sq s s2) by (apply (mf_trans _ _ _ _ sq_frame _ _ _ Q1 Q2)).
    destruct (compute_steps_events _ _ _ H2) as (ev & Hev & Hsel).
    assert (Hsel2 : ev = None \/ ev = select_event (m_i s2)).
    { destruct Hsel as [Hn|[Hs _]]; [left; exact Hn|right]. rewrite Hs.
      destruct Q2 as [(A & B & C) _]. unfold select_event. rewrite A, B, C. reflexivity. }
    assert (T2 : i_time (m_i s2) = i_time (m_i s)) by (apply Q12).
    apply bind_inv in H. destruct H as [(x & H & ->)|(macro & s3 & H3 & H)].
    { destruct (macro_part_spec _ _ _ _ _ _ Hev Hsel2 H) as (c & l & R & _).
      exists c, l. split; [|exact I]. eapply step_relM_l; eauto. }
    destruct (macro_part_spec _ _ _ _ _ _ Hev Hsel2 H3) as (c & l & R & Hr).
    assert (Q3 : sq s3 s') by (eapply finish_part_sq; eauto).
    exists c, l. split.
    { eapply step_relM_l; [exact Q12|]. eapply step_relM_r; eauto. }
    destruct r as [m|x]; [|exact I]. apply finish_part_result in H. subst m.
    unfold outcome_ok. destruct macro as [[t ex]|].
    - destruct Hr as (A & B & C & D). rewrite T2 in A. auto.
    - destruct Hr as (_ & B & C). auto.
  Qed.

  (* the structural part of C05_step does not need the invariant *)
  Theorem C05_step_gen (fuel : nat) (now : Z) (s s' : mst) (r : option macrostep + err) :
    execute_once fuel now s = (s', r) ->
    exists (consumed : option entry) (sent : list event),
      step_rel consumed sent (set_time now (m_i s)) (m_i s') /\
      tr_rel (option_map snd consumed) s s' /\
      outcome_ok now r consumed sent.
  Proof.
    intros H. rewrite execute_once_eq in H. apply bind_inv in H.
    destruct H as [(x & H & _)|([] & s1 & H1 & H)]; [inversion H|].
    inversion H1; subst s1. clear H1.
    destruct (tail_spec _ _ _ _ _ H) as (c & l & [R T] & O). exists c, l.
    split; [exact R|]. split; [exact T|exact O].
  Qed.

  (* THE MAIN THEOREM.  One call of execute_once(now), whatever its outcome r (a macro step, None,
     or an exception -- in which case the state reached so far is kept):
       - keeps the queue invariant and leaves the clock at `now`;
       - (i)  removes at most one entry `consumed`, and it is the due head of the internal queue,
              else -- only if the internal head is not due -- the due head of the external queue
              (`pop`), i.e. exactly the event _select_event returns after the time update;
              an entry is removed iff 'event consumed' is handed to the listeners, once, for that
              very event (the trace grows by `new`, consumed_obs new = the consumed event);
       - (ii) then inserts (queue_insert, i.e. C05_insert) the INTERNAL events among `sent`, in
              sending order, each with due time  now + delay,  into the internal queue;
              the external queue is never inserted into;
       - if r is a macro step (now, steps): the consumed event is MacroStep.event (None iff nothing
         was removed) and `sent` is the concatenation of the sent events of its micro steps;
       - if r is None: nothing was removed and nothing inserted. *)
  Theorem C05_step (fuel : nat) (now : Z) (s s' : mst) (r : option macrostep + err) :
    Q_inv (m_i s) ->
    execute_once fuel now s = (s', r) ->
    Q_inv (m_i s') /\
    i_time (m_i s') = now /\
    exists (consumed : option entry) (sent : list event) (iq1 eq1 : list entry),
      (* (i) *)
      pop now (i_iq (m_i s)) (i_eq (m_i s)) consumed iq1 eq1 /\
      (consumed = None <-> iq1 = i_iq (m_i s) /\ eq1 = i_eq (m_i s)) /\
      (consumed <> None -> option_map snd consumed = select_event (set_time now (m_i s))) /\
      (exists new, m_tr s' = new ++ m_tr s /\
                   consumed_obs new = opt_list (option_map snd consumed)) /\
      (* (ii) *)
      i_iq (m_i s') = ins_all now (internals sent) iq1 /\
      i_eq (m_i s') = eq1 /\
      (* link with the result *)
      outcome_ok now r consumed sent.
  Proof.
    intros QI H. destruct (C05_step_gen _ _ _ _ _ H) as (c & l & R & T & O).
    assert (QI1 : Q_inv (set_time now (m_i s))) by exact QI.
    split; [exact (step_rel_Q_inv _ _ _ _ QI1 R)|].
    destruct R as (iq1 & eq1 & P & E1 & E2 & E3). simpl in P, E1, E2, E3.
    split; [exact E3|]. exists c, l, iq1, eq1.
    split; [exact P|]. split; [exact (pop_none_iff _ _ _ _ _ _ P)|].
    split; [exact (pop_select _ _ _ _ _ P)|]. split; [exact T|]. auto.
  Qed.

  (* ================================================================ C05_conservation *)
  Definition stamp (now : Z) (e : event) : entry := ((now + delay_of e)%Z, e).

  Lemma ins_all_perm now l (q : list entry) : Permutation (ins_all now l q) (q ++ map (stamp now) l).
  Proof.
    revert q. induction l as [|e l IH]; intros q; simpl.
    - rewrite app_nil_r. apply Permutation_refl.
    - eapply perm_trans; [apply IH|].
      eapply perm_trans; [apply Permutation_app_tail, queue_insert_perm|].
      simpl. apply Permutation_middle.
  Qed.

  Lemma pop_perm now (iq eq : list entry) c iq1 eq1 :
    pop now iq eq c iq1 eq1 -> Permutation (opt_list c ++ iq1 ++ eq1) (iq ++ eq).
  Proof.
    intros P. destruct P as [|te q Hq L|te q Hq L D]; subst; simpl.
    - apply Permutation_refl.
    - apply Permutation_refl.
    - apply Permutation_middle.
  Qed.

  Lemma step_rel_perm c l (i i' : ist) :
    step_rel c l i i' ->
    Permutation (opt_list c ++ i_iq i' ++ i_eq i')
                (i_iq i ++ i_eq i ++ map (stamp (i_time i)) (internals l)).
  Proof.
    intros (iq1 & eq1 & P & E1 & E2 & _). rewrite E1, E2.
    eapply perm_trans.
    { apply Permutation_app_head, Permutation_app_tail, ins_all_perm. }
    rewrite <- app_assoc.
    eapply perm_trans.
    { apply Permutation_app_head, Permutation_app_head, Permutation_app_comm. }
    rewrite !app_assoc. apply Permutation_app_tail. rewrite <- app_assoc.
    apply (pop_perm _ _ _ _ _ _ P).
  Qed.

  (* Nothing is lost, nothing is duplicated:  consumed + pending' = pending + sent internal
     (as multisets of (due, event) entries) -- for every outcome, without any invariant. *)
  Corollary C05_conservation (fuel : nat) (now : Z) (s s' : mst) (r : option macrostep + err) :
    execute_once fuel now s = (s', r) ->
    exists (consumed : option entry) (sent : list event),
      outcome_ok now r consumed sent /\
      Permutation (opt_list consumed ++ i_iq (m_i s') ++ i_eq (m_i s'))
                  (i_iq (m_i s) ++ i_eq (m_i s) ++ map (stamp now) (internals sent)) /\
      (length (opt_list consumed) + length (i_iq (m_i s')) + length (i_eq (m_i s')) =
       length (i_iq (m_i s)) + length (i_eq (m_i s)) + length (internals sent))%nat.
  Proof.
    intros H. destruct (C05_step_gen _ _ _ _ _ H) as (c & l & R & _ & O).
    exists c, l. split; [exact O|]. apply step_rel_perm in R. simpl in R. split; [exact R|].
    apply Permutation_length in R. rewrite !app_length, map_length in R. lia.
  Qed.

  (* the same for queue() *)
  Lemma C05_conservation_queue (e : event) (s : mst) :
    exists s', queue e s = (s', inl tt) /\
      Permutation (i_iq (m_i s') ++ i_eq (m_i s'))
                  (stamp (i_time (m_i s)) e :: i_iq (m_i s) ++ i_eq (m_i s)).
  Proof.
    eexists. split; [reflexivity|]. simpl. unfold queue_event, stamp.
    destruct (e_kind e); simpl.
    - eapply perm_trans; [apply Permutation_app_head, queue_insert_perm|].
      apply Permutation_sym, Permutation_middle.
    - change (Permutation (queue_insert (i_iq (m_i s)) (i_time (m_i s) + delay_of e) e ++ i_eq (m_i s))
                          ((((i_time (m_i s) + delay_of e)%Z, e) :: i_iq (m_i s)) ++ i_eq (m_i s))).
      apply Permutation_app_tail, queue_insert_perm.
    - eapply perm_trans; [apply Permutation_app_head, queue_insert_perm|].
      apply Permutation_sym, Permutation_middle.
  Qed.

  (* ---- over any sequence of queue() / execute_once() calls that return normally ---- *)
  Inductive op := OQueue (e : event) | OExec (fuel : nat) (now : Z).

  Inductive runs : list op -> mst -> list (option macrostep) -> mst -> Prop :=
  | runs_nil s : runs [] s [] s
  | runs_queue e ops s ms s' :
      runs ops (fst (queue e s)) ms s' -> runs (OQueue e :: ops) s ms s'
  | runs_exec fuel now ops s s1 m ms s' :
      execute_once fuel now s = (s1, inl m) -> runs ops s1 ms s' ->
      runs (OExec fuel now :: ops) s (m :: ms) s'.

  Definition pending (s : mst) : list event := map snd (i_iq (m_i s) ++ i_eq (m_i s)).
  Definition queued_of (ops : list op) : list event :=
    flat_map (fun o => match o with OQueue e => [e] | OExec _ _ => [] end) ops.
  Definition consumed_of (ms : list (option macrostep)) : list event :=
    flat_map (fun m => match m with Some (_, steps) => opt_list (macro_event steps) | None => [] end) ms.
  Definition sent_of (ms : list (option macrostep)) : list event :=
    flat_map (fun m => match m with
                       | Some (_, steps) => internals (concat (map ms_sent steps))
                       | None => []
                       end) ms.

  Lemma queue_pending e s : Permutation (pending (fst (queue e s))) (e :: pending s).
  Proof.
    destruct (C05_conservation_queue e s) as (s1 & E & P). rewrite E. simpl fst.
    unfold pending. apply (Permutation_map snd) in P. exact P.
  Qed.

  Theorem C05_conservation_run ops s ms s' :
    runs ops s ms s' ->
    Permutation (pending s' ++ consumed_of ms) (pending s ++ queued_of ops ++ sent_of ms).
  Proof.
    induction 1 as [s|e ops s ms s' Hr IH|fuel now ops s s1 m ms s' He Hr IH].
    - simpl. apply Permutation_refl.
    - eapply perm_trans; [exact IH|].
      eapply perm_trans; [apply Permutation_app_tail, queue_pending|].
      simpl. apply Permutation_middle.
    - destruct (C05_conservation _ _ _ _ _ He) as (c & l & O & P & _).
      set (C := match m with Some (_, steps) => opt_list (macro_event steps) | None => [] end).
      set (S := match m with Some (_, steps) => internals (concat (map ms_sent steps)) | None => [] end).
      assert (E : map snd (opt_list c) = C /\ internals l = S).
      { unfold outcome_ok in O. subst C S. destruct m as [[t steps]|].
        - destruct O as (_ & _ & Oc & ->). split; [|reflexivity]. rewrite <- Oc. destruct c; reflexivity.
        - destruct O as (-> & ->). auto. }
      destruct E as [E1 E2].
      assert (P2 : Permutation (C ++ pending s1) (pending s ++ S)).
      { apply (Permutation_map snd) in P. unfold pending. rewrite !map_app in *.
        rewrite map_map in P. simpl in P. rewrite map_id in P. rewrite E1, E2 in P.
        rewrite <- !app_assoc. exact P. }
      change (consumed_of (m :: ms)) with (C ++ consumed_of ms).
      change (sent_of (m :: ms)) with (S ++ sent_of ms).
      change (queued_of (OExec fuel now :: ops)) with (queued_of ops).
      eapply perm_trans; [apply Permutation_app_swap_app|].
      eapply perm_trans; [apply Permutation_app_head, IH|].
      rewrite app_assoc. eapply perm_trans; [apply Permutation_app_tail, P2|].
      rewrite <- app_assoc. apply Permutation_app_head. apply Permutation_app_swap_app.
  Qed.

  (* ================================================================ C05_delay *)
  Lemma Q_inv_set_time now (i : ist) : Q_inv i <-> Q_inv (set_time now i).
  Proof. unfold Q_inv. simpl. apply iff_refl. Qed.

  (* (a) whatever a step removes is due at the step time;
     (b) an entry with due <= step time exists (in either queue) iff _select_event returns an event
         after the time update, i.e. iff an event is considered by the step. *)
  Theorem C05_delay (now : Z) (i : ist) :
    Q_inv i ->
    (forall te iq1 eq1, pop now (i_iq i) (i_eq i) (Some te) iq1 eq1 ->
                        (due te <= now)%Z /\ In te (i_iq i ++ i_eq i)) /\
    ((Exists (fun te => (due te <= now)%Z) (i_iq i) \/ Exists (fun te => (due te <= now)%Z) (i_eq i))
     <-> select_event (set_time now i) <> None).
  Proof.
    intros (Si & Se & _). split.
    - intros te iq1 eq1 P. split; [exact (pop_due _ _ _ _ _ _ P)|].
      inversion P; subst; apply in_or_app.
      + left. match goal with H : i_iq i = _ |- _ => rewrite H end. left. reflexivity.
      + right. match goal with H : i_eq i = _ |- _ => rewrite H end. left. reflexivity.
    - rewrite (due_exists_iff_head now _ Si), (due_exists_iff_head now _ Se).
      unfold select_event. simpl. destruct (due_head now (i_iq i)) as [e1|].
      + split; [discriminate|]. intros _. left. eauto.
      + split.
        * intros [(e & H)|(e & H)]; congruence.
        * intros H. right. destruct (due_head now (i_eq i)) as [e2|]; [eauto|contradiction].
  Qed.

  (* "considered" = handed to _select_transitions: in an initialized interpreter _compute_steps
     calls _select_transitions with the event _select_event returns *)
  Definition after_select (event : option event) (ts : list itrans)
    : Interp.M ctx X (list microstep) :=
    Interp.bind ctx X (Interp.observe ctx X (ObSelected (map fst ts))) (fun _ =>
      match ts with
      | [] => match event with
              | None => Interp.ret ctx X []
              | Some e => Interp.ret ctx X [mkMicro (Some e) None [] [] []]
              end
      | _ =>
          Interp.bind ctx X (Interp.sort_transitions ctx X sc ts) (fun ts' =>
          let event' := match ts' with
                        | it :: _ => match t_event (snd it) with None => None | Some _ => event end
                        | [] => event
                        end in
          Interp.bind ctx X (Interp.get ctx X) (fun s' =>
          Interp.ret ctx X (create_steps sc (i_config s') event' ts')))
      end).

  Lemma compute_steps_considers (s : mst) :
    i_initialized (m_i s) = true ->
    compute_steps s =
    Interp.bind ctx X (select_transitions (select_event (m_i s)) (i_config (m_i s)))
                (after_select (select_event (m_i s))) s.
  Proof.
    intros H. unfold Interp.compute_steps. unfold Interp.bind at 1, Interp.get at 1.
    rewrite H. reflexivity.
  Qed.

  Lemma sort_transitions_nonempty ts s s' ts' :
    ts <> [] -> Interp.sort_transitions ctx X sc ts s = (s', inl ts') -> ts' <> [].
  Proof.
    unfold Interp.sort_transitions. destruct ts as [|t [|t2 ts]]; intros Hne Hs.
    - contradiction.
    - inversion Hs; subst. discriminate.
    - destruct (check_pairs sc (t :: t2 :: ts)); inversion Hs; subst.
      simpl. generalize (sort (trans_order_leb sc) ts). intros l.
      destruct (insert (trans_order_leb sc) t2 l) eqn:E2.
      + destruct l; simpl in E2; [discriminate|].
        destruct (trans_order_leb sc t2 i); discriminate.
      + simpl. destruct (trans_order_leb sc t i); discriminate.
  Qed.

  Lemma compute_steps_progress s s' steps :
    i_initialized (m_i s) = true -> select_event (m_i s) <> None ->
    compute_steps s = (s', inl steps) -> steps <> [].
  Proof.
    intros Hi Hs. rewrite (compute_steps_considers s Hi). intros H.
    apply bind_inv in H. destruct H as [(e & _ & H)|(ts & s1 & _ & H)]; [discriminate|].
    unfold after_select in H.
    apply bind_inv in H. destruct H as [(e & _ & H)|(u & s2 & _ & H)]; [discriminate|].
    destruct ts as [|t ts].
    - destruct (select_event (m_i s)); [|contradiction]. inversion H; subst. discriminate.
    - apply bind_inv in H. destruct H as [(e & _ & H)|(ts' & s3 & Hsort & H)]; [discriminate|].
      apply sort_transitions_nonempty in Hsort; [|discriminate].
      apply bind_inv in H. destruct H as [(e & _ & H)|(i4 & s4 & _ & H)]; [discriminate|].
      inversion H; subst. destruct ts'; [contradiction|discriminate].
  Qed.

  Lemma macro_part_none fuel steps s s' m :
    macro_part fuel steps s = (s', inl m) -> (m = None <-> steps = []).
  Proof.
    unfold FrameLib.macro_part. destruct steps as [|first rest]; intros H.
    - inversion H; subst. tauto.
    - split; [|discriminate]. intros ->. exfalso.
      apply bind_inv in H. destruct H as [(e & _ & H)|(u & s1 & _ & H)]; [discriminate|].
      apply bind_inv in H. destruct H as [(e & _ & H)|(ex & s2 & _ & H)]; [discriminate|].
      inversion H.
  Qed.

  (* a due entry is never ignored: in an initialized interpreter, if some entry is due then a
     call that returns normally returns a (non-empty) macro step -- either it consumed the event
     (C05_step: MacroStep.event = that event) or an eventless transition fired instead *)
  Theorem C05_delay_progress (fuel : nat) (now : Z) (s s' : mst) (m : option macrostep) :
    Q_inv (m_i s) -> i_initialized (m_i s) = true ->
    (Exists (fun te => (due te <= now)%Z) (i_iq (m_i s)) \/
     Exists (fun te => (due te <= now)%Z) (i_eq (m_i s))) ->
    execute_once fuel now s = (s', inl m) ->
    exists steps, m = Some (now, steps) /\ steps <> [].
  Proof.
    intros QI Hi Hdue H.
    destruct (C05_step_gen _ _ _ _ _ H) as (c & l & _ & _ & O).
    apply (proj2 (C05_delay now (m_i s) QI)) in Hdue.
    rewrite execute_once_eq in H. apply bind_inv in H.
    destruct H as [(x & H & _)|([] & s1 & H1 & H)]; [inversion H|].
    inversion H1; subst s1. clear H1. unfold FrameLib.execute_once_tail in H.
    apply bind_inv in H. destruct H as [(x & _ & H)|([] & s1 & H1 & H)]; [discriminate|].
    apply raise_meta_inv in H1. destruct H1 as (_ & E1 & _). simpl in E1.
    apply bind_inv in H. destruct H as [(x & _ & H)|(steps & s2 & H2 & H)]; [discriminate|].
    apply compute_steps_progress in H2.
    - apply bind_inv in H. destruct H as [(x & _ & H)|(macro & s3 & H3 & H)]; [discriminate|].
      apply finish_part_result in H. subst macro. apply macro_part_none in H3.
      unfold outcome_ok in O. destruct m as [[t ex]|].
      + destruct O as (-> & Hne & _). eauto.
      + exfalso. apply H2. apply H3. reflexivity.
    - rewrite E1. simpl. exact Hi.
    - rewrite E1. unfold select_event in *. simpl in *. exact Hdue.
  Qed.

End C05.

Arguments pop_none {now iq eq}.
Arguments pop_int {now iq eq}.
Arguments pop_ext {now iq eq}.

(* ================================================================== non-vacuity *)
(* A concrete chart, code semantics and state: both queues non-empty, Q_inv holds, and one call of
   execute_once consumes the due internal head, fires a transition whose action sends an internal
   and a meta event; the internal one lands (FIFO, due = now + 0) before the entry due at 7. *)
Module Example.
  Open Scope string_scope.
  Open Scope Z_scope.

  Definition ex_chart : chart :=
    mkChart "c" None None
      [("root", mkState "root" KCompound (Some "a") None None None [] [] []);
       ("a", mkState "a" KBasic None None None None [] [] [])]
      [("root", None); ("a", Some "root")]
      [(None, ["root"]); (Some "root", ["a"])]
      [mkTrans "a" (Some "a") (Some "x") None (Some "send") 0 [] [] []].

  Definition ex_exec (c : call unit) (_ : unit) : option (unit * list event) :=
    match cl_code c with
    | Some "send" => Some (tt, [mkEvent Internal "y" []; mkEvent Meta "note" []])
    | _ => Some (tt, [])
    end.
  Definition ex_eval (c : call unit) (_ : unit) : option bool := Some true.
  Definition ex_emit (_ : Z) (_ : meta) (x : unit) : unit * option err := (x, None).

  Definition ev_ix := mkEvent Internal "x" [].
  Definition ev_iy := mkEvent Internal "y" [].
  Definition ev_ex := mkEvent External "x" [].
  Definition ev_ez := mkEvent External "z" [].

  Definition ex_i : istate unit :=
    mkIState 0 true 0 [] ["root"; "a"] [] [] []
             [(1, ev_ix); (7, ev_ix)] [(2, ev_ex); (2, ev_ez)] false tt [].
  Definition ex_s : mstate unit unit := mkM ex_i tt [].

  Example Q_inv_nonvacuous :
    Q_inv ex_i /\ i_iq ex_i <> [] /\ i_eq ex_i <> [].
  Proof.
    unfold Q_inv, q_sorted. simpl.
    repeat split; try discriminate; repeat constructor; unfold due_le, due; simpl;
      try lia; try discriminate.
  Qed.

  Example step_nonvacuous :
    exists s' steps,
      execute_once unit unit ex_exec ex_eval ex_emit ex_chart 10 5 ex_s = (s', inl (Some (5, steps))) /\
      macro_event steps = Some ev_ix /\
      i_iq (m_i s') = [(5, ev_iy); (7, ev_ix)] /\
      i_eq (m_i s') = [(2, ev_ex); (2, ev_ez)] /\
      consumed_obs unit (m_tr s') = [ev_ix].
  Proof. eexists. eexists. split; [vm_compute; reflexivity|]. vm_compute. auto. Qed.
End Example.

(* ================================================================== summary / assumptions *)
Print Assumptions C05_insert.
Print Assumptions C05_which.
Print Assumptions C05_consume.
Print Assumptions C05_step.
Print Assumptions C05_step_gen.
Print Assumptions C05_conservation.
Print Assumptions C05_conservation_run.
Print Assumptions C05_delay.
Print Assumptions C05_delay_progress.
Print Assumptions Example.step_nonvacuous.
