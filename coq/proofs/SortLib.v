(* SortLib.v -- generic facts about the list utilities of Base.v:
     insert / sort            (stable insertion sort with a boolean order)
     group_add / groups_of    (Python: groups = defaultdict(list); groups[key(v)].append(v))
     sorted_groupby           (sismic.utilities.sorted_groupby)
   plus the order instances used by the interpreter model: bool, Z, string.
   Standard library only; no axioms. *)
From Coq Require Import String Ascii List Bool ZArith NArith Sorted Permutation Lia.
From Sismic Require Import Base.
Import ListNotations.
Open Scope list_scope.

(* ------------------------------------------------------------------ small list facts *)
Lemma filter_perm_split : forall {A} (f : A -> bool) (l : list A),
  Permutation (filter f l ++ filter (fun x => negb (f x)) l) l.
Proof.
  intros A f l; induction l as [|x l IH]; simpl; [constructor|].
  destruct (f x); simpl.
  - apply perm_skip; exact IH.
  - apply Permutation_sym. apply Permutation_cons_app. apply Permutation_sym; exact IH.
Qed.

Lemma Permutation_concat : forall {A} (l l' : list (list A)),
  Permutation l l' -> Permutation (concat l) (concat l').
Proof.
  intros A l l' HP; induction HP as [|x l l' HP IH|x y l|l l' l'' HP1 IH1 HP2 IH2]; simpl.
  - constructor.
  - apply Permutation_app_head; exact IH.
  - rewrite !app_assoc. apply Permutation_app_tail. apply Permutation_app_comm.
  - eapply Permutation_trans; eassumption.
Qed.

Lemma NoDup_snoc : forall {A} (l : list A) (x : A), NoDup l -> ~ In x l -> NoDup (l ++ [x]).
Proof.
  intros A l x Hnd Hnin. eapply Permutation_NoDup; [apply Permutation_cons_append|].
  constructor; assumption.
Qed.

Lemma filter_nil_iff : forall {A} (f : A -> bool) (l : list A),
  filter f l = [] <-> (forall x, In x l -> f x = false).
Proof.
  intros A f l; induction l as [|x l IH]; simpl.
  - split; [intros _ y []|reflexivity].
  - destruct (f x) eqn:E.
    + split; [discriminate|]. intros H. specialize (H x (or_introl eq_refl)). congruence.
    + rewrite IH. split.
      * intros H y [<-|Hy]; [exact E|apply H; exact Hy].
      * intros H y Hy; apply H; right; exact Hy.
Qed.

Lemma filter_filter_comm : forall {A} (f g : A -> bool) (l : list A),
  filter f (filter g l) = filter g (filter f l).
Proof.
  intros A f g l; induction l as [|x l IH]; simpl; [reflexivity|].
  destruct (g x) eqn:Eg, (f x) eqn:Ef; simpl; rewrite ?Eg, ?Ef, ?IH; reflexivity.
Qed.

(* ------------------------------------------------------------------ insert / sort *)
Section SortFacts.
  Context {A : Type} (leb : A -> A -> bool).

  Definition lebP (a b : A) : Prop := leb a b = true.

  Lemma insert_perm : forall x l, Permutation (insert leb x l) (x :: l).
  Proof.
    intros x l; induction l as [|y l IH]; simpl.
    - apply Permutation_refl.
    - destruct (leb x y).
      + apply Permutation_refl.
      + eapply Permutation_trans; [apply perm_skip, IH | apply perm_swap].
  Qed.

  Lemma sort_perm : forall l, Permutation (sort leb l) l.
  Proof.
    induction l as [|x l IH]; simpl; [constructor|].
    eapply Permutation_trans; [apply insert_perm | apply perm_skip, IH].
  Qed.

  Lemma sort_In : forall x l, In x (sort leb l) <-> In x l.
  Proof.
    intros x l; split; apply Permutation_in; [|apply Permutation_sym]; apply sort_perm.
  Qed.

  Lemma sort_length : forall l, length (sort leb l) = length l.
  Proof. intros l; apply Permutation_length, sort_perm. Qed.

  Lemma sort_NoDup : forall l, NoDup l -> NoDup (sort leb l).
  Proof.
    intros l H. eapply Permutation_NoDup; [apply Permutation_sym, sort_perm|exact H].
  Qed.

  Lemma sort_nil_iff : forall l, sort leb l = [] <-> l = [].
  Proof.
    intros l; split; intros H.
    - apply Permutation_nil. rewrite <- H. apply sort_perm.
    - subst; reflexivity.
  Qed.

  Hypothesis leb_total : forall a b, leb a b = true \/ leb b a = true.
  Hypothesis leb_trans : forall a b c, leb a b = true -> leb b c = true -> leb a c = true.

  Lemma insert_sorted : forall x l,
    StronglySorted lebP l -> StronglySorted lebP (insert leb x l).
  Proof.
    intros x l; induction l as [|y l IH]; intros Hs; simpl.
    - constructor; constructor.
    - inversion Hs as [|y' l' Hs' Hall]; subst.
      destruct (leb x y) eqn:E.
      + constructor; [exact Hs|]. constructor; [exact E|].
        eapply Forall_impl; [|exact Hall]. intros z Hz. eapply leb_trans; [exact E|exact Hz].
      + constructor; [apply IH; exact Hs'|].
        rewrite Forall_forall. intros z Hz.
        apply (Permutation_in _ (insert_perm x l)) in Hz. destruct Hz as [<-|Hz].
        * destruct (leb_total x y) as [H|H]; [congruence|exact H].
        * rewrite Forall_forall in Hall; apply Hall; exact Hz.
  Qed.

  Lemma sort_strongly_sorted : forall l, StronglySorted lebP (sort leb l).
  Proof.
    induction l as [|x l IH]; simpl; [constructor|]. apply insert_sorted; exact IH.
  Qed.

  Lemma sort_sorted : forall l, Sorted lebP (sort leb l).
  Proof. intros l; apply StronglySorted_Sorted, sort_strongly_sorted. Qed.

  (* Stability: elements that are equivalent for the order keep their original relative order
     (for every z, the subsequence of the elements equivalent to z is unchanged). *)
  Lemma filter_insert_stable : forall z x l,
    filter (fun y => leb z y && leb y z) (insert leb x l)
    = if leb z x && leb x z then x :: filter (fun y => leb z y && leb y z) l
      else filter (fun y => leb z y && leb y z) l.
  Proof.
    intros z x l; induction l as [|y l IH]; simpl.
    - destruct (leb z x && leb x z); reflexivity.
    - destruct (leb x y) eqn:E; simpl.
      + destruct (leb z x && leb x z); reflexivity.
      + rewrite IH. destruct (leb z x && leb x z) eqn:Ex; [|reflexivity].
        destruct (leb z y && leb y z) eqn:Ey; [|reflexivity].
        apply andb_true_iff in Ex; destruct Ex as [Ex1 Ex2].
        apply andb_true_iff in Ey; destruct Ey as [Ey1 Ey2].
        rewrite (leb_trans _ _ _ Ex2 Ey1) in E. discriminate.
  Qed.

  Lemma sort_stable : forall z l,
    filter (fun y => leb z y && leb y z) (sort leb l) = filter (fun y => leb z y && leb y z) l.
  Proof.
    intros z l; induction l as [|x l IH]; simpl; [reflexivity|].
    rewrite filter_insert_stable, IH. reflexivity.
  Qed.
End SortFacts.

(* sortedness w.r.t. a strict relation when the keys are pairwise distinct *)
Lemma StronglySorted_strict : forall {A K} (R : A -> A -> Prop) (f : A -> K) (l : list A),
  StronglySorted R l -> NoDup (map f l) ->
  StronglySorted (fun a b => R a b /\ f a <> f b) l.
Proof.
  intros A K R f l Hs; induction Hs as [|x l Hs IH Hall]; intros Hnd; [constructor|].
  simpl in Hnd. inversion Hnd as [|x' l' Hnin Hnd']; subst.
  constructor; [apply IH; exact Hnd'|].
  rewrite Forall_forall in *. intros y Hy. split; [apply Hall; exact Hy|].
  intros Heq. apply Hnin. rewrite Heq. apply in_map; exact Hy.
Qed.

Lemma StronglySorted_impl : forall {A} (R R' : A -> A -> Prop) (l : list A),
  (forall a b, R a b -> R' a b) -> StronglySorted R l -> StronglySorted R' l.
Proof.
  intros A R R' l Himp Hs; induction Hs as [|x l Hs IH Hall]; constructor; [exact IH|].
  eapply Forall_impl; [|exact Hall]. intros y; apply Himp.
Qed.

(* ------------------------------------------------------------------ group_add / groups_of *)
Section GroupFacts.
  Context {A K : Type} (key : A -> K) (keqb : K -> K -> bool).

  Lemma groups_of_snoc : forall l v,
    groups_of key keqb (l ++ [v]) = group_add keqb (key v) v (groups_of key keqb l).
  Proof. intros l v. unfold groups_of. rewrite fold_left_app. reflexivity. Qed.

  Lemma group_add_concat : forall (k : K) (v : A) (g : list (K * list A)),
    Permutation (concat (map snd (group_add keqb k v g))) (concat (map snd g) ++ [v]).
  Proof.
    intros k v g; induction g as [|[k' vs] g IH]; simpl.
    - apply Permutation_refl.
    - destruct (keqb k k'); simpl.
      + rewrite <- !app_assoc. apply Permutation_app_head. apply Permutation_app_comm.
      + rewrite <- app_assoc. apply Permutation_app_head. exact IH.
  Qed.

  (* the groups partition the input (no hypothesis on keqb needed) *)
  Lemma groups_of_concat : forall l, Permutation (concat (map snd (groups_of key keqb l))) l.
  Proof.
    intros l; induction l as [|v l IH] using rev_ind; [constructor|].
    rewrite groups_of_snoc.
    eapply Permutation_trans; [apply group_add_concat|].
    apply Permutation_app_tail; exact IH.
  Qed.

  Lemma map_fst_group_add : forall (k : K) (v : A) (g : list (K * list A)),
    map fst (group_add keqb k v g)
    = if existsb (keqb k) (map fst g) then map fst g else map fst g ++ [k].
  Proof.
    intros k v g; induction g as [|[k' vs] g IH]; simpl; [reflexivity|].
    destruct (keqb k k'); simpl; [reflexivity|]. rewrite IH.
    destruct (existsb (keqb k) (map fst g)); reflexivity.
  Qed.

  Hypothesis keqb_spec : forall a b, keqb a b = true <-> a = b.

  Lemma keqb_refl : forall a, keqb a a = true.
  Proof. intros a; apply keqb_spec; reflexivity. Qed.

  Lemma keqb_false_iff : forall a b, keqb a b = false <-> a <> b.
  Proof.
    intros a b; split.
    - intros H Heq. apply keqb_spec in Heq. congruence.
    - intros H. destruct (keqb a b) eqn:E; [|reflexivity]. apply keqb_spec in E. contradiction.
  Qed.

  Lemma existsb_keqb : forall k ks, existsb (keqb k) ks = true <-> In k ks.
  Proof.
    intros k ks. rewrite existsb_exists. split.
    - intros [x [Hx Hk]]. apply keqb_spec in Hk. subst; exact Hx.
    - intros H. exists k. split; [exact H|apply keqb_refl].
  Qed.

  (* the members of l with key k, in their order in l *)
  Definition grp (l : list A) (k : K) : list A := filter (fun x => keqb (key x) k) l.

  Lemma grp_snoc : forall l v k,
    grp (l ++ [v]) k = grp l k ++ (if keqb (key v) k then [v] else []).
  Proof. intros l v k. unfold grp. rewrite filter_app. simpl. destruct (keqb (key v) k); reflexivity. Qed.

  Lemma In_grp : forall l k x, In x (grp l k) <-> In x l /\ key x = k.
  Proof. intros l k x. unfold grp. rewrite filter_In, keqb_spec. reflexivity. Qed.

  Lemma group_add_contents : forall l v g,
    NoDup (map fst g) ->
    (forall k vs, In (k, vs) g -> vs = grp l k /\ vs <> []) ->
    ((forall p, In p g -> fst p <> key v) -> grp l (key v) = []) ->
    forall k vs, In (k, vs) (group_add keqb (key v) v g) -> vs = grp (l ++ [v]) k /\ vs <> [].
  Proof.
    intros l v g; induction g as [|[k0 vs0] g IH]; intros Hnd Hgrp Hbase k vs Hin; simpl in Hin.
    - destruct Hin as [Heq|[]]. inversion Heq; subst k vs. split; [|discriminate].
      rewrite grp_snoc, keqb_refl, Hbase; [reflexivity|]. intros p [].
    - simpl in Hnd. inversion Hnd as [|k0' g0' Hnin Hnd']; subst.
      destruct (keqb (key v) k0) eqn:E; simpl in Hin.
      + destruct Hin as [Heq|Hin].
        * inversion Heq; subst k vs. split; [|destruct vs0; discriminate].
          destruct (Hgrp k0 vs0 (or_introl eq_refl)) as [Hvs _].
          rewrite grp_snoc, E, <- Hvs. reflexivity.
        * destruct (Hgrp k vs (or_intror Hin)) as [Hvs Hne]. split; [|exact Hne].
          apply keqb_spec in E.
          assert (Hneq : keqb (key v) k = false).
          { apply keqb_false_iff. intros Heq. apply Hnin. rewrite <- E, Heq.
            change k with (fst (k, vs)). apply in_map. exact Hin. }
          rewrite grp_snoc, Hneq, app_nil_r. exact Hvs.
      + destruct Hin as [Heq|Hin].
        * inversion Heq; subst k vs.
          destruct (Hgrp k0 vs0 (or_introl eq_refl)) as [Hvs Hne]. split; [|exact Hne].
          rewrite grp_snoc, E, app_nil_r. exact Hvs.
        * apply IH; [exact Hnd'| | |exact Hin].
          -- intros k' vs' Hin'. apply Hgrp. right; exact Hin'.
          -- intros Hall. apply Hbase. intros p [<-|Hp]; [|apply Hall; exact Hp].
             simpl. apply keqb_false_iff in E. intros Heq; apply E; symmetry; exact Heq.
  Qed.

  (* invariant of the accumulation loop *)
  Definition groups_inv (g : list (K * list A)) (l : list A) : Prop :=
    (forall k vs, In (k, vs) g -> vs = grp l k /\ vs <> [])
    /\ NoDup (map fst g)
    /\ (forall k, In k (map fst g) <-> exists x, In x l /\ key x = k).

  Lemma group_add_inv : forall g l v,
    groups_inv g l -> groups_inv (group_add keqb (key v) v g) (l ++ [v]).
  Proof.
    intros g l v (Hgrp & Hnd & Hlab).
    assert (Hlab' : forall k, In k (map fst (group_add keqb (key v) v g))
                              <-> In k (map fst g) \/ k = key v).
    { intros k. rewrite map_fst_group_add.
      destruct (existsb (keqb (key v)) (map fst g)) eqn:E.
      - apply existsb_keqb in E. split; [intros H; left; exact H|].
        intros [H|H]; [exact H|subst; exact E].
      - rewrite in_app_iff. simpl. split.
        + intros [H|[H|[]]]; [left; exact H|right; symmetry; exact H].
        + intros [H|H]; [left; exact H|right; left; symmetry; exact H]. }
    split; [|split].
    - apply group_add_contents; [exact Hnd|exact Hgrp|].
      intros Hall. unfold grp. apply filter_nil_iff. intros x Hx. apply keqb_false_iff.
      intros Heq. assert (Hk : In (key x) (map fst g)).
      { apply Hlab. exists x. split; [exact Hx|reflexivity]. }
      apply in_map_iff in Hk. destruct Hk as [p [Hp1 Hp2]].
      apply (Hall p Hp2). rewrite Hp1. exact Heq.
    - rewrite map_fst_group_add.
      destruct (existsb (keqb (key v)) (map fst g)) eqn:E; [exact Hnd|].
      apply NoDup_snoc; [exact Hnd|].
      intros Hin. apply existsb_keqb in Hin. congruence.
    - intros k. rewrite Hlab', Hlab. split.
      + intros [[x [Hx Hk]]|Hk].
        * exists x. split; [apply in_or_app; left; exact Hx|exact Hk].
        * exists v. split; [apply in_or_app; right; left; reflexivity|symmetry; exact Hk].
      + intros [x [Hx Hk]]. apply in_app_or in Hx. destruct Hx as [Hx|[<-|[]]].
        * left. exists x. split; assumption.
        * right. symmetry; exact Hk.
  Qed.

  Lemma groups_of_inv : forall l, groups_inv (groups_of key keqb l) l.
  Proof.
    intros l; induction l as [|v l IH] using rev_ind.
    - unfold groups_of; simpl. split; [intros k vs []|]. split; [constructor|].
      intros k; split; [intros []|intros [x [[] _]]].
    - rewrite groups_of_snoc. apply group_add_inv; exact IH.
  Qed.

  (* user-level statements about groups_of *)
  Lemma groups_of_group : forall l k vs,
    In (k, vs) (groups_of key keqb l) -> vs = grp l k /\ vs <> [].
  Proof. intros l. apply (groups_of_inv l). Qed.

  Lemma groups_of_labels_NoDup : forall l, NoDup (map fst (groups_of key keqb l)).
  Proof. intros l. apply (groups_of_inv l). Qed.

  Lemma groups_of_label_iff : forall l k,
    In k (map fst (groups_of key keqb l)) <-> exists x, In x l /\ key x = k.
  Proof. intros l. apply (groups_of_inv l). Qed.

  Lemma groups_of_In : forall l x, In x l -> In (key x, grp l (key x)) (groups_of key keqb l).
  Proof.
    intros l x Hx.
    assert (Hk : In (key x) (map fst (groups_of key keqb l))).
    { apply groups_of_label_iff. exists x. split; [exact Hx|reflexivity]. }
    apply in_map_iff in Hk. destruct Hk as [[k vs] [Hk Hin]]. simpl in Hk. subst k.
    destruct (groups_of_group _ _ _ Hin) as [Hvs _]. rewrite <- Hvs. exact Hin.
  Qed.

  (* ---------------------------------------------------------------- sorted_groupby *)
  Variable kleb : K -> K -> bool.
  Hypothesis kleb_total : forall a b, kleb a b = true \/ kleb b a = true.
  Hypothesis kleb_trans : forall a b c, kleb a b = true -> kleb b c = true -> kleb a c = true.
  Hypothesis kleb_antisym : forall a b, kleb a b = true -> kleb b a = true -> a = b.

  (* the order on labels used by sorted_groupby, and its strict version *)
  Definition glab_le (reverse : bool) (a b : K) : Prop :=
    (if reverse then kleb b a else kleb a b) = true.
  Definition glab_lt (reverse : bool) (a b : K) : Prop := glab_le reverse a b /\ a <> b.

  Lemma sorted_groupby_perm : forall reverse l,
    Permutation (sorted_groupby key keqb kleb reverse l) (groups_of key keqb l).
  Proof. intros reverse l. unfold sorted_groupby. apply sort_perm. Qed.

  Lemma sorted_groupby_In : forall reverse l p,
    In p (sorted_groupby key keqb kleb reverse l) <-> In p (groups_of key keqb l).
  Proof. intros reverse l p. unfold sorted_groupby. apply sort_In. Qed.

  Lemma sorted_groupby_group : forall reverse l k vs,
    In (k, vs) (sorted_groupby key keqb kleb reverse l) -> vs = grp l k /\ vs <> [].
  Proof. intros reverse l k vs H. apply sorted_groupby_In in H. apply groups_of_group; exact H. Qed.

  Lemma sorted_groupby_has : forall reverse l x,
    In x l -> In (key x, grp l (key x)) (sorted_groupby key keqb kleb reverse l).
  Proof. intros reverse l x H. apply sorted_groupby_In. apply groups_of_In; exact H. Qed.

  Lemma sorted_groupby_labels_NoDup : forall reverse l,
    NoDup (map fst (sorted_groupby key keqb kleb reverse l)).
  Proof.
    intros reverse l.
    eapply Permutation_NoDup; [|apply groups_of_labels_NoDup].
    apply Permutation_map. apply Permutation_sym. apply sorted_groupby_perm.
  Qed.

  Lemma sorted_groupby_label_iff : forall reverse l k,
    In k (map fst (sorted_groupby key keqb kleb reverse l)) <-> exists x, In x l /\ key x = k.
  Proof.
    intros reverse l k. rewrite <- groups_of_label_iff.
    split; apply Permutation_in; apply Permutation_map;
      [|apply Permutation_sym]; apply sorted_groupby_perm.
  Qed.

  (* labels strictly sorted: increasing for reverse = false, decreasing for reverse = true *)
  Lemma sorted_groupby_sorted : forall reverse l,
    StronglySorted (fun a b => glab_lt reverse (fst a) (fst b))
                   (sorted_groupby key keqb kleb reverse l).
  Proof.
    intros reverse l.
    pose (leb' := fun a b : K * list A =>
                    if reverse then kleb (fst b) (fst a) else kleb (fst a) (fst b)).
    assert (Hs : StronglySorted (lebP leb') (sorted_groupby key keqb kleb reverse l)).
    { unfold sorted_groupby. apply sort_strongly_sorted.
      - intros a b. unfold leb'. destruct reverse; apply kleb_total.
      - intros a b c. unfold leb'. destruct reverse; intros H1 H2.
        + eapply kleb_trans; [exact H2|exact H1].
        + eapply kleb_trans; [exact H1|exact H2]. }
    apply (StronglySorted_strict _ fst) in Hs; [|apply sorted_groupby_labels_NoDup].
    eapply StronglySorted_impl; [|exact Hs].
    intros a b [H1 H2]. split; [|exact H2]. unfold glab_le, lebP, leb' in *.
    destruct reverse; exact H1.
  Qed.

  (* the concatenation of the groups is a permutation of the input *)
  Lemma sorted_groupby_concat : forall reverse l,
    Permutation (concat (map snd (sorted_groupby key keqb kleb reverse l))) l.
  Proof.
    intros reverse l.
    eapply Permutation_trans; [|apply groups_of_concat].
    apply Permutation_concat. apply Permutation_map. apply sorted_groupby_perm.
  Qed.

  Lemma sorted_groupby_nil : forall reverse, sorted_groupby key keqb kleb reverse [] = [].
  Proof. reflexivity. Qed.

  (* glab_lt is the strict part of the (antisymmetric) order glab_le *)
  Lemma glab_lt_not_ge : forall reverse a b, glab_lt reverse a b -> ~ glab_le reverse b a.
  Proof.
    intros reverse a b [Hle Hne] Hge. apply Hne. unfold glab_le in Hle, Hge.
    destruct reverse; [symmetry|]; apply kleb_antisym; assumption.
  Qed.

  Lemma glab_lt_trans : forall reverse a b c,
    glab_lt reverse a b -> glab_lt reverse b c -> glab_lt reverse a c.
  Proof.
    intros reverse a b c Hab Hbc. pose proof (glab_lt_not_ge _ _ _ Hbc) as Hn.
    destruct Hab as [Hab _]. destruct Hbc as [Hbc _]. split.
    - unfold glab_le in *. destruct reverse; eapply kleb_trans; eassumption.
    - intros Heq. subst c. apply Hn. exact Hab.
  Qed.

  (* two groups of the result: the earlier one has the strictly smaller label *)
  Lemma sorted_groupby_order : forall reverse l pre g1 mid g2 post,
    sorted_groupby key keqb kleb reverse l = pre ++ g1 :: mid ++ g2 :: post ->
    glab_lt reverse (fst g1) (fst g2).
  Proof.
    intros reverse l pre g1 mid g2 post Heq.
    pose proof (sorted_groupby_sorted reverse l) as Hs. rewrite Heq in Hs. clear Heq.
    induction pre as [|p pre IH]; simpl in Hs.
    - inversion Hs as [|x r _ Hall]; subst. rewrite Forall_forall in Hall. apply Hall.
      apply in_or_app; right; left; reflexivity.
    - inversion Hs as [|x r Hs' _]; subst. apply IH; exact Hs'.
  Qed.
End GroupFacts.

(* ------------------------------------------------------------------ order instances *)
(* bool : Bool.eqb / bool_leb (False < True) *)
Lemma bool_eqb_spec : forall a b : bool, Bool.eqb a b = true <-> a = b.
Proof. intros a b; apply Bool.eqb_true_iff. Qed.
Lemma bool_leb_total : forall a b, bool_leb a b = true \/ bool_leb b a = true.
Proof. intros [] []; simpl; auto. Qed.
Lemma bool_leb_trans : forall a b c, bool_leb a b = true -> bool_leb b c = true -> bool_leb a c = true.
Proof. intros [] [] []; simpl; auto. Qed.
Lemma bool_leb_antisym : forall a b, bool_leb a b = true -> bool_leb b a = true -> a = b.
Proof. intros [] []; simpl; auto; discriminate. Qed.

Lemma bool_glab_lt_false : forall a b,
  glab_lt bool_leb false a b <-> a = false /\ b = true.
Proof.
  intros a b. unfold glab_lt, glab_le. destruct a, b; simpl; split;
    intros [H1 H2]; try discriminate; try (exfalso; apply H2; reflexivity); auto.
Qed.

(* Z : Z.eqb / Z.leb *)
Lemma Z_eqb_spec : forall a b : Z, Z.eqb a b = true <-> a = b.
Proof. intros a b; apply Z.eqb_eq. Qed.
Lemma Z_leb_total : forall a b, Z.leb a b = true \/ Z.leb b a = true.
Proof. intros a b. rewrite !Z.leb_le. lia. Qed.
Lemma Z_leb_trans : forall a b c, Z.leb a b = true -> Z.leb b c = true -> Z.leb a c = true.
Proof. intros a b c. rewrite !Z.leb_le. lia. Qed.
Lemma Z_leb_antisym : forall a b, Z.leb a b = true -> Z.leb b a = true -> a = b.
Proof. intros a b. rewrite !Z.leb_le. lia. Qed.

Lemma Z_glab_lt_true : forall a b, glab_lt Z.leb true a b <-> (b < a)%Z.
Proof. intros a b. unfold glab_lt, glab_le. rewrite Z.leb_le. lia. Qed.
Lemma Z_glab_lt_false : forall a b, glab_lt Z.leb false a b <-> (a < b)%Z.
Proof. intros a b. unfold glab_lt, glab_le. rewrite Z.leb_le. lia. Qed.

(* string : str_eqb / str_leb.  String.compare is the lexicographic order on the ascii codes;
   transitivity is not in the 8.16 standard library. *)
Lemma ascii_compare_refl : forall a, Ascii.compare a a = Eq.
Proof. intros a. unfold Ascii.compare. apply N.compare_refl. Qed.

Lemma ascii_compare_lt_trans : forall a b c,
  Ascii.compare a b = Lt -> Ascii.compare b c = Lt -> Ascii.compare a c = Lt.
Proof.
  intros a b c. unfold Ascii.compare. rewrite !N.compare_lt_iff. apply N.lt_trans.
Qed.

(* String.compare is lexicographic: the first differing position decides, a proper prefix is
   smaller *)
Lemma string_compare_lex : forall s1 s2,
  String.compare s1 s2 = Lt <->
  (exists c2 r2, s2 = (s1 ++ String c2 r2)%string)
  \/ (exists p c1 r1 c2 r2, s1 = (p ++ String c1 r1)%string /\ s2 = (p ++ String c2 r2)%string
                            /\ (N_of_ascii c1 < N_of_ascii c2)%N).
Proof.
  induction s1 as [|c1 s1 IH]; intros s2; destruct s2 as [|c2 s2]; simpl.
  - split; [discriminate|]. intros [(c & r & H)|(p & a & r & b & r' & H & _)].
    + discriminate H.
    + destruct p; discriminate H.
  - split; [|reflexivity]. intros _. left. exists c2, s2. reflexivity.
  - split; [discriminate|]. intros [(c & r & H)|(p & a & r & b & r' & _ & H & _)].
    + discriminate H.
    + destruct p; discriminate H.
  - destruct (Ascii.compare c1 c2) eqn:E.
    + apply Ascii.compare_eq_iff in E. subst c2. rewrite IH. split.
      * intros [(c & r & H)|(p & a & r & b & r' & H1 & H2 & Hlt)].
        -- left. exists c, r. rewrite H. reflexivity.
        -- right. exists (String c1 p), a, r, b, r'. subst. repeat split; try reflexivity. exact Hlt.
      * intros [(c & r & H)|(p & a & r & b & r' & H1 & H2 & Hlt)].
        -- left. inversion H as [H']. exists c, r. reflexivity.
        -- destruct p as [|c0 p]; simpl in H1, H2.
           ++ inversion H1; inversion H2; subst. exfalso. revert Hlt. apply N.lt_irrefl.
           ++ inversion H1; inversion H2; subst. right. exists p, a, r, b, r'.
              repeat split; try reflexivity. exact Hlt.
    + split; [|reflexivity]. intros _. right.
      exists EmptyString, c1, s1, c2, s2. simpl. repeat split; try reflexivity.
      unfold Ascii.compare in E. apply N.compare_lt_iff in E. exact E.
    + split; [discriminate|]. unfold Ascii.compare in E. apply N.compare_gt_iff in E.
      intros [(c & r & H)|(p & a & r & b & r' & H1 & H2 & Hlt)].
      * inversion H; subst. exfalso. revert E. apply N.lt_irrefl.
      * destruct p as [|c0 p]; simpl in H1, H2; inversion H1; inversion H2; subst.
        -- exfalso. apply (N.lt_irrefl (N_of_ascii a)). eapply N.lt_trans; eassumption.
        -- exfalso. revert E. apply N.lt_irrefl.
Qed.

Lemma string_compare_refl : forall s, String.compare s s = Eq.
Proof.
  induction s as [|c s IH]; simpl; [reflexivity|]. rewrite ascii_compare_refl. exact IH.
Qed.

Lemma string_compare_lt_trans : forall a b c,
  String.compare a b = Lt -> String.compare b c = Lt -> String.compare a c = Lt.
Proof.
  induction a as [|a0 a IH]; intros b c; destruct b as [|b0 b], c as [|c0 c]; simpl;
    try discriminate; try reflexivity.
  destruct (Ascii.compare a0 b0) eqn:E1; destruct (Ascii.compare b0 c0) eqn:E2;
    try discriminate.
  - apply Ascii.compare_eq_iff in E1, E2. subst. rewrite ascii_compare_refl. apply IH.
  - apply Ascii.compare_eq_iff in E1. subst. rewrite E2. reflexivity.
  - apply Ascii.compare_eq_iff in E2. subst. rewrite E1. reflexivity.
  - rewrite (ascii_compare_lt_trans _ _ _ E1 E2). reflexivity.
Qed.

Lemma string_leb_iff : forall a b, String.leb a b = true <-> a = b \/ String.compare a b = Lt.
Proof.
  intros a b. unfold String.leb. destruct (String.compare a b) eqn:E.
  - apply String.compare_eq_iff in E. split; auto.
  - split; auto.
  - split; [discriminate|]. intros [->|H]; [|discriminate].
    rewrite string_compare_refl in E. discriminate.
Qed.

Lemma string_leb_trans : forall a b c,
  String.leb a b = true -> String.leb b c = true -> String.leb a c = true.
Proof.
  intros a b c. rewrite !string_leb_iff. intros [->|H1] [->|H2]; auto.
  right. eapply string_compare_lt_trans; eassumption.
Qed.

Lemma str_eqb_spec : forall a b : string, str_eqb a b = true <-> a = b.
Proof. intros a b; apply String.eqb_eq. Qed.
Lemma str_leb_total : forall a b, str_leb a b = true \/ str_leb b a = true.
Proof. intros a b; apply String.leb_total. Qed.
Lemma str_leb_trans : forall a b c, str_leb a b = true -> str_leb b c = true -> str_leb a c = true.
Proof. intros a b c; apply string_leb_trans. Qed.
Lemma str_leb_antisym : forall a b, str_leb a b = true -> str_leb b a = true -> a = b.
Proof. intros a b; apply String.leb_antisym. Qed.

(* mem reflects In *)
Lemma mem_In : forall x l, mem x l = true <-> In x l.
Proof.
  intros x l; induction l as [|y l IH]; simpl.
  - split; [discriminate|intros []].
  - rewrite orb_true_iff, IH, str_eqb_spec. split; intros [H|H]; auto.
Qed.

Lemma mem_false_iff : forall x l, mem x l = false <-> ~ In x l.
Proof.
  intros x l. rewrite <- mem_In. destruct (mem x l); split; intros H; try congruence.
Qed.

(* sort_names really sorts *)
Lemma sort_names_sorted : forall l, StronglySorted (fun a b => str_leb a b = true) (sort_names l).
Proof. intros l. apply (sort_strongly_sorted str_leb str_leb_total str_leb_trans). Qed.

Lemma sort_names_perm : forall l, Permutation (sort_names l) l.
Proof. intros l. apply sort_perm. Qed.

(* ------------------------------------------------------------------ sub-multisets *)
(* msub a b : a is (a permutation of) a sub-multiset of b.  Used to show that selections made
   from partitioned lists never duplicate an element. *)
Definition msub {A} (a b : list A) : Prop := exists c, Permutation (a ++ c) b.

Lemma msub_refl : forall {A} (a : list A), msub a a.
Proof. intros A a. exists []. rewrite app_nil_r. apply Permutation_refl. Qed.

Lemma msub_nil : forall {A} (b : list A), msub [] b.
Proof. intros A b. exists b. apply Permutation_refl. Qed.

Lemma msub_perm_r : forall {A} (a b b' : list A), msub a b -> Permutation b b' -> msub a b'.
Proof. intros A a b b' [c Hc] HP. exists c. eapply Permutation_trans; eassumption. Qed.

Lemma msub_trans : forall {A} (a b d : list A), msub a b -> msub b d -> msub a d.
Proof.
  intros A a b d [c1 H1] [c2 H2]. exists (c1 ++ c2). rewrite app_assoc.
  eapply Permutation_trans; [apply Permutation_app_tail; exact H1|exact H2].
Qed.

Lemma msub_app : forall {A} (a b c d : list A), msub a b -> msub c d -> msub (a ++ c) (b ++ d).
Proof.
  intros A a b c d [c1 H1] [c2 H2]. exists (c1 ++ c2).
  eapply Permutation_trans; [|apply Permutation_app; [exact H1|exact H2]].
  rewrite <- !app_assoc. apply Permutation_app_head. apply Permutation_app_swap_app.
Qed.

Lemma msub_app_l : forall {A} (a b c : list A), msub a b -> msub a (b ++ c).
Proof.
  intros A a b c H. rewrite <- (app_nil_r a). apply msub_app; [exact H|apply msub_nil].
Qed.

Lemma msub_app_r : forall {A} (a b c : list A), msub a c -> msub a (b ++ c).
Proof.
  intros A a b c H. change a with ([] ++ a). apply msub_app; [apply msub_nil|exact H].
Qed.

Lemma msub_filter : forall {A} (f : A -> bool) (l : list A), msub (filter f l) l.
Proof. intros A f l. exists (filter (fun x => negb (f x)) l). apply filter_perm_split. Qed.

Lemma msub_In : forall {A} (a b : list A) x, msub a b -> In x a -> In x b.
Proof.
  intros A a b x [c Hc] Hx. eapply Permutation_in; [exact Hc|]. apply in_or_app; left; exact Hx.
Qed.

Lemma msub_NoDup : forall {A} (a b : list A), msub a b -> NoDup b -> NoDup a.
Proof.
  intros A a b [c Hc] Hnd.
  assert (H : NoDup (a ++ c)).
  { eapply Permutation_NoDup; [apply Permutation_sym; exact Hc|exact Hnd]. }
  clear Hc Hnd. induction a as [|x a IH]; simpl in *; [constructor|].
  inversion H as [|x' l' Hnin Hnd']; subst. constructor; [|apply IH; exact Hnd'].
  intros Hin. apply Hnin. apply in_or_app; left; exact Hin.
Qed.

Print Assumptions sort_strongly_sorted.
Print Assumptions sort_stable.
Print Assumptions groups_of_inv.
Print Assumptions sorted_groupby_sorted.
Print Assumptions sorted_groupby_concat.
Print Assumptions string_leb_trans.
Print Assumptions string_compare_lex.
