(* CorollaryProofs.v -- the two "corollary" clauses of DESIGN section 6 that were not theorems of their own:
   C11_behaviour (a re-imported statechart runs like the original) and C17_rename_run (the run of a
   statechart after rename_state is the image of the original run).  Nothing new is modelled; the file
   composes IOProofs.C11_dict_roundtrip_eqv / C12_sound, EditProofs.C17_structure / rename_state_sound /
   descendants_for_spec, C17Proofs.C17_equivariance(_queue/_execute) / map_chart_ext and
   C07Proofs.C07_decl_order(_ops) / C07_decl_children_ops / perm_chart_struct / perm_chart_sim.
   The other proof files are used through qualified names (E. IOP. C7. C17.) because of name clashes.
   Every theorem ends with Qed; every Print Assumptions at the end says "Closed under the global context".

   BRIDGES (sections 0-2, 4) -- of independent use
     dict_perm, children_perm_of_lookups   dictionaries with unique keys and the same lookups (children: lookups
                          that are Permutations) are Permutations / children_perm.
     sound_ancestors_iff  E.sound c, no state named "" : In a (ancestors_for c x) <-> E.anc c x a.
     desc_ok_of_sound     E.sound c -> E.no_empty_name c -> C7.desc_ok c     } the two side conditions that C07
     decl_wf_of_sound     E.sound c -> C7.decl_wf c                          } left as hypotheses are DERIVED
                          from EditProofs.sound (so also for every imported / edited chart).
     sound_perm_chart     two sound charts whose _states, _parent, transitions are Permutations are
                          C7.perm_chart (the _children dictionaries follow).  sound_perm_chart_sim: hence a
                          renumbering pi with C7.chart_perm.
     sound_ext            soundness only depends on keys + lookups: a chart with unique keys, the lookups of a
                          sound chart, children lists up to Permutation and no further transition is sound.

   A. C11  (section 3)
     stripped c           strip_state s = s for every state, strip_trans t = t for every transition (the code
                          is in the form the importer produces); stripped_b decides it.
     strip_chart c        c with every state / transition stripped (what IOCorr.roundtrip_ok compares with).
     roundtrip_perm_chart        E.sound c, E.sound c', stripped c, roundtrip_eqv c c' -> perm_chart c c'.
     roundtrip_perm_chart_strip  E.sound c, E.sound c', roundtrip_eqv c c' -> perm_chart (strip_chart c) c'
                          (no hypothesis on the code).  Transitions: perm_by_source (a list is a Permutation
                          of its groups by source) + the per-source equalities of roundtrip_eqv.
     reimport_sound, valid_for_export_sound, strip_chart_sound   soundness of c', c, strip_chart c.
     C11_behaviour        valid_for_export_b c = true -> stripped c -> exists c' pi, the re-import is c',
                          perm_chart c c', chart_perm c c' pi, and for every ctx, listener state, exec, eval, emit
                          that do not look at transition indices (exec (cmap pi cl) = exec cl, same for eval;
                          listener errors do not mention indices) and every sequence of queue / execute_once /
                          execute: ops_outcome pi (run on c) (run on c') from run_equiv states: both succeed with
                          the same macro steps up to pi and related post-states (equal contexts), or both fail
                          with the same error.  C11_behaviour_fresh: from freshly constructed interpreters
                          ("every input history produces the same run"); C11_behaviour_step: one execute_once,
                          decl_outcome.
     C11_behaviour_strip  the same WITHOUT `stripped`, between strip_chart c and c'.
     C11_behaviour_unstripped_refuted   valid_for_export_b c alone does not give "c' runs like c", even for an
                          evaluator that ignores code altogether: witness ws_chart, a transition on the event
                          ' e ' (surrounding blanks); the importer strips event names, so c reacts to ' e ' and
                          c' does not.  DESIGN's `valid` asks for event names without surrounding whitespace
                          (section 8(12)); IOProofs.valid_for_export_b does not.  No new sismic defect.
     GAP (documented, nothing weakened silently): "run (strip_chart c) ~ run c for every evaluator with
       exec (strip cd) = exec cd (and '' = no code), when event names carry no surrounding whitespace".
       This is a statement about the interpreter and a code-normalising map only (no IO); it needs an
       equivariance lemma per interpreter function as in C17Proofs and a trace relation that tolerates the
       calls dropped by '' |-> None.  With it, C11_behaviour_strip gives the general C11_behaviour.

   B. C17  (section 5)
     all_occ_states       every name occurring in a sound chart is a state (so a fresh name does not occur).
     rename_structure     sound c, fields_ok c, no_empty_name c, new <> "", old <> new,
                          rename_state c old new = (c', EOk)  ->  rename_rel: with rho = swap old new (the
                          transposition; = old |-> new on all_occ c) and M = C17.map_chart rho c
                          = E.map_chart (ren old new) c (the two map_chart definitions are convertible):
                          M and c' are sound, perm_chart M c', struct_equiv M c', c_transitions c' =
                          c_transitions M (the index bijection is the identity).  decl_wf / desc_ok of both
                          charts are derived (sound_ext + desc_ok_of_sound), not assumed.
     C17_equivariance_ops C17 equivariance for the operation sequences of C07 (C7.run_ops: queue, execute_once,
                          execute), from C17_equivariance / _queue / _execute.
     C17_rename_run       the hypotheses above + old |-> new monotone on chart_names c; evaluator and
                          listener do not depend on state names for THIS rho (exec (map_call rho cl) = exec cl,
                          emit equivariant) -> for every ops, s closed (configuration / memory inside the
                          chart's names) and s' with ms_equiv (image of s) s':
                          same_outcome (image of the run of c from s) (run of c' from s'):
                          EQUAL results (macro steps with renamed entered / exited lists, the same transition
                          indices, events, sent lists; or the image of the error), post-states ms_equiv
                          (set-like fields up to order; after an error the history memory is not compared --
                          inherited from C07_decl_children_ops), equal listener state and observation trace.
                          Also states perm_chart (C17.map_chart (ren old new) c) c'.
     C17_rename_run_fresh the same from freshly constructed interpreters (no side condition left).
     Hypotheses beyond the task statement: no_empty_name c and new <> "" (needed by rename_state_sound and
     by rho "" = ""); old <> "" is derived.  Nothing refuted, nothing partial.

   C. NON-VACUITY (section 6): evaluator exec1 / eval1 / emit1 (look at nothing).
     ex11_hypotheses, C11_behaviour_instance, ex11_nontrivial (IOProofs.ex_chart: the re-import differs
     from the chart, transitions renumbered 3->2, 0->3 in a computed run), C11_behaviour_strip_instance
     (ws_chart, not stripped), ex17_hypotheses, C17_rename_run_instance, ex17_perm_chart, ex17_nontrivial
     (EditProofs.ex_chart, "A" -> "B": the renamed key sits at the end of the dictionaries, the computed
     runs are images of each other), ex_side_conditions. *)
From Coq Require Import String List Bool ZArith Arith Permutation Lia.
From Sismic Require Import Base Chart Interp Edit IO IOCorr.
Require SismicProofs.SortLib SismicProofs.EditProofs SismicProofs.IOProofs
        SismicProofs.C07Proofs SismicProofs.C17Proofs.
Import ListNotations.
Open Scope string_scope.
Open Scope list_scope.

Module E := SismicProofs.EditProofs.
Module IOP := SismicProofs.IOProofs.
Module C7 := SismicProofs.C07Proofs.
Module C17 := SismicProofs.C17Proofs.

(* ================================================================== 0. dictionaries: keys + lookups *)

(* two dictionaries with unique keys and the same lookups are permutations of each other *)
Lemma dict_perm : forall {V} (d1 d2 : list (name * V)),
  NoDup (map fst d1) -> NoDup (map fst d2) -> (forall k, lookup k d1 = lookup k d2) -> Permutation d1 d2.
Proof.
  intros V d1 d2 N1 N2 H. apply NoDup_Permutation.
  - apply (NoDup_map_inv fst). exact N1.
  - apply (NoDup_map_inv fst). exact N2.
  - intros [k v]. rewrite <- (C7.c7_lookup_In d1 k v N1), <- (C7.c7_lookup_In d2 k v N2), H. reflexivity.
Qed.

(* relation between two entries of _children *)
Definition orel (o1 o2 : option (list name)) : Prop :=
  match o1, o2 with
  | Some l1, Some l2 => Permutation l1 l2
  | None, None => True
  | _, _ => False
  end.

Lemma Forall2_map_self : forall {A B} (R : B -> A -> Prop) (f : A -> B) (l : list A),
  (forall x, In x l -> R (f x) x) -> Forall2 R (map f l) l.
Proof.
  intros A B R f l; induction l as [|x l IH]; intros H; cbn [map]; constructor.
  - apply H. left; reflexivity.
  - apply IH. intros y Hy. apply H. right; exact Hy.
Qed.

Lemma children_perm_of_lookups : forall (d1 d2 : list (option name * list name)),
  NoDup (map fst d1) -> NoDup (map fst d2) ->
  (forall k, orel (olookup k d1) (olookup k d2)) -> C7.children_perm d1 d2.
Proof.
  intros d1 d2 N1 N2 H.
  set (val := fun k : option name => match olookup k d1 with Some l => l | None => [] end).
  exists (map (fun kv : option name * list name => (fst kv, val (fst kv))) d2). split.
  - assert (Nm : NoDup (map fst (map (fun kv : option name * list name => (fst kv, val (fst kv))) d2))).
    { rewrite map_map. cbn [fst]. exact N2. }
    apply NoDup_Permutation.
    + apply (NoDup_map_inv fst). exact N1.
    + apply (NoDup_map_inv fst). exact Nm.
    + intros [k l]. split.
      * intros Hin. apply (C7.c7_olookup_In d1 k l N1) in Hin. specialize (H k). rewrite Hin in H.
        destruct (olookup k d2) as [l2|] eqn:E2; [|destruct H].
        apply (C7.c7_olookup_In d2 k l2 N2) in E2. apply in_map_iff. exists (k, l2).
        split; [|exact E2]. cbn [fst]. unfold val. rewrite Hin. reflexivity.
      * intros Hin. apply in_map_iff in Hin. destruct Hin as [[k2 l2] [Heq Hin]]. cbn [fst] in Heq.
        inversion Heq; subst k l. clear Heq. apply (C7.c7_olookup_In d2 k2 l2 N2) in Hin.
        specialize (H k2). rewrite Hin in H. unfold val.
        destruct (olookup k2 d1) as [l1|] eqn:E1; [|destruct H].
        apply (C7.c7_olookup_In d1 k2 l1 N1). exact E1.
  - apply Forall2_map_self. intros [k l2] Hin. cbn [fst snd]. split; [reflexivity|].
    apply (C7.c7_olookup_In d2 k l2 N2) in Hin. specialize (H k). rewrite Hin in H. unfold val.
    destruct (olookup k d1) as [l1|]; [exact H|destruct H].
Qed.

(* ================================================================== 1. sound charts satisfy the side conditions of C07 *)

(* what ancestors_for lists is an ancestor (no hypothesis) ... *)
Lemma ancestors_fuel_anc : forall c f x a,
  In a (ancestors_fuel c f (parent_for c x)) -> E.anc c x a.
Proof.
  intros c f; induction f as [|f IH]; intros x a H; [destruct H|].
  rewrite E.ancestors_fuel_S in H. destruct (truthy (parent_for c x)) as [q|] eqn:Et; [|destruct H].
  apply E.truthy_Some in Et. destruct Et as [Ep _]. apply IOP.parent_for_Some in Ep.
  destruct H as [<-|H]; [apply E.anc_parent; exact Ep|].
  eapply E.anc_step; [exact Ep|]. apply IH. exact H.
Qed.

(* ... and in a sound chart without a state named "" every ancestor is listed, provided the fuel suffices *)
Lemma anc_ancestors_fuel : forall c, E.sound c -> E.no_empty_name c ->
  forall x a, E.anc c x a -> forall f,
  length (ancestors_fuel c f (parent_for c x)) < f -> In a (ancestors_fuel c f (parent_for c x)).
Proof.
  intros c HS Hne x a Ha. induction Ha as [x a Hp|x q a Hp Ha IH]; intros f Hlen.
  - destruct f as [|f]; [inversion Hlen|]. rewrite E.ancestors_fuel_S.
    rewrite (E.parent_for_lookup _ _ _ Hp). rewrite E.truthy_nonempty; [left; reflexivity|].
    intros ->. destruct (E.sd_pc c HS _ _ Hp) as [Hq _]. specialize (Hq "" eq_refl).
    unfold E.no_empty_name in Hne. congruence.
  - destruct f as [|f]; [inversion Hlen|]. rewrite E.ancestors_fuel_S in *.
    rewrite (E.parent_for_lookup _ _ _ Hp) in *.
    assert (Hq : q <> "").
    { intros ->. destruct (E.sd_pc c HS _ _ Hp) as [Hq _]. specialize (Hq "" eq_refl).
      unfold E.no_empty_name in Hne. congruence. }
    rewrite (E.truthy_nonempty q Hq) in *. right. apply IH. cbn [length] in Hlen. lia.
Qed.

Lemma sound_parent_keys : forall c, E.sound c ->
  forall n q, lookup n (c_parent c) = Some (Some q) -> lookup q (c_parent c) <> None.
Proof.
  intros c HS n q Hp. destruct (E.sd_pc c HS _ _ Hp) as [Hq _]. apply (E.sd_pkeys c HS). apply Hq. reflexivity.
Qed.

Lemma sound_ancestors_iff : forall c, E.sound c -> E.no_empty_name c ->
  forall x a, In a (ancestors_for c x) <-> E.anc c x a.
Proof.
  intros c HS Hne x a. split; [apply ancestors_fuel_anc|].
  intros Ha. unfold ancestors_for. apply (anc_ancestors_fuel c HS Hne x a Ha).
  destruct (E.sd_acyc c HS) as [rank Hr].
  assert (Hx : lookup x (c_parent c) <> None).
  { destruct (E.anc_inv _ _ _ Ha) as [q [Hq _]]. congruence. }
  exact (E.ancestors_short c rank Hr (sound_parent_keys c HS) x Hx).
Qed.

Theorem desc_ok_of_sound : forall c, E.sound c -> E.no_empty_name c -> C7.desc_ok c.
Proof.
  intros c HS Hne a. split; [apply E.descendants_NoDup; exact HS|].
  intros d. rewrite (E.descendants_for_spec c HS), (sound_ancestors_iff c HS Hne). reflexivity.
Qed.

Theorem decl_wf_of_sound : forall c, E.sound c -> C7.decl_wf c.
Proof.
  intros c HS. constructor.
  - apply (E.sd_nd_states c HS).
  - apply (E.sd_nd_parent c HS).
  - apply (E.sd_nd_children c HS).
  - intros n m Hn Hm.
    apply (E.In_lookup _ _ _ (E.sd_nd_parent c HS)) in Hn. apply (E.In_lookup _ _ _ (E.sd_nd_parent c HS)) in Hm.
    destruct (E.sd_pc c HS _ _ Hn) as [_ [l [Hl Hcn]]]. destruct (E.sd_pc c HS _ _ Hm) as [_ [l' [Hl' Hcm]]].
    rewrite Hl in Hl'. inversion Hl'; subst l'. clear Hl'.
    pose proof (E.sd_top c HS l Hl) as Hlen.
    apply E.count_occ_one_In in Hcn. apply E.count_occ_one_In in Hcm.
    destruct l as [|x [|y l]]; [destruct Hcn| |cbn [length] in Hlen; lia].
    destruct Hcn as [<-|[]]. destruct Hcm as [<-|[]]. reflexivity.
  - intros p ch Hin. apply E.sound_child_parent in Hin; [|exact HS].
    assert (Hs : has_state c ch = true) by (apply (E.sd_pkeys c HS); congruence).
    apply E.has_state_Some in Hs. destruct Hs as [s Hs]. unfold state_for. congruence.
Qed.

(* ================================================================== 2. two sound charts with the same states, parents, transitions *)

Lemma sound_children_iff : forall c, E.sound c -> forall k l, olookup k (c_children c) = Some l ->
  forall ch, In ch l <-> lookup ch (c_parent c) = Some k.
Proof.
  intros c HS k l Hl ch. split.
  - apply (E.sd_cp c HS _ _ _ Hl).
  - intros Hp. destruct (E.sd_pc c HS _ _ Hp) as [_ [l' [Hl' Hc]]]. rewrite Hl in Hl'. inversion Hl'; subst l'.
    apply E.count_occ_one_In. exact Hc.
Qed.

Lemma has_state_keys_perm : forall a b, Permutation (map fst (c_states a)) (map fst (c_states b)) ->
  forall n, has_state a n = has_state b n.
Proof.
  intros a b HP n. destruct (has_state a n) eqn:Ea; symmetry.
  - apply E.has_state_In. apply E.has_state_In in Ea. eapply Permutation_in; eassumption.
  - destruct (has_state b n) eqn:Eb; [|reflexivity]. apply E.has_state_In in Eb.
    apply (Permutation_in _ (Permutation_sym HP)) in Eb. apply E.has_state_In in Eb. congruence.
Qed.

Lemma sound_children_perm : forall a b, E.sound a -> E.sound b ->
  (forall n, has_state a n = has_state b n) ->
  (forall k, lookup k (c_parent a) = lookup k (c_parent b)) ->
  C7.children_perm (c_children a) (c_children b).
Proof.
  intros a b Sa Sb Hh Hp. apply children_perm_of_lookups;
    [apply (E.sd_nd_children a Sa)|apply (E.sd_nd_children b Sb)|].
  intros k. unfold orel.
  destruct (olookup k (c_children a)) as [la|] eqn:Ea, (olookup k (c_children b)) as [lb|] eqn:Eb.
  - apply NoDup_Permutation.
    + apply (E.sound_children_NoDup a Sa _ _ Ea).
    + apply (E.sound_children_NoDup b Sb _ _ Eb).
    + intros ch. rewrite (sound_children_iff a Sa k la Ea), (sound_children_iff b Sb k lb Eb), Hp. reflexivity.
  - destruct k as [n|].
    + assert (H1 : has_state a n = true) by (apply (E.sd_ckeys a Sa); congruence).
      rewrite Hh in H1. apply (E.sd_ckeys b Sb) in H1. congruence.
    + apply (E.sd_ctop b Sb). exact Eb.
  - destruct k as [n|].
    + assert (H1 : has_state b n = true) by (apply (E.sd_ckeys b Sb); congruence).
      rewrite <- Hh in H1. apply (E.sd_ckeys a Sa) in H1. congruence.
    + apply (E.sd_ctop a Sa). exact Ea.
  - exact I.
Qed.

Theorem sound_perm_chart : forall a b, E.sound a -> E.sound b ->
  Permutation (c_states a) (c_states b) -> Permutation (c_parent a) (c_parent b) ->
  Permutation (c_transitions a) (c_transitions b) -> C7.perm_chart a b.
Proof.
  intros a b Sa Sb Ps Pp Pt. constructor; try assumption.
  apply sound_children_perm; try assumption.
  - apply has_state_keys_perm. apply Permutation_map. exact Ps.
  - intros k. symmetry. apply C7.c7_lookup_perm; [apply (E.sd_nd_parent a Sa)|exact Pp].
Qed.

(* a sound chart and a permuted sound chart: there is a bijection of transition indices under which the
   hypotheses of C07_decl_order / C07_decl_order_ops hold *)
Theorem sound_perm_chart_sim : forall a b, E.sound a -> E.no_empty_name a -> E.sound b -> E.no_empty_name b ->
  C7.perm_chart a b -> exists pi, C7.chart_perm a b pi.
Proof.
  intros a b Sa Na Sb Nb HP.
  apply C7.perm_chart_sim; [exact HP|apply decl_wf_of_sound; exact Sa| |]; apply desc_ok_of_sound; assumption.
Qed.

(* ================================================================== 3. C11_behaviour *)

(* the code of c is already in the form the importer produces: stripping changes nothing
   (strip_state / strip_trans of IOCorr: code and event names stripped, '' read as None) *)
Definition stripped (c : chart) : Prop :=
  (forall k s, In (k, s) (c_states c) -> strip_state s = s) /\
  (forall t, In t (c_transitions c) -> strip_trans t = t).

Definition stripped_b (c : chart) : bool :=
  forallb (fun kv : name * state => state_eqb (strip_state (snd kv)) (snd kv)) (c_states c)
  && forallb (fun t => trans_eqb (strip_trans t) t) (c_transitions c).

Lemma stripped_b_sound : forall c, stripped_b c = true -> stripped c.
Proof.
  intros c H. unfold stripped_b in H. apply andb_true_iff in H. destruct H as [H1 H2].
  rewrite forallb_forall in H1, H2. split.
  - intros k s Hin. apply IOP.state_eqb_eq. apply (H1 (k, s) Hin).
  - intros t Hin. apply IOP.trans_eqb_eq. apply (H2 t Hin).
Qed.

(* ---- a list of transitions is a permutation of its groups by source ---- *)
Lemma filter_split_perm : forall {A} (p : A -> bool) (l : list A),
  Permutation l (filter p l ++ filter (fun x => negb (p x)) l).
Proof.
  intros A p l; induction l as [|x l IH]; cbn [filter]; [constructor|].
  destruct (p x); cbn [negb app].
  - constructor. exact IH.
  - apply Permutation_cons_app. exact IH.
Qed.

Lemma filter_src_other : forall n m l, m <> n ->
  filter (IOP.from_src m) (filter (fun t => negb (IOP.from_src n t)) l) = filter (IOP.from_src m) l.
Proof.
  intros n m l Hmn; induction l as [|t l IH]; cbn [filter]; [reflexivity|].
  destruct (IOP.from_src n t) eqn:En; cbn [negb filter].
  - unfold IOP.from_src in *. apply E.seqb_eq in En.
    destruct (E.seqbP (t_source t) m) as [Em|_]; [congruence|exact IH].
  - destruct (IOP.from_src m t); rewrite IH; reflexivity.
Qed.

Lemma flat_map_ext_in : forall {A B} (f g : A -> list B) l,
  (forall x, In x l -> f x = g x) -> flat_map f l = flat_map g l.
Proof.
  intros A B f g l; induction l as [|x l IH]; intros H; cbn [flat_map]; [reflexivity|].
  rewrite (H x (or_introl eq_refl)), IH; [reflexivity|]. intros y Hy. apply H. right; exact Hy.
Qed.

Lemma perm_by_source : forall ns, NoDup ns -> forall l,
  (forall t, In t l -> In (t_source t) ns) ->
  Permutation l (flat_map (fun n => filter (IOP.from_src n) l) ns).
Proof.
  intros ns Hnd; induction Hnd as [|n ns Hn Hnd IH]; intros l Hsrc.
  - destruct l as [|t l]; [constructor|]. destruct (Hsrc t (or_introl eq_refl)).
  - cbn [flat_map]. eapply Permutation_trans; [apply (filter_split_perm (IOP.from_src n))|].
    apply Permutation_app_head.
    set (l2 := filter (fun t => negb (IOP.from_src n t)) l).
    assert (H2 : forall t, In t l2 -> In (t_source t) ns).
    { intros t Ht. apply filter_In in Ht. destruct Ht as [Ht Hp].
      destruct (Hsrc t Ht) as [E|Hin]; [|exact Hin]. exfalso.
      unfold IOP.from_src in Hp. rewrite <- E, E.seqb_refl in Hp. discriminate. }
    eapply Permutation_trans; [apply (IH l2 H2)|].
    rewrite (flat_map_ext_in (fun m => filter (IOP.from_src m) l2) (fun m => filter (IOP.from_src m) l));
      [apply Permutation_refl|].
    intros m Hm. apply filter_src_other. intros ->. contradiction.
Qed.

(* ---- (1) the re-import of a stripped chart is the same chart declared in another order ---- *)
Lemma map_id_in' : forall {A} (f : A -> A) l, (forall x, In x l -> f x = x) -> map f l = l.
Proof.
  intros A f l; induction l as [|x l IH]; intros H; cbn [map]; [reflexivity|].
  rewrite (H x (or_introl eq_refl)), IH; [reflexivity|]. intros y Hy. apply H. right; exact Hy.
Qed.

Lemma roundtrip_states_perm : forall c c', stripped c -> IOP.roundtrip_eqv c c' ->
  Permutation (c_states c) (c_states c').
Proof.
  intros c c' [Hs _] R. pose proof (IOP.re_states c c' R) as HP.
  rewrite map_id_in' in HP; [exact HP|]. intros [k s] Hin. cbn [fst snd]. rewrite (Hs k s Hin). reflexivity.
Qed.

Lemma roundtrip_has_state : forall c c', IOP.roundtrip_eqv c c' -> forall n, has_state c n = has_state c' n.
Proof.
  intros c c' R. apply has_state_keys_perm. pose proof (IOP.re_states c c' R) as HP.
  apply (Permutation_map fst) in HP. rewrite map_map in HP. cbn [fst] in HP. exact HP.
Qed.

Theorem roundtrip_perm_chart : forall c c', E.sound c -> E.sound c' -> stripped c ->
  IOP.roundtrip_eqv c c' -> C7.perm_chart c c'.
Proof.
  intros c c' S S' Hstr R. apply sound_perm_chart; try assumption.
  - apply roundtrip_states_perm; assumption.
  - apply (IOP.re_parent c c' R).
  - set (ns := map fst (c_states c)).
    assert (Hnd : NoDup ns) by apply (E.sd_nd_states c S).
    assert (H1 : forall t, In t (c_transitions c) -> In (t_source t) ns).
    { intros t Ht. destruct (E.sd_trans c S t Ht) as [[s [Hs _]] _]. apply E.has_state_In.
      apply E.has_state_Some. exists s. exact Hs. }
    assert (H2 : forall t, In t (c_transitions c') -> In (t_source t) ns).
    { intros t Ht. destruct (E.sd_trans c' S' t Ht) as [[s [Hs _]] _]. apply E.has_state_In.
      rewrite (roundtrip_has_state c c' R). apply E.has_state_Some. exists s. exact Hs. }
    eapply Permutation_trans; [apply (perm_by_source ns Hnd _ H1)|].
    eapply Permutation_trans; [|apply Permutation_sym, (perm_by_source ns Hnd _ H2)].
    rewrite (flat_map_ext_in (fun n => filter (IOP.from_src n) (c_transitions c))
                             (fun n => filter (IOP.from_src n) (c_transitions c')));
      [apply Permutation_refl|].
    intros n Hn. apply E.has_state_In in Hn. pose proof (IOP.re_trans c c' R n Hn) as Ht.
    unfold transitions_from in Ht. unfold IOP.from_src. rewrite <- Ht.
    symmetry. apply map_id_in'. intros t Hin. apply filter_In in Hin. apply (proj2 Hstr). apply Hin.
Qed.

(* ---- the hypothesis of C11_dict_roundtrip gives soundness of both charts ---- *)
Lemma valid_for_export_sound : forall c, IOP.valid_for_export_b c = true -> E.sound c /\ E.no_empty_name c.
Proof.
  intros c H. unfold IOP.valid_for_export_b in H.
  do 4 (apply andb_true_iff in H; destruct H as [H _]).
  apply andb_true_iff in H; destruct H as [Hisb Hne]. apply negb_true_iff in Hne.
  split; [|exact Hne].
  unfold import_sound_b in Hisb. do 3 (apply andb_true_iff in Hisb; destruct Hisb as [Hisb _]).
  apply E.sound_b_sound; assumption.
Qed.

Lemma reimport_sound : forall c d c', IOP.roundtrip_eqv c c' -> import_pipeline d = Some c' -> E.sound c'.
Proof.
  intros c d c' R Hp. apply IOP.import_sound_sound; [apply (IOP.C12_sound d); exact Hp|].
  split.
  - destruct (IOP.import_pipeline_inv _ _ Hp) as [d' [_ [Hd _]]]. apply (IOP.import_from_dict_fields d'). exact Hd.
  - intros k s' Hl. apply E.lookup_In in Hl.
    apply (Permutation_in _ (Permutation_sym (IOP.re_states c c' R))) in Hl.
    apply in_map_iff in Hl. destruct Hl as [[k0 s] [Heq _]]. cbn [fst snd] in Heq. inversion Heq; subst.
    cbn [strip_state s_initial]. destruct (s_kind s); try discriminate.
    destruct (s_initial s) as [[|a i]|]; cbn; discriminate.
Qed.

(* C11_behaviour.  For a statechart c that export_to_dict/import_from_dict carry over (valid_for_export_b)
   and whose code is already stripped, the re-imported chart c' exists, is c declared in another order
   (perm_chart), and there is a renumbering pi of the transitions under which, for EVERY evaluator and
   listener that do not look at transition indices, every sequence of queue / execute_once / execute calls
   gives the same outcome on c and on c' from related states (ops_outcome: both succeed with the same macro
   steps up to pi -- same events, transitions, entered / exited / sent lists -- and end in related states
   with the same contexts, or both fail with the same error). *)
Theorem C11_behaviour : forall c,
  IOP.valid_for_export_b c = true -> stripped c ->
  exists c' pi,
    import_pipeline (export_to_dict c) = Some c' /\ C7.perm_chart c c' /\ C7.chart_perm c c' pi /\
    forall (ctx X : Type) (exec : call ctx -> ctx -> option (ctx * list event))
           (eval : call ctx -> ctx -> option bool) (emit : Z -> meta -> X -> X * option err),
      (forall cl x, exec (C7.cmap pi cl) x = exec cl x) ->
      (forall cl x, eval (C7.cmap pi cl) x = eval cl x) ->
      (forall t m x e, snd (emit t m x) = Some e -> C7.emap pi e = e) ->
      forall ops (s1 s2 : mstate ctx X),
        C7.run_equiv pi s1 s2 ->
        C7.ops_outcome pi (C7.run_ops ctx X exec eval emit c ops s1) (C7.run_ops ctx X exec eval emit c' ops s2).
Proof.
  intros c Hv Hstr. destruct (IOP.C11_dict_roundtrip_eqv c Hv) as [c' [Hp R]].
  destruct (valid_for_export_sound c Hv) as [S Hne].
  pose proof (reimport_sound c _ c' R Hp) as S'.
  assert (Hne' : E.no_empty_name c').
  { unfold E.no_empty_name. rewrite <- (roundtrip_has_state c c' R). exact Hne. }
  pose proof (roundtrip_perm_chart c c' S S' Hstr R) as HP.
  destruct (sound_perm_chart_sim c c' S Hne S' Hne' HP) as [pi Hpi].
  exists c', pi. split; [exact Hp|]. split; [exact HP|]. split; [exact Hpi|].
  intros ctx X exec eval emit Hexec Heval Hemit ops s1 s2 HS.
  apply C7.C07_decl_order_ops; assumption.
Qed.

(* the statement for runs of freshly constructed interpreters: "every input history produces the same run" *)
Corollary C11_behaviour_fresh : forall c,
  IOP.valid_for_export_b c = true -> stripped c ->
  exists c' pi,
    import_pipeline (export_to_dict c) = Some c' /\
    forall (ctx X : Type) (exec : call ctx -> ctx -> option (ctx * list event))
           (eval : call ctx -> ctx -> option bool) (emit : Z -> meta -> X -> X * option err),
      (forall cl x, exec (C7.cmap pi cl) x = exec cl x) ->
      (forall cl x, eval (C7.cmap pi cl) x = eval cl x) ->
      (forall t m x e, snd (emit t m x) = Some e -> C7.emap pi e = e) ->
      forall ops id now ignore (c0 : ctx) (x : X),
        C7.ops_outcome pi
          (C7.run_ops ctx X exec eval emit c ops (mkM (init_istate id now ignore c0) x []))
          (C7.run_ops ctx X exec eval emit c' ops (mkM (init_istate id now ignore c0) x [])).
Proof.
  intros c Hv Hstr. destruct (C11_behaviour c Hv Hstr) as [c' [pi [Hp [_ [_ H]]]]].
  exists c', pi. split; [exact Hp|]. intros ctx X exec eval emit He Hv' Hm ops id now ignore c0 x.
  apply H; try assumption. apply C7.run_equiv_init.
Qed.

(* ---- without the hypothesis `stripped`: the re-import is strip_chart c declared in another order ---- *)
(* the statechart with every code field / event name stripped and '' read as None: what IOCorr.roundtrip_ok
   compares the re-import with *)
Definition strip_chart (c : chart) : chart :=
  mkChart (c_name c) (keep_opt (c_description c)) (keep_opt (c_preamble c))
          (map (fun kv : name * state => (fst kv, strip_state (snd kv))) (c_states c))
          (c_parent c) (c_children c) (map strip_trans (c_transitions c)).

Lemma has_state_strip : forall c n, has_state (strip_chart c) n = has_state c n.
Proof.
  intros c n. unfold has_state, strip_chart. cbn [c_states]. rewrite E.lookup_mapv.
  destruct (lookup n (c_states c)); reflexivity.
Qed.

Lemma lookup_strip : forall c k s', lookup k (c_states (strip_chart c)) = Some s' ->
  exists s, lookup k (c_states c) = Some s /\ s' = strip_state s.
Proof.
  intros c k s' H. unfold strip_chart in H. cbn [c_states] in H. rewrite E.lookup_mapv in H.
  destruct (lookup k (c_states c)) as [s|]; [|discriminate]. cbn in H. inversion H. eauto.
Qed.

Lemma strip_initial : forall s i, s_initial (strip_state s) = Some i -> s_initial s = Some i.
Proof.
  intros s i H. cbn [strip_state s_initial] in H. destruct (s_kind s); try discriminate.
  apply IOP.keep_opt_Some. exact H.
Qed.

Lemma strip_memory : forall s m, s_memory (strip_state s) = Some m -> s_memory s = Some m.
Proof.
  intros s m H. cbn [strip_state s_memory] in H. destruct (is_history (s_kind s)); [|discriminate].
  apply IOP.keep_opt_Some. exact H.
Qed.

Theorem strip_chart_sound : forall c, E.sound c -> E.sound (strip_chart c).
Proof.
  intros c S. pose proof (has_state_strip c) as Hh.
  constructor.
  - unfold strip_chart. cbn [c_states]. rewrite E.keys_mapv. apply (E.sd_nd_states c S).
  - apply (E.sd_nd_parent c S).
  - apply (E.sd_nd_children c S).
  - intros k s' Hl. destruct (lookup_strip c k s' Hl) as [s [Hs ->]]. apply (E.sd_keyname c S k s Hs).
  - intros n. rewrite Hh. apply (E.sd_pkeys c S).
  - intros n. rewrite Hh. apply (E.sd_ckeys c S).
  - apply (E.sd_ctop c S).
  - intros n p Hl. destruct (E.sd_pc c S n p Hl) as [H1 H2]. split; [|exact H2].
    intros q Hq. rewrite Hh. apply H1. exact Hq.
  - apply (E.sd_cp c S).
  - apply (E.sd_top c S).
  - apply (E.sd_acyc c S).
  - intros t Hin. unfold strip_chart in Hin. cbn [c_transitions] in Hin. apply in_map_iff in Hin.
    destruct Hin as [t0 [<- Hin]]. destruct (E.sd_trans c S t0 Hin) as [[s [H1 H2]] H3]. split.
    + exists (strip_state s). split; [|exact H2]. unfold strip_chart. cbn [c_states strip_trans t_source].
      rewrite E.lookup_mapv, H1. reflexivity.
    + intros tg Htg. cbn [strip_trans t_target] in Htg. apply IOP.keep_opt_Some in Htg. rewrite Hh. apply H3. exact Htg.
  - intros k s' Hl. destruct (lookup_strip c k s' Hl) as [s [Hs ->]]. destruct (E.sd_refs c S k s Hs) as [H1 H2].
    split; intros x Hx; rewrite Hh; [apply H1, strip_initial|apply H2, strip_memory]; exact Hx.
  - intros k s' i Hl Hk Hi. destruct (lookup_strip c k s' Hl) as [s [Hs ->]].
    change (s_kind (strip_state s)) with (s_kind s) in Hk.
    assert (Hi' : truthy (s_initial s) = Some i).
    { cbn [strip_state s_initial] in Hi. rewrite Hk in Hi. rewrite IOP.truthy_keep_opt in Hi. exact Hi. }
    destruct (E.sd_vinit c S k s i Hs Hk Hi') as [H1 H2]. split; [rewrite Hh; exact H1|exact H2].
  - intros k s' m Hl Hk Hm. destruct (lookup_strip c k s' Hl) as [s [Hs ->]].
    change (s_kind (strip_state s)) with (s_kind s) in Hk.
    destruct (E.sd_vmem c S k s m Hs Hk (strip_memory s m Hm)) as [H1 [H2 H3]].
    split; [exact H1|]. split; [rewrite Hh; exact H2|exact H3].
Qed.

Theorem roundtrip_perm_chart_strip : forall c c', E.sound c -> E.sound c' ->
  IOP.roundtrip_eqv c c' -> C7.perm_chart (strip_chart c) c'.
Proof.
  intros c c' S S' R. apply sound_perm_chart; [apply strip_chart_sound; exact S|exact S'| | |].
  - apply (IOP.re_states c c' R).
  - apply (IOP.re_parent c c' R).
  - unfold strip_chart at 1. cbn [c_transitions].
    set (ns := map fst (c_states c)).
    assert (Hnd : NoDup ns) by apply (E.sd_nd_states c S).
    assert (H1 : forall t, In t (map strip_trans (c_transitions c)) -> In (t_source t) ns).
    { intros t Ht. apply in_map_iff in Ht. destruct Ht as [t0 [<- Ht]].
      destruct (E.sd_trans c S t0 Ht) as [[s [Hs _]] _]. apply E.has_state_In.
      apply E.has_state_Some. exists s. exact Hs. }
    assert (H2 : forall t, In t (c_transitions c') -> In (t_source t) ns).
    { intros t Ht. destruct (E.sd_trans c' S' t Ht) as [[s [Hs _]] _]. apply E.has_state_In.
      rewrite (roundtrip_has_state c c' R). apply E.has_state_Some. exists s. exact Hs. }
    eapply Permutation_trans; [apply (perm_by_source ns Hnd _ H1)|].
    eapply Permutation_trans; [|apply Permutation_sym, (perm_by_source ns Hnd _ H2)].
    rewrite (flat_map_ext_in (fun n => filter (IOP.from_src n) (map strip_trans (c_transitions c)))
                             (fun n => filter (IOP.from_src n) (c_transitions c')));
      [apply Permutation_refl|].
    intros n Hn. apply E.has_state_In in Hn. pose proof (IOP.re_trans c c' R n Hn) as Ht.
    unfold transitions_from in Ht. unfold IOP.from_src. rewrite <- Ht.
    apply (IOP.filter_map_comm strip_trans (fun t => str_eqb (t_source t) n)).
Qed.

(* C11_behaviour, general form: for EVERY statechart that the round trip carries over, the re-import runs
   like strip_chart c (up to declaration order), for every evaluator / listener blind to transition indices.
   What remains between this and "runs like c" is a statement about the interpreter alone:
   run (strip_chart c) ~ run c for evaluators with exec (strip cd) = exec cd -- not proved here, and false
   without a hypothesis on event names (C11_behaviour_unstripped_refuted below). *)
Theorem C11_behaviour_strip : forall c,
  IOP.valid_for_export_b c = true ->
  exists c' pi,
    import_pipeline (export_to_dict c) = Some c' /\ C7.perm_chart (strip_chart c) c' /\
    C7.chart_perm (strip_chart c) c' pi /\
    forall (ctx X : Type) (exec : call ctx -> ctx -> option (ctx * list event))
           (eval : call ctx -> ctx -> option bool) (emit : Z -> meta -> X -> X * option err),
      (forall cl x, exec (C7.cmap pi cl) x = exec cl x) ->
      (forall cl x, eval (C7.cmap pi cl) x = eval cl x) ->
      (forall t m x e, snd (emit t m x) = Some e -> C7.emap pi e = e) ->
      forall ops (s1 s2 : mstate ctx X),
        C7.run_equiv pi s1 s2 ->
        C7.ops_outcome pi (C7.run_ops ctx X exec eval emit (strip_chart c) ops s1)
                          (C7.run_ops ctx X exec eval emit c' ops s2).
Proof.
  intros c Hv. destruct (IOP.C11_dict_roundtrip_eqv c Hv) as [c' [Hp R]].
  destruct (valid_for_export_sound c Hv) as [S Hne].
  pose proof (reimport_sound c _ c' R Hp) as S'.
  assert (Hne' : E.no_empty_name c').
  { unfold E.no_empty_name. rewrite <- (roundtrip_has_state c c' R). exact Hne. }
  assert (HneS : E.no_empty_name (strip_chart c)).
  { unfold E.no_empty_name. rewrite has_state_strip. exact Hne. }
  pose proof (roundtrip_perm_chart_strip c c' S S' R) as HP.
  destruct (sound_perm_chart_sim (strip_chart c) c' (strip_chart_sound c S) HneS S' Hne' HP) as [pi Hpi].
  exists c', pi. split; [exact Hp|]. split; [exact HP|]. split; [exact Hpi|].
  intros ctx X exec eval emit Hexec Heval Hemit ops s1 s2 HS.
  apply C7.C07_decl_order_ops; assumption.
Qed.

(* one execute_once, in the form of C07_decl_order (decl_outcome) *)
Corollary C11_behaviour_step : forall c,
  IOP.valid_for_export_b c = true -> stripped c ->
  exists c' pi,
    import_pipeline (export_to_dict c) = Some c' /\
    forall (ctx X : Type) (exec : call ctx -> ctx -> option (ctx * list event))
           (eval : call ctx -> ctx -> option bool) (emit : Z -> meta -> X -> X * option err),
      (forall cl x, exec (C7.cmap pi cl) x = exec cl x) ->
      (forall cl x, eval (C7.cmap pi cl) x = eval cl x) ->
      (forall t m x e, snd (emit t m x) = Some e -> C7.emap pi e = e) ->
      forall fuel now (s1 s2 : mstate ctx X),
        C7.run_equiv pi s1 s2 ->
        C7.decl_outcome pi (execute_once ctx X exec eval emit c fuel now s1)
                           (execute_once ctx X exec eval emit c' fuel now s2).
Proof.
  intros c Hv Hstr. destruct (C11_behaviour c Hv Hstr) as [c' [pi [Hp [_ [Hpi _]]]]].
  exists c', pi. split; [exact Hp|]. intros ctx X exec eval emit He Hv' Hm fuel now s1 s2 HS.
  apply C7.C07_decl_order; assumption.
Qed.

(* ================================================================== 4. soundness only depends on keys + lookups *)

Lemma orel_sym_some : forall o1 o2, orel o1 o2 -> (o1 <> None <-> o2 <> None).
Proof. intros [l1|] [l2|] H; cbn in H; try destruct H; split; congruence. Qed.

(* b has the lookups of the sound chart a (in any key order), children lists up to permutation and no
   transition that a does not have: b is sound *)
Theorem sound_ext : forall a b, E.sound a ->
  NoDup (map fst (c_states b)) -> NoDup (map fst (c_parent b)) -> NoDup (map fst (c_children b)) ->
  (forall k, lookup k (c_states b) = lookup k (c_states a)) ->
  (forall k, lookup k (c_parent b) = lookup k (c_parent a)) ->
  (forall k, orel (olookup k (c_children a)) (olookup k (c_children b))) ->
  (forall t, In t (c_transitions b) -> In t (c_transitions a)) ->
  E.sound b.
Proof.
  intros a b S N1 N2 N3 Hs Hp Hc Ht.
  assert (Hh : forall n, has_state b n = has_state a n) by (intros n; unfold has_state; rewrite Hs; reflexivity).
  assert (Hkids : forall k, Permutation (children_for a k) (children_for b k)).
  { intros k. unfold children_for. specialize (Hc (Some k)).
    destruct (olookup (Some k) (c_children a)) as [la|], (olookup (Some k) (c_children b)) as [lb|]; cbn in Hc;
      [exact Hc|destruct Hc|destruct Hc|constructor]. }
  assert (Hpf : forall k, parent_for b k = parent_for a k) by (intros k; unfold parent_for; rewrite Hp; reflexivity).
  constructor; try assumption.
  - intros k s. rewrite Hs. apply (E.sd_keyname a S).
  - intros n. rewrite Hp, Hh. apply (E.sd_pkeys a S).
  - intros n. rewrite Hh, <- (orel_sym_some _ _ (Hc (Some n))). apply (E.sd_ckeys a S).
  - apply (orel_sym_some _ _ (Hc None)). apply (E.sd_ctop a S).
  - intros n p Hl. rewrite Hp in Hl. destruct (E.sd_pc a S n p Hl) as [H1 [l [Hl1 Hcnt]]]. split.
    + intros q Hq. rewrite Hh. apply H1. exact Hq.
    + specialize (Hc p). rewrite Hl1 in Hc. destruct (olookup p (c_children b)) as [lb|]; [|destruct Hc].
      exists lb. split; [reflexivity|]. cbn in Hc.
      rewrite <- (proj1 (Permutation_count_occ string_dec l lb) Hc n). exact Hcnt.
  - intros k l ch Hl Hin. specialize (Hc k). rewrite Hl in Hc.
    destruct (olookup k (c_children a)) as [la|] eqn:Ea; [|destruct Hc]. cbn in Hc.
    rewrite Hp. apply (E.sd_cp a S k la ch Ea). apply (Permutation_in _ (Permutation_sym Hc)). exact Hin.
  - intros l Hl. specialize (Hc None). rewrite Hl in Hc.
    destruct (olookup None (c_children a)) as [la|] eqn:Ea; [|destruct Hc]. cbn in Hc.
    rewrite <- (Permutation_length Hc). apply (E.sd_top a S la Ea).
  - destruct (E.sd_acyc a S) as [rank Hr]. exists rank. intros n q Hl. rewrite Hp in Hl. apply (Hr n q Hl).
  - intros t Hin. destruct (E.sd_trans a S t (Ht t Hin)) as [[s [H1 H2]] H3]. split.
    + exists s. rewrite Hs. auto.
    + intros tg Htg. rewrite Hh. apply H3. exact Htg.
  - intros k s Hl. rewrite Hs in Hl. destruct (E.sd_refs a S k s Hl) as [H1 H2].
    split; intros x Hx; rewrite Hh; auto.
  - intros k s i Hl Hk Hi. rewrite Hs in Hl. destruct (E.sd_vinit a S k s i Hl Hk Hi) as [H1 H2].
    split; [rewrite Hh; exact H1|]. apply (Permutation_in _ (Hkids k)). exact H2.
  - intros k s m Hl Hk Hm. rewrite Hs in Hl. destruct (E.sd_vmem a S k s m Hl Hk Hm) as [H1 [H2 [p [H3 H4]]]].
    split; [exact H1|]. split; [rewrite Hh; exact H2|]. exists p. split; [rewrite Hpf; exact H3|].
    apply (Permutation_in _ (Hkids p)). exact H4.
Qed.

(* ================================================================== 5. C17_rename_run *)

(* ---- every name that occurs in a sound chart is a state ---- *)
Lemma in_olist : forall o (n : name), In n (C17.olist o) -> o = Some n.
Proof. intros [x|] n H; cbn in H; [destruct H as [<-|[]]; reflexivity|destruct H]. Qed.

Lemma all_occ_states : forall c, E.sound c -> forall n, In n (C17.all_occ c) -> has_state c n = true.
Proof.
  intros c S n H. unfold C17.all_occ in H.
  apply in_app_or in H. destruct H as [H|H]; [|apply in_app_or in H; destruct H as [H|H];
    [|apply in_app_or in H; destruct H as [H|H]]].
  - apply in_concat in H. destruct H as [l [Hl Hn]]. apply in_map_iff in Hl. destruct Hl as [[k s] [<- Hin]].
    cbn [fst snd] in Hn. apply (E.In_lookup _ _ _ (E.sd_nd_states c S)) in Hin.
    destruct (E.sd_refs c S k s Hin) as [Hi Hm].
    destruct Hn as [<-|[<-|Hn]].
    + apply E.has_state_Some. exists s. exact Hin.
    + rewrite (E.sd_keyname c S k s Hin). apply E.has_state_Some. exists s. exact Hin.
    + apply in_app_or in Hn. destruct Hn as [Hn|Hn]; apply in_olist in Hn; auto.
  - apply in_concat in H. destruct H as [l [Hl Hn]]. apply in_map_iff in Hl. destruct Hl as [[k p] [<- Hin]].
    cbn [fst snd] in Hn. apply (E.In_lookup _ _ _ (E.sd_nd_parent c S)) in Hin.
    destruct Hn as [<-|Hn].
    + apply (E.sd_pkeys c S). congruence.
    + apply in_olist in Hn. destruct (E.sd_pc c S k p Hin) as [H1 _]. apply H1. exact Hn.
  - apply in_concat in H. destruct H as [l [Hl Hn]]. apply in_map_iff in Hl. destruct Hl as [[k v] [<- Hin]].
    cbn [fst snd] in Hn. apply (C7.c7_olookup_In _ k v (E.sd_nd_children c S)) in Hin.
    apply in_app_or in Hn. destruct Hn as [Hn|Hn].
    + apply in_olist in Hn. subst k. apply (E.sd_ckeys c S). congruence.
    + apply (E.sound_child_state c S k v n Hin Hn).
  - apply in_concat in H. destruct H as [l [Hl Hn]]. apply in_map_iff in Hl. destruct Hl as [t [<- Hin]].
    destruct (E.sd_trans c S t Hin) as [[s [H1 _]] H2].
    destruct Hn as [<-|Hn].
    + apply E.has_state_Some. exists s. exact H1.
    + apply in_olist in Hn. apply H2. exact Hn.
Qed.

(* ---- the transposition old <-> new extends old |-> new off the fresh name ---- *)
Lemma swap_ren : forall old new x, x <> new -> C17.swap old new x = E.ren old new x.
Proof.
  intros old new x Hx. unfold C17.swap, E.ren, str_eqb.
  destruct (String.eqb_spec x old); [reflexivity|]. destruct (String.eqb_spec x new); [congruence|reflexivity].
Qed.

Lemma swap_injective : forall a b, FinFun.Injective (C17.swap a b).
Proof. intros a b x y. apply C17.swap_inj. Qed.

Lemma oswap_injective : forall a b, FinFun.Injective (option_map (C17.swap a b)).
Proof.
  intros a b [x|] [y|] H; cbn in H; try discriminate; [|reflexivity].
  inversion H as [H1]. apply C17.swap_inj in H1. congruence.
Qed.

Lemma remove_first_perm : forall x l, In x l -> Permutation l (remove_first x l ++ [x]).
Proof.
  intros x l; induction l as [|y l IH]; intros H; [destruct H|]. cbn [remove_first].
  destruct (E.seqbP x y) as [->|Hn].
  - apply Permutation_cons_append.
  - cbn [app]. constructor. apply IH. destruct H as [H|H]; [congruence|exact H].
Qed.

Lemma to_end_perm : forall x l, Permutation l (E.to_end x l).
Proof.
  intros x l. unfold E.to_end. destruct (mem x l) eqn:Em; [|apply Permutation_refl].
  apply remove_first_perm. apply SortLib.mem_In. exact Em.
Qed.

(* ---- structure: the renamed chart is the image chart declared in another order ---- *)
Record rename_rel (c c' : chart) (old new : name) : Prop := mkRR {
  rr_old : has_state c old = true;
  rr_new : ~ In new (C17.all_occ c);
  rr_old_ne : old <> "";
  rr_image : C17.map_chart (C17.swap old new) c = E.map_chart (E.ren old new) c;
  rr_sound_image : E.sound (C17.map_chart (C17.swap old new) c);
  rr_sound' : E.sound c';
  rr_ne' : E.no_empty_name c';
  rr_perm : C7.perm_chart (C17.map_chart (C17.swap old new) c) c';
  rr_struct : C7.struct_equiv (C17.map_chart (C17.swap old new) c) c';
  rr_trans : c_transitions c' = c_transitions (C17.map_chart (C17.swap old new) c)
}.

Theorem rename_structure : forall c old new c',
  E.sound c -> E.fields_ok c -> E.no_empty_name c -> new <> "" -> old <> new ->
  rename_state c old new = (c', EOk) -> rename_rel c c' old new.
Proof.
  intros c old new c' S F Hne Hnew Hon Hr.
  destruct (E.C17_structure c old new c' S F Hon Hr) as [Hold [Hfresh [_ [_ [_ [Htr [Hst [Hpa [Hch _]]]]]]]]].
  destruct (E.rename_state_sound c old new c' S F Hne Hr) as [S' [_ Hne']]. specialize (Hne' Hnew).
  assert (Hocc : ~ In new (C17.all_occ c)).
  { intros Hin. rewrite (all_occ_states c S new Hin) in Hfresh. discriminate. }
  assert (Himg : C17.map_chart (C17.swap old new) c = E.map_chart (E.ren old new) c).
  { change (E.map_chart (E.ren old new) c) with (C17.map_chart (E.ren old new) c).
    apply C17.map_chart_ext. intros n Hn. apply swap_ren. intros ->. contradiction. }
  assert (Holdne : old <> "").
  { intros ->. unfold E.no_empty_name in Hne. congruence. }
  set (M := C17.map_chart (C17.swap old new) c) in *.
  assert (Horel : forall k, orel (olookup k (c_children c')) (olookup k (c_children M))).
  { intros k. rewrite Hch, Himg. destruct (olookup k (c_children (E.map_chart (E.ren old new) c))) as [l|]; cbn;
      [apply Permutation_sym, to_end_perm|exact I]. }
  assert (SM : E.sound M).
  { apply (sound_ext c' M S').
    - unfold M, C17.map_chart, C17.map_kv. cbn [c_states]. rewrite map_map. cbn [fst].
      rewrite <- (map_map fst (C17.swap old new)). apply FinFun.Injective_map_NoDup;
        [apply swap_injective|apply (E.sd_nd_states c S)].
    - unfold M, C17.map_chart, C17.map_kv. cbn [c_parent]. rewrite map_map. cbn [fst].
      rewrite <- (map_map fst (C17.swap old new)). apply FinFun.Injective_map_NoDup;
        [apply swap_injective|apply (E.sd_nd_parent c S)].
    - unfold M, C17.map_chart. cbn [c_children]. rewrite map_map. cbn [fst].
      rewrite <- (map_map fst (option_map (C17.swap old new))). apply FinFun.Injective_map_NoDup;
        [apply oswap_injective|apply (E.sd_nd_children c S)].
    - intros k. rewrite Himg. symmetry. apply Hst.
    - intros k. rewrite Himg. symmetry. apply Hpa.
    - exact Horel.
    - intros t Hin. rewrite Htr, <- Himg. exact Hin. }
  assert (HneM : E.no_empty_name M).
  { unfold E.no_empty_name, has_state. rewrite Himg, <- Hst. exact Hne'. }
  assert (HP : C7.perm_chart M c').
  { apply sound_perm_chart; try assumption.
    - apply dict_perm; [apply (E.sd_nd_states M SM)|apply (E.sd_nd_states c' S')|].
      intros k. rewrite Himg. symmetry. apply Hst.
    - apply dict_perm; [apply (E.sd_nd_parent M SM)|apply (E.sd_nd_parent c' S')|].
      intros k. rewrite Himg. symmetry. apply Hpa.
    - rewrite Htr, <- Himg. apply Permutation_refl. }
  constructor; try assumption.
  - apply C7.perm_chart_struct; [exact HP|apply decl_wf_of_sound; exact SM| |]; apply desc_ok_of_sound; assumption.
  - rewrite Htr, <- Himg. reflexivity.
Qed.

(* ---- C17 equivariance for the operation sequences of C07 (queue / execute_once / execute, monadic) ---- *)
Definition map_ops_out (rho : name -> name) (r : list macrostep + err) : list macrostep + err :=
  match r with inl ms => inl (map (C17.map_macro rho) ms) | inr e => inr (C17.map_err rho e) end.

Section EquiOps.
  Variable rho : name -> name.
  Hypothesis rho_inj : forall a b, rho a = rho b -> a = b.
  Hypothesis rho_empty : rho "" = "".
  Variable sc : chart.
  Hypothesis rho_mono : forall a b, C17.inN sc a -> C17.inN sc b -> str_leb (rho a) (rho b) = str_leb a b.
  Variables ctx X : Type.
  Variable exec : call ctx -> ctx -> option (ctx * list event).
  Variable eval : call ctx -> ctx -> option bool.
  Variable emit : Z -> meta -> X -> X * option err.
  Hypothesis exec_indep : forall c x, exec (C17.map_call rho c) x = exec c x.
  Hypothesis eval_indep : forall c x, eval (C17.map_call rho c) x = eval c x.
  Hypothesis emit_equi : forall t m x,
      emit t (C17.map_meta rho m) x = (fst (emit t m x), option_map (C17.map_err rho) (snd (emit t m x))).

  Notation mp := (C17.map_mstate rho ctx X X (fun x => x)).
  Notation sc' := (C17.map_chart rho sc).

  (* the image of an outcome of run_ops *)
  Definition map_run (r : mstate ctx X * (list macrostep + err)) : mstate ctx X * (list macrostep + err) :=
    (mp (fst r), map_ops_out rho (snd r)).

  Lemma equi_run_op : forall o s, C17.closed sc ctx X s ->
    C7.run_op ctx X exec eval emit sc' o (mp s) = map_run (C7.run_op ctx X exec eval emit sc o s)
    /\ C17.closed sc ctx X (fst (C7.run_op ctx X exec eval emit sc o s)).
  Proof.
    intros o s Hc. destruct o as [e|fuel now|fuel now]; unfold C7.run_op, map_run.
    - destruct (C17.C17_equivariance_queue rho sc ctx X X (fun x => x) e s Hc) as [Eq Hc'].
      unfold bind. rewrite Eq.
      assert (Hq : queue ctx X e s = (fst (queue ctx X e s), inl tt)) by reflexivity.
      rewrite Hq. cbn [fst snd ret map_ops_out map]. split; [reflexivity|exact Hc'].
    - destruct (C17.C17_equivariance rho rho_inj rho_empty sc rho_mono ctx X X exec exec eval eval emit emit
                  (fun x => x) exec_indep eval_indep emit_equi fuel now s Hc) as [Eq Hc'].
      unfold bind. rewrite Eq.
      destruct (execute_once ctx X exec eval emit sc fuel now s) as [s1 [m|e]]; cbn [fst snd] in *.
      + cbn [C17.map_outcome]. destruct m as [m|]; cbn [option_map ret fst snd map_ops_out map];
          (split; [reflexivity|exact Hc']).
      + cbn [C17.map_outcome map_ops_out]. split; [reflexivity|exact Hc'].
    - destruct (C17.C17_equivariance_execute rho rho_inj rho_empty sc rho_mono ctx X X exec exec eval eval emit emit
                  (fun x => x) exec_indep eval_indep emit_equi fuel now s Hc) as [Eq Hc'].
      rewrite Eq. split; [|exact Hc'].
      destruct (execute ctx X exec eval emit sc fuel now s) as [s1 [m|e]]; reflexivity.
  Qed.

  Theorem C17_equivariance_ops : forall ops s, C17.closed sc ctx X s ->
    C7.run_ops ctx X exec eval emit sc' ops (mp s) = map_run (C7.run_ops ctx X exec eval emit sc ops s)
    /\ C17.closed sc ctx X (fst (C7.run_ops ctx X exec eval emit sc ops s)).
  Proof.
    induction ops as [|o ops IH]; intros s Hc.
    - cbn [C7.run_ops]. unfold ret, map_run. cbn. split; [reflexivity|exact Hc].
    - cbn [C7.run_ops]. unfold bind at 1 3 5. destruct (equi_run_op o s Hc) as [Eo Hc1]. rewrite Eo.
      unfold map_run at 1.
      destruct (C7.run_op ctx X exec eval emit sc o s) as [s1 [a|e]]; cbn [fst snd map_ops_out] in *.
      + unfold bind. destruct (IH s1 Hc1) as [Er Hc2]. rewrite Er. unfold map_run.
        destruct (C7.run_ops ctx X exec eval emit sc ops s1) as [s2 [b|e]]; cbn [fst snd map_ops_out ret] in *.
        * rewrite map_app. split; [reflexivity|exact Hc2].
        * split; [reflexivity|exact Hc2].
      + unfold map_run. cbn [fst snd map_ops_out]. split; [reflexivity|exact Hc1].
  Qed.
End EquiOps.

(* C17_rename_run.  c sound (with the two representation facts of EditProofs), rename_state c old new
   succeeds with old <> new, new <> "", and old |-> new is order preserving on the names the interpreter
   compares (chart_names c).  Let rho be the transposition old <-> new (it coincides with old |-> new on
   every name that occurs in c, because new is fresh, and it is a global injection fixing "").
   Then for every evaluator and listener that do not depend on state names (for THIS rho) and every
   sequence of queue / execute_once / execute calls: the run of the renamed chart c' from any state
   ms_equiv to the rho-image of s is the rho-image of the run of c from s -- the same result (macro steps
   with entered / exited lists renamed, the SAME transition indices, events and sent lists, or the image of
   the error), post-states related by ms_equiv (set-like fields up to order; after an error the history
   memory is not compared), the same listener state and the same observation trace (image). *)
Theorem C17_rename_run : forall c old new c',
  E.sound c -> E.fields_ok c -> E.no_empty_name c -> new <> "" -> old <> new ->
  rename_state c old new = (c', EOk) ->
  (forall a b, C17.inN c a -> C17.inN c b ->
     str_leb (E.ren old new a) (E.ren old new b) = str_leb a b) ->
  let rho := C17.swap old new in
  (forall a, In a (C17.all_occ c) -> rho a = E.ren old new a) /\
  C7.perm_chart (C17.map_chart (E.ren old new) c) c' /\
  forall (ctx X : Type) (exec : call ctx -> ctx -> option (ctx * list event))
         (eval : call ctx -> ctx -> option bool) (emit : Z -> meta -> X -> X * option err),
    (forall cl x, exec (C17.map_call rho cl) x = exec cl x) ->
    (forall cl x, eval (C17.map_call rho cl) x = eval cl x) ->
    (forall t m x, emit t (C17.map_meta rho m) x
                   = (fst (emit t m x), option_map (C17.map_err rho) (snd (emit t m x)))) ->
    forall ops (s s' : mstate ctx X),
      C17.closed c ctx X s ->
      C7.ms_equiv (C17.map_mstate rho ctx X X (fun x => x) s) s' ->
      C7.same_outcome (map_run rho ctx X (C7.run_ops ctx X exec eval emit c ops s))
                      (C7.run_ops ctx X exec eval emit c' ops s').
Proof.
  intros c old new c' S F Hne Hnew Hon Hr Hmono rho.
  destruct (rename_structure c old new c' S F Hne Hnew Hon Hr)
    as [Hold Hfresh Holdne Himg SM S' Hne' HP HSE Htr].
  assert (Hag : forall a, In a (C17.all_occ c) -> rho a = E.ren old new a).
  { intros a Ha. apply swap_ren. intros ->. contradiction. }
  split; [exact Hag|]. split.
  { change (C17.map_chart (E.ren old new) c) with (E.map_chart (E.ren old new) c). rewrite <- Himg. exact HP. }
  intros ctx X exec eval emit Hexec Heval Hemit ops s s' Hc Heq.
  assert (Hm : forall a b, C17.inN c a -> C17.inN c b -> str_leb (rho a) (rho b) = str_leb a b).
  { intros a b Ha Hb. rewrite !Hag by (apply C17.chart_names_occ; assumption). apply Hmono; assumption. }
  destruct (C17_equivariance_ops rho (C17.swap_inj old new) (C17.swap_empty old new Holdne Hnew) c Hm
              ctx X exec eval emit Hexec Heval Hemit ops s Hc) as [Eq _].
  rewrite <- Eq.
  apply (C7.C07_decl_children_ops ctx X exec eval emit (C17.map_chart rho c) c' HSE Htr). exact Heq.
Qed.

(* runs of freshly constructed interpreters: the run of the renamed chart is the image of the run of c *)
Corollary C17_rename_run_fresh : forall c old new c',
  E.sound c -> E.fields_ok c -> E.no_empty_name c -> new <> "" -> old <> new ->
  rename_state c old new = (c', EOk) ->
  (forall a b, C17.inN c a -> C17.inN c b ->
     str_leb (E.ren old new a) (E.ren old new b) = str_leb a b) ->
  let rho := C17.swap old new in
  forall (ctx X : Type) (exec : call ctx -> ctx -> option (ctx * list event))
         (eval : call ctx -> ctx -> option bool) (emit : Z -> meta -> X -> X * option err),
    (forall cl x, exec (C17.map_call rho cl) x = exec cl x) ->
    (forall cl x, eval (C17.map_call rho cl) x = eval cl x) ->
    (forall t m x, emit t (C17.map_meta rho m) x
                   = (fst (emit t m x), option_map (C17.map_err rho) (snd (emit t m x)))) ->
    forall ops id now ignore (c0 : ctx) (x : X),
      C7.same_outcome
        (map_run rho ctx X (C7.run_ops ctx X exec eval emit c ops (mkM (init_istate id now ignore c0) x [])))
        (C7.run_ops ctx X exec eval emit c' ops (mkM (init_istate id now ignore c0) x [])).
Proof.
  intros c old new c' S F Hne Hnew Hon Hr Hmono rho ctx X exec eval emit He Hv Hm ops id now ignore c0 x.
  destruct (C17_rename_run c old new c' S F Hne Hnew Hon Hr Hmono) as [_ [_ H]].
  apply (H ctx X exec eval emit He Hv Hm ops); [apply C17.closed_init|].
  rewrite C17.map_mstate_init. split; [apply C7.hs_equiv_refl|split; reflexivity].
Qed.

(* ================================================================== 6. non-vacuity and the limits of C11_behaviour *)

(* an evaluator and a listener that look at nothing (neither code, nor names, nor indices): they satisfy
   every evaluator hypothesis of this file *)
Definition ev (n : name) : event := mkEvent External n [].
Definition exec1 (c : call nat) (x : nat) : option (nat * list event) := Some (S x, []).
Definition eval1 (c : call nat) (x : nat) : option bool := Some true.
Definition emit1 (t : Z) (m : meta) (x : nat) : nat * option err := (S x, None).
Definition init1 : mstate nat nat := mkM (init_istate 0 0 false 0) 0 [].

(* transition index, entered and exited states of every micro step of every macro step *)
Definition shape (r : list macrostep + err) : list (list (option nat * list name * list name)) + err :=
  match r with
  | inl ms => inl (map (fun m : macrostep => map (fun s => (ms_trans s, ms_entered s, ms_exited s)) (snd m)) ms)
  | inr e => inr e
  end.

(* ---- A. C11_behaviour on IOProofs.ex_chart (11 states, orthogonal + history, 4 transitions) ---- *)
Example ex11_hypotheses : IOP.valid_for_export_b IOP.ex_chart = true /\ stripped IOP.ex_chart.
Proof. split; [exact IOP.ex_valid|apply stripped_b_sound; vm_compute; reflexivity]. Qed.

Example C11_behaviour_instance :
  exists c' pi,
    import_pipeline (export_to_dict IOP.ex_chart) = Some c' /\
    forall ops,
      C7.ops_outcome pi (C7.run_ops nat nat exec1 eval1 emit1 IOP.ex_chart ops init1)
                        (C7.run_ops nat nat exec1 eval1 emit1 c' ops init1).
Proof.
  destruct (C11_behaviour_fresh IOP.ex_chart (proj1 ex11_hypotheses) (proj2 ex11_hypotheses)) as [c' [pi [Hp H]]].
  exists c', pi. split; [exact Hp|]. intros ops.
  apply (H nat nat exec1 eval1 emit1); try reflexivity. intros t m x e He. discriminate He.
Qed.

(* the instance is not trivial: the re-imported chart declares children and transitions in another order,
   and on a concrete history the two runs differ exactly by the renumbering of the transitions *)
Definition ex11' : chart :=
  Eval vm_compute in match import_pipeline (export_to_dict IOP.ex_chart) with Some c => c | None => IOP.ex_chart end.
Definition ops11 : list C7.op := [C7.OStep 20 0; C7.OStep 20 1; C7.OQueue (ev "back"); C7.OStep 20 2; C7.OStep 20 3].

Example ex11_nontrivial :
  import_pipeline (export_to_dict IOP.ex_chart) = Some ex11' /\ chart_eqb IOP.ex_chart ex11' = false /\
  map t_source (c_transitions IOP.ex_chart) = ["par"; "s1"; "s1"; "s1"] /\
  map t_source (c_transitions ex11') = ["s1"; "s1"; "s1"; "par"] /\
  shape (snd (C7.run_ops nat nat exec1 eval1 emit1 IOP.ex_chart ops11 init1))
  = inl [[(None, ["root"], []); (None, ["s1"], [])];
         [(Some 3, ["par"], ["s1"]); (None, ["7"; "r1"], [])];
         [(Some 0, ["par"; "7"], ["7"; "r1"; "par"]); (None, ["r1"], [])]] /\
  shape (snd (C7.run_ops nat nat exec1 eval1 emit1 ex11' ops11 init1))
  = inl [[(None, ["root"], []); (None, ["s1"], [])];
         [(Some 2, ["par"], ["s1"]); (None, ["7"; "r1"], [])];
         [(Some 3, ["par"; "7"], ["7"; "r1"; "par"]); (None, ["r1"], [])]].
Proof. vm_compute. repeat split; reflexivity. Qed.

(* ---- the hypothesis `stripped` cannot simply be replaced by an evaluator hypothesis ----
   valid_for_export_b puts no condition on whitespace.  A transition whose EVENT NAME carries surrounding
   whitespace is re-imported with the stripped name (datadict.py strips `event`), so the original reacts to
   the event ' e ' and the re-import does not -- for an evaluator that ignores code altogether, hence
   satisfies "exec (strip cd) = exec cd".  (DESIGN's `valid` asks for event names without surrounding
   whitespace, section 8(12); the decidable valid_for_export_b of IOProofs does not.) *)
Definition ws_state (n : name) (k : kind) (i : option name) : name * state :=
  (n, mkState n k i None None None [] [] []).
Definition ws_chart : chart :=
  mkChart "ws" None None
    [ws_state "root" KCompound (Some "a"); ws_state "a" KBasic None; ws_state "b" KBasic None]
    [("root", None); ("a", Some "root"); ("b", Some "root")]
    [(None, ["root"]); (Some "root", ["a"; "b"]); (Some "a", []); (Some "b", [])]
    [mkTrans "a" (Some "b") (Some " e ") None None 0 [] [] []].
Definition ws_chart' : chart :=
  Eval vm_compute in match import_pipeline (export_to_dict ws_chart) with Some c => c | None => ws_chart end.
Definition ws_ops : list C7.op := [C7.OStep 20 0; C7.OQueue (ev " e "); C7.OStep 20 1].

(* which micro steps fired a transition *)
Definition fired_ms (ms : list macrostep) : list (list bool) :=
  map (fun m : macrostep => map (fun s => match ms_trans s with Some _ => true | None => false end) (snd m)) ms.

Lemma fired_macsmap : forall pi ms, fired_ms (C7.macsmap pi ms) = fired_ms ms.
Proof.
  intros pi ms. unfold fired_ms, C7.macsmap. rewrite map_map. apply map_ext. intros [t l]. cbn [fst snd].
  rewrite map_map. apply map_ext. intros [e [i|] en ex se]; reflexivity.
Qed.

Lemma ws_run : exists s1 m1 s2 m2,
  C7.run_ops nat nat exec1 eval1 emit1 ws_chart ws_ops init1 = (s1, inl m1) /\
  C7.run_ops nat nat exec1 eval1 emit1 ws_chart' ws_ops init1 = (s2, inl m2) /\
  fired_ms m1 = [[false; false]; [true]] /\ fired_ms m2 = [[false; false]; [false]].
Proof. do 4 eexists. vm_compute. repeat split; reflexivity. Qed.

Theorem C11_behaviour_unstripped_refuted :
  exists c c' ops,
    IOP.valid_for_export_b c = true /\ import_pipeline (export_to_dict c) = Some c' /\
    forall pi, ~ C7.ops_outcome pi (C7.run_ops nat nat exec1 eval1 emit1 c ops init1)
                                   (C7.run_ops nat nat exec1 eval1 emit1 c' ops init1).
Proof.
  exists ws_chart, ws_chart', ws_ops. split; [vm_compute; reflexivity|]. split; [vm_compute; reflexivity|].
  intros pi H. destruct ws_run as [s1 [m1 [s2 [m2 [E1 [E2 [F1 F2]]]]]]]. rewrite E1, E2 in H.
  unfold C7.ops_outcome in H. destruct H as [_ ->]. rewrite fired_macsmap, F1 in F2. discriminate F2.
Qed.

(* the general form applies to this chart although it is not stripped: its re-import runs like
   strip_chart ws_chart (whose transition waits for "e") on every history *)
Example C11_behaviour_strip_instance :
  stripped_b ws_chart = false /\
  map t_event (c_transitions (strip_chart ws_chart)) = [Some "e"] /\
  exists c' pi,
    import_pipeline (export_to_dict ws_chart) = Some c' /\
    forall ops,
      C7.ops_outcome pi (C7.run_ops nat nat exec1 eval1 emit1 (strip_chart ws_chart) ops init1)
                        (C7.run_ops nat nat exec1 eval1 emit1 c' ops init1).
Proof.
  split; [vm_compute; reflexivity|]. split; [vm_compute; reflexivity|].
  assert (Hv : IOP.valid_for_export_b ws_chart = true) by (vm_compute; reflexivity).
  destruct (C11_behaviour_strip ws_chart Hv) as [c' [pi [Hp [_ [_ H]]]]].
  exists c', pi. split; [exact Hp|]. intros ops.
  apply (H nat nat exec1 eval1 emit1); try reflexivity; [intros t m x e He; discriminate He|].
  apply C7.run_equiv_init.
Qed.

(* ---- B. C17_rename_run on EditProofs.ex_chart (10 states, orthogonal + history, internal transitions),
        renaming the compound state "A" (parent of the history state, source of an internal transition) ---- *)
Definition ren_chart : chart := Eval vm_compute in fst (rename_state E.ex_chart "A" "B").

Example ex17_hypotheses :
  E.sound E.ex_chart /\ E.fields_ok E.ex_chart /\ E.no_empty_name E.ex_chart /\
  rename_state E.ex_chart "A" "B" = (ren_chart, EOk) /\
  (forall a b, C17.inN E.ex_chart a -> C17.inN E.ex_chart b ->
     str_leb (E.ren "A" "B" a) (E.ren "A" "B" b) = str_leb a b).
Proof.
  destruct E.ex_einv as [S [N F]]. repeat (split; [assumption|]).
  split; [vm_compute; reflexivity|]. apply C17.mono_check_sound. vm_compute. reflexivity.
Qed.

Example C17_rename_run_instance : forall ops,
  C7.same_outcome (map_run (C17.swap "A" "B") nat nat (C7.run_ops nat nat exec1 eval1 emit1 E.ex_chart ops init1))
                  (C7.run_ops nat nat exec1 eval1 emit1 ren_chart ops init1).
Proof.
  intros ops. destruct ex17_hypotheses as [S [F [N [Hr Hm]]]].
  apply (C17_rename_run_fresh E.ex_chart "A" "B" ren_chart S F N); try assumption; try discriminate; reflexivity.
Qed.

Example ex17_perm_chart : C7.perm_chart (C17.map_chart (E.ren "A" "B") E.ex_chart) ren_chart.
Proof.
  destruct ex17_hypotheses as [S [F [N [Hr Hm]]]].
  apply (C17_rename_run E.ex_chart "A" "B" ren_chart S F N); try assumption; discriminate.
Qed.

Definition ops17 : list C7.op :=
  [C7.OStep 20 0; C7.OQueue (ev "go"); C7.OStep 20 1; C7.OQueue (ev "ping"); C7.OStep 20 2;
   C7.OQueue (ev "par"); C7.OQueue (ev "swap"); C7.ORun 20 3; C7.OQueue (ev "back"); C7.OStep 20 4].

(* not trivial: the dictionaries of the renamed chart are ordered differently from those of the image chart
   (the renamed key sits at the end), the run fires an internal transition of the renamed state (index 2),
   leaves and re-enters it through its history state *)
Example ex17_nontrivial :
  chart_eqb (C17.map_chart (E.ren "A" "B") E.ex_chart) ren_chart = false /\
  children_for ren_chart "root" = ["P"; "B"] /\
  shape (snd (C7.run_ops nat nat exec1 eval1 emit1 E.ex_chart ops17 init1))
  = inl [[(None, ["root"], []); (None, ["A"], []); (None, ["a1"], [])];
         [(Some 0, ["a2"], ["a1"])]; [(Some 2, [], [])];
         [(Some 3, ["P"], ["a2"; "A"]); (None, ["R1"; "R2"], []); (None, ["r1a"], [])];
         [(Some 6, ["R2"], ["r1a"; "R1"]); (None, ["R1"], []); (None, ["r1a"], [])];
         [(Some 4, ["A"; "H"], ["r1a"; "R1"; "R2"; "P"]); (None, ["a2"], ["H"])]] /\
  shape (snd (C7.run_ops nat nat exec1 eval1 emit1 ren_chart ops17 init1))
  = inl [[(None, ["root"], []); (None, ["B"], []); (None, ["a1"], [])];
         [(Some 0, ["a2"], ["a1"])]; [(Some 2, [], [])];
         [(Some 3, ["P"], ["a2"; "B"]); (None, ["R1"; "R2"], []); (None, ["r1a"], [])];
         [(Some 6, ["R2"], ["r1a"; "R1"]); (None, ["R1"], []); (None, ["r1a"], [])];
         [(Some 4, ["B"; "H"], ["r1a"; "R1"; "R2"; "P"]); (None, ["a2"], ["H"])]].
Proof. vm_compute. repeat split; reflexivity. Qed.

(* sound charts satisfy the side conditions of C07 (decl_wf, desc_ok) -- instance *)
Example ex_side_conditions : C7.decl_wf E.ex_chart /\ C7.desc_ok E.ex_chart.
Proof.
  destruct E.ex_einv as [S [N F]]. split; [apply decl_wf_of_sound|apply desc_ok_of_sound]; assumption.
Qed.

Print Assumptions C11_behaviour.
Print Assumptions C11_behaviour_fresh.
Print Assumptions C11_behaviour_strip.
Print Assumptions C11_behaviour_step.
Print Assumptions strip_chart_sound.
Print Assumptions roundtrip_perm_chart_strip.
Print Assumptions C11_behaviour_unstripped_refuted.
Print Assumptions roundtrip_perm_chart.
Print Assumptions sound_perm_chart.
Print Assumptions desc_ok_of_sound.
Print Assumptions decl_wf_of_sound.
Print Assumptions sound_ext.
Print Assumptions rename_structure.
Print Assumptions C17_equivariance_ops.
Print Assumptions C17_rename_run.
Print Assumptions C17_rename_run_fresh.
Print Assumptions C11_behaviour_instance.
Print Assumptions C17_rename_run_instance.
Print Assumptions C11_behaviour_strip_instance.
