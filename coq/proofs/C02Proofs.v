(* C02Proofs.v -- "the active configuration is always a legal, stable statechart configuration".

   STATUS: complete -- C02_step, C02_run, C02_stabilize_terminates (and more: C02_fuel_irrelevant),
   decidable checker wf_chart_b with soundness, concrete example.  No admits; every Print Assumptions at
   the end of the file prints "Closed under the global context".  Nothing is partial or refuted (the model
   mirrors the repaired _create_stabilization_step, see DESIGN.md section 8(1)).

   Main theorems
   -------------
   Without any chart hypothesis (Section C02):
     C02_legal_b_sound      Spec.legal_b (the checker the harness runs) <-> legal (the Prop: no duplicates,
                            root active, parent-closed, exactly one active child per active compound state --
                            none only without initial state --, all children of an active orthogonal state
                            active, no active history state, no active final child of the root)
     C02_Pb_sound           meaning of Spec.Pb_C02
     C02_stable_iff         create_stabilization_step = None <-> stable (declarative reading)
     C02_stable / C02_macro_end_stable   after stabilize / after a macro step the configuration is stable
     C02_no_step_unchanged  execute_once returning None changes neither configuration nor memory
     C02_final_absorbing    once final (initialised, empty configuration) always final
     C02_legal_stable       legal -> stable
   Under the well-formedness hypotheses of Section WF (= DESIGN.md section 2, see below):
     wk_stable_legal        weak invariant wk (no duplicates, states exist, parent-closed, at most one active
                            child per compound) + root active + stable  ->  legal
                            (the planned extra premise NoDup cfg is part of wk)
     C02_step               Inv st -> execute_once fuel now st = (st', inl _) -> Inv st'
                            for EVERY evaluator (exec_code/eval_code), every listener (emit), every fuel,
                            where  Inv i := MEM (i_memory i) /\
                                            (   not initialised /\ cfg = []
                                             \/ initialised /\ (cfg = [] \/ (legal cfg /\ stable cfg))).
                            The micro steps of a macro step are computed in advance from the configuration
                            at the beginning (create_steps) and applied one after the other, each followed
                            by stabilisation, exactly as in the model/Python code: TPre / TPre_next /
                            run_trans_inv show that the steps computed in advance are still accurate when
                            they are applied, because simultaneously fired transitions work in different
                            regions (indep) and every transition + its stabilisation only touches its own
                            region (micro_ok, stab_step_touch).
     C02_run / C02_run_init Inv along any sequence of queue / execute_once operations that return normally
                            (C05Proofs.runs), in particular from init_istate.
     C02_stabilize_terminates   from a J configuration (wk, empty or containing the root) with MEM memory
                            stabilize fuel = stabilize fuel' whenever both fuels are >= 2*|states| + 2:
                            the loop is never cut short.  Measure (stab_step_mu): every inactive non-history
                            state weighs 2, every inactive history state 1.  (Stated as fuel independence
                            because emit is arbitrary and could itself return EFuel; corollary
                            C02_stabilize_no_fuel_error.  The bound is 2|S|+2 rather than the |S|+1 of the
                            plan: entering an initial history state and replacing it are two steps.)
     C02_fuel_irrelevant    the same for execute_once from any Inv state: result, error and final state do
                            not depend on the fuel beyond 2*|states| + 2 -- EFuel is not an outcome.
   For charts accepted by the decidable checker (after the sections):
     wf_chart_b, wf_chart_b_sound : wf_chart_b sc = true -> exists r, WF sc r   (all Section WF hypotheses)
     C02_step_checked, C02_run_checked (headline: from the initial state, after every normally returning
                            operation the configuration is [] or legal_b /\ no stabilisation step is due),
     C02_stabilize_terminates_checked, C02_fuel_irrelevant_checked
   Non-vacuity: Module C02Example -- an 18-state chart with a nested orthogonal state, a shallow and a deep
     history state (the deep one is an initial state), a transition from outside an orthogonal state to a
     state nested in a region of a nested orthogonal state, three transitions on one event in three regions;
     wf_chart_b = true by vm_compute, a chart with a cross-region transition is rejected, a 10-step run of
     the model is shown, and the checked theorems are instantiated (c02_example_theorem, c02_example_fuel).

   Hypotheses of Section WF and their justification (DESIGN.md section 2)
   ----------------------------------------------------------------------
     Hroot, Hroot_par, Hone_root     WF2: exactly one root
     Hne, Hnames                     WF1: names are non-empty; the key of a state is its name
     Hanc                            WF2: acyclic (depth decreases along ancestors_for; checker from C01Proofs)
     Hpc, Hkids_nodup, Hdesc_complete  WF2: _parent and _children are mutually consistent, no duplicates
                                     (Hdesc_complete: descendants_for is the inverse of ancestors_for)
     Hcomposite                      WF3: only compound/orthogonal states have children
     Hinitial                        WF4: a declared initial state is a direct child
     Hregions                        WF5: no final state directly below an orthogonal state
     Hhistory                        WF6: a history state has a compound parent, its default memory is a sibling
     Hcross                          WF7a: no transition crosses between sibling regions of an orthogonal state
     Htarget                         WF7 + WF1: the target of a transition, when present, is not the empty
                                     name (stays_below tests the target for truthiness); forced by
                                     check_pair_indep
     Hmemory_nonhist                 WF6: the default memory is not a history state -- used ONLY by
                                     C02_stabilize_terminates / C02_fuel_irrelevant (two history siblings
                                     naming each other loop forever, DESIGN.md section 8(4))
   NOT needed: WF7b (history entered from outside its parent) -- it matters for C06, not for legality;
   "a compound state has a non-history child" and "compound states declare an initial state" (a compound
   state without initial state is a legal leaf, as in Spec.legal_b).
   The C04 guarantee about simultaneously fired transitions is NOT assumed: it is derived inside
   compute_steps_init from the model itself (sort_transitions fails unless check_pairs = None) together with
   C01_selection (no selected source is an ancestor of another one), see check_pair_indep.

   The memory invariant MEM = memory_wf /\ mnh: every recorded memory of H lies strictly below parent(H),
   is parent-closed relative to it, contains at most one child per compound state (memory_wf, what legality
   needs), is non-empty and contains no history state (mnh, what termination needs).  It is established by
   record_history whenever the configuration at the beginning of the micro step satisfies the weak invariant
   and contains no history state (hist_rec_mwf, hist_rec_mnh); stab_exits_nohist shows that this is the case
   for the only stabilisation step that exits a compound state (final child of the root reached). *)
From Coq Require Import String List Bool ZArith Sorted Permutation Lia.
From Sismic Require Import Base Chart Interp Spec.
From SismicProofs Require Import SortLib FrameLib C01Proofs.
From SismicProofs Require C05Proofs.   (* only for the definition of operation sequences (runs) *)
Import ListNotations.
Open Scope list_scope.

(* ================================================================== generic list facts *)
Lemma nodup_b_iff (l : list name) : nodup_b l = true <-> NoDup l.
Proof.
  induction l as [|x r IH]; simpl.
  - split; [constructor|reflexivity].
  - rewrite andb_true_iff, negb_true_iff, IH, mem_false_iff. split.
    + intros [H1 H2]. constructor; assumption.
    + intros H. inversion H; subst. split; assumption.
Qed.

Lemma ostr_eqb_iff (a b : option name) : ostr_eqb a b = true <-> a = b.
Proof.
  unfold ostr_eqb, opt_eqb. destruct a as [x|], b as [y|]; try (split; congruence).
  rewrite str_eqb_spec. split; congruence.
Qed.

Lemma ostr_eqb_false_iff (a b : option name) : ostr_eqb a b = false <-> a <> b.
Proof.
  rewrite <- ostr_eqb_iff. destruct (ostr_eqb a b); split; congruence.
Qed.

Lemma filter_false_nil {A} (f : A -> bool) (l : list A) :
  (forall x, In x l -> f x = false) -> filter f l = [].
Proof.
  induction l as [|x l IH]; simpl; intros H; [reflexivity|].
  rewrite (H x (or_introl eq_refl)). apply IH. intros y Hy. apply H. right; exact Hy.
Qed.

Lemma first_some_none_iff {A B} (f : A -> option B) (l : list A) :
  first_some f l = None <-> forall x, In x l -> f x = None.
Proof.
  induction l as [|x l IH]; simpl.
  - split; [intros _ y []|reflexivity].
  - destruct (f x) eqn:E.
    + split; [discriminate|]. intros H. rewrite <- E. apply H. left; reflexivity.
    + rewrite IH. split.
      * intros H y [<-|Hy]; [exact E|apply H, Hy].
      * intros H y Hy. apply H. right; exact Hy.
Qed.

Lemma first_some_some {A B} (f : A -> option B) (l : list A) y :
  first_some f l = Some y -> exists x, In x l /\ f x = Some y.
Proof.
  induction l as [|x l IH]; simpl; [discriminate|].
  destruct (f x) eqn:E.
  - intros H. inversion H; subst. exists x. split; [left; reflexivity|exact E].
  - intros H. destruct (IH H) as (z & Hz & Hf). exists z. split; [right; exact Hz|exact Hf].
Qed.

Lemma insert_ne {A} (leb : A -> A -> bool) x l : insert leb x l <> [].
Proof. destruct l as [|y l]; simpl; [discriminate|]. destruct (leb x y); discriminate. Qed.

Lemma sort_cons_ne {A} (leb : A -> A -> bool) x l : sort leb (x :: l) <> [].
Proof. simpl. apply insert_ne. Qed.

(* sums of weights over a list of names (termination measure of the stabilisation loop) *)
Lemma sum_le {A} (f g : A -> nat) L :
  (forall k, In k L -> f k <= g k) -> list_sum (map f L) <= list_sum (map g L).
Proof.
  induction L as [|a L IH]; simpl; intros H; [lia|].
  pose proof (H a (or_introl eq_refl)). specialize (IH (fun k Hk => H k (or_intror Hk))). lia.
Qed.

Lemma sum_lt {A} (f g : A -> nat) L x d :
  (forall k, In k L -> f k <= g k) -> In x L -> f x + d <= g x ->
  list_sum (map f L) + d <= list_sum (map g L).
Proof.
  induction L as [|a L IH]; simpl; intros H Hx Hd; [destruct Hx|].
  pose proof (H a (or_introl eq_refl)) as Ha.
  destruct Hx as [->|Hx].
  - pose proof (sum_le f g L (fun k Hk => H k (or_intror Hk))). lia.
  - specialize (IH (fun k Hk => H k (or_intror Hk)) Hx Hd). lia.
Qed.

Lemma sum_le1 (f g : name -> nat) L h :
  NoDup L -> (forall k, In k L -> k <> h -> f k <= g k) -> f h <= g h + 1 ->
  list_sum (map f L) <= list_sum (map g L) + 1.
Proof.
  induction L as [|a L IH]; simpl; intros Hnd H Hh; [lia|].
  inversion Hnd as [|? ? Ha Hnd']; subst.
  destruct (string_dec a h) as [->|Hne'].
  - assert (list_sum (map f L) <= list_sum (map g L)) as Hle.
    { apply sum_le. intros k Hk. apply H; [right; exact Hk|]. intros ->. contradiction. }
    lia.
  - pose proof (H a (or_introl eq_refl) Hne') as Hle.
    specialize (IH Hnd' (fun k Hk => H k (or_intror Hk)) Hh). lia.
Qed.

Lemma sum_swap (f' f : name -> nat) L h x :
  NoDup L -> In x L -> x <> h -> (forall k, In k L -> k <> h -> f' k <= f k) ->
  f' h <= f h + 1 -> f' x + 2 <= f x -> list_sum (map f' L) + 1 <= list_sum (map f L).
Proof.
  intros Hnd Hx Hxh H Hh H2.
  set (g := fun k => if string_dec k x then f k - 2 else f k).
  assert (list_sum (map f' L) <= list_sum (map g L) + 1) as A1.
  { apply (sum_le1 f' g L h Hnd).
    - intros k Hk Hkh. unfold g. destruct (string_dec k x) as [->|]; [lia|apply H; assumption].
    - unfold g. destruct (string_dec h x) as [E|]; [congruence|exact Hh]. }
  assert (list_sum (map g L) + 2 <= list_sum (map f L)) as A2.
  { apply (sum_lt g f L x 2); [|exact Hx|].
    - intros k Hk. unfold g. destruct (string_dec k x); lia.
    - unfold g. destruct (string_dec x x); [lia|congruence]. }
  lia.
Qed.

Lemma In_dedup x : forall l, In x (dedup l) <-> In x l.
Proof.
  induction l as [|a l IH]; simpl; [tauto|]. destruct (mem a l) eqn:E.
  - rewrite IH. split; [auto|]. intros [<-|H]; [apply mem_In, E|exact H].
  - simpl. rewrite IH. tauto.
Qed.

Lemma NoDup_dedup : forall l, NoDup (dedup l).
Proof.
  induction l as [|a l IH]; simpl; [constructor|]. destruct (mem a l) eqn:E; [exact IH|].
  constructor; [|exact IH]. rewrite In_dedup. apply mem_false_iff, E.
Qed.

Lemma dedup_length : forall l, length (dedup l) <= length l.
Proof. induction l as [|a l IH]; simpl; [lia|]. destruct (mem a l); simpl; lia. Qed.

Section C02.
  Variable ctx : Type.
  Variable X : Type.
  Variable exec_code : call ctx -> ctx -> option (ctx * list event).
  Variable eval_code : call ctx -> ctx -> option bool.
  Variable emit : Z -> meta -> X -> X * option err.
  Variable sc : chart.

  Notation ist := (istate ctx).
  Notation mst := (mstate ctx X).
  Local Notation bind := (Interp.bind ctx X).
  Local Notation ret := (Interp.ret ctx X).
  Local Notation fail := (Interp.fail ctx X).
  Local Notation get := (Interp.get ctx X).
  Local Notation put := (Interp.put ctx X).
  Local Notation modify := (Interp.modify ctx X).
  Local Notation mapM := (Interp.mapM ctx X).
  Local Notation iterM := (Interp.iterM ctx X).
  Local Notation raise_meta := (Interp.raise_meta ctx X emit).
  Local Notation run_code := (Interp.run_code ctx X exec_code sc).
  Local Notation state_contract := (Interp.state_contract ctx X eval_code sc).
  Local Notation select_transitions := (Interp.select_transitions ctx X eval_code sc).
  Local Notation sort_transitions := (Interp.sort_transitions ctx X sc).
  Local Notation compute_steps := (Interp.compute_steps ctx X eval_code sc).
  Local Notation record_history := (Interp.record_history ctx X sc).
  Local Notation exit_state := (Interp.exit_state ctx X exec_code eval_code emit sc).
  Local Notation enter_state := (Interp.enter_state ctx X exec_code eval_code emit sc).
  Local Notation process_transition := (Interp.process_transition ctx X exec_code eval_code emit sc).
  Local Notation apply_step := (Interp.apply_step ctx X exec_code eval_code emit sc).
  Local Notation stabilize := (Interp.stabilize ctx X exec_code eval_code emit sc).
  Local Notation run_steps := (Interp.run_steps ctx X exec_code eval_code emit sc).
  Local Notation check_invariants := (Interp.check_invariants ctx X eval_code sc).
  Local Notation execute_once := (Interp.execute_once ctx X exec_code eval_code emit sc).
  Local Notation css := (create_stabilization_step ctx sc).
  Notation anc := (ancestors_for sc).
  Notation desc := (descendants_for sc).
  Notation par := (parent_for sc).
  Notation kids := (children_for sc).
  Notation depth := (depth_for sc).

  (* ================================================================ A. legality *)
  (* the active children of n, in the order of children_for *)
  Definition active_children (cfg : list name) (n : name) : list name :=
    filter (fun c => mem c cfg) (kids n).

  Definition state_legal (cfg : list name) (n : name) : Prop :=
    exists st, state_for sc n = Some st
      (* the parent of an active state is active; only the root has no parent *)
      /\ (forall p, par n = Some p -> In p cfg)
      /\ (par n = None -> root sc = Some n)
      (* compound: exactly one active child; none only without (truthy) initial state *)
      /\ (s_kind st = KCompound ->
            (exists c, active_children cfg n = [c])
            \/ (active_children cfg n = [] /\ truthy (s_initial st) = None))
      (* orthogonal: all children active *)
      /\ (s_kind st = KOrthogonal -> forall c, In c (kids n) -> In c cfg)
      (* no active history state *)
      /\ is_history (s_kind st) = false
      (* no active final child of the root *)
      /\ (s_kind st = KFinal -> par n <> root sc).

  Definition legal (cfg : list name) : Prop :=
    NoDup cfg
    /\ (exists r, root sc = Some r /\ In r cfg)
    /\ (forall n, In n cfg -> state_legal cfg n).

  Lemma state_legal_b_iff cfg n : state_legal_b sc cfg n = true <-> state_legal cfg n.
  Proof.
    unfold state_legal_b, state_legal. destruct (state_for sc n) as [st|].
    2:{ split; [discriminate|]. intros (st & H & _). discriminate. }
    rewrite andb_true_iff. split.
    - intros [Hp Hk]. exists st. split; [reflexivity|].
      destruct (par n) as [p|] eqn:Ep.
      + split; [intros q Hq; inversion Hq; subst; apply mem_In, Hp|].
        split; [discriminate|].
        destruct (s_kind st) eqn:K; try discriminate; repeat split; try discriminate; try reflexivity.
        * intros _. unfold count_in in Hk. fold (active_children cfg n) in Hk.
          destruct (active_children cfg n) as [|c [|c' l]]; simpl in Hk; try discriminate.
          -- right. split; [reflexivity|]. destruct (truthy (s_initial st)); [discriminate|reflexivity].
          -- left. exists c. reflexivity.
        * intros _ c Hc. rewrite forallb_forall in Hk. apply mem_In, Hk, Hc.
        * intros _. apply negb_true_iff, ostr_eqb_false_iff in Hk. exact Hk.
      + split; [discriminate|]. apply ostr_eqb_iff in Hp.
        split; [intros _; exact Hp|].
        destruct (s_kind st) eqn:K; try discriminate; repeat split; try discriminate; try reflexivity.
        * intros _. unfold count_in in Hk. fold (active_children cfg n) in Hk.
          destruct (active_children cfg n) as [|c [|c' l]]; simpl in Hk; try discriminate.
          -- right. split; [reflexivity|]. destruct (truthy (s_initial st)); [discriminate|reflexivity].
          -- left. exists c. reflexivity.
        * intros _ c Hc. rewrite forallb_forall in Hk. apply mem_In, Hk, Hc.
        * intros _. apply negb_true_iff, ostr_eqb_false_iff in Hk. exact Hk.
    - intros (st' & E & Hp & Hr & Hc & Ho & Hh & Hf). inversion E; subst st'. split.
      + destruct (par n) as [p|]; [apply mem_In, Hp; reflexivity|apply ostr_eqb_iff, Hr; reflexivity].
      + destruct (s_kind st) eqn:K; try reflexivity; try discriminate.
        * unfold count_in. fold (active_children cfg n).
          destruct (Hc eq_refl) as [(c & ->)|(-> & ->)]; reflexivity.
        * apply forallb_forall. intros c Hc'. apply mem_In, Ho; [reflexivity|exact Hc'].
        * apply negb_true_iff, ostr_eqb_false_iff, Hf. reflexivity.
  Qed.

  Theorem C02_legal_b_sound cfg : legal_b sc cfg = true <-> legal cfg.
  Proof.
    unfold legal_b, legal. rewrite !andb_true_iff, nodup_b_iff, forallb_forall.
    split.
    - intros [[Hn Hr] Hs]. split; [exact Hn|]. split.
      + destruct (root sc) as [r|]; [|discriminate]. exists r. split; [reflexivity|apply mem_In, Hr].
      + intros n Hn'. apply state_legal_b_iff, Hs, Hn'.
    - intros (Hn & (r & Er & Hr) & Hs). split; [split; [exact Hn|]|].
      + rewrite Er. apply mem_In, Hr.
      + intros n Hn'. apply state_legal_b_iff, Hs, Hn'.
  Qed.

  (* Pb_C02 (the checker the harness evaluates): empty, or not previously final and legal *)
  Theorem C02_Pb_sound pre_final cfg :
    Pb_C02 sc pre_final cfg = true <-> cfg = [] \/ (pre_final = false /\ legal cfg).
  Proof.
    unfold Pb_C02. destruct cfg as [|x l].
    - split; [left; reflexivity|reflexivity].
    - rewrite andb_true_iff, negb_true_iff, C02_legal_b_sound. split.
      + intros H. right. exact H.
      + intros [H|H]; [discriminate|exact H].
  Qed.

  (* ================================================================ B. stability *)
  (* stab_for_leaf yields nothing for n (whatever the memory) *)
  Definition leaf_ok (n : name) : Prop :=
    exists st, state_for sc n = Some st /\
      match s_kind st with
      | KBasic => True
      | KCompound => truthy (s_initial st) = None        (* no initial state to enter *)
      | KOrthogonal => kids n = []                        (* no children to enter *)
      | KFinal => par n <> root sc                        (* not a final child of the root *)
      | KShallow | KDeep => False                         (* not a history state *)
      end.

  Definition is_leaf (cfg : list name) (n : name) : Prop :=
    In n cfg /\ forall d, In d (desc n) -> ~ In d cfg.

  (* stab_for_orthogonal yields nothing for n *)
  Definition orth_ok (cfg : list name) (n : name) : Prop :=
    exists st, state_for sc n = Some st /\
      (s_kind st = KOrthogonal -> forall c, In c (kids n) -> In c cfg).

  (* "nothing remains to be entered by default" *)
  Definition stable (cfg : list name) : Prop :=
    (forall n, is_leaf cfg n -> leaf_ok n) /\ (forall n, In n cfg -> orth_ok cfg n).

  Lemma leaf_for_iff cfg n : In n (leaf_for sc cfg) <-> is_leaf cfg n.
  Proof.
    unfold leaf_for, is_leaf. rewrite filter_In, negb_true_iff. split.
    - intros [Hn He]. split; [exact Hn|]. intros d Hd Hc.
      assert (existsb (fun d0 => mem d0 cfg) (desc n) = true) as Ht.
      { apply existsb_exists. exists d. split; [exact Hd|apply mem_In, Hc]. }
      congruence.
    - intros [Hn Hd]. split; [exact Hn|].
      destruct (existsb (fun d0 => mem d0 cfg) (desc n)) eqn:E; [|reflexivity].
      apply existsb_exists in E. destruct E as (d & Hd1 & Hd2). apply mem_In in Hd2.
      exfalso. exact (Hd d Hd1 Hd2).
  Qed.

  Lemma stab_for_leaf_none m n : stab_for_leaf sc m n = None <-> leaf_ok n.
  Proof.
    unfold stab_for_leaf, leaf_ok. destruct (state_for sc n) as [st|].
    2:{ split; [discriminate|]. intros (st & H & _). discriminate. }
    split.
    - intros H. exists st. split; [reflexivity|].
      destruct (s_kind st).
      + exact I.
      + destruct (truthy (s_initial st)); [discriminate|reflexivity].
      + destruct (kids n); [reflexivity|discriminate].
      + destruct (ostr_eqb (par n) (root sc)) eqn:E.
        * destruct (root sc); discriminate.
        * apply ostr_eqb_false_iff, E.
      + destruct (lookup n m); [discriminate|]. destruct (s_memory st); discriminate.
      + destruct (lookup n m); [discriminate|]. destruct (s_memory st); discriminate.
    - intros (st' & E & H). inversion E; subst st'.
      destruct (s_kind st).
      + reflexivity.
      + rewrite H. reflexivity.
      + rewrite H. reflexivity.
      + apply ostr_eqb_false_iff in H. rewrite H. reflexivity.
      + destruct H.
      + destruct H.
  Qed.

  Lemma stab_for_orthogonal_none cfg n : stab_for_orthogonal sc cfg n = None <-> orth_ok cfg n.
  Proof.
    unfold stab_for_orthogonal, orth_ok. destruct (state_for sc n) as [st|].
    2:{ split; [discriminate|]. intros (st & H & _). discriminate. }
    split.
    - intros H. exists st. split; [reflexivity|]. intros K c Hc. rewrite K in H.
      destruct (filter (fun ch => negb (mem ch cfg)) (kids n)) eqn:F; [|discriminate].
      destruct (mem c cfg) eqn:Mc; [apply mem_In, Mc|].
      assert (In c (filter (fun ch => negb (mem ch cfg)) (kids n))) as Hin.
      { apply filter_In. split; [exact Hc|]. rewrite Mc. reflexivity. }
      rewrite F in Hin. destruct Hin.
    - intros (st' & E & H). inversion E; subst st'.
      destruct (s_kind st) eqn:K; try reflexivity.
      rewrite filter_false_nil; [reflexivity|].
      intros c Hc. apply negb_false_iff, mem_In, H; [reflexivity|exact Hc].
  Qed.

  (* declarative reading of "no stabilisation step is due" *)
  Theorem C02_stable_iff (i : ist) : css i = None <-> stable (i_config i).
  Proof.
    unfold create_stabilization_step, stable.
    destruct (first_some (stab_for_leaf sc (i_memory i)) _) eqn:E1.
    - split; [discriminate|]. intros [H _]. exfalso.
      apply first_some_some in E1. destruct E1 as (n & Hn & Hs).
      apply sort_In, leaf_for_iff in Hn. apply H, (stab_for_leaf_none (i_memory i)) in Hn.
      congruence.
    - rewrite first_some_none_iff in E1. rewrite first_some_none_iff. split.
      + intros H. split.
        * intros n Hn. apply (stab_for_leaf_none (i_memory i)), E1, sort_In, leaf_for_iff, Hn.
        * intros n Hn. apply stab_for_orthogonal_none, H, sort_In, Hn.
      + intros [_ H] n Hn. apply stab_for_orthogonal_none, H. apply sort_In in Hn. exact Hn.
  Qed.

  (* the stabilisation loop stops only when nothing remains to be entered *)
  Lemma stabilize_stops fuel : forall s s' steps,
    stabilize fuel s = (s', inl steps) -> css (m_i s') = None.
  Proof.
    induction fuel as [|f IH]; intros s s' steps H; simpl in H; [discriminate|].
    unfold Interp.bind at 1, Interp.get at 1 in H.
    destruct (css (m_i s)) as [[step|e]|] eqn:E.
    - apply bind_inv in H. destruct H as [(e & _ & He)|(a & s1 & _ & H)]; [discriminate|].
      apply bind_inv in H. destruct H as [(e & _ & He)|(r & s2 & H2 & H)]; [discriminate|].
      inversion H; subst. eapply IH; eauto.
    - discriminate.
    - inversion H; subst. exact E.
  Qed.

  Theorem C02_stable fuel s s' steps :
    stabilize fuel s = (s', inl steps) -> stable (i_config (m_i s')).
  Proof. intros H. apply C02_stable_iff. eapply stabilize_stops; eauto. Qed.

  (* ================================================================ monad bookkeeping *)
  Lemma bind_ok {A B} (m : M ctx X A) (f : A -> M ctx X B) s s' b :
    bind m f s = (s', inl b) -> exists a s1, m s = (s1, inl a) /\ f a s1 = (s', inl b).
  Proof.
    intros H. apply bind_inv in H. destruct H as [(e & _ & He)|(a & s1 & H1 & H2)]; [discriminate|].
    exists a, s1. split; assumption.
  Qed.

  Lemma bind_get {B} (f : ist -> M ctx X B) s : bind get f s = f (m_i s) s.
  Proof. reflexivity. Qed.

  (* everything but the configuration, the initialised flag and (up to P) the history memory
     may change *)
  Definition keepP (P : list (name * list name) -> Prop) (s s' : mst) : Prop :=
    i_config (m_i s') = i_config (m_i s)
    /\ i_initialized (m_i s') = i_initialized (m_i s)
    /\ (P (i_memory (m_i s)) -> P (i_memory (m_i s'))).

  Lemma keepP_refl P s : keepP P s s.
  Proof. unfold keepP. auto. Qed.

  Lemma keepP_trans P a b c : keepP P a b -> keepP P b c -> keepP P a c.
  Proof. unfold keepP. intros (A1 & A2 & A3) (B1 & B2 & B3). repeat split; try congruence. auto. Qed.

  Lemma keepP_same P (s s' : mst) :
    i_config (m_i s') = i_config (m_i s) -> i_initialized (m_i s') = i_initialized (m_i s) ->
    i_memory (m_i s') = i_memory (m_i s) -> keepP P s s'.
  Proof. unfold keepP. intros H1 H2 H3. rewrite H3. auto. Qed.

  Lemma keepP_obs P s o : keepP P s (fst (Interp.observe ctx X o s)).
  Proof. apply keepP_same; reflexivity. Qed.

  Lemma keepP_meta P s m : keepP P s (fst (raise_meta m s)).
  Proof.
    unfold Interp.raise_meta. destruct (emit (i_time (m_i s)) m (m_x s)) as [x' [e|]];
      apply keepP_same; reflexivity.
  Qed.

  Lemma keepP_upd P (f : ist -> ist) s :
    (forall i, i_config (f i) = i_config i) -> (forall i, i_initialized (f i) = i_initialized i) ->
    (forall i, i_memory (f i) = i_memory i) -> keepP P s (upd ctx X f s).
  Proof. intros H1 H2 H3. apply keepP_same; simpl; auto. Qed.

  Lemma keepP_queue P s e : keepP P s (upd ctx X (fun i => queue_event i e) s).
  Proof. apply keepP_upd; intros i; unfold queue_event; destruct (e_kind e); reflexivity. Qed.

  Ltac keep_side :=
    first [ apply keepP_refl | apply keepP_trans | (intros; apply keepP_obs)
          | (intros; apply keepP_meta) | (intros; apply keepP_queue)
          | (intros; apply keepP_upd; intros; reflexivity) ].

  Lemma keepP_run_code P k o cd ev : pres ctx X (keepP P) (run_code k o cd ev).
  Proof. apply pres_run_code; keep_side. Qed.

  Lemma keepP_contract P k o pre post inv ev :
    pres ctx X (keepP P) (Interp.contract ctx X eval_code sc k o pre post inv ev).
  Proof. apply pres_contract; keep_side. Qed.

  Lemma keepP_raise_meta P m : pres ctx X (keepP P) (raise_meta m).
  Proof. apply pres_raise_meta_outer. intros s. apply keepP_meta. Qed.

  Lemma keepP_process_transition P ev i : pres ctx X (keepP P) (process_transition ev i).
  Proof. apply pres_process_transition; keep_side. Qed.

  Lemma keepP_raise_all P sent : pres ctx X (keepP P) (raise_all ctx X emit sent).
  Proof. apply pres_raise_all; keep_side. Qed.

  Lemma keepP_consume_part P first : pres ctx X (keepP P) (consume_part ctx X emit first).
  Proof. apply pres_consume_part; keep_side. Qed.

  Lemma keepP_finish_part P macro : pres ctx X (keepP P) (finish_part ctx X eval_code emit sc macro).
  Proof. apply pres_finish_part; keep_side. Qed.

  (* ---------------------------------------------------------------- history recording *)
  (* what record_history may store for the history child `child` of the compound state p *)
  Definition hist_rec (active : list name) (p child : name) (l : list name) : Prop :=
    exists cs, state_for sc child = Some cs /\
      ((s_kind cs = KDeep /\ l = sort_names (filter (fun n => mem n (desc p)) active) /\ l <> [])
       \/ (s_kind cs = KShallow /\ l = filter (fun n => mem n (kids p)) active /\ exists c, l = [c])).

  Definition mem_closed (active : list name) (st : state) (P : list (name * list name) -> Prop) : Prop :=
    forall child l m, s_kind st = KCompound -> In child (kids (s_name st)) ->
                      hist_rec active (s_name st) child l -> P m -> P (dset child l m).

  Lemma keepP_memory (P : list (name * list name) -> Prop) (s : mst) m :
    (P (i_memory (m_i s)) -> P m) -> keepP P s (upd ctx X (Interp.set_memory ctx m) s).
  Proof. intros H. unfold keepP. simpl. auto. Qed.

  Lemma record_history_keepP P active st :
    mem_closed active st P -> pres ctx X (keepP P) (record_history active st).
  Proof.
    intros HP. unfold Interp.record_history.
    destruct (s_kind st) eqn:K; try (apply pres_ret; apply keepP_refl).
    assert (forall l, incl l (kids (s_name st)) ->
      pres ctx X (keepP P) (iterM (fun child =>
        match state_for sc child with
        | None => fail EStatechart
        | Some cs =>
            match s_kind cs with
            | KDeep =>
                let desc := desc (s_name st) in
                let act := filter (fun n => mem n desc) active in
                match act with
                | [] => fail EAssert
                | _ => modify (fun s => Interp.set_memory ctx (dset child (sort_names act) (i_memory s)) s)
                end
            | KShallow =>
                let ch := kids (s_name st) in
                let act := filter (fun n => mem n ch) active in
                match act with
                | [_] => modify (fun s => Interp.set_memory ctx (dset child act (i_memory s)) s)
                | _ => fail EAssert
                end
            | _ => ret tt
            end
        end) l)) as Hl.
    { induction l as [|child l IH]; intros Hincl; simpl.
      - apply pres_ret, keepP_refl.
      - apply pres_bind; [apply keepP_trans| |intros _; apply IH; intros x Hx; apply Hincl; right; exact Hx].
        assert (In child (kids (s_name st))) as Hc by (apply Hincl; left; reflexivity).
        destruct (state_for sc child) as [cs|] eqn:Ecs; [|apply pres_fail, keepP_refl].
        destruct (s_kind cs) eqn:Kc; try (apply pres_ret, keepP_refl).
        + cbv zeta. destruct (filter (fun n => mem n (kids (s_name st))) active) as [|c [|c' l']] eqn:F;
            try (apply pres_fail, keepP_refl).
          apply pres_modify. intros s. apply keepP_memory. apply HP; [exact K|exact Hc|].
          exists cs. split; [exact Ecs|]. right. split; [exact Kc|]. split; [symmetry; exact F|].
          exists c. reflexivity.
        + cbv zeta. destruct (filter (fun n => mem n (desc (s_name st))) active) as [|c l'] eqn:F;
            try (apply pres_fail, keepP_refl).
          apply pres_modify. intros s. apply keepP_memory. apply HP; [exact K|exact Hc|].
          exists cs. split; [exact Ecs|]. left. split; [exact Kc|]. rewrite F.
          split; [reflexivity|apply sort_cons_ne]. }
    apply Hl. apply incl_refl.
  Qed.

  (* ---------------------------------------------------------------- exit_state / enter_state *)
  Lemma exit_state_inv (P : list (name * list name) -> Prop) active ev st s s' sent :
    exit_state active ev st s = (s', inl sent) ->
    mem_closed active st P ->
    mem (s_name st) (i_config (m_i s)) = true
    /\ i_config (m_i s') = remove_first (s_name st) (i_config (m_i s))
    /\ i_initialized (m_i s') = i_initialized (m_i s)
    /\ (P (i_memory (m_i s)) -> P (i_memory (m_i s'))).
  Proof.
    intros H HP. unfold Interp.exit_state in H.
    apply bind_ok in H. destruct H as (sent1 & s1 & H1 & H).
    apply (keepP_run_code P) in H1. destruct H1 as (A1 & A2 & A3).
    apply bind_ok in H. destruct H as (u2 & s2 & H2 & H).
    apply (record_history_keepP P active st HP) in H2. destruct H2 as (B1 & B2 & B3).
    rewrite bind_get in H.
    apply bind_ok in H. destruct H as (u3 & s3 & H3 & H).
    destruct (mem (s_name st) (i_config (m_i s2))) eqn:Hm; [|discriminate].
    unfold Interp.put in H3. inversion H3; subst s3 u3. clear H3.
    apply bind_ok in H. destruct H as (u4 & s4 & H4 & H).
    apply (keepP_contract P) in H4. destruct H4 as (C1 & C2 & C3). simpl in C1, C2, C3.
    apply bind_ok in H. destruct H as (u5 & s5 & H5 & H).
    apply (keepP_raise_meta P) in H5. destruct H5 as (D1 & D2 & D3).
    inversion H; subst s5. clear H.
    rewrite B1, A1 in Hm. split; [exact Hm|].
    split; [rewrite D1, C1, B1, A1; reflexivity|].
    split; [rewrite D2, C2, B2, A2; reflexivity|]. auto.
  Qed.

  Lemma enter_state_inv (P : list (name * list name) -> Prop) ev st s s' sent :
    enter_state ev st s = (s', inl sent) ->
    i_config (m_i s') = set_add (s_name st) (i_config (m_i s))
    /\ i_initialized (m_i s') = i_initialized (m_i s)
    /\ (P (i_memory (m_i s)) -> P (i_memory (m_i s'))).
  Proof.
    intros H. unfold Interp.enter_state in H.
    apply bind_ok in H. destruct H as (u1 & s1 & H1 & H).
    apply (keepP_contract P) in H1. destruct H1 as (A1 & A2 & A3).
    apply bind_ok in H. destruct H as (sent1 & s2 & H2 & H).
    apply (keepP_run_code P) in H2. destruct H2 as (B1 & B2 & B3).
    apply bind_ok in H. destruct H as (u3 & s3 & H3 & H).
    unfold Interp.modify in H3. inversion H3; subst s3 u3. clear H3.
    apply bind_ok in H. destruct H as (u4 & s4 & H4 & H).
    apply (keepP_raise_meta P) in H4. destruct H4 as (C1 & C2 & C3). simpl in C1, C2, C3.
    inversion H; subst s4. clear H.
    split; [rewrite C1, B1, A1; reflexivity|].
    split; [rewrite C2, B2, A2; reflexivity|]. auto.
  Qed.

  Definition exit_all (exi : list state) (cfg : list name) : list name :=
    fold_left (fun c st => remove_first (s_name st) c) exi cfg.
  Definition enter_all (ent : list state) (cfg : list name) : list name :=
    fold_left (fun c st => set_add (s_name st) c) ent cfg.

  Lemma mapM_exit_inv (P : list (name * list name) -> Prop) active ev : forall exi s s' sents,
    mapM (exit_state active ev) exi s = (s', inl sents) ->
    (forall st, In st exi -> mem_closed active st P) ->
    i_config (m_i s') = exit_all exi (i_config (m_i s))
    /\ i_initialized (m_i s') = i_initialized (m_i s)
    /\ (P (i_memory (m_i s)) -> P (i_memory (m_i s'))).
  Proof.
    induction exi as [|st exi IH]; intros s s' sents H HP; simpl in H.
    - inversion H; subst. simpl. auto.
    - apply bind_ok in H. destruct H as (y & s1 & H1 & H).
      apply (exit_state_inv P) in H1; [|apply HP; left; reflexivity].
      destruct H1 as (_ & A1 & A2 & A3).
      apply bind_ok in H. destruct H as (ys & s2 & H2 & H).
      apply IH in H2; [|intros st' Hst'; apply HP; right; exact Hst'].
      destruct H2 as (B1 & B2 & B3). inversion H; subst s2. clear H.
      simpl. rewrite <- A1. split; [exact B1|]. split; [congruence|auto].
  Qed.

  Lemma mapM_enter_inv (P : list (name * list name) -> Prop) ev : forall ent s s' sents,
    mapM (enter_state ev) ent s = (s', inl sents) ->
    i_config (m_i s') = enter_all ent (i_config (m_i s))
    /\ i_initialized (m_i s') = i_initialized (m_i s)
    /\ (P (i_memory (m_i s)) -> P (i_memory (m_i s'))).
  Proof.
    induction ent as [|st ent IH]; intros s s' sents H; simpl in H.
    - inversion H; subst. simpl. auto.
    - apply bind_ok in H. destruct H as (y & s1 & H1 & H).
      apply (enter_state_inv P) in H1. destruct H1 as (A1 & A2 & A3).
      apply bind_ok in H. destruct H as (ys & s2 & H2 & H).
      apply IH in H2. destruct H2 as (B1 & B2 & B3). inversion H; subst s2. clear H.
      simpl. rewrite <- A1. split; [exact B1|]. split; [congruence|auto].
  Qed.

  (* ---------------------------------------------------------------- apply_step *)
  Lemma apply_step_inv (P : list (name * list name) -> Prop) step s s' a :
    apply_step step s = (s', inl a) ->
    exists ent exi,
      states_for sc (ms_entered step) = Some ent
      /\ states_for sc (ms_exited step) = Some exi
      /\ i_config (m_i s') = enter_all ent (exit_all exi (i_config (m_i s)))
      /\ i_initialized (m_i s') = i_initialized (m_i s)
      /\ ((forall st, In st exi -> mem_closed (i_config (m_i s)) st P) ->
          P (i_memory (m_i s)) -> P (i_memory (m_i s')))
      /\ ms_event a = ms_event step /\ ms_trans a = ms_trans step
      /\ ms_entered a = ms_entered step /\ ms_exited a = ms_exited step.
  Proof.
    intros H. rewrite apply_step_eq in H.
    destruct (states_for sc (ms_entered step)) as [ent|]; [|discriminate].
    destruct (states_for sc (ms_exited step)) as [exi|]; [|discriminate].
    exists ent, exi. split; [reflexivity|]. split; [reflexivity|].
    apply bind_ok in H. destruct H as (sent & s1 & H1 & H).
    apply bind_ok in H. destruct H as (u & s2 & H2 & H).
    apply (keepP_raise_all P) in H2. destruct H2 as (R1 & R2 & R3).
    inversion H; subst s2 a. clear H. simpl.
    unfold apply_step_body in H1. rewrite bind_get in H1.
    apply bind_ok in H1. destruct H1 as (sent1 & s3 & H3 & H1).
    apply bind_ok in H1. destruct H1 as (sent2 & s4 & H4 & H1).
    apply bind_ok in H1. destruct H1 as (sent3 & s5 & H5 & H1).
    inversion H1; subst s5. clear H1.
    apply (mapM_enter_inv P) in H5. destruct H5 as (E1 & E2 & E3).
    assert (keepP P s3 s4) as K4.
    { destruct (ms_trans step) as [i|].
      - eapply keepP_process_transition; eauto.
      - inversion H4; subst. apply keepP_refl. }
    destruct K4 as (T1 & T2 & T3).
    split.
    { rewrite R1, E1, T1. f_equal.
      apply (mapM_exit_inv (fun _ => True)) in H3; [tauto|]. intros st _ child l m _ _ _ _. exact I. }
    split.
    { rewrite R2, E2, T2.
      apply (mapM_exit_inv (fun _ => True)) in H3; [tauto|]. intros st _ child l m _ _ _ _. exact I. }
    split; [|repeat split].
    intros HP Hm. apply (mapM_exit_inv P) in H3; [|exact HP]. destruct H3 as (_ & _ & X3). auto.
  Qed.

  (* ---------------------------------------------------------------- execute_once, decomposed *)
  Definition same3 (s s' : mst) : Prop :=
    i_config (m_i s') = i_config (m_i s)
    /\ i_initialized (m_i s') = i_initialized (m_i s)
    /\ i_memory (m_i s') = i_memory (m_i s).

  Lemma keepP_same3 (s s' : mst) : keepP (eq (i_memory (m_i s))) s s' -> same3 s s'.
  Proof. intros (H1 & H2 & H3). repeat split; auto. symmetry. apply H3. reflexivity. Qed.

  Lemma same3_trans a b c : same3 a b -> same3 b c -> same3 a c.
  Proof. unfold same3. intros (A1 & A2 & A3) (B1 & B2 & B3). repeat split; congruence. Qed.

  Lemma macro_part_inv fuel steps s s' r :
    macro_part ctx X exec_code eval_code emit sc fuel steps s = (s', inl r) ->
    (steps = [] /\ r = None /\ s' = s)
    \/ (exists s1 executed, steps <> [] /\ same3 s s1
          /\ run_steps fuel steps s1 = (s', inl executed)
          /\ r = Some (i_time (m_i s'), executed)).
  Proof.
    intros H. unfold macro_part in H. destruct steps as [|first rest].
    - inversion H; subst. left. auto.
    - right. apply bind_ok in H. destruct H as (u & s1 & H1 & H).
      apply (keepP_consume_part (eq (i_memory (m_i s)))) in H1. apply keepP_same3 in H1.
      apply bind_ok in H. destruct H as (executed & s2 & H2 & H).
      rewrite bind_get in H. inversion H; subst s2 r. clear H.
      exists s1, executed. split; [discriminate|]. split; [exact H1|]. split; [exact H2|reflexivity].
  Qed.

  Lemma execute_once_inv fuel now s s' r :
    execute_once fuel now s = (s', inl r) ->
    exists s1 s2 s3 steps,
      m_i s1 = Interp.set_sent ctx [] (Interp.set_time ctx now (m_i s))
      /\ compute_steps s1 = (s2, inl steps)
      /\ macro_part ctx X exec_code eval_code emit sc fuel steps s2 = (s3, inl r)
      /\ m_i s' = m_i s3.
  Proof.
    intros H. rewrite execute_once_eq in H.
    apply bind_ok in H. destruct H as (u & s0 & H0 & H).
    unfold Interp.modify in H0. inversion H0; subst s0 u. clear H0.
    unfold execute_once_tail in H.
    apply bind_ok in H. destruct H as (u & s1 & H1 & H).
    apply raise_meta_footprint in H1. simpl in H1.
    apply bind_ok in H. destruct H as (steps & s2 & H2 & H).
    apply bind_ok in H. destruct H as (macro & s3 & H3 & H).
    unfold finish_part in H.
    apply bind_ok in H. destruct H as (u4 & s4 & H4 & H).
    apply check_invariants_footprint in H4. destruct H4 as (H4 & _).
    apply bind_ok in H. destruct H as (u5 & s5 & H5 & H).
    apply raise_meta_footprint in H5. inversion H; subst s5 r. clear H.
    exists s1, s2, s3, steps. split; [exact H1|]. split; [exact H2|]. split; [exact H3|].
    congruence.
  Qed.

  Lemma compute_steps_same s s' r :
    compute_steps s = (s', r) ->
    i_config (m_i s') = i_config (m_i s) /\ i_memory (m_i s') = i_memory (m_i s)
    /\ (i_initialized (m_i s) = true -> i_initialized (m_i s') = true).
  Proof.
    intros H. split; [|split].
    - apply compute_steps_footprint in H. destruct H as [(x & Hx) _]. rewrite Hx. reflexivity.
    - apply compute_steps_footprint in H. destruct H as [(x & Hx) _]. rewrite Hx. reflexivity.
    - intros Hi. unfold Interp.compute_steps in H. rewrite bind_get in H. rewrite Hi in H.
      simpl negb in H. cbv iota in H.
      revert H. generalize (select_event (m_i s)). intros ev H.
      apply bind_inv in H. destruct H as [(e & H & _)|(ts & s1 & H1 & H)].
      + apply select_transitions_footprint in H. destruct H as [H _]. congruence.
      + apply select_transitions_footprint in H1. destruct H1 as [H1 _].
        apply bind_inv in H. destruct H as [(e & H & _)|(u & s2 & H2 & H)]; [inversion H|].
        inversion H2; subst s2 u. clear H2.
        destruct ts as [|t ts].
        * destruct ev; inversion H; subst; simpl; congruence.
        * apply bind_inv in H. destruct H as [(e & H & _)|(ts' & s3 & H3 & H)].
          -- apply sort_transitions_footprint in H. subst s'. simpl. congruence.
          -- apply sort_transitions_footprint in H3. subst s3. rewrite bind_get in H.
             inversion H; subst. simpl. congruence.
  Qed.

  Lemma css_nil (i : ist) : i_config i = [] -> css i = None.
  Proof. intros H. unfold create_stabilization_step. rewrite H. reflexivity. Qed.

  Lemma stabilize_stable fuel s s' steps :
    css (m_i s) = None -> stabilize fuel s = (s', inl steps) -> s' = s /\ steps = [].
  Proof.
    intros Hc H. destruct fuel as [|f]; simpl in H; [discriminate|].
    rewrite bind_get in H. rewrite Hc in H. inversion H; subst. auto.
  Qed.

  (* the state after a non-empty run_steps is the state after a stabilisation *)
  Lemma run_steps_stops fuel : forall steps s s' executed,
    steps <> [] -> run_steps fuel steps s = (s', inl executed) -> css (m_i s') = None.
  Proof.
    induction steps as [|st rest IH]; intros s s' executed Hne H; [congruence|].
    simpl in H.
    apply bind_ok in H. destruct H as (a & s1 & H1 & H).
    apply bind_ok in H. destruct H as (ss & s2 & H2 & H).
    apply bind_ok in H. destruct H as (r & s3 & H3 & H).
    inversion H; subst s3. clear H.
    destruct rest as [|st2 rest].
    - simpl in H3. inversion H3; subst. eapply stabilize_stops; eauto.
    - eapply IH; [discriminate|exact H3].
  Qed.

  (* ================================================================ D. a macro step ends stable *)
  Theorem C02_macro_end_stable fuel now s s' t steps :
    execute_once fuel now s = (s', inl (Some (t, steps))) ->
    css (m_i s') = None /\ stable (i_config (m_i s')).
  Proof.
    intros H. apply execute_once_inv in H. destruct H as (s1 & s2 & s3 & steps0 & H1 & H2 & H3 & H4).
    apply macro_part_inv in H3. destruct H3 as [(_ & Hr & _)|(s4 & executed & Hne & _ & Hrun & _)];
      [discriminate|].
    assert (css (m_i s') = None) as Hc.
    { rewrite H4. eapply run_steps_stops; eauto. }
    split; [exact Hc|]. apply C02_stable_iff, Hc.
  Qed.

  (* no macro step: configuration and history memory are unchanged *)
  Theorem C02_no_step_unchanged fuel now s s' :
    execute_once fuel now s = (s', inl None) ->
    i_config (m_i s') = i_config (m_i s) /\ i_memory (m_i s') = i_memory (m_i s).
  Proof.
    intros H. apply execute_once_inv in H. destruct H as (s1 & s2 & s3 & steps0 & H1 & H2 & H3 & H4).
    apply macro_part_inv in H3. destruct H3 as [(_ & _ & ->)|(s4 & executed & _ & _ & _ & Hr)];
      [|discriminate].
    apply compute_steps_same in H2. destruct H2 as (C1 & C2 & _).
    rewrite H4, C1, C2, H1. split; reflexivity.
  Qed.

  (* ================================================================ C. final is absorbing *)
  Lemma considered_nil ev : considered sc ev [] = [].
  Proof. unfold considered. apply filter_false_nil. intros; reflexivity. Qed.

  Lemma select_nil ev s : select_transitions ev [] s = (s, inl []).
  Proof. unfold Interp.select_transitions. rewrite considered_nil. reflexivity. Qed.

  Lemma compute_steps_final s s' steps :
    i_initialized (m_i s) = true -> i_config (m_i s) = [] ->
    compute_steps s = (s', inl steps) ->
    steps = [] \/ exists e, steps = [mkMicro (Some e) None [] [] []].
  Proof.
    intros Hi Hc H. unfold Interp.compute_steps in H. rewrite bind_get in H. rewrite Hi, Hc in H.
    simpl negb in H. cbv iota in H. revert H. generalize (select_event (m_i s)). intros ev H.
    apply bind_ok in H. destruct H as (ts & s1 & H1 & H). rewrite select_nil in H1.
    inversion H1; subst s1 ts. clear H1.
    apply bind_ok in H. destruct H as (u & s2 & H2 & H).
    destruct ev as [e|]; inversion H; subst; [right; exists e; reflexivity|left; reflexivity].
  Qed.

  Theorem C02_final_absorbing fuel now s s' r :
    i_initialized (m_i s) = true -> i_config (m_i s) = [] ->
    execute_once fuel now s = (s', inl r) ->
    i_config (m_i s') = [] /\ is_final (m_i s') = true.
  Proof.
    intros Hi Hc H. apply execute_once_inv in H.
    destruct H as (s1 & s2 & s3 & steps0 & H1 & H2 & H3 & H4).
    assert (i_initialized (m_i s1) = true) as Hi1 by (rewrite H1; exact Hi).
    assert (i_config (m_i s1) = []) as Hc1 by (rewrite H1; exact Hc).
    pose proof (compute_steps_same _ _ _ H2) as (C1 & _ & C3).
    pose proof (compute_steps_final _ _ _ Hi1 Hc1 H2) as Hsteps.
    assert (i_config (m_i s3) = [] /\ i_initialized (m_i s3) = true) as [Hc3 Hi3].
    { apply macro_part_inv in H3. destruct H3 as [(_ & _ & ->)|(s4 & executed & _ & Hk & Hrun & _)].
      - split; [congruence|auto].
      - destruct Hk as (K1 & K2 & _).
        destruct Hsteps as [->|(e & ->)]; [simpl in Hrun; inversion Hrun; subst; split; [congruence|]; rewrite K2; auto|].
        simpl in Hrun.
        apply bind_ok in Hrun. destruct Hrun as (a & s5 & H5 & Hrun).
        apply (apply_step_inv (fun _ => True)) in H5.
        destruct H5 as (ent & exi & E1 & E2 & E3 & E4 & _). simpl in E1, E2.
        inversion E1; subst ent. inversion E2; subst exi. simpl in E3.
        apply bind_ok in Hrun. destruct Hrun as (ss & s6 & H6 & Hrun).
        assert (i_config (m_i s5) = []) as Hc5 by congruence.
        apply stabilize_stable in H6; [|apply css_nil, Hc5]. destruct H6 as [-> ->].
        apply bind_ok in Hrun. destruct Hrun as (r' & s7 & H7 & Hrun).
        inversion H7; subst s7 r'. inversion Hrun; subst s5. clear Hrun H7.
        split; [exact Hc5|]. rewrite E4, K2. auto. }
    rewrite H4. split; [exact Hc3|]. unfold is_final. rewrite Hi3, Hc3. reflexivity.
  Qed.

  (* ================================================================ descendants (bfs), soundness *)
  Inductive reach (a : name) : name -> Prop :=
  | reach_child c : In c (kids a) -> reach a c
  | reach_step m c : reach a m -> In c (kids m) -> reach a c.

  Lemma reach_trans a b c : reach a b -> reach b c -> reach a c.
  Proof.
    intros Hab Hbc. induction Hbc as [c Hc|m c Hm IH Hc].
    - eapply reach_step; eauto.
    - eapply reach_step; eauto.
  Qed.

  Lemma bfs_sound : forall fuel q d, In d (bfs sc fuel q) -> exists a, In a q /\ reach a d.
  Proof.
    induction fuel as [|f IH]; intros q d H; simpl in H; [destruct H|].
    destruct q as [|n q]; [destruct H|].
    apply in_app_or in H. destruct H as [H|H].
    - exists n. split; [left; reflexivity|apply reach_child, H].
    - apply IH in H. destruct H as (a & Ha & Hr). apply in_app_or in Ha. destruct Ha as [Ha|Ha].
      + exists a. split; [right; exact Ha|exact Hr].
      + exists n. split; [left; reflexivity|]. eapply reach_trans; [apply reach_child, Ha|exact Hr].
  Qed.

  Lemma desc_reach a d : In d (desc a) -> reach a d.
  Proof.
    intros H. apply bfs_sound in H. destruct H as (x & [<-|[]] & Hr). exact Hr.
  Qed.

  Lemma kids_desc a c : In c (kids a) -> In c (desc a).
  Proof. intros H. unfold descendants_for. simpl. apply in_or_app. left. exact H. Qed.

  Lemma desc_nil a : kids a = [] -> desc a = [].
  Proof.
    intros H. destruct (desc a) as [|d l] eqn:E; [reflexivity|].
    assert (In d (desc a)) as Hd by (rewrite E; left; reflexivity).
    apply desc_reach in Hd. exfalso.
    assert (forall x, reach a x -> False) as Hno; [|exact (Hno d Hd)].
    intros x Hx. induction Hx as [c Hc|m c Hm IH Hc]; [rewrite H in Hc; destruct Hc|exact IH].
  Qed.

  (* ================================================================ B'. consequences of stability *)
  (* an active orthogonal state has all its children active *)
  Theorem C02_orthogonal_complete cfg n st c :
    stable cfg -> In n cfg -> state_for sc n = Some st -> s_kind st = KOrthogonal ->
    In c (kids n) -> In c cfg.
  Proof.
    intros [_ Ho] Hn Hst Hk Hc. destruct (Ho n Hn) as (st' & E & H).
    rewrite Hst in E. inversion E; subst st'. apply H; assumption.
  Qed.

  (* no state without children that is a history state / a final child of the root is active *)
  Theorem C02_no_history_active cfg n st :
    stable cfg -> In n cfg -> state_for sc n = Some st -> kids n = [] ->
    is_history (s_kind st) = false /\ (s_kind st = KFinal -> par n <> root sc).
  Proof.
    intros [Hl _] Hn Hst Hk.
    assert (is_leaf cfg n) as Hleaf.
    { split; [exact Hn|]. intros d Hd. rewrite (desc_nil n Hk) in Hd. destruct Hd. }
    destruct (Hl n Hleaf) as (st' & E & H). rewrite Hst in E. inversion E; subst st'.
    destruct (s_kind st); simpl; split; try reflexivity; try discriminate; try contradiction.
    intros _. exact H.
  Qed.

  (* a compound state with an initial state is not a leaf of a stable configuration *)
  Lemma stable_compound_not_leaf cfg n st i :
    stable cfg -> In n cfg -> state_for sc n = Some st -> s_kind st = KCompound ->
    truthy (s_initial st) = Some i -> exists d, In d (desc n) /\ In d cfg.
  Proof.
    intros [Hl _] Hn Hst Hk Hi.
    destruct (existsb (fun d => mem d cfg) (desc n)) eqn:E.
    - apply existsb_exists in E. destruct E as (d & Hd & Hm). exists d. split; [exact Hd|apply mem_In, Hm].
    - exfalso. assert (is_leaf cfg n) as Hleaf.
      { apply leaf_for_iff. unfold leaf_for. apply filter_In. split; [exact Hn|]. rewrite E. reflexivity. }
      destruct (Hl n Hleaf) as (st' & E' & H). rewrite Hst in E'. inversion E'; subst st'.
      rewrite Hk in H. congruence.
  Qed.

  (* parent-closed configurations *)
  Definition pclosed (cfg : list name) : Prop :=
    forall n p, In n cfg -> par n = Some p -> In p cfg.

  Lemma reach_active_child cfg a d :
    (forall c p, In c (kids p) -> par c = Some p) -> pclosed cfg ->
    reach a d -> In d cfg -> exists c, In c (kids a) /\ In c cfg.
  Proof.
    intros Hpc Hcl Hr. induction Hr as [c Hc|m c Hm IH Hc]; intros Hd.
    - exists c. split; assumption.
    - apply IH. eapply Hcl; [exact Hd|]. apply Hpc, Hc.
  Qed.

  Theorem C02_compound_has_child cfg n st i :
    (forall c p, In c (kids p) -> par c = Some p) -> pclosed cfg ->
    stable cfg -> In n cfg -> state_for sc n = Some st -> s_kind st = KCompound ->
    truthy (s_initial st) = Some i -> exists c, In c (kids n) /\ In c cfg.
  Proof.
    intros Hpc Hcl Hs Hn Hst Hk Hi.
    destruct (stable_compound_not_leaf cfg n st i Hs Hn Hst Hk Hi) as (d & Hd & Hdc).
    eapply reach_active_child; eauto. apply desc_reach, Hd.
  Qed.

  (* a legal configuration is stable (no chart hypothesis needed) *)
  Theorem C02_legal_stable cfg : legal cfg -> stable cfg.
  Proof.
    intros (Hnd & _ & Hs). split.
    - intros n [Hn Hleaf]. destruct (Hs n Hn) as (st & Est & Hp & Hr & Hc & Ho & Hh & Hf).
      exists st. split; [exact Est|].
      destruct (s_kind st) eqn:K; try exact I; try discriminate.
      + destruct (Hc eq_refl) as [(c & Hc')|[_ Hi]]; [|exact Hi].
        exfalso. assert (In c (active_children cfg n)) as Hin by (rewrite Hc'; left; reflexivity).
        apply filter_In in Hin. destruct Hin as [Hk Hm]. apply mem_In in Hm.
        exact (Hleaf c (kids_desc n c Hk) Hm).
      + destruct (kids n) as [|c l] eqn:Ek; [reflexivity|]. exfalso.
        assert (In c (kids n)) as Hk by (rewrite Ek; left; reflexivity).
        apply (Hleaf c (kids_desc n c Hk)). apply (Ho eq_refl). left; reflexivity.
      + apply Hf. reflexivity.
    - intros n Hn. destruct (Hs n Hn) as (st & Est & Hp & Hr & Hc & Ho & Hh & Hf).
      exists st. split; [exact Est|exact Ho].
  Qed.

  (* ================================================================ E. preservation *)
  Section WF.
    (* ---- well-formedness of the chart (DESIGN.md section 2), exactly the parts used ---- *)
    (* x lies in the subtree rooted at a (a included) *)
    Definition under (a x : name) : Prop := x = a \/ In a (anc x).

    Variable r : name.
    Hypothesis Hroot : root sc = Some r.
    Hypothesis Hroot_par : par r = None.
    (* WF1 *)
    Hypothesis Hne : forall n, par n <> Some ""%string.
    Hypothesis Hnames : forall n st, state_for sc n = Some st -> s_name st = n.
    (* WF2: one tree *)
    Hypothesis Hanc : forall a b, In b (anc a) -> (depth b < depth a)%Z.
    Hypothesis Hpc : forall c p, In c (kids p) <-> par c = Some p.
    Hypothesis Hkids_nodup : forall p, NoDup (kids p).
    Hypothesis Hdesc_complete : forall a d, In a (anc d) -> In d (desc a).
    Hypothesis Hone_root : forall n, state_for sc n <> None -> par n = None -> n = r.
    (* WF3: only composite states have children *)
    Hypothesis Hcomposite : forall n st, state_for sc n = Some st -> kids n <> [] ->
      s_kind st = KCompound \/ s_kind st = KOrthogonal.
    (* WF4: a declared initial state is a child *)
    Hypothesis Hinitial : forall n st i, state_for sc n = Some st -> s_kind st = KCompound ->
      truthy (s_initial st) = Some i -> par i = Some n.
    (* WF5: no final state directly below an orthogonal state *)
    Hypothesis Hregions : forall n st c cs, state_for sc n = Some st -> s_kind st = KOrthogonal ->
      par c = Some n -> state_for sc c = Some cs -> s_kind cs <> KFinal.
    (* WF6: a history state has a compound parent; its default memory is a sibling *)
    Hypothesis Hhistory : forall h hs, state_for sc h = Some hs -> is_history (s_kind hs) = true ->
      exists p ps, par h = Some p /\ state_for sc p = Some ps /\ s_kind ps = KCompound
                   /\ (forall m, s_memory hs = Some m -> par m = Some p).
    (* WF7a: no transition crosses between sibling regions of an orthogonal state *)
    Hypothesis Hcross : forall t tgt O os R1 R2, In t (c_transitions sc) -> t_target t = Some tgt ->
      state_for sc O = Some os -> s_kind os = KOrthogonal -> par R1 = Some O -> par R2 = Some O ->
      under R1 (t_source t) -> under R2 tgt -> R1 = R2.
    (* WF7 + WF1: the target of a transition, when present, is a state, hence not the empty name *)
    Hypothesis Htarget : forall t tgt, In t (c_transitions sc) -> t_target t = Some tgt -> tgt <> ""%string.
    (* WF6 (second half): the default memory of a history state is not a history state.  Used ONLY by the
       termination result C02_stabilize_terminates at the end of the section. *)
    Hypothesis Hmemory_nonhist : forall h hs m ms, state_for sc h = Some hs ->
      is_history (s_kind hs) = true -> s_memory hs = Some m -> state_for sc m = Some ms ->
      is_history (s_kind ms) = false.

    (* ---------------------------------------------------------------- ancestors *)
    Lemma truthy_some (p : name) : p <> ""%string -> truthy (@Some name p) = @Some name p.
    Proof. destruct p; [congruence|reflexivity]. Qed.

    Lemma anc_none n : par n = None -> anc n = [].
    Proof.
      intros H. unfold ancestors_for. rewrite H. destruct (length (c_parent sc)); reflexivity.
    Qed.

    Lemma anc_some n p : par n = Some p -> anc n = p :: anc p.
    Proof.
      intros H. assert (p <> ""%string) as Hp by (intros ->; exact (Hne n H)).
      destruct (length (c_parent sc)) as [|N'] eqn:EN.
      { apply length_zero_iff_nil in EN. unfold parent_for in H. rewrite EN in H. discriminate. }
      assert (anc n = p :: ancestors_fuel sc N' (par p)) as E1.
      { unfold ancestors_for. rewrite EN, H.
        change (ancestors_fuel sc (S N') (Some p))
          with (match truthy (Some p) with
                | Some q => q :: ancestors_fuel sc N' (par q) | None => [] end).
        rewrite (truthy_some p Hp). reflexivity. }
      rewrite E1. f_equal.
      rewrite (fuel_firstn sc N' (length (c_parent sc))) by lia.
      fold (anc p). apply firstn_all2.
      assert (In p (anc n)) as Hin by (rewrite E1; left; reflexivity).
      apply Hanc in Hin. unfold depth_for in Hin.
      pose proof (fuel_length sc (length (c_parent sc)) (par n)) as HL. fold (anc n) in HL. lia.
    Qed.

    Lemma anc_ind (Q : name -> Prop) :
      (forall x, (forall p, par x = Some p -> Q p) -> Q x) -> forall x, Q x.
    Proof.
      intros HQ. assert (forall n x, length (anc x) <= n -> Q x) as H.
      { induction n as [|n IH]; intros x Hl; apply HQ; intros p Hp;
          rewrite (anc_some x p Hp) in Hl; simpl in Hl; [lia|apply IH; lia]. }
      intros x. apply (H (length (anc x))). apply le_n.
    Qed.

    Lemma anc_irr a : ~ In a (anc a).
    Proof. intros H. apply Hanc in H. lia. Qed.

    Lemma anc_asym a b : In a (anc b) -> In b (anc a) -> False.
    Proof. intros H1 H2. apply Hanc in H1. apply Hanc in H2. lia. Qed.

    Lemma anc_tr a b c : In b (anc a) -> In c (anc b) -> In c (anc a).
    Proof. apply (anc_trans sc Hanc). Qed.

    Lemma anc_par n p : par n = Some p -> In p (anc n).
    Proof. intros H. rewrite (anc_some n p H). left; reflexivity. Qed.

    Lemma anc_cases n a : In a (anc n) -> exists p, par n = Some p /\ (a = p \/ In a (anc p)).
    Proof.
      intros H. destruct (par n) as [p|] eqn:E.
      - exists p. split; [reflexivity|]. rewrite (anc_some n p E) in H. destruct H as [<-|H]; auto.
      - rewrite (anc_none n E) in H. destruct H.
    Qed.

    Lemma under_refl a : under a a.
    Proof. left; reflexivity. Qed.

    Lemma under_trans a b c : under a b -> under b c -> under a c.
    Proof.
      intros [->|H1] [->|H2]; try (left; reflexivity); try (right; assumption).
      right. eapply anc_tr; eauto.
    Qed.

    Lemma under_anc a b c : In a (anc b) -> under b c -> In a (anc c).
    Proof. intros H [->|H2]; [exact H|eapply anc_tr; eauto]. Qed.

    Lemma under_par_up a x p : par x = Some p -> under a x -> x = a \/ under a p.
    Proof.
      intros Hp [->|H]; [left; reflexivity|]. right.
      rewrite (anc_some x p Hp) in H. destruct H as [<-|H]; [left; reflexivity|right; exact H].
    Qed.

    Lemma under_antisym a b : under a b -> under b a -> a = b.
    Proof.
      intros [->|H1] [H2|H2]; try reflexivity; try assumption; try (symmetry; assumption).
      exfalso. eapply anc_asym; eauto.
    Qed.

    (* the ancestors of a state form a chain *)
    Lemma anc_chain : forall x a b, In a (anc x) -> In b (anc x) -> a = b \/ In a (anc b) \/ In b (anc a).
    Proof.
      apply (anc_ind (fun x => forall a b, In a (anc x) -> In b (anc x) ->
                                           a = b \/ In a (anc b) \/ In b (anc a))).
      intros x IH a b Ha Hb.
      destruct (anc_cases x a Ha) as (p & Hp & Ha').
      destruct (anc_cases x b Hb) as (p' & Hp' & Hb'). rewrite Hp in Hp'. inversion Hp'; subst p'.
      destruct Ha' as [->|Ha'], Hb' as [->|Hb']; auto.
      apply (IH p Hp); assumption.
    Qed.

    Lemma pclosed_anc cfg : pclosed cfg -> forall x, In x cfg -> forall a, In a (anc x) -> In a cfg.
    Proof.
      intros Hcl. apply (anc_ind (fun x => In x cfg -> forall a, In a (anc x) -> In a cfg)).
      intros x IH Hx a Ha. destruct (anc_cases x a Ha) as (p & Hp & [->|Ha']).
      - eapply Hcl; eauto.
      - apply (IH p Hp); [eapply Hcl; eauto|exact Ha'].
    Qed.

    Lemma pclosed_under cfg a x : pclosed cfg -> In x cfg -> under a x -> In a cfg.
    Proof. intros Hcl Hx [->|H]; [exact Hx|eapply pclosed_anc; eauto]. Qed.

    (* the child of l on the way down to x *)
    Lemma child_toward l : forall x, In l (anc x) -> exists k, par k = Some l /\ under k x.
    Proof.
      apply (anc_ind (fun x => In l (anc x) -> exists k, par k = Some l /\ under k x)).
      intros x IH H. destruct (anc_cases x l H) as (p & Hp & [->|H']).
      - exists x. split; [exact Hp|apply under_refl].
      - destruct (IH p Hp H') as (k & Hk & Hu). exists k. split; [exact Hk|].
        eapply under_trans; [exact Hu|]. right. apply anc_par, Hp.
    Qed.

    (* two states of one chain with the same parent are equal *)
    Lemma same_parent_chain t c1 c2 n :
      under c1 t -> under c2 t -> par c1 = Some n -> par c2 = Some n -> c1 = c2.
    Proof.
      intros U1 U2 P1 P2.
      assert (forall a b, par a = Some n -> par b = Some n -> In a (anc b) -> False) as Hno.
      { intros a b Pa Pb H. rewrite (anc_some b n Pb) in H. destruct H as [<-|H].
        - apply (anc_irr n). apply anc_par, Pa.
        - apply (anc_asym a n H). apply anc_par, Pa. }
      destruct U1 as [->|U1], U2 as [->|U2]; try reflexivity.
      - exfalso. eapply (Hno c2 c1); eauto.
      - exfalso. eapply (Hno c1 c2); eauto.
      - destruct (anc_chain t c1 c2 U1 U2) as [E|[H|H]]; [exact E| |]; exfalso.
        + eapply (Hno c1 c2); eauto.
        + eapply (Hno c2 c1); eauto.
    Qed.

    (* the top of the chain of x *)
    Lemma top_of : forall x, exists t, under t x /\ par t = None.
    Proof.
      apply (anc_ind (fun x => exists t, under t x /\ par t = None)).
      intros x IH. destruct (par x) as [p|] eqn:Hp.
      - destruct (IH p eq_refl) as (t & Ht & Hn). exists t. split; [|exact Hn].
        eapply under_trans; [exact Ht|]. right. apply anc_par, Hp.
      - exists x. split; [apply under_refl|exact Hp].
    Qed.

    (* descendants_for = inverse of ancestors_for *)
    Lemma reach_anc a d : reach a d -> In a (anc d).
    Proof.
      intros H. induction H as [c Hc|m c Hm IH Hc].
      - apply anc_par, Hpc, Hc.
      - eapply anc_tr; [apply anc_par, Hpc, Hc|exact IH].
    Qed.

    Lemma desc_iff a d : In d (desc a) <-> In a (anc d).
    Proof. split; [intros H; apply reach_anc, desc_reach, H|apply Hdesc_complete]. Qed.

    Lemma under_iff a x : under a x <-> x = a \/ In x (desc a).
    Proof. unfold under. rewrite desc_iff. tauto. Qed.

    Lemma no_kids_no_desc h x : kids h = [] -> ~ In h (anc x).
    Proof.
      intros Hk H. destruct (child_toward h x H) as (k & Hp & _).
      apply Hpc in Hp. rewrite Hk in Hp. destruct Hp.
    Qed.

    (* ---------------------------------------------------------------- shape of a transition step *)
    Definition below (lca : option name) (x : name) : Prop :=
      match lca with Some l => In l (anc x) | None => True end.

    Lemma last_before_cons lca a rest cur :
      last_before lca (a :: rest) cur = if ostr_eqb (Some a) lca then cur else last_before lca rest a.
    Proof. reflexivity. Qed.

    Lemma entered_path_cons lca a rest acc :
      entered_path lca (a :: rest) acc
      = if ostr_eqb (Some a) lca then acc else entered_path lca rest (a :: acc).
    Proof. reflexivity. Qed.

    Lemma last_before_spec lca : forall cur,
      (forall l, lca = Some l -> In l (anc cur)) ->
      under (last_before lca (anc cur) cur) cur /\ par (last_before lca (anc cur) cur) = lca.
    Proof.
      apply (anc_ind (fun cur => (forall l, lca = Some l -> In l (anc cur)) ->
        under (last_before lca (anc cur) cur) cur /\ par (last_before lca (anc cur) cur) = lca)).
      intros cur IH Hl. destruct (par cur) as [p|] eqn:Hp.
      - rewrite (anc_some cur p Hp), last_before_cons. destruct (ostr_eqb (Some p) lca) eqn:E.
        + apply ostr_eqb_iff in E. split; [apply under_refl|congruence].
        + apply ostr_eqb_false_iff in E. destruct (IH p eq_refl) as [U P].
          { intros l El. specialize (Hl l El). rewrite (anc_some cur p Hp) in Hl.
            destruct Hl as [<-|Hl]; [congruence|exact Hl]. }
          split; [|exact P]. eapply under_trans; [exact U|right; apply anc_par, Hp].
      - rewrite (anc_none cur Hp). simpl. split; [apply under_refl|].
        destruct lca as [l|]; [|exact Hp]. specialize (Hl l eq_refl).
        rewrite (anc_none cur Hp) in Hl. destruct Hl.
    Qed.

    Lemma entered_path_spec lca x : forall cur acc,
      (forall l, lca = Some l -> In l (anc cur)) ->
      (In x (entered_path lca (anc cur) acc) <-> In x acc \/ (In x (anc cur) /\ below lca x)).
    Proof.
      apply (anc_ind (fun cur => forall acc, (forall l, lca = Some l -> In l (anc cur)) ->
        (In x (entered_path lca (anc cur) acc) <-> In x acc \/ (In x (anc cur) /\ below lca x)))).
      intros cur IH acc Hl. destruct (par cur) as [p|] eqn:Hp.
      - rewrite (anc_some cur p Hp), entered_path_cons. destruct (ostr_eqb (Some p) lca) eqn:E.
        + apply ostr_eqb_iff in E. subst lca. simpl. split; [auto|].
          intros [H|[[<-|H] Hb]]; [exact H| |]; exfalso.
          * exact (anc_irr p Hb).
          * exact (anc_asym x p H Hb).
        + apply ostr_eqb_false_iff in E.
          assert (forall l, lca = Some l -> In l (anc p)) as Hl'.
          { intros l El. specialize (Hl l El). rewrite (anc_some cur p Hp) in Hl.
            destruct Hl as [<-|Hl]; [congruence|exact Hl]. }
          rewrite (IH p eq_refl (p :: acc) Hl'). simpl.
          assert (below lca p) as Hbp.
          { unfold below. destruct lca as [l|]; [apply Hl'; reflexivity|exact I]. }
          split.
          * intros [[<-|H]|[H Hb]]; auto.
          * intros [H|[[<-|H] Hb]]; auto.
      - rewrite (anc_none cur Hp). simpl. tauto.
    Qed.

    Lemma entered_spec lca tgt x :
      (forall l, lca = Some l -> In l (anc tgt)) ->
      (In x (entered_path lca (anc tgt) [tgt]) <-> under x tgt /\ below lca x).
    Proof.
      intros Hl. rewrite (entered_path_spec lca x tgt [tgt] Hl). unfold under. simpl. split.
      - intros [[<-|[]]|[H Hb]].
        + split; [left; reflexivity|]. unfold below. destruct lca as [l|]; [apply Hl; reflexivity|exact I].
        + split; [right; exact H|exact Hb].
      - intros [[->|H] Hb]; [left; left; reflexivity|right; split; assumption].
    Qed.

    Lemma exited_spec cfg lbl x :
      In x (filter (fun d => mem d cfg) (sort (exit_order_leb sc) (desc lbl))
            ++ (if mem lbl cfg then [lbl] else []))
      <-> In x cfg /\ under lbl x.
    Proof.
      rewrite in_app_iff, filter_In, sort_In, desc_iff, mem_In. unfold under. split.
      - intros [[H1 H2]|H]; [tauto|].
        destruct (mem lbl cfg) eqn:E; [|destruct H]. destruct H as [<-|[]].
        apply mem_In in E. tauto.
      - intros [Hc [->|H]]; [|tauto]. right. apply mem_In in Hc. rewrite Hc. left; reflexivity.
    Qed.

    (* ---------------------------------------------------------------- configurations as sets *)
    Lemma remove_first_spec y : forall l, NoDup l ->
      NoDup (remove_first y l) /\ forall x, In x (remove_first y l) <-> In x l /\ x <> y.
    Proof.
      induction l as [|a l IH]; simpl; intros Hnd.
      - split; [constructor|]. intros x; tauto.
      - inversion Hnd as [|? ? Ha Hl]; subst. destruct (str_eqb y a) eqn:E.
        + apply str_eqb_spec in E. subst a. split; [exact Hl|]. intros x. split.
          * intros Hx. split; [right; exact Hx|]. intros ->. contradiction.
          * intros [[<-|Hx] Hn]; [congruence|exact Hx].
        + assert (y <> a) as Hya.
          { intros ->. rewrite (proj2 (str_eqb_spec a a) eq_refl) in E. discriminate. }
          destruct (IH Hl) as [N I]. split.
          * constructor; [|exact N]. intros Hin. apply I in Hin. tauto.
          * intros x. simpl. rewrite I. split.
            -- intros [<-|[Hx Hn]]; [split; [left; reflexivity|congruence]|split; [right; exact Hx|exact Hn]].
            -- intros [[<-|Hx] Hn]; [left; reflexivity|right; split; assumption].
    Qed.

    Lemma set_add_spec y l : NoDup l ->
      NoDup (set_add y l) /\ forall x, In x (set_add y l) <-> In x l \/ x = y.
    Proof.
      intros Hnd. unfold set_add. destruct (mem y l) eqn:E.
      - apply mem_In in E. split; [exact Hnd|]. intros x. split; [auto|]. intros [H| ->]; assumption.
      - apply mem_false_iff in E. split; [apply NoDup_snoc; assumption|].
        intros x. rewrite in_app_iff. simpl. split.
        + intros [H|[<-|[]]]; auto.
        + intros [H| ->]; auto.
    Qed.

    Lemma exit_all_spec : forall exi cfg, NoDup cfg ->
      NoDup (exit_all exi cfg)
      /\ forall x, In x (exit_all exi cfg) <-> In x cfg /\ ~ In x (map s_name exi).
    Proof.
      induction exi as [|st exi IH]; intros cfg Hnd; simpl.
      - split; [exact Hnd|]. intros x; tauto.
      - destruct (remove_first_spec (s_name st) cfg Hnd) as [N1 I1].
        destruct (IH _ N1) as [N2 I2]. split; [exact N2|].
        intros x. unfold exit_all in I2. rewrite I2, I1. split.
        + intros [[H1 H2] H3]. split; [exact H1|]. intros [E|H]; [congruence|contradiction].
        + intros [H1 H2]. split; [split; [exact H1|]|]; intros H; apply H2; [left; congruence|right; exact H].
    Qed.

    Lemma enter_all_spec : forall ent cfg, NoDup cfg ->
      NoDup (enter_all ent cfg)
      /\ forall x, In x (enter_all ent cfg) <-> In x cfg \/ In x (map s_name ent).
    Proof.
      induction ent as [|st ent IH]; intros cfg Hnd; simpl.
      - split; [exact Hnd|]. intros x; tauto.
      - destruct (set_add_spec (s_name st) cfg Hnd) as [N1 I1].
        destruct (IH _ N1) as [N2 I2]. split; [exact N2|].
        intros x. unfold enter_all in I2. rewrite I2, I1. split.
        + intros [[H|H]|H]; auto.
        + intros [H|[H|H]]; auto.
    Qed.

    Lemma states_for_spec : forall l sts, states_for sc l = Some sts ->
      map s_name sts = l /\ forall n, In n l -> state_for sc n <> None.
    Proof.
      induction l as [|n l IH]; intros sts H; simpl in H.
      - inversion H; subst. split; [reflexivity|]. intros n [].
      - destruct (state_for sc n) as [st|] eqn:E; [|discriminate].
        destruct (states_for sc l) as [rr|]; [|discriminate]. inversion H; subst sts.
        destruct (IH rr eq_refl) as [M F]. split.
        + simpl. rewrite M, (Hnames n st E). reflexivity.
        + intros x [<-|Hx]; [congruence|apply F, Hx].
    Qed.

    (* the configuration after a micro step, as a set *)
    Lemma cfg_after_spec cfg entn exin ent exi :
      NoDup cfg -> states_for sc entn = Some ent -> states_for sc exin = Some exi ->
      NoDup (enter_all ent (exit_all exi cfg))
      /\ (forall x, In x (enter_all ent (exit_all exi cfg)) <-> (In x cfg /\ ~ In x exin) \/ In x entn)
      /\ (forall x, In x entn -> state_for sc x <> None).
    Proof.
      intros Hnd He Hx. apply states_for_spec in He. apply states_for_spec in Hx.
      destruct He as [Me Fe], Hx as [Mx Fx].
      destruct (exit_all_spec exi cfg Hnd) as [N1 I1].
      destruct (enter_all_spec ent _ N1) as [N2 I2].
      split; [exact N2|]. split; [|exact Fe].
      intros x. rewrite I2, I1, Me, Mx. tauto.
    Qed.

    (* ---------------------------------------------------------------- the weak invariant *)
    (* at most one active child per compound state *)
    Definition amo (cfg : list name) : Prop :=
      forall n st c1 c2, state_for sc n = Some st -> s_kind st = KCompound ->
        par c1 = Some n -> par c2 = Some n -> In c1 cfg -> In c2 cfg -> c1 = c2.

    Definition wk (cfg : list name) : Prop :=
      NoDup cfg /\ (forall n, In n cfg -> state_for sc n <> None) /\ pclosed cfg /\ amo cfg.

    Lemma wk_nil : wk [].
    Proof.
      split; [constructor|]. split; [intros n []|]. split; [intros n p []|].
      intros n st c1 c2 _ _ _ _ [].
    Qed.

    Lemma wk_under_root cfg x : wk cfg -> In x cfg -> under r x.
    Proof.
      intros (_ & Hex & Hcl & _) Hx. destruct (top_of x) as (t & Ht & Hp).
      assert (In t cfg) as Htc by (eapply pclosed_under; eauto).
      rewrite (Hone_root t (Hex t Htc) Hp) in Ht. exact Ht.
    Qed.

    Lemma wk_root cfg x : wk cfg -> In x cfg -> In r cfg.
    Proof.
      intros Hwk Hx. destruct Hwk as (H1 & H2 & Hcl & H4).
      eapply pclosed_under; [exact Hcl|exact Hx|].
      apply (wk_under_root cfg x); [repeat split; assumption|exact Hx].
    Qed.

    Lemma par_under_anc c n t : par c = Some n -> under c t -> In n (anc t).
    Proof.
      intros Hp [->|H]; [apply anc_par, Hp|]. eapply anc_tr; [exact H|apply anc_par, Hp].
    Qed.

    (* E1 + E2: a transition micro step keeps the weak invariant *)
    Lemma trans_step_wk cfg cfg' src tgt lca :
      wk cfg -> In src cfg ->
      (forall l, lca = Some l -> In l (anc src) /\ In l (anc tgt)) ->
      (forall l ls e1, lca = Some l -> state_for sc l = Some ls -> s_kind ls = KOrthogonal ->
                       par e1 = Some l -> under e1 tgt -> e1 = last_before lca (anc src) src) ->
      NoDup cfg' ->
      (forall x, In x cfg' <->
                 (In x cfg /\ ~ under (last_before lca (anc src) src) x) \/ (under x tgt /\ below lca x)) ->
      (forall x, In x cfg' -> state_for sc x <> None) ->
      wk cfg' /\ In r cfg'.
    Proof.
      intros Hwk Hsrc Hlca H7 Hnd' Hin Hex'.
      pose proof (wk_root cfg src Hwk Hsrc) as Hr.
      pose proof (wk_under_root cfg) as Hur. specialize (fun x => Hur x Hwk).
      destruct Hwk as (Hnd & Hex & Hcl & Hamo).
      set (lbl := last_before lca (anc src) src) in *.
      destruct (last_before_spec lca src (fun l El => proj1 (Hlca l El))) as [Ulbl Plbl].
      fold lbl in Ulbl, Plbl.
      assert (In lbl cfg) as Hlbl by (exact (pclosed_under cfg lbl src Hcl Hsrc Ulbl)).
      assert (forall l, lca = Some l -> In l cfg /\ ~ under lbl l) as HL.
      { intros l El. destruct (Hlca l El) as [Hs Ht]. split; [exact (pclosed_anc cfg Hcl src Hsrc l Hs)|].
        rewrite El in Plbl. intros [E|H].
        - subst l. apply (anc_irr lbl). apply anc_par, Plbl.
        - apply (anc_asym lbl l H). apply anc_par, Plbl. }
      (* an old state that survives below l: l is orthogonal and the target side region is lbl *)
      assert (forall l c, lca = Some l -> In c cfg -> ~ under lbl c -> In l (anc c) ->
                exists ls, state_for sc l = Some ls /\ s_kind ls = KOrthogonal
                           /\ forall e1, par e1 = Some l -> under e1 tgt -> e1 = lbl) as HK.
      { intros l c El Hc Hnu Hlc. destruct (HL l El) as [Hlcfg _].
        destruct (state_for sc l) as [ls|] eqn:Els; [|exfalso; exact (Hex l Hlcfg Els)].
        exists ls. split; [reflexivity|].
        rewrite El in Plbl.
        assert (kids l <> []) as Hk.
        { apply Hpc in Plbl. intros E. rewrite E in Plbl. destruct Plbl. }
        destruct (Hcomposite l ls Els Hk) as [K|K].
        - exfalso. destruct (child_toward l c Hlc) as (k & Pk & Uk).
          assert (In k cfg) as Hkc by (exact (pclosed_under cfg k c Hcl Hc Uk)).
          assert (k = lbl) as -> by (exact (Hamo l ls k lbl Els K Pk Plbl Hkc Hlbl)).
          exact (Hnu Uk).
        - split; [exact K|]. intros e1 P1 U1. eapply H7; eauto. }
      split; [|].
      - split; [exact Hnd'|]. split; [exact Hex'|]. split.
        + (* parent-closed *)
          intros x q Hx Hq. apply Hin in Hx. apply Hin. destruct Hx as [[Hx Hnu]|[Hu Hb]].
          * left. split; [eapply Hcl; eauto|]. intros U. apply Hnu.
            eapply under_trans; [exact U|right; apply anc_par, Hq].
          * assert (In q (anc tgt)) as Hqt by (eapply par_under_anc; eauto).
            destruct lca as [l|]; simpl in Hb.
            -- rewrite (anc_some x q Hq) in Hb. destruct Hb as [<-|Hb].
               ++ left. apply HL. reflexivity.
               ++ right. split; [right; exact Hqt|exact Hb].
            -- right. split; [right; exact Hqt|exact I].
        + (* at most one active child per compound state *)
          assert (forall n st c1 c2, state_for sc n = Some st -> s_kind st = KCompound ->
                    par c1 = Some n -> par c2 = Some n ->
                    (In c1 cfg /\ ~ under lbl c1) -> (under c2 tgt /\ below lca c2) -> False) as Hmix.
          { intros n st c1 c2 Est K P1 P2 [Hc1 Hn1] [Hu2 Hb2].
            destruct lca as [l|]; simpl in Hb2.
            - rewrite (anc_some c2 n P2) in Hb2. destruct Hb2 as [<-|Hb2].
              + destruct (HK n c1 eq_refl Hc1 Hn1 (anc_par c1 n P1)) as (ls & Els & Kls & _).
                rewrite Est in Els. inversion Els; subst ls. congruence.
              + assert (In l (anc c1)) as Hlc1 by (eapply anc_tr; [apply anc_par, P1|exact Hb2]).
                destruct (HK l c1 eq_refl Hc1 Hn1 Hlc1) as (ls & Els & Kls & He1).
                destruct (child_toward l n Hb2) as (k & Pk & Uk).
                assert (under n tgt) as Unt by (right; eapply par_under_anc; eauto).
                assert (k = lbl) as -> by (apply He1; [exact Pk|eapply under_trans; eauto]).
                apply Hn1. eapply under_trans; [exact Uk|right; apply anc_par, P1].
            - assert (lbl = r) as E by (apply Hone_root; [apply Hex, Hlbl|exact Plbl]).
              apply Hn1. rewrite E. apply Hur, Hc1. }
          intros n st c1 c2 Est K P1 P2 H1 H2. apply Hin in H1. apply Hin in H2.
          destruct H1 as [H1|H1], H2 as [H2|H2].
          * eapply Hamo; eauto; tauto.
          * exfalso. eapply (Hmix n st c1 c2); eauto.
          * exfalso. eapply (Hmix n st c2 c1); eauto.
          * eapply same_parent_chain; [apply H1|apply H2|exact P1|exact P2].
      - (* the root stays active *)
        apply Hin. destruct lca as [l|] eqn:El.
        + left. split; [exact Hr|]. intros [E|H].
          * rewrite <- E in Plbl. congruence.
          * rewrite (anc_none r Hroot_par) in H. destruct H.
        + right. split; [|exact I]. destruct (top_of tgt) as (t & Ut & Pt).
          assert (In t cfg') as Ht by (apply Hin; right; split; [exact Ut|exact I]).
          rewrite (Hone_root t (Hex' t Ht) Pt) in Ut. exact Ut.
    Qed.

    (* ---------------------------------------------------------------- E3: stabilisation steps *)
    Lemma no_kids_of_kind n st :
      state_for sc n = Some st -> s_kind st <> KCompound -> s_kind st <> KOrthogonal -> kids n = [].
    Proof.
      intros Est H1 H2. destruct (kids n) as [|c l] eqn:E; [reflexivity|]. exfalso.
      destruct (Hcomposite n st Est) as [K|K]; [rewrite E; discriminate| |]; contradiction.
    Qed.

    (* entering children of an active state *)
    Lemma enter_children_wk cfg cfg' n E :
      wk cfg -> In n cfg -> (forall x, In x E -> par x = Some n) ->
      (forall st, state_for sc n = Some st -> s_kind st = KCompound ->
                  (forall c, par c = Some n -> ~ In c cfg) /\ (forall x y, In x E -> In y E -> x = y)) ->
      NoDup cfg' -> (forall x, In x cfg' <-> In x cfg \/ In x E) ->
      (forall x, In x cfg' -> state_for sc x <> None) ->
      wk cfg'.
    Proof.
      intros (Hnd & Hex & Hcl & Hamo) Hn HE Hcomp Hnd' Hin Hex'.
      split; [exact Hnd'|]. split; [exact Hex'|]. split.
      - intros x q Hx Hq. apply Hin in Hx. apply Hin. left. destruct Hx as [Hx|Hx].
        + eapply Hcl; eauto.
        + rewrite (HE x Hx) in Hq. inversion Hq; subst q. exact Hn.
      - assert (forall m st c1 c2, state_for sc m = Some st -> s_kind st = KCompound ->
                  par c1 = Some m -> par c2 = Some m -> In c1 E -> In c2 cfg' -> c1 = c2) as Hone.
        { intros m st c1 c2 Est K P1 P2 H1 H2. rewrite (HE c1 H1) in P1. inversion P1; subst m.
          destruct (Hcomp st Est K) as [Hno Heq]. apply Hin in H2. destruct H2 as [H2|H2].
          - exfalso. exact (Hno c2 P2 H2).
          - apply Heq; assumption. }
        intros m st c1 c2 Est K P1 P2 H1 H2.
        pose proof H1 as H1'. pose proof H2 as H2'. apply Hin in H1. apply Hin in H2.
        destruct H1 as [H1|H1], H2 as [H2|H2].
        + eapply Hamo; eauto.
        + symmetry. eapply Hone; eauto.
        + eapply Hone; eauto.
        + eapply Hone; eauto.
    Qed.

    (* a recorded (or default) memory of a history child of p *)
    Definition mwf (p : name) (l : list name) : Prop :=
      (forall x, In x l -> In p (anc x))
      /\ (forall x q, In x l -> par x = Some q -> q = p \/ In q l)
      /\ amo l.

    Definition memory_wf (m : list (name * list name)) : Prop :=
      forall h l p, lookup h m = Some l -> par h = Some p -> mwf p l.

    (* leaving a history state and entering its memory *)
    Lemma restore_wk cfg cfg' h p ps l :
      wk cfg -> In h cfg -> par h = Some p -> kids h = [] ->
      state_for sc p = Some ps -> s_kind ps = KCompound -> mwf p l ->
      NoDup cfg' -> (forall x, In x cfg' <-> (In x cfg /\ x <> h) \/ In x l) ->
      (forall x, In x cfg' -> state_for sc x <> None) ->
      wk cfg'.
    Proof.
      intros (Hnd & Hex & Hcl & Hamo) Hh Hp Hk Eps Kps (M1 & M2 & M3) Hnd' Hin Hex'.
      assert (forall c, In c cfg -> In p (anc c) -> c = h) as HA.
      { intros c Hc Hpc'. destruct (child_toward p c Hpc') as (k & Pk & Uk).
        assert (In k cfg) as Hkc by (exact (pclosed_under cfg k c Hcl Hc Uk)).
        assert (k = h) as -> by (exact (Hamo p ps k h Eps Kps Pk Hp Hkc Hh)).
        destruct Uk as [E|Uk]; [exact E|]. exfalso. exact (no_kids_no_desc h c Hk Uk). }
      split; [exact Hnd'|]. split; [exact Hex'|]. split.
      - intros x q Hx Hq. apply Hin in Hx. apply Hin. destruct Hx as [[Hx Hne']|Hx].
        + left. split; [eapply Hcl; eauto|]. intros ->. apply Hpc in Hq. rewrite Hk in Hq. destruct Hq.
        + destruct (M2 x q Hx Hq) as [->|Hq']; [|right; exact Hq'].
          left. split; [eapply Hcl; eauto|]. intros ->. apply (anc_irr h). apply anc_par, Hp.
      - assert (forall n st c1 c2, state_for sc n = Some st -> s_kind st = KCompound ->
                  par c1 = Some n -> par c2 = Some n -> (In c1 cfg /\ c1 <> h) -> In c2 l -> False) as Hmix.
        { intros n st c1 c2 Est K P1 P2 [H1 Hne1] H2. apply Hne1, HA; [exact H1|].
          pose proof (M1 c2 H2) as Hpc2. rewrite (anc_some c2 n P2) in Hpc2.
          destruct Hpc2 as [<-|Hpn]; [apply anc_par, P1|].
          eapply anc_tr; [apply anc_par, P1|exact Hpn]. }
        intros n st c1 c2 Est K P1 P2 H1 H2. apply Hin in H1. apply Hin in H2.
        destruct H1 as [H1|H1], H2 as [H2|H2].
        + eapply Hamo; eauto; tauto.
        + exfalso. eapply (Hmix n st c1 c2); eauto.
        + exfalso. eapply (Hmix n st c2 c1); eauto.
        + eapply M3; eauto.
    Qed.

    (* a final child of the root together with the root is the whole configuration *)
    Lemma final_step_all cfg leaf ls :
      wk cfg -> In leaf cfg -> state_for sc leaf = Some ls -> s_kind ls = KFinal ->
      par leaf = Some r -> forall x, In x cfg -> x = leaf \/ x = r.
    Proof.
      intros Hwk Hl Els Kls Pl x Hx.
      pose proof (wk_under_root cfg x Hwk Hx) as Ux.
      pose proof (wk_root cfg x Hwk Hx) as Hr.
      destruct Hwk as (Hnd & Hex & Hcl & Hamo).
      destruct Ux as [->|Ux]; [right; reflexivity|]. left.
      destruct (child_toward r x Ux) as (k & Pk & Uk).
      assert (In k cfg) as Hkc by (exact (pclosed_under cfg k x Hcl Hx Uk)).
      destruct (state_for sc r) as [rs|] eqn:Ers; [|exfalso; exact (Hex r Hr Ers)].
      assert (kids r <> []) as Hkr.
      { intros E. apply Hpc in Pl. rewrite E in Pl. destruct Pl. }
      assert (kids leaf = []) as Hkl.
      { apply (no_kids_of_kind leaf ls Els); rewrite Kls; discriminate. }
      destruct (Hcomposite r rs Ers Hkr) as [K|K].
      - assert (k = leaf) as -> by (exact (Hamo r rs k leaf Ers K Pk Pl Hkc Hl)).
        destruct Uk as [E|Uk]; [exact E|]. exfalso. exact (no_kids_no_desc leaf x Hkl Uk).
      - exfalso. exact (Hregions r rs leaf ls Ers K Pl Els Kls).
    Qed.

    Lemma css_some (i : ist) step :
      css i = Some (inl step) ->
      (exists n, is_leaf (i_config i) n /\ stab_for_leaf sc (i_memory i) n = Some (inl step))
      \/ (exists n, In n (i_config i) /\ stab_for_orthogonal sc (i_config i) n = Some (inl step)).
    Proof.
      unfold create_stabilization_step.
      destruct (first_some (stab_for_leaf sc (i_memory i)) _) eqn:E1.
      - intros H. inversion H; subst. left. apply first_some_some in E1.
        destruct E1 as (n & Hn & Hs). exists n. split; [apply leaf_for_iff; apply sort_In in Hn; exact Hn|exact Hs].
      - intros H. right. apply first_some_some in H. destruct H as (n & Hn & Hs).
        exists n. split; [apply sort_In in Hn; exact Hn|exact Hs].
    Qed.

    Lemma nodup_empty (l : list name) : (forall x, ~ In x l) -> l = [].
    Proof. destruct l as [|x l]; [reflexivity|]. intros H. exfalso. apply (H x). left; reflexivity. Qed.

    (* J: the invariant of the stabilisation loop *)
    Definition J (cfg : list name) : Prop := wk cfg /\ (cfg = [] \/ In r cfg).

    Lemma stab_step_J (i : ist) step cfg' :
      css i = Some (inl step) -> wk (i_config i) -> memory_wf (i_memory i) ->
      (forall x, In x (ms_entered step) -> state_for sc x <> None) ->
      NoDup cfg' ->
      (forall x, In x cfg' <-> (In x (i_config i) /\ ~ In x (ms_exited step)) \/ In x (ms_entered step)) ->
      J cfg'.
    Proof.
      intros Hcss Hwk Hmem Hent Hnd' Hin.
      assert (forall x, In x cfg' -> state_for sc x <> None) as Hex'.
      { intros x Hx. apply Hin in Hx. destruct Hx as [[Hx _]|Hx]; [|apply Hent, Hx].
        destruct Hwk as (_ & Hex & _). apply Hex, Hx. }
      assert (forall n E, In n (i_config i) -> ms_exited step = [] ->
                (forall x, In x (ms_entered step) <-> In x E) ->
                (forall x, In x E -> par x = Some n) ->
                (forall st, state_for sc n = Some st -> s_kind st = KCompound ->
                   (forall c, par c = Some n -> ~ In c (i_config i)) /\ (forall x y, In x E -> In y E -> x = y)) ->
                J cfg') as Henter.
      { intros n E Hn Hexit HE Hpar Hcomp. split.
        - apply (enter_children_wk (i_config i) cfg' n E); auto.
          intros x. rewrite Hin, Hexit, HE. simpl. tauto.
        - right. apply Hin. left. split; [eapply wk_root; eauto|]. rewrite Hexit. intros []. }
      apply css_some in Hcss. destruct Hcss as [(n & [Hn Hleaf] & Hs)|(n & Hn & Hs)].
      - unfold stab_for_leaf in Hs. destruct (state_for sc n) as [st|] eqn:Est; [|discriminate].
        destruct (s_kind st) eqn:K.
        + discriminate.
        + (* compound leaf: enter the initial state *)
          destruct (truthy (s_initial st)) as [i0|] eqn:Ei; [|discriminate].
          inversion Hs; subst step. clear Hs. cbn [ms_entered ms_exited] in *.
          apply (Henter n [i0] Hn eq_refl); [intros x; simpl; tauto| |].
          * intros x [<-|[]]. eapply Hinitial; eauto.
          * intros st' _ _. split.
            -- intros c Pc Hc. apply (Hleaf c); [apply desc_iff, anc_par, Pc|exact Hc].
            -- intros x y [<-|[]] [<-|[]]. reflexivity.
        + (* orthogonal leaf: enter all children *)
          destruct (kids n) as [|c l] eqn:Ek; [discriminate|].
          inversion Hs; subst step. clear Hs. cbn [ms_entered ms_exited] in *.
          apply (Henter n (kids n) Hn eq_refl).
          * intros x. change (insert str_leb c (sort_names l)) with (sort str_leb (c :: l)).
            rewrite sort_In, Ek. tauto.
          * intros x Hx. apply Hpc, Hx.
          * intros st' Est' K'. rewrite Est in Est'. inversion Est'; subst st'. congruence.
        + (* final child of the root: the configuration becomes empty *)
          destruct (ostr_eqb (par n) (root sc)) eqn:Eo; [|discriminate].
          rewrite Hroot in Hs. inversion Hs; subst step. clear Hs. cbn [ms_entered ms_exited] in *.
          apply ostr_eqb_iff in Eo. rewrite Hroot in Eo.
          assert (cfg' = []) as ->.
          { apply nodup_empty. intros x Hx. apply Hin in Hx. destruct Hx as [[Hx Hne']|[]].
            destruct (final_step_all (i_config i) n st Hwk Hn Est K Eo x Hx) as [->| ->];
              apply Hne'; [left|right; left]; reflexivity. }
          split; [apply wk_nil|left; reflexivity].
        + (* shallow history *)
          destruct (Hhistory n st Est) as (p & ps & Pn & Eps & Kps & Hdef); [rewrite K; reflexivity|].
          assert (kids n = []) as Hkn by (apply (no_kids_of_kind n st Est); rewrite K; discriminate).
          assert (exists l, mwf p l /\ ms_exited step = [n] /\ forall x, In x (ms_entered step) <-> In x l)
            as (l & Hl & Hx1 & He1).
          { destruct (lookup n (i_memory i)) as [l|] eqn:El.
            - inversion Hs; subst step. exists l. split; [eapply Hmem; eauto|]. split; [reflexivity|].
              intros x. simpl. apply sort_In.
            - destruct (s_memory st) as [m|] eqn:Em; [|discriminate]. inversion Hs; subst step.
              exists [m]. split; [|split; [reflexivity|intros x; simpl; tauto]].
              pose proof (Hdef m eq_refl) as Pm. split; [|split].
              + intros x [<-|[]]. apply anc_par, Pm.
              + intros x q [<-|[]] Hq. left. congruence.
              + intros n0 st0 c1 c2 _ _ _ _ [<-|[]] [<-|[]]. reflexivity. }
          split.
          * apply (restore_wk (i_config i) cfg' n p ps l); auto.
            intros x. rewrite Hin, Hx1, He1. simpl. split.
            -- intros [[H1 H2]|H]; [left; split; [exact H1|intros ->; apply H2; left; reflexivity]|right; exact H].
            -- intros [[H1 H2]|H]; [left; split; [exact H1|intros [E|[]]; congruence]|right; exact H].
          * right. apply Hin. left. split; [eapply wk_root; eauto|]. rewrite Hx1.
            intros [E|[]]. rewrite <- E in Hroot_par. congruence.
        + (* deep history *)
          destruct (Hhistory n st Est) as (p & ps & Pn & Eps & Kps & Hdef); [rewrite K; reflexivity|].
          assert (kids n = []) as Hkn by (apply (no_kids_of_kind n st Est); rewrite K; discriminate).
          assert (exists l, mwf p l /\ ms_exited step = [n] /\ forall x, In x (ms_entered step) <-> In x l)
            as (l & Hl & Hx1 & He1).
          { destruct (lookup n (i_memory i)) as [l|] eqn:El.
            - inversion Hs; subst step. exists l. split; [eapply Hmem; eauto|]. split; [reflexivity|].
              intros x. simpl. apply sort_In.
            - destruct (s_memory st) as [m|] eqn:Em; [|discriminate]. inversion Hs; subst step.
              exists [m]. split; [|split; [reflexivity|intros x; simpl; tauto]].
              pose proof (Hdef m eq_refl) as Pm. split; [|split].
              + intros x [<-|[]]. apply anc_par, Pm.
              + intros x q [<-|[]] Hq. left. congruence.
              + intros n0 st0 c1 c2 _ _ _ _ [<-|[]] [<-|[]]. reflexivity. }
          split.
          * apply (restore_wk (i_config i) cfg' n p ps l); auto.
            intros x. rewrite Hin, Hx1, He1. simpl. split.
            -- intros [[H1 H2]|H]; [left; split; [exact H1|intros ->; apply H2; left; reflexivity]|right; exact H].
            -- intros [[H1 H2]|H]; [left; split; [exact H1|intros [E|[]]; congruence]|right; exact H].
          * right. apply Hin. left. split; [eapply wk_root; eauto|]. rewrite Hx1.
            intros [E|[]]. rewrite <- E in Hroot_par. congruence.
      - (* completion of an active orthogonal state *)
        unfold stab_for_orthogonal in Hs. destruct (state_for sc n) as [st|] eqn:Est; [|discriminate].
        destruct (s_kind st) eqn:K; try discriminate.
        destruct (filter (fun ch => negb (mem ch (i_config i))) (kids n)) as [|c l] eqn:Ef; [discriminate|].
        inversion Hs; subst step. clear Hs. cbn [ms_entered ms_exited] in *.
        apply (Henter n (filter (fun ch => negb (mem ch (i_config i))) (kids n)) Hn eq_refl).
        + intros x. change (insert str_leb c (sort_names l)) with (sort str_leb (c :: l)).
          rewrite sort_In, Ef. tauto.
        + intros x Hx. apply filter_In in Hx. apply Hpc, Hx.
        + intros st' Est' K'. rewrite Est in Est'. inversion Est'; subst st'. congruence.
    Qed.

    (* ---------------------------------------------------------------- 1. weak invariant + stable = legal *)
    Lemma active_children_amo cfg n st :
      wk cfg -> state_for sc n = Some st -> s_kind st = KCompound ->
      active_children cfg n = [] \/ exists c, active_children cfg n = [c].
    Proof.
      intros (_ & _ & _ & Hamo) Est K. unfold active_children.
      pose proof (NoDup_filter (fun c => mem c cfg) (Hkids_nodup n)) as Hnd.
      destruct (filter (fun c => mem c cfg) (kids n)) as [|c1 [|c2 l]] eqn:F;
        [left; reflexivity|right; exists c1; reflexivity|].
      exfalso.
      assert (In c1 (filter (fun c => mem c cfg) (kids n))) as H1 by (rewrite F; left; reflexivity).
      assert (In c2 (filter (fun c => mem c cfg) (kids n))) as H2 by (rewrite F; right; left; reflexivity).
      apply filter_In in H1. apply filter_In in H2. destruct H1 as [K1 M1], H2 as [K2 M2].
      apply mem_In in M1. apply mem_In in M2. apply Hpc in K1. apply Hpc in K2.
      assert (c1 = c2) as E by (exact (Hamo n st c1 c2 Est K K1 K2 M1 M2)).
      inversion Hnd as [|? ? Hni _]; subst. apply Hni. left; reflexivity.
    Qed.

    Theorem wk_stable_legal cfg : wk cfg -> In r cfg -> stable cfg -> legal cfg.
    Proof.
      intros Hwk Hr Hst. pose proof Hwk as (Hnd & Hex & Hcl & Hamo).
      split; [exact Hnd|]. split; [exists r; split; [exact Hroot|exact Hr]|].
      intros n Hn. destruct (state_for sc n) as [st|] eqn:Est; [|exfalso; exact (Hex n Hn Est)].
      exists st. split; [exact Est|].
      split; [intros p Hp; eapply Hcl; eauto|].
      split.
      { intros Hp. rewrite Hroot. f_equal. symmetry. apply Hone_root; [rewrite Est; discriminate|exact Hp]. }
      split.
      { intros K. destruct (active_children_amo cfg n st Hwk Est K) as [E|[c E]].
        - destruct (truthy (s_initial st)) as [i0|] eqn:Ei; [|right; split; [exact E|reflexivity]].
          exfalso.
          destruct (C02_compound_has_child cfg n st i0 (fun c p => proj1 (Hpc c p)) Hcl Hst Hn Est K Ei)
            as (c & Hc & Hcc).
          assert (In c (active_children cfg n)) as Hin.
          { apply filter_In. split; [exact Hc|apply mem_In; exact Hcc]. }
          rewrite E in Hin. destruct Hin.
        - left. exists c. exact E. }
      split.
      { intros K c Hc. eapply C02_orthogonal_complete; eauto. }
      assert (kids n = [] -> is_history (s_kind st) = false /\ (s_kind st = KFinal -> par n <> root sc)) as H.
      { intros Hk. eapply C02_no_history_active; eauto. }
      destruct (s_kind st) eqn:K; simpl; try (split; [reflexivity|discriminate]);
        apply H; apply (no_kids_of_kind n st Est); rewrite K; discriminate.
    Qed.

    (* ---------------------------------------------------------------- least common ancestor *)
    Lemma find_anc_first (f : name -> bool) l : forall x, find f (anc x) = Some l ->
      In l (anc x) /\ f l = true /\ forall c, In c (anc x) -> f c = true -> c = l \/ In c (anc l).
    Proof.
      apply (anc_ind (fun x => find f (anc x) = Some l ->
        In l (anc x) /\ f l = true /\ forall c, In c (anc x) -> f c = true -> c = l \/ In c (anc l))).
      intros x IH H. destruct (par x) as [p|] eqn:Hp.
      - rewrite (anc_some x p Hp) in H. rewrite (anc_some x p Hp). simpl in H. destruct (f p) eqn:Fp.
        + inversion H; subst p. split; [left; reflexivity|]. split; [exact Fp|].
          intros c [<-|Hc] _; [left; reflexivity|right; exact Hc].
        + destruct (IH p eq_refl H) as (A & B & C). split; [right; exact A|]. split; [exact B|].
          intros c [<-|Hc] Fc; [congruence|]. apply C; assumption.
      - rewrite (anc_none x Hp) in H. discriminate.
    Qed.

    Lemma lca_spec a b l : least_common_ancestor sc a b = Some l ->
      In l (anc a) /\ In l (anc b)
      /\ forall c, In c (anc a) -> In c (anc b) -> c = l \/ In c (anc l).
    Proof.
      unfold least_common_ancestor. intros H. apply find_anc_first in H. destruct H as (A & B & C).
      split; [exact A|]. split; [apply mem_In, B|]. intros c Ha Hb. apply C; [exact Ha|apply mem_In, Hb].
    Qed.

    Lemma lca_none a b c : least_common_ancestor sc a b = None -> In c (anc a) -> ~ In c (anc b).
    Proof.
      unfold least_common_ancestor. intros H Ha Hb. pose proof (find_none _ _ H c Ha) as F.
      apply mem_In in Hb. simpl in F. congruence.
    Qed.

    (* the scope of a transition with a target: its LCA and the child of the LCA that is exited *)
    Definition tlca (t : transition) : option name :=
      match t_target t with Some tgt => least_common_ancestor sc (t_source t) tgt | None => None end.
    Definition tlbl (t : transition) : name := last_before (tlca t) (anc (t_source t)) (t_source t).

    Lemma create_step_some cfg ev it tgt : t_target (snd it) = Some tgt ->
      ms_entered (create_step sc cfg ev it) = entered_path (tlca (snd it)) (anc tgt) [tgt]
      /\ ms_exited (create_step sc cfg ev it)
         = filter (fun d => mem d cfg) (sort (exit_order_leb sc) (desc (tlbl (snd it))))
           ++ (if mem (tlbl (snd it)) cfg then [tlbl (snd it)] else []).
    Proof. intros H. unfold create_step, tlbl, tlca. rewrite H. split; reflexivity. Qed.

    Lemma create_step_none cfg ev it : t_target (snd it) = None ->
      ms_entered (create_step sc cfg ev it) = [] /\ ms_exited (create_step sc cfg ev it) = [].
    Proof. intros H. unfold create_step. rewrite H. split; reflexivity. Qed.

    Lemma tlca_spec t tgt l : t_target t = Some tgt -> tlca t = Some l ->
      In l (anc (t_source t)) /\ In l (anc tgt).
    Proof.
      unfold tlca. intros -> H. apply lca_spec in H. tauto.
    Qed.

    Lemma tlbl_spec t tgt : t_target t = Some tgt ->
      under (tlbl t) (t_source t) /\ par (tlbl t) = tlca t.
    Proof.
      intros H. apply last_before_spec. intros l El. exact (proj1 (tlca_spec t tgt l H El)).
    Qed.

    (* R is a region: a child of an orthogonal state *)
    Definition region (R : name) : Prop :=
      exists O os, par R = Some O /\ state_for sc O = Some os /\ s_kind os = KOrthogonal.
    (* source and target of t lie inside the subtree of R *)
    Definition inside (R : name) (t : transition) : Prop :=
      under R (t_source t) /\ forall tgt, t_target t = Some tgt -> under R tgt.

    Lemma chain_under R O l y z : par R = Some O -> (O = l \/ In O (anc l)) ->
      In l (anc y) -> under y z -> under R z -> under R y.
    Proof.
      intros PR HO Hl Uy UR.
      assert (In y (anc R) -> False) as Hno.
      { intros Hy. rewrite (anc_some R O PR) in Hy.
        assert (depth y <= depth O)%Z as D1 by (destruct Hy as [<-|Hy]; [lia|apply Hanc in Hy; lia]).
        assert (depth l < depth y)%Z as D2 by (apply Hanc, Hl).
        assert (depth O <= depth l)%Z as D3 by (destruct HO as [<-|HO]; [lia|apply Hanc in HO; lia]).
        lia. }
      destruct Uy as [->|Uy], UR as [->|UR].
      - apply under_refl.
      - right. exact UR.
      - exfalso. exact (Hno Uy).
      - destruct (anc_chain z y R Uy UR) as [->|[H|H]];
          [apply under_refl|exfalso; exact (Hno H)|right; exact H].
    Qed.

    (* everything a transition inside R exits or enters lies inside R *)
    Lemma trans_local R O t tgt : par R = Some O -> inside R t -> t_target t = Some tgt ->
      (forall x, under (tlbl t) x -> under R x)
      /\ (forall x, under x tgt -> below (tlca t) x -> under R x).
    Proof.
      intros PR [Us Ut] Ht. specialize (Ut tgt Ht).
      pose proof (par_under_anc R O _ PR Us) as Os. pose proof (par_under_anc R O _ PR Ut) as Ot.
      destruct (tlbl_spec t tgt Ht) as [Ul Pl].
      destruct (tlca t) as [l|] eqn:El.
      - assert (O = l \/ In O (anc l)) as HO.
        { unfold tlca in El. rewrite Ht in El. apply lca_spec in El. destruct El as (_ & _ & C).
          apply C; assumption. }
        split.
        + intros x Ux. eapply under_trans; [|exact Ux].
          apply (chain_under R O l (tlbl t) (t_source t) PR HO); [apply anc_par, Pl|exact Ul|exact Us].
        + intros x Ux Bx. simpl in Bx. exact (chain_under R O l x tgt PR HO Bx Ux Ut).
      - exfalso. unfold tlca in El. rewrite Ht in El. exact (lca_none _ _ O El Os Ot).
    Qed.

    (* ---------------------------------------------------------------- history memory stays well formed *)
    Lemma lookup_dset_eq {V} (h k : name) (v : V) m :
      lookup h (dset k v m) = if str_eqb h k then Some v else lookup h m.
    Proof.
      induction m as [|[k' v'] m IH]; simpl.
      - destruct (str_eqb h k); reflexivity.
      - destruct (str_eqb k k') eqn:E; simpl.
        + apply str_eqb_spec in E. subst k'. destruct (str_eqb h k); reflexivity.
        + destruct (str_eqb h k') eqn:E2.
          * apply str_eqb_spec in E2. subst k'. destruct (str_eqb h k) eqn:E3; [|reflexivity].
            apply str_eqb_spec in E3. subst k. rewrite (proj2 (str_eqb_spec h h) eq_refl) in E. discriminate.
          * exact IH.
    Qed.

    Lemma hist_rec_mwf active p child l : wk active -> hist_rec active p child l -> mwf p l.
    Proof.
      intros (Hnd & Hex & Hcl & Hamo) (cs & Ecs & [[K [-> _]]|[K [E (c & ->)]]]); unfold sort_names.
      - split; [|split].
        + intros x Hx. apply sort_In, filter_In in Hx. destruct Hx as [_ Hx].
          apply mem_In, desc_iff in Hx. exact Hx.
        + intros x q Hx Hq. apply sort_In, filter_In in Hx. destruct Hx as [Hx Hd].
          apply mem_In, desc_iff in Hd. rewrite (anc_some x q Hq) in Hd.
          destruct Hd as [->|Hd]; [left; reflexivity|right].
          apply sort_In, filter_In. split; [eapply Hcl; eauto|apply mem_In, desc_iff, Hd].
        + intros n st c1 c2 Est Kn P1 P2 H1 H2.
          apply sort_In, filter_In in H1. apply sort_In, filter_In in H2.
          eapply Hamo; eauto; tauto.
      - assert (In c (filter (fun n => mem n (kids p)) active)) as Hc by (rewrite <- E; left; reflexivity).
        apply filter_In in Hc. destruct Hc as [_ Hc]. apply mem_In, Hpc in Hc.
        split; [|split].
        + intros x [<-|[]]. apply anc_par. exact Hc.
        + intros x q [<-|[]] Hq. left. congruence.
        + intros n st c1 c2 _ _ _ _ [<-|[]] [<-|[]]. reflexivity.
    Qed.

    Lemma memory_wf_dset m child p l :
      memory_wf m -> par child = Some p -> mwf p l -> memory_wf (dset child l m).
    Proof.
      intros Hm Pc Hl h l' p' Hlk Ph. rewrite lookup_dset_eq in Hlk. destruct (str_eqb h child) eqn:E.
      - apply str_eqb_spec in E. subst h. inversion Hlk; subst l'. rewrite Pc in Ph.
        inversion Ph; subst p'. exact Hl.
      - eapply Hm; eauto.
    Qed.

    (* no history state in l *)
    Definition nohist (l : list name) : Prop :=
      forall x st, In x l -> state_for sc x = Some st -> is_history (s_kind st) = false.
    (* every recorded memory is non-empty and without history states (needed for termination only) *)
    Definition mnh (m : list (name * list name)) : Prop :=
      forall h l, lookup h m = Some l -> l <> [] /\ nohist l.
    Definition MEM (m : list (name * list name)) : Prop := memory_wf m /\ mnh m.

    Lemma MEM_nil : MEM [].
    Proof. split; [intros h l p Hl|intros h l Hl]; simpl in Hl; discriminate. Qed.

    Lemma hist_rec_mnh active p child l : nohist active -> hist_rec active p child l -> l <> [] /\ nohist l.
    Proof.
      intros Hnh (cs & Ecs & [[K [-> Hne']]|[K [E (c & ->)]]]).
      - split; [exact Hne'|]. intros x st Hx. unfold sort_names in Hx. apply sort_In, filter_In in Hx.
        apply Hnh. tauto.
      - split; [discriminate|]. intros x st Hx. rewrite E in Hx. apply filter_In in Hx. apply Hnh. tauto.
    Qed.

    Lemma mnh_dset m child l : mnh m -> l <> [] /\ nohist l -> mnh (dset child l m).
    Proof.
      intros Hm Hl h l' Hlk. rewrite lookup_dset_eq in Hlk. destruct (str_eqb h child).
      - inversion Hlk; subst l'. exact Hl.
      - eapply Hm; eauto.
    Qed.

    Lemma legal_nohist cfg : legal cfg -> nohist cfg.
    Proof.
      intros (_ & _ & Hs) x st Hx Est. destruct (Hs x Hx) as (st' & E' & _ & _ & _ & _ & Hh & _).
      rewrite Est in E'. inversion E'; subst st'. exact Hh.
    Qed.

    Lemma states_for_mem : forall l sts, states_for sc l = Some sts ->
      forall st, In st sts -> In (s_name st) l /\ state_for sc (s_name st) = Some st.
    Proof.
      induction l as [|n l IH]; intros sts H st Hst; simpl in H.
      - inversion H; subst. destruct Hst.
      - destruct (state_for sc n) as [st0|] eqn:E; [|discriminate].
        destruct (states_for sc l) as [rr|]; [|discriminate]. inversion H; subst sts.
        destruct Hst as [<-|Hst].
        + rewrite (Hnames n st0 E). split; [left; reflexivity|exact E].
        + destruct (IH rr eq_refl st Hst) as [A B]. split; [right; exact A|exact B].
    Qed.

    (* a stabilisation step exits a compound state only from a configuration without history states *)
    Lemma stab_exits_nohist (i : ist) step :
      css i = Some (inl step) -> wk (i_config i) ->
      forall x st, In x (ms_exited step) -> state_for sc x = Some st -> s_kind st = KCompound ->
                   nohist (i_config i).
    Proof.
      intros Hcss Hwk x st Hx Est K.
      apply css_some in Hcss. destruct Hcss as [(n & [Hn Hleaf] & Hs)|(n & Hn & Hs)].
      - unfold stab_for_leaf in Hs. destruct (state_for sc n) as [ns|] eqn:En; [|discriminate].
        destruct (s_kind ns) eqn:Kn.
        + discriminate.
        + destruct (truthy (s_initial ns)); [|discriminate]. inversion Hs; subst step. destruct Hx.
        + destruct (kids n); [discriminate|]. inversion Hs; subst step. destruct Hx.
        + destruct (ostr_eqb (par n) (root sc)) eqn:Eo; [|discriminate].
          rewrite Hroot in Hs. inversion Hs; subst step. clear Hs.
          apply ostr_eqb_iff in Eo. rewrite Hroot in Eo.
          intros y ys Hy Eys.
          destruct (final_step_all (i_config i) n ns Hwk Hn En Kn Eo y Hy) as [->| ->].
          * rewrite En in Eys. inversion Eys; subst ys. rewrite Kn. reflexivity.
          * destruct Hx as [<-|[<-|[]]].
            -- rewrite En in Est. inversion Est; subst st. congruence.
            -- rewrite Est in Eys. inversion Eys; subst ys. rewrite K. reflexivity.
        + exfalso. destruct (lookup n (i_memory i)); [|destruct (s_memory ns); [|discriminate]];
            inversion Hs; subst step; destruct Hx as [<-|[]]; rewrite En in Est; inversion Est; subst st;
            congruence.
        + exfalso. destruct (lookup n (i_memory i)); [|destruct (s_memory ns); [|discriminate]];
            inversion Hs; subst step; destruct Hx as [<-|[]]; rewrite En in Est; inversion Est; subst st;
            congruence.
      - unfold stab_for_orthogonal in Hs. destruct (state_for sc n) as [ns|]; [|discriminate].
        destruct (s_kind ns); try discriminate.
        destruct (filter (fun ch => negb (mem ch (i_config i))) (kids n)); [discriminate|].
        inversion Hs; subst step. destruct Hx.
    Qed.

    (* the effect of a micro step on configuration (as a set) and memory *)
    Lemma apply_step_sets step s s' a :
      apply_step step s = (s', inl a) -> NoDup (i_config (m_i s)) ->
      NoDup (i_config (m_i s'))
      /\ (forall x, In x (i_config (m_i s')) <->
                    (In x (i_config (m_i s)) /\ ~ In x (ms_exited step)) \/ In x (ms_entered step))
      /\ (forall x, In x (ms_entered step) -> state_for sc x <> None)
      /\ i_initialized (m_i s') = i_initialized (m_i s)
      /\ (wk (i_config (m_i s)) ->
          (forall x st, In x (ms_exited step) -> state_for sc x = Some st -> s_kind st = KCompound ->
                        nohist (i_config (m_i s))) ->
          MEM (i_memory (m_i s)) -> MEM (i_memory (m_i s')))
      /\ (ms_entered step = [] -> ms_exited step = [] -> i_config (m_i s') = i_config (m_i s)).
    Proof.
      intros H Hnd. apply (apply_step_inv MEM) in H.
      destruct H as (ent & exi & He & Hx & Hc & Hi & Hm & _).
      destruct (cfg_after_spec (i_config (m_i s)) _ _ ent exi Hnd He Hx) as (N & I & F).
      rewrite Hc. split; [exact N|]. split; [exact I|]. split; [exact F|]. split; [exact Hi|]. split.
      - intros Hwk Hnh Hmem. apply Hm; [|exact Hmem]. intros st Hst child l m K Hch Hrec [Pm1 Pm2].
        destruct (states_for_mem _ _ Hx st Hst) as [Hin' Est]. specialize (Hnh _ _ Hin' Est K).
        split.
        + apply memory_wf_dset with (p := s_name st); [exact Pm1|apply Hpc, Hch|].
          eapply hist_rec_mwf; eauto.
        + apply mnh_dset; [exact Pm2|]. eapply hist_rec_mnh; eauto.
      - intros E1 E2. rewrite E1 in He. rewrite E2 in Hx. simpl in He, Hx.
        inversion He; inversion Hx; subst. reflexivity.
    Qed.

    (* a transition micro step computed from cfg0, applied to a configuration that agrees with cfg0
       below the exited state *)
    Lemma trans_apply cfg0 ev it tgt s s' a :
      In (snd it) (c_transitions sc) -> t_target (snd it) = Some tgt ->
      wk (i_config (m_i s)) -> In (t_source (snd it)) cfg0 ->
      (forall x, under (tlbl (snd it)) x -> (In x (i_config (m_i s)) <-> In x cfg0)) ->
      apply_step (create_step sc cfg0 ev it) s = (s', inl a) ->
      wk (i_config (m_i s')) /\ In r (i_config (m_i s'))
      /\ (forall x, In x (i_config (m_i s')) <->
            (In x (i_config (m_i s)) /\ ~ under (tlbl (snd it)) x)
            \/ (under x tgt /\ below (tlca (snd it)) x))
      /\ i_initialized (m_i s') = i_initialized (m_i s)
      /\ (nohist (i_config (m_i s)) -> MEM (i_memory (m_i s)) -> MEM (i_memory (m_i s'))).
    Proof.
      intros Hin Ht Hwk Hsrc Hag H. set (t := snd it) in *.
      destruct (apply_step_sets _ _ _ _ H (proj1 Hwk)) as (N & I & F & Hi & Hm & _).
      destruct (create_step_some cfg0 ev it tgt Ht) as [Ee Ex]. fold t in Ee, Ex.
      destruct (tlbl_spec t tgt Ht) as [Ul Pl].
      assert (forall x, In x (i_config (m_i s')) <->
                (In x (i_config (m_i s)) /\ ~ under (tlbl t) x) \/ (under x tgt /\ below (tlca t) x)) as Hchar.
      { intros x. rewrite I, Ee, Ex, exited_spec, entered_spec.
        - split; (intros [[H1 H2]|H3]; [left; split; [exact H1|]|right; exact H3]).
          + intros U. apply H2. split; [apply Hag; assumption|exact U].
          + intros [_ U]. exact (H2 U).
        - intros l El. exact (proj2 (tlca_spec t tgt l Ht El)). }
      assert (In (t_source t) (i_config (m_i s))) as Hs by (apply Hag; assumption).
      destruct (trans_step_wk (i_config (m_i s)) (i_config (m_i s')) (t_source t) tgt (tlca t)) as [W R];
        try assumption.
      - intros l El. exact (tlca_spec t tgt l Ht El).
      - intros l ls e1 El Els K P1 U1. fold (tlbl t). symmetry.
        apply (Hcross t tgt l ls (tlbl t) e1); try assumption. congruence.
      - intros x Hx. apply I in Hx. destruct Hx as [[Hx _]|Hx]; [|apply F; exact Hx].
        destruct Hwk as (_ & Hex & _). apply Hex, Hx.
      - split; [exact W|]. split; [exact R|]. split; [exact Hchar|]. split; [exact Hi|].
        intros Hnh Hmem. apply Hm; [assumption|intros; exact Hnh|assumption].
    Qed.

    (* ---------------------------------------------------------------- locality of stabilisation *)
    (* cfg' equals cfg outside the subtree of R *)
    Definition differs_under (R : name) (cfg cfg' : list name) : Prop :=
      forall x, ~ under R x -> (In x cfg' <-> In x cfg).

    Lemma under_dec R x : {under R x} + {~ under R x}.
    Proof.
      unfold under. destruct (string_dec x R) as [E|E]; [left; left; exact E|].
      destruct (in_dec string_dec R (anc x)) as [H|H]; [left; right; exact H|right; tauto].
    Qed.

    Lemma child_under R n x : under R n -> par x = Some n -> under R x /\ x <> R.
    Proof.
      intros U P. split.
      - eapply under_trans; [exact U|right; apply anc_par, P].
      - intros ->. destruct U as [->|U].
        + apply (anc_irr R). apply anc_par, P.
        + apply (anc_asym R n U). apply anc_par, P.
    Qed.

    Lemma mwf_single p m0 : par m0 = Some p -> mwf p [m0].
    Proof.
      intros Pm. split; [|split].
      - intros x [<-|[]]. apply anc_par, Pm.
      - intros x q [<-|[]] Hq. left. congruence.
      - intros n0 st0 c1 c2 _ _ _ _ [<-|[]] [<-|[]]. reflexivity.
    Qed.

    Lemma stab_leaf_history m n st step :
      state_for sc n = Some st -> is_history (s_kind st) = true -> memory_wf m ->
      stab_for_leaf sc m n = Some (inl step) ->
      exists p ps l, par n = Some p /\ state_for sc p = Some ps /\ s_kind ps = KCompound
        /\ mwf p l /\ ms_exited step = [n] /\ forall x, In x (ms_entered step) <-> In x l.
    Proof.
      intros Est Hh Hmem Hs. destruct (Hhistory n st Est Hh) as (p & ps & Pn & Eps & Kps & Hdef).
      exists p, ps. unfold stab_for_leaf in Hs. rewrite Est in Hs.
      destruct (s_kind st); try discriminate Hh;
        (destruct (lookup n m) as [l|] eqn:El;
         [ inversion Hs; subst step; exists l; split; [exact Pn|]; split; [exact Eps|]; split; [exact Kps|];
           split; [eapply Hmem; eauto|]; split; [reflexivity|]; intros x; simpl; apply sort_In
         | destruct (s_memory st) as [m0|] eqn:Em; [|discriminate]; inversion Hs; subst step;
           exists [m0]; split; [exact Pn|]; split; [exact Eps|]; split; [exact Kps|];
           split; [apply mwf_single, Hdef; reflexivity|]; split; [reflexivity|]; intros x; simpl; tauto ]).
    Qed.

    (* a stabilisation step of a configuration that differs from a stable one only inside the region R
       (R itself active) touches only states strictly inside R *)
    Lemma stab_step_touch (i : ist) step R ref :
      css i = Some (inl step) -> memory_wf (i_memory i) ->
      region R -> stable ref -> differs_under R ref (i_config i) -> In R (i_config i) ->
      forall x, In x (ms_exited step) \/ In x (ms_entered step) -> under R x /\ x <> R.
    Proof.
      intros Hcss Hmem (O & os & PR & EO & KO) [Hleafs Horth] Hd HR.
      apply css_some in Hcss. destruct Hcss as [(n & [Hn Hleaf] & Hs)|(n & Hn & Hs)].
      - assert (under R n) as Un.
        { destruct (under_dec R n) as [U|U]; [exact U|exfalso].
          assert (In n ref) as Hnr by (apply (proj1 (Hd n U)), Hn).
          assert (is_leaf ref n) as Hl.
          { split; [exact Hnr|]. intros d Hdn Hdr.
            destruct (under_dec R d) as [Ud|Ud].
            - apply desc_iff in Hdn. destruct Ud as [->|Ud].
              + apply (Hleaf R); [apply desc_iff; exact Hdn|exact HR].
              + destruct (anc_chain d n R Hdn Ud) as [E|[H|H]].
                * apply U. left. exact E.
                * apply (Hleaf R); [apply desc_iff; exact H|exact HR].
                * apply U. right. exact H.
            - apply (Hleaf d Hdn). apply (proj2 (Hd d Ud)), Hdr. }
          apply Hleafs in Hl. apply (stab_for_leaf_none (i_memory i)) in Hl. congruence. }
        destruct (state_for sc n) as [st|] eqn:Est;
          [|unfold stab_for_leaf in Hs; rewrite Est in Hs; discriminate].
        destruct (is_history (s_kind st)) eqn:Hh.
        { destruct (stab_leaf_history _ n st step Est Hh Hmem Hs) as (p & ps & l & Pn & Eps & Kps & Hl & Hx & He).
          assert (n <> R) as HnR.
          { intros ->. rewrite PR in Pn. inversion Pn; subst p. rewrite EO in Eps. inversion Eps; subst ps.
            congruence. }
          assert (under R p) as Up.
          { destruct Un as [E|Un]; [contradiction|]. rewrite (anc_some n p Pn) in Un.
            destruct Un as [<-|Un]; [apply under_refl|right; exact Un]. }
          intros x [Hx'|Hx'].
          - rewrite Hx in Hx'. destruct Hx' as [<-|[]]. split; [exact Un|exact HnR].
          - apply He in Hx'. destruct Hl as (M1 & _ & _). specialize (M1 x Hx').
            assert (In R (anc x)) as HRx.
            { destruct Up as [->|Up]; [exact M1|]. eapply anc_tr; [exact M1|exact Up]. }
            split; [right; exact HRx|]. intros ->. exact (anc_irr R HRx). }
        unfold stab_for_leaf in Hs. rewrite Est in Hs. destruct (s_kind st) eqn:K; try discriminate.
        + destruct (truthy (s_initial st)) as [i0|] eqn:Ei; [|discriminate].
          inversion Hs; subst step. intros x [[]|[<-|[]]].
          apply (child_under R n); [exact Un|eapply Hinitial; eauto].
        + destruct (kids n) as [|c l] eqn:Ek; [discriminate|].
          inversion Hs; subst step. intros x [[]|Hx]. cbn [ms_entered] in Hx.
          change (insert str_leb c (sort_names l)) with (sort str_leb (c :: l)) in Hx.
          apply sort_In in Hx. rewrite <- Ek in Hx. apply Hpc in Hx.
          apply (child_under R n); assumption.
        + exfalso. destruct (ostr_eqb (par n) (root sc)) eqn:Eo; [|discriminate].
          apply ostr_eqb_iff in Eo. rewrite Hroot in Eo.
          destruct Un as [->|Un].
          * rewrite PR in Eo. inversion Eo; subst O. exact (Hregions r os R st EO KO PR Est K).
          * rewrite (anc_some n r Eo), (anc_none r Hroot_par) in Un. destruct Un as [<-|[]].
            rewrite Hroot_par in PR. discriminate.
      - unfold stab_for_orthogonal in Hs. destruct (state_for sc n) as [st|] eqn:Est; [|discriminate].
        destruct (s_kind st) eqn:K; try discriminate.
        destruct (filter (fun ch => negb (mem ch (i_config i))) (kids n)) as [|c l] eqn:Ef; [discriminate|].
        inversion Hs; subst step. clear Hs.
        assert (forall x, In x (c :: l) -> par x = Some n /\ ~ In x (i_config i)) as Hmiss.
        { intros x Hx. rewrite <- Ef in Hx. apply filter_In in Hx. destruct Hx as [Hk Hm].
          split; [apply Hpc, Hk|]. apply negb_true_iff, mem_false_iff in Hm. exact Hm. }
        assert (under R n) as Un.
        { destruct (under_dec R n) as [U|U]; [exact U|exfalso].
          assert (In n ref) as Hnr by (apply (proj1 (Hd n U)), Hn).
          destruct (Hmiss c (or_introl eq_refl)) as [Pc Hc].
          destruct (Horth n Hnr) as (st' & Est' & Hall). rewrite Est in Est'. inversion Est'; subst st'.
          assert (In c ref) as Hcr by (apply (Hall K), Hpc, Pc).
          destruct (under_dec R c) as [Uc|Uc].
          - destruct Uc as [->|Uc]; [exact (Hc HR)|]. rewrite (anc_some c n Pc) in Uc.
            apply U. destruct Uc as [<-|Uc]; [left; reflexivity|right; exact Uc].
          - apply Hc. apply (proj2 (Hd c Uc)), Hcr. }
        intros x [[]|Hx]. cbn [ms_entered] in Hx.
        change (insert str_leb c (sort_names l)) with (sort str_leb (c :: l)) in Hx.
        apply sort_In in Hx. apply (child_under R n); [exact Un|apply Hmiss, Hx].
    Qed.

    Lemma stab_step_local (i : ist) step cfg' R ref :
      css i = Some (inl step) -> memory_wf (i_memory i) ->
      region R -> stable ref -> differs_under R ref (i_config i) -> In R (i_config i) ->
      (forall x, In x cfg' <-> (In x (i_config i) /\ ~ In x (ms_exited step)) \/ In x (ms_entered step)) ->
      differs_under R ref cfg' /\ In R cfg'.
    Proof.
      intros Hcss Hmem HR Hst Hd HRc Hin.
      pose proof (stab_step_touch i step R ref Hcss Hmem HR Hst Hd HRc) as Ht.
      split.
      - intros x U. rewrite Hin. rewrite <- (Hd x U). split.
        + intros [[H _]|H]; [exact H|]. exfalso. apply U. apply (Ht x). right; exact H.
        + intros H. left. split; [exact H|]. intros Hx. apply U. apply (Ht x). left; exact Hx.
      - apply Hin. left. split; [exact HRc|]. intros Hx. destruct (Ht R (or_introl Hx)) as [_ E]. congruence.
    Qed.

    (* ---------------------------------------------------------------- the stabilisation loop *)
    Lemma stabilize_inv (K : list name -> Prop) :
      (forall (i : ist) step cfg', css i = Some (inl step) -> wk (i_config i) -> In r (i_config i) ->
          MEM (i_memory i) -> K (i_config i) ->
          (forall x, In x cfg' <-> (In x (i_config i) /\ ~ In x (ms_exited step)) \/ In x (ms_entered step)) ->
          K cfg') ->
      forall fuel s s' steps, stabilize fuel s = (s', inl steps) ->
        J (i_config (m_i s)) -> MEM (i_memory (m_i s)) -> K (i_config (m_i s)) ->
        J (i_config (m_i s')) /\ MEM (i_memory (m_i s')) /\ K (i_config (m_i s'))
        /\ i_initialized (m_i s') = i_initialized (m_i s) /\ css (m_i s') = None.
    Proof.
      intros HK. induction fuel as [|f IH]; intros s s' steps H HJ Hmem Hk; simpl in H; [discriminate|].
      rewrite bind_get in H. destruct (css (m_i s)) as [[step|e]|] eqn:E.
      - apply bind_ok in H. destruct H as (a & s1 & H1 & H).
        apply bind_ok in H. destruct H as (rr & s2 & H2 & H). inversion H; subst s2. clear H.
        destruct HJ as [Hwk [Hnil|Hr]]; [rewrite (css_nil _ Hnil) in E; discriminate|].
        destruct (apply_step_sets _ _ _ _ H1 (proj1 Hwk)) as (N & I & F & Hi & Hm & _).
        assert (J (i_config (m_i s1))) as HJ1 by (eapply stab_step_J; eauto; apply Hmem).
        destruct (IH s1 s' rr H2 HJ1 (Hm Hwk (stab_exits_nohist _ _ E Hwk) Hmem)) as (A & B & C & D & G).
        { eapply HK; eauto. }
        split; [exact A|]. split; [exact B|]. split; [exact C|]. split; [congruence|exact G].
      - discriminate.
      - inversion H; subst. auto.
    Qed.

    (* ---------------------------------------------------------------- one transition, then stabilisation *)
    Lemma region_not_root R : region R -> ~ under R r.
    Proof.
      intros (O & os & PR & _) [E|H].
      - rewrite <- E in PR. rewrite Hroot_par in PR. discriminate.
      - rewrite (anc_none r Hroot_par) in H. destruct H.
    Qed.

    Lemma micro_ok fuel cfg0 ev it s s1 s2 a ss :
      In (snd it) (c_transitions sc) -> In (t_source (snd it)) cfg0 ->
      wk (i_config (m_i s)) -> In r (i_config (m_i s)) -> stable (i_config (m_i s)) ->
      MEM (i_memory (m_i s)) ->
      (forall tgt, t_target (snd it) = Some tgt ->
         forall x, under (tlbl (snd it)) x -> (In x (i_config (m_i s)) <-> In x cfg0)) ->
      apply_step (create_step sc cfg0 ev it) s = (s1, inl a) ->
      stabilize fuel s1 = (s2, inl ss) ->
      J (i_config (m_i s2)) /\ MEM (i_memory (m_i s2)) /\ css (m_i s2) = None
      /\ i_initialized (m_i s2) = i_initialized (m_i s)
      /\ (forall R, region R -> inside R (snd it) -> differs_under R (i_config (m_i s)) (i_config (m_i s2))).
    Proof.
      intros Hin Hsrc Hwk Hr Hst Hmem Hag H1 H2. set (t := snd it) in *.
      assert (nohist (i_config (m_i s))) as Hnh by (apply legal_nohist, wk_stable_legal; assumption).
      destruct (t_target t) as [tgt|] eqn:Ht.
      - specialize (Hag tgt eq_refl).
        destruct (trans_apply cfg0 ev it tgt s s1 a Hin Ht Hwk Hsrc Hag H1) as (W1 & R1 & Hchar & Hi1 & Hm1).
        fold t in Hchar.
        set (K := fun c => forall R, region R -> inside R t ->
                               differs_under R (i_config (m_i s)) c /\ In R c).
        destruct (tlbl_spec t tgt Ht) as [Ul Pl].
        assert (In (t_source t) (i_config (m_i s))) as Hs by (apply Hag; assumption).
        assert (K (i_config (m_i s1))) as K1.
        { intros R HR HI. pose proof HR as (O & os & PR & EO & KO).
          destruct (trans_local R O t tgt PR HI Ht) as [L1 L2]. split.
          - intros x U. rewrite Hchar. split.
            + intros [[H _]|[H3 H4]]; [exact H|]. exfalso. apply U. apply L2; assumption.
            + intros H. left. split; [exact H|]. intros U'. apply U, L1, U'.
          - apply Hchar. destruct (under_dec (tlbl t) R) as [U|U].
            + right. assert (tlbl t = R) as E by (apply under_antisym; [exact U|apply L1, under_refl]).
              split; [apply HI; exact Ht|]. rewrite <- Pl, E, PR. simpl. apply anc_par, PR.
            + left. split; [|exact U].
              destruct Hwk as (_ & _ & Hcl & _). exact (pclosed_under _ R _ Hcl Hs (proj1 HI)). }
        destruct (stabilize_inv K) with (fuel := fuel) (s := s1) (s' := s2) (steps := ss)
          as (A & B & C & D & G); try assumption.
        + intros i step cfg' Hcss Hwki Hri Hmi Hk Hin' R HR HI.
          destruct (Hk R HR HI) as [Hd HRc].
          exact (stab_step_local i step cfg' R (i_config (m_i s)) Hcss (proj1 Hmi) HR Hst Hd HRc Hin').
        + split; [exact W1|right; exact R1].
        + apply Hm1; assumption.
        + split; [exact A|]. split; [exact B|]. split; [exact G|]. split; [congruence|].
          intros R HR HI. apply C; assumption.
      - destruct (create_step_none cfg0 ev it Ht) as [Ee Ex].
        destruct (apply_step_sets _ _ _ _ H1 (proj1 Hwk)) as (_ & _ & _ & Hi1 & Hm1 & Hsame).
        specialize (Hsame Ee Ex).
        assert (css (m_i s1) = None) as Hc by (apply C02_stable_iff; rewrite Hsame; exact Hst).
        destruct (stabilize_stable fuel s1 s2 ss Hc H2) as [-> _].
        rewrite Hsame. split; [split; [exact Hwk|right; exact Hr]|].
        split; [apply Hm1; [assumption|intros; exact Hnh|assumption]|].
        split; [exact Hc|]. split; [exact Hi1|]. intros R _ _ x _. apply iff_refl.
    Qed.

    (* ---------------------------------------------------------------- several transitions of one macro step *)
    (* t and t' work in two different regions of one orthogonal state *)
    Definition indep (t t' : transition) : Prop :=
      exists R R', region R /\ region R' /\ R <> R' /\ par R = par R' /\ inside R t /\ inside R' t'.

    Lemma indep_sym t t' : indep t t' -> indep t' t.
    Proof.
      intros (R & R' & H1 & H2 & H3 & H4 & H5 & H6). exists R', R.
      split; [exact H2|]. split; [exact H1|]. split; [congruence|]. split; [congruence|].
      split; assumption.
    Qed.

    (* what the remaining transitions ts of a macro step (computed from cfg0) need of the current state *)
    Definition TPre (cfg0 : list name) (ts : list itrans) (i : ist) : Prop :=
      NoDup ts
      /\ (forall it, In it ts -> In (snd it) (c_transitions sc) /\ In (t_source (snd it)) cfg0)
      /\ (forall a b, In a ts -> In b ts -> a <> b -> indep (snd a) (snd b))
      /\ wk (i_config i) /\ In r (i_config i) /\ stable (i_config i) /\ MEM (i_memory i)
      /\ (forall it tgt, In it ts -> t_target (snd it) = Some tgt ->
            forall x, under (tlbl (snd it)) x -> (In x (i_config i) <-> In x cfg0)).

    (* after the micro step alone: the stabilisation loop starts from a J configuration *)
    Lemma TPre_apply cfg0 ev it rest s s1 a :
      TPre cfg0 (it :: rest) (m_i s) ->
      apply_step (create_step sc cfg0 ev it) s = (s1, inl a) ->
      J (i_config (m_i s1)) /\ MEM (i_memory (m_i s1)).
    Proof.
      intros (Hnd & Hts & Hind & Hwk & Hr & Hst & Hmem & Hag) H1.
      destruct (Hts it (or_introl eq_refl)) as [Hin Hsrc].
      assert (nohist (i_config (m_i s))) as Hnh by (apply legal_nohist, wk_stable_legal; assumption).
      destruct (t_target (snd it)) as [tgt|] eqn:Ht.
      - destruct (trans_apply cfg0 ev it tgt s s1 a Hin Ht Hwk Hsrc) as (W1 & R1 & _ & _ & Hm1);
          [apply (Hag it tgt); [left; reflexivity|exact Ht]|exact H1|].
        split; [split; [exact W1|right; exact R1]|apply Hm1; assumption].
      - destruct (create_step_none cfg0 ev it Ht) as [Ee Ex].
        destruct (apply_step_sets _ _ _ _ H1 (proj1 Hwk)) as (_ & _ & _ & _ & Hm1 & Hsame).
        rewrite (Hsame Ee Ex). split; [split; [exact Hwk|right; exact Hr]|].
        apply Hm1; [assumption|intros; exact Hnh|assumption].
    Qed.

    (* after the micro step and its stabilisation: ready for the remaining transitions *)
    Lemma TPre_next fuel cfg0 ev it rest s s1 s2 a ss :
      TPre cfg0 (it :: rest) (m_i s) ->
      apply_step (create_step sc cfg0 ev it) s = (s1, inl a) ->
      stabilize fuel s1 = (s2, inl ss) ->
      J (i_config (m_i s2)) /\ MEM (i_memory (m_i s2)) /\ css (m_i s2) = None
      /\ i_initialized (m_i s2) = i_initialized (m_i s)
      /\ (rest <> [] -> TPre cfg0 rest (m_i s2)).
    Proof.
      intros (Hnd & Hts & Hind & Hwk & Hr & Hst & Hmem & Hag) H1 H2.
      destruct (Hts it (or_introl eq_refl)) as [Hin Hsrc].
      destruct (micro_ok fuel cfg0 ev it s s1 s2 a ss Hin Hsrc Hwk Hr Hst Hmem) as (A & B & C & D & L);
        try assumption.
      { intros tgt Ht. apply (Hag it tgt); [left; reflexivity|exact Ht]. }
      split; [exact A|]. split; [exact B|]. split; [exact C|]. split; [exact D|].
      intros Hrest. destruct rest as [|b rest']; [congruence|].
      inversion Hnd as [|? ? Hni Hnd']; subst.
      assert (forall it', In it' (b :: rest') ->
                exists R R', region R /\ region R' /\ R <> R' /\ par R = par R'
                             /\ inside R (snd it) /\ inside R' (snd it')) as Hpart.
      { intros it' Hit'. apply Hind; [left; reflexivity|right; exact Hit'|].
        intros ->. contradiction. }
      split; [exact Hnd'|].
      split; [intros it' Hit'; apply Hts; right; exact Hit'|].
      split; [intros x y Hx Hy; apply Hind; right; assumption|].
      split; [apply A|].
      split.
      { destruct (Hpart b (or_introl eq_refl)) as (R & R' & HR & _ & _ & _ & HI & _).
        apply (L R HR HI r (region_not_root R HR)). exact Hr. }
      split; [apply C02_stable_iff, C|]. split; [exact B|].
      intros it' tgt Hit' Ht x Ux.
      destruct (Hpart it' Hit') as (R & R' & HR & HR' & Hne' & Hpar & HI & HI').
      pose proof HR' as (O & os & PR' & _).
      destruct (trans_local R' O (snd it') tgt PR' HI' Ht) as [L1 _].
      assert (~ under R x) as Hnu.
      { intros U. apply Hne'. apply (same_parent_chain x R R' O U (L1 x Ux)); congruence. }
      rewrite (L R HR HI x Hnu). apply (Hag it' tgt); [right; exact Hit'|exact Ht|exact Ux].
    Qed.

    Lemma run_trans_inv fuel cfg0 ev : forall ts s s' executed,
      TPre cfg0 ts (m_i s) -> ts <> [] ->
      run_steps fuel (create_steps sc cfg0 ev ts) s = (s', inl executed) ->
      J (i_config (m_i s')) /\ MEM (i_memory (m_i s')) /\ css (m_i s') = None
      /\ i_initialized (m_i s') = i_initialized (m_i s).
    Proof.
      induction ts as [|it rest IH]; intros s s' executed Hpre Hnonempty H; [congruence|].
      simpl in H.
      apply bind_ok in H. destruct H as (a & s1 & H1 & H).
      apply bind_ok in H. destruct H as (ss & s2 & H2 & H).
      apply bind_ok in H. destruct H as (rr & s3 & H3 & H). inversion H; subst s3. clear H.
      destruct (TPre_next fuel cfg0 ev it rest s s1 s2 a ss Hpre H1 H2) as (A & B & C & D & Hnext).
      destruct rest as [|b rest'].
      - simpl in H3. inversion H3; subst s'. auto.
      - destruct (IH s2 s' rr) as (A' & B' & C' & D'); try assumption.
        + apply Hnext. discriminate.
        + discriminate.
        + split; [exact A'|]. split; [exact B'|]. split; [exact C'|]. congruence.
    Qed.

    (* ---------------------------------------------------------------- what compute_steps delivers *)
    Lemma index_from_In {A} (l : list A) : forall n i x, In (i, x) (index_from n l) -> In x l.
    Proof.
      induction l as [|y l IH]; intros n i x H; simpl in H; [destruct H|].
      destruct H as [E|H]; [inversion E; left; reflexivity|right; eapply IH; eauto].
    Qed.

    Lemma In_itransitions it : In it (itransitions sc) -> In (snd it) (c_transitions sc).
    Proof. destruct it as [i t]. unfold itransitions. apply index_from_In. Qed.

    Lemma fires_facts i ev cfg a :
      fires ctx eval_code sc i ev cfg a -> In (snd a) (c_transitions sc) /\ In (t_source (snd a)) cfg.
    Proof.
      intros (Ia & Ca & _). split; [apply In_itransitions, Ia|].
      apply mem_In. destruct Ca as [[_ (H & _)]|[_ (H & _)]]; exact H.
    Qed.

    Lemma fires_not_inner i ev cfg a b :
      fires ctx eval_code sc i ev cfg a -> fires ctx eval_code sc i ev cfg b ->
      ~ In (t_source (snd b)) (anc (t_source (snd a))).
    Proof.
      intros (Ia & Ca & _) (_ & _ & Hb & _) H. apply Hb. exists a.
      split; [exact Ia|]. split; [exact Ca|exact H].
    Qed.

    Lemma kind_of_some n k : kind_of sc n = Some k -> exists st, state_for sc n = Some st /\ s_kind st = k.
    Proof.
      unfold kind_of. destruct (state_for sc n) as [st|]; simpl; [|discriminate].
      intros H. inversion H. exists st. auto.
    Qed.

    (* the child of l on the way to the source of t *)
    Definition rgn (l : name) (t : transition) : name :=
      last_before (Some l) (anc (t_source t)) (t_source t).

    Lemma stays_inside l t : In t (c_transitions sc) -> In l (anc (t_source t)) ->
      stays_below sc (Some l) t = true -> par (rgn l t) = Some l /\ inside (rgn l t) t.
    Proof.
      intros Hin Hl Hs.
      destruct (last_before_spec (Some l) (t_source t)) as [U P].
      { intros l' E. inversion E; subst l'. exact Hl. }
      fold (rgn l t) in U, P. split; [exact P|]. split; [exact U|].
      intros tgt Ht. pose proof (Htarget t tgt Hin Ht) as Hne'.
      unfold stays_below in Hs. rewrite Ht in Hs. fold (rgn l t) in Hs.
      destruct tgt as [|c tgt']; [congruence|].
      apply mem_In in Hs. apply under_iff.
      destruct Hs as [E|Hs]; [left; symmetry; exact E|right; exact Hs].
    Qed.

    Lemma check_pair_indep t1 t2 :
      In t1 (c_transitions sc) -> In t2 (c_transitions sc) ->
      ~ In (t_source t1) (anc (t_source t2)) -> ~ In (t_source t2) (anc (t_source t1)) ->
      check_pair sc t1 t2 = None -> indep t1 t2.
    Proof.
      intros I1 I2 N1 N2 H. unfold check_pair in H.
      destruct (str_eqb (t_source t1) (t_source t2)) eqn:Es; [discriminate|].
      destruct (least_common_ancestor sc (t_source t1) (t_source t2)) as [l|] eqn:El; [|discriminate].
      destruct (kind_of sc l) as [k|] eqn:Ek; [|discriminate].
      destruct k; try discriminate.
      destruct (stays_below sc (Some l) t1) eqn:S1; [|discriminate].
      destruct (stays_below sc (Some l) t2) eqn:S2; [|discriminate]. clear H.
      apply kind_of_some in Ek. destruct Ek as (os & EO & KO).
      apply lca_spec in El. destruct El as (L1 & L2 & First).
      destruct (stays_inside l t1 I1 L1 S1) as [P1 In1].
      destruct (stays_inside l t2 I2 L2 S2) as [P2 In2].
      exists (rgn l t1), (rgn l t2).
      split; [exists l, os; auto|]. split; [exists l, os; auto|].
      split; [|split; [congruence|split; assumption]].
      intros E. destruct In1 as [U1 _], In2 as [U2 _]. rewrite <- E in U2.
      destruct U1 as [E1|U1].
      - destruct U2 as [E2|U2].
        + assert (t_source t1 = t_source t2) as H by congruence.
          apply str_eqb_spec in H. congruence.
        + apply N1. rewrite E1. exact U2.
      - destruct U2 as [E2|U2].
        + apply N2. rewrite E2. exact U1.
        + destruct (First _ U1 U2) as [E3|H3].
          * rewrite E3 in P1. apply (anc_irr l). apply anc_par, P1.
          * apply (anc_asym _ l H3). apply anc_par, P1.
    Qed.

    Lemma check_against_none t1 : forall rest, check_against sc t1 rest = None ->
      forall b, In b rest -> check_pair sc t1 (snd b) = None.
    Proof.
      induction rest as [|it rest IH]; intros H b Hb; [destruct Hb|]. simpl in H.
      destruct (check_pair sc t1 (snd it)) eqn:E; [discriminate|].
      destruct Hb as [<-|Hb]; [exact E|apply IH; assumption].
    Qed.

    Lemma check_pairs_none : forall ts, check_pairs sc ts = None ->
      forall a b, In a ts -> In b ts -> a <> b ->
        check_pair sc (snd a) (snd b) = None \/ check_pair sc (snd b) (snd a) = None.
    Proof.
      induction ts as [|it rest IH]; intros H a b Ha Hb Hab; [destruct Ha|]. simpl in H.
      destruct (check_against sc (snd it) rest) eqn:E; [discriminate|].
      destruct Ha as [<-|Ha], Hb as [<-|Hb].
      - congruence.
      - left. eapply check_against_none; eauto.
      - right. eapply check_against_none; eauto.
      - apply IH; assumption.
    Qed.

    Lemma compute_steps_init s s' steps :
      i_initialized (m_i s) = true -> compute_steps s = (s', inl steps) ->
      m_i s' = m_i s /\
      (steps = [] \/ (exists e, steps = [mkMicro (Some e) None [] [] []])
       \/ exists ev ts, ts <> [] /\ steps = create_steps sc (i_config (m_i s)) ev ts /\ NoDup ts
            /\ (forall it, In it ts ->
                  In (snd it) (c_transitions sc) /\ In (t_source (snd it)) (i_config (m_i s)))
            /\ (forall a b, In a ts -> In b ts -> a <> b -> indep (snd a) (snd b))).
    Proof.
      intros Hi H. unfold Interp.compute_steps in H. rewrite bind_get in H. rewrite Hi in H.
      simpl negb in H. cbv iota in H.
      apply bind_ok in H. destruct H as (sel & s1 & H1 & H).
      apply (C01_selection ctx X eval_code sc Hanc) in H1. destruct H1 as (Hf & Hnd & Hmi & _).
      apply bind_ok in H. destruct H as (u & s2 & H2 & H).
      unfold Interp.observe in H2. inversion H2; subst s2 u. clear H2.
      destruct sel as [|it1 sel].
      - destruct (select_event (m_i s)) as [e|]; inversion H; subst; simpl;
          (split; [exact Hmi|]); [right; left; exists e; reflexivity|left; reflexivity].
      - apply bind_ok in H. destruct H as (ts' & s3 & H3 & H). rewrite bind_get in H.
        inversion H; subst s' steps. clear H.
        assert (m_i s3 = m_i s /\ Permutation ts' (it1 :: sel)
                /\ forall a b, In a (it1 :: sel) -> In b (it1 :: sel) -> a <> b ->
                     check_pair sc (snd a) (snd b) = None \/ check_pair sc (snd b) (snd a) = None)
          as (Hm3 & Hperm & Hcp).
        { unfold Interp.sort_transitions in H3. destruct sel as [|it2 sel].
          - inversion H3; subst. split; [exact Hmi|]. split; [apply Permutation_refl|].
            intros a b [<-|[]] [<-|[]] Hab. congruence.
          - destruct (check_pairs sc (it1 :: it2 :: sel)) eqn:Ecp; [discriminate|].
            inversion H3; subst. split; [exact Hmi|]. split.
            { change (Permutation (sort (trans_order_leb sc) (it1 :: it2 :: sel)) (it1 :: it2 :: sel)).
              apply sort_perm. }
            apply check_pairs_none, Ecp. }
        split; [exact Hm3|]. right. right. rewrite Hm3.
        eexists _, ts'. split.
        { intros ->. apply Permutation_nil in Hperm. discriminate. }
        split; [reflexivity|].
        split; [eapply Permutation_NoDup; [apply Permutation_sym, Hperm|exact Hnd]|].
        assert (forall it, In it ts' -> fires ctx eval_code sc (m_i s) (select_event (m_i s)) (i_config (m_i s)) it)
          as Hfires.
        { intros it Hit. apply Hf. eapply Permutation_in; eauto. }
        split.
        + intros it Hit. eapply fires_facts. apply Hfires, Hit.
        + intros a b Ha Hb Hab.
          pose proof (Hfires a Ha) as Fa. pose proof (Hfires b Hb) as Fb.
          destruct (fires_facts _ _ _ _ Fa) as [Ia _]. destruct (fires_facts _ _ _ _ Fb) as [Ib _].
          pose proof (fires_not_inner _ _ _ _ _ Fa Fb) as Nab.
          pose proof (fires_not_inner _ _ _ _ _ Fb Fa) as Nba.
          destruct (Hcp a b) as [C|C];
            try (eapply Permutation_in; eauto); try exact Hab.
          * apply check_pair_indep; assumption.
          * apply indep_sym. apply check_pair_indep; assumption.
    Qed.

    (* ================================================================ 2. C02_step *)
    (* the invariant of the interpreter: the history memory is well formed and the configuration is
       empty before initialisation, empty (final) or legal and stable afterwards *)
    Definition Inv (i : ist) : Prop :=
      MEM (i_memory i)
      /\ ((i_initialized i = false /\ i_config i = [])
          \/ (i_initialized i = true
              /\ (i_config i = [] \/ (legal (i_config i) /\ stable (i_config i))))).

    Lemma legal_wk cfg : legal cfg -> wk cfg /\ In r cfg.
    Proof.
      intros (Hnd & (r' & Er & Hr) & Hs). rewrite Hroot in Er. inversion Er; subst r'.
      split; [|exact Hr]. split; [exact Hnd|]. split.
      - intros n Hn. destruct (Hs n Hn) as (st & E & _). congruence.
      - split.
        + intros n p Hn Hp. destruct (Hs n Hn) as (st & _ & Hpar & _). apply Hpar, Hp.
        + intros n st c1 c2 Est K P1 P2 H1 H2.
          assert (In n cfg) as Hn.
          { destruct (Hs c1 H1) as (st1 & _ & Hpar & _). apply Hpar, P1. }
          destruct (Hs n Hn) as (st' & E' & _ & _ & Hc & _). rewrite Est in E'. inversion E'; subst st'.
          assert (forall c, par c = Some n -> In c cfg -> In c (active_children cfg n)) as Hac.
          { intros c Pc Hc'. apply filter_In. split; [apply Hpc, Pc|apply mem_In, Hc']. }
          pose proof (Hac c1 P1 H1) as A1. pose proof (Hac c2 P2 H2) as A2.
          destruct (Hc K) as [(c & E)|[E _]]; rewrite E in A1, A2.
          * destruct A1 as [<-|[]], A2 as [<-|[]]. reflexivity.
          * destruct A1.
    Qed.

    Lemma J_stable_Inv (i : ist) :
      J (i_config i) -> css i = None -> MEM (i_memory i) -> i_initialized i = true -> Inv i.
    Proof.
      intros [Hwk Hc] Hcss Hmem Hi. split; [exact Hmem|]. right. split; [exact Hi|].
      destruct Hc as [Hc|Hr]; [left; exact Hc|right].
      apply C02_stable_iff in Hcss. split; [apply wk_stable_legal; assumption|exact Hcss].
    Qed.

    Lemma compute_steps_uninit s s' steps :
      i_initialized (m_i s) = false -> compute_steps s = (s', inl steps) ->
      steps = [mkMicro None None [r] [] []] /\ i_config (m_i s') = i_config (m_i s)
      /\ i_memory (m_i s') = i_memory (m_i s) /\ i_initialized (m_i s') = true.
    Proof.
      intros Hi H. unfold Interp.compute_steps in H. rewrite bind_get in H. rewrite Hi in H.
      simpl negb in H. cbv iota in H. rewrite Hroot in H.
      apply bind_ok in H. destruct H as (u & s1 & H1 & H). unfold Interp.put in H1.
      inversion H1; subst. inversion H; subst. simpl. auto.
    Qed.

    (* the very first step: enter the root, stabilise *)
    Lemma run_root_step fuel s s' executed :
      i_config (m_i s) = [] -> MEM (i_memory (m_i s)) ->
      run_steps fuel [mkMicro None None [r] [] []] s = (s', inl executed) ->
      J (i_config (m_i s')) /\ MEM (i_memory (m_i s')) /\ css (m_i s') = None
      /\ i_initialized (m_i s') = i_initialized (m_i s).
    Proof.
      intros Hc Hmem H. simpl in H.
      apply bind_ok in H. destruct H as (a & s1 & H1 & H).
      apply bind_ok in H. destruct H as (ss & s2 & H2 & H).
      apply bind_ok in H. destruct H as (rr & s3 & H3 & H). inversion H3; subst s3 rr. inversion H; subst s2.
      clear H H3.
      assert (NoDup (i_config (m_i s))) as Hnd0 by (rewrite Hc; constructor).
      destruct (apply_step_sets _ _ _ _ H1 Hnd0) as (N & I & F & Hi & Hm & _).
      cbn [ms_entered ms_exited] in I, F. rewrite Hc in I, Hm.
      assert (forall x, In x (i_config (m_i s1)) <-> x = r) as I'.
      { intros x. rewrite I. simpl. split; [intros [[[] _]|[E|[]]]; auto|intros ->; right; left; reflexivity]. }
      assert (wk (i_config (m_i s1))) as W1.
      { split; [exact N|]. split; [intros x Hx; apply F; apply I' in Hx; left; auto|]. split.
        - intros x q Hx Hq. apply I' in Hx. subst x. congruence.
        - intros n st c1 c2 _ _ _ _ X1 X2. apply I' in X1. apply I' in X2. congruence. }
      destruct (stabilize_inv (fun _ => True)) with (fuel := fuel) (s := s1) (s' := s') (steps := ss)
        as (A & B & _ & D & G); auto.
      - split; [exact W1|right; apply I'; reflexivity].
      - apply Hm; [apply wk_nil|intros x st []|exact Hmem].
      - split; [exact A|]. split; [exact B|]. split; [exact G|congruence].
    Qed.

    (* an event without transition: nothing changes *)
    Lemma run_event_step fuel e s s' executed :
      wk (i_config (m_i s)) -> MEM (i_memory (m_i s)) -> css (m_i s) = None ->
      run_steps fuel [mkMicro (Some e) None [] [] []] s = (s', inl executed) ->
      i_config (m_i s') = i_config (m_i s) /\ MEM (i_memory (m_i s'))
      /\ i_initialized (m_i s') = i_initialized (m_i s).
    Proof.
      intros Hwk Hmem Hcss H. simpl in H.
      apply bind_ok in H. destruct H as (a & s1 & H1 & H).
      apply bind_ok in H. destruct H as (ss & s2 & H2 & H).
      apply bind_ok in H. destruct H as (rr & s3 & H3 & H). inversion H3; subst s3 rr. inversion H; subst s2.
      clear H H3.
      destruct (apply_step_sets _ _ _ _ H1 (proj1 Hwk)) as (_ & _ & _ & Hi & Hm & Hsame).
      specialize (Hsame eq_refl eq_refl).
      assert (css (m_i s1) = None) as Hc1.
      { apply C02_stable_iff. rewrite Hsame. apply C02_stable_iff, Hcss. }
      destruct (stabilize_stable fuel s1 s' ss Hc1 H2) as [-> _].
      split; [exact Hsame|]. split; [apply Hm; [assumption|intros x st []|assumption]|exact Hi].
    Qed.

    Lemma step_initialized fuel steps (s1 s2 s3 : mst) res :
      i_initialized (m_i s1) = true -> compute_steps s1 = (s2, inl steps) ->
      macro_part ctx X exec_code eval_code emit sc fuel steps s2 = (s3, inl res) ->
      MEM (i_memory (m_i s1)) ->
      (i_config (m_i s1) = [] \/ (legal (i_config (m_i s1)) /\ stable (i_config (m_i s1)))) ->
      Inv (m_i s3).
    Proof.
      intros Hi H2 H3 Hmem Hcase.
      destruct (compute_steps_init s1 s2 steps Hi H2) as (Hm2 & Hsteps).
      assert (Inv (m_i s1)) as Hinv1 by (split; [exact Hmem|right; split; assumption]).
      assert (wk (i_config (m_i s1)) /\ css (m_i s1) = None) as [Hwk Hcss].
      { destruct Hcase as [Hc|[Hl Hs]].
        - rewrite Hc. split; [apply wk_nil|apply css_nil, Hc].
        - split; [apply legal_wk, Hl|apply C02_stable_iff, Hs]. }
      apply macro_part_inv in H3.
      destruct H3 as [(_ & _ & ->)|(s4 & executed & Hne' & (S1 & S2 & S3) & Hrun & _)];
        [rewrite Hm2; exact Hinv1|].
      rewrite Hm2 in S1, S2, S3.
      destruct Hsteps as [->|[(e & ->)|(ev & ts & Hts & -> & Hnd & Hfacts & Hind)]]; [congruence| |].
      - destruct (run_event_step fuel e s4 s3 executed) as (A & B & C); try assumption.
        + rewrite S1. exact Hwk.
        + rewrite S3. exact Hmem.
        + apply C02_stable_iff. rewrite S1. apply C02_stable_iff, Hcss.
        + split; [exact B|]. right. split; [congruence|]. rewrite A, S1. exact Hcase.
      - destruct Hcase as [Hc|[Hl Hs]].
        { exfalso. destruct ts as [|it ts]; [congruence|].
          destruct (Hfacts it (or_introl eq_refl)) as [_ Hsrc]. rewrite Hc in Hsrc. destruct Hsrc. }
        destruct (legal_wk _ Hl) as [_ Hr].
        destruct (run_trans_inv fuel (i_config (m_i s1)) ev ts s4 s3 executed) as (A & B & C & D);
          try assumption.
        + unfold TPre. rewrite S1, S3. repeat (split; [assumption|]). intros it tgt _ _ x _. apply iff_refl.
        + apply J_stable_Inv; try assumption. congruence.
    Qed.

    Theorem C02_step fuel now s s' res :
      Inv (m_i s) -> execute_once fuel now s = (s', inl res) -> Inv (m_i s').
    Proof.
      intros [Hmem Hcase] H. apply execute_once_inv in H.
      destruct H as (s1 & s2 & s3 & steps & H1 & H2 & H3 & H4). rewrite H4.
      assert (i_config (m_i s1) = i_config (m_i s) /\ i_memory (m_i s1) = i_memory (m_i s)
              /\ i_initialized (m_i s1) = i_initialized (m_i s)) as (E1 & E2 & E3).
      { rewrite H1. simpl. auto. }
      destruct Hcase as [[Hi Hc]|[Hi Hcase]].
      - (* first call: initialisation *)
        rewrite <- E3 in Hi. destruct (compute_steps_uninit s1 s2 steps Hi H2) as (-> & C1 & C2 & C3).
        apply macro_part_inv in H3.
        destruct H3 as [(Habs & _)|(s4 & executed & _ & (S1 & S2 & S3) & Hrun & _)]; [discriminate|].
        destruct (run_root_step fuel s4 s3 executed) as (A & B & C & D); try assumption.
        + congruence.
        + rewrite S3, C2, E2. exact Hmem.
        + apply J_stable_Inv; try assumption. congruence.
      - apply (step_initialized fuel steps s1 s2 s3 res);
          [congruence|exact H2|exact H3|rewrite E2; exact Hmem|rewrite E1; exact Hcase].
    Qed.

    (* ================================================================ 3. C02_run *)
    Lemma Inv_queue_event (i : ist) e : Inv i -> Inv (queue_event i e).
    Proof. unfold queue_event. destruct (e_kind e); intros H; exact H. Qed.

    Lemma Inv_init id now ignore (c0 : ctx) : Inv (init_istate id now ignore c0).
    Proof.
      split; [apply MEM_nil|left; split; reflexivity].
    Qed.

    (* Inv is preserved along any sequence of queue / execute_once calls that return normally
       (C05Proofs.runs: queue e always returns; an execute_once that raises ends the sequence) *)
    Theorem C02_run ops s ms s' :
      C05Proofs.runs ctx X exec_code eval_code emit sc ops s ms s' -> Inv (m_i s) -> Inv (m_i s').
    Proof.
      induction 1 as [s|e ops s ms s' Hr IH|fuel now ops s s1 m ms s' He Hr IH]; intros HI.
      - exact HI.
      - apply IH. unfold Interp.queue, Interp.modify. simpl. apply Inv_queue_event, HI.
      - apply IH. eapply C02_step; eauto.
    Qed.

    Corollary C02_run_init ops id now ignore (c0 : ctx) x tr ms s' :
      C05Proofs.runs ctx X exec_code eval_code emit sc ops (mkM (init_istate id now ignore c0) x tr) ms s' ->
      Inv (m_i s').
    Proof. intros H. eapply C02_run; [exact H|]. apply Inv_init. Qed.

    (* ================================================================ 4. the stabilisation loop terminates *)
    (* measure: every inactive non-history state weighs 2, every inactive history state 1 *)
    Definition keys : list name := dedup (map fst (c_states sc)).
    Definition histb (k : name) : bool :=
      match state_for sc k with Some st => is_history (s_kind st) | None => false end.
    Definition wt (cfg : list name) (k : name) : nat :=
      if mem k cfg then 0 else if histb k then 1 else 2.
    Definition mu (cfg : list name) : nat := list_sum (map (wt cfg) keys).

    Lemma keys_In k : state_for sc k <> None -> In k keys.
    Proof.
      intros H. unfold keys. apply In_dedup. unfold state_for in H.
      destruct (lookup k (c_states sc)) eqn:E; [|congruence]. eapply lookup_In_keys; eauto.
    Qed.

    Lemma mu_bound cfg : mu cfg <= 2 * length (c_states sc).
    Proof.
      unfold mu. assert (forall L, list_sum (map (wt cfg) L) <= 2 * length L) as H.
      { induction L as [|a L IH]; simpl; [lia|]. unfold wt at 1.
        destruct (mem a cfg); [lia|]. destruct (histb a); lia. }
      specialize (H keys). unfold keys in *.
      pose proof (dedup_length (map fst (c_states sc))) as H0. rewrite map_length in H0. lia.
    Qed.

    Lemma wt_mono cfg cfg' k : (In k cfg -> In k cfg') -> wt cfg' k <= wt cfg k.
    Proof.
      intros H. unfold wt. destruct (mem k cfg) eqn:E.
      - apply mem_In in E. apply H, mem_In in E. rewrite E. lia.
      - destruct (mem k cfg'); destruct (histb k); lia.
    Qed.

    Lemma stab_leaf_history_nh m n st step :
      state_for sc n = Some st -> is_history (s_kind st) = true -> mnh m ->
      stab_for_leaf sc m n = Some (inl step) ->
      (exists x, In x (ms_entered step)) /\ nohist (ms_entered step).
    Proof.
      intros Est Hh Hm Hs. unfold stab_for_leaf in Hs. rewrite Est in Hs.
      assert (forall m0 sx, s_memory st = Some m0 -> state_for sc m0 = Some sx ->
                            is_history (s_kind sx) = false) as Hdef.
      { intros m0 sx Em Ex. exact (Hmemory_nonhist n st m0 sx Est Hh Em Ex). }
      destruct (s_kind st); try discriminate Hh;
        (destruct (lookup n m) as [l|] eqn:El;
         [ inversion Hs; subst step; destruct (Hm n l El) as [Hne' Hnh]; cbn [ms_entered]; split;
           [ destruct l as [|y l']; [congruence|]; exists y; apply sort_In; left; reflexivity
           | intros x sx Hx; apply sort_In in Hx; eapply Hnh; eauto ]
         | destruct (s_memory st) as [m0|] eqn:Em; [|discriminate]; inversion Hs; subst step;
           cbn [ms_entered]; split;
           [ exists m0; left; reflexivity
           | intros x sx [<-|[]] Ex; exact (Hdef m0 sx eq_refl Ex) ] ]).
    Qed.

    (* every stabilisation step but the last one (final state reached) decreases the measure *)
    Lemma stab_step_mu (i : ist) step cfg' :
      css i = Some (inl step) -> wk (i_config i) -> MEM (i_memory i) ->
      (forall x, In x (ms_entered step) -> state_for sc x <> None) ->
      (forall x, In x cfg' <-> (In x (i_config i) /\ ~ In x (ms_exited step)) \/ In x (ms_entered step)) ->
      cfg' = [] \/ mu cfg' < mu (i_config i).
    Proof.
      intros Hcss Hwk Hmem Hent Hin.
      assert (forall x, ms_exited step = [] -> In x (ms_entered step) -> ~ In x (i_config i) ->
                        mu cfg' < mu (i_config i)) as Henter.
      { intros x Hex Hx Hnx. unfold mu.
        assert (list_sum (map (wt cfg') keys) + 1 <= list_sum (map (wt (i_config i)) keys)); [|lia].
        apply (sum_lt (wt cfg') (wt (i_config i)) keys x 1).
        - intros k _. apply wt_mono. intros Hk. apply Hin. left. split; [exact Hk|rewrite Hex; intros []].
        - apply keys_In, Hent, Hx.
        - unfold wt. assert (mem x cfg' = true) as E1 by (apply mem_In, Hin; right; exact Hx).
          rewrite E1. apply mem_false_iff in Hnx. rewrite Hnx. destruct (histb x); lia. }
      pose proof Hcss as Hcss0.
      apply css_some in Hcss. destruct Hcss as [(n & [Hn Hleaf] & Hs)|(n & Hn & Hs)].
      - destruct (state_for sc n) as [st|] eqn:Est;
          [|unfold stab_for_leaf in Hs; rewrite Est in Hs; discriminate].
        destruct (is_history (s_kind st)) eqn:Hh.
        { right.
          destruct (stab_leaf_history _ n st step Est Hh (proj1 Hmem) Hs)
            as (p & ps & l & Pn & Eps & Kps & Hl & Hx & He).
          destruct (stab_leaf_history_nh _ n st step Est Hh (proj2 Hmem) Hs) as [(x & Hxe) Hnh].
          assert (kids n = []) as Hkn.
          { apply (no_kids_of_kind n st Est); intros K; rewrite K in Hh; discriminate. }
          destruct (state_for sc x) as [sx|] eqn:Esx; [|exfalso; exact (Hent x Hxe Esx)].
          pose proof (Hnh x sx Hxe Esx) as Hxnh.
          assert (~ In x (i_config i)) as Hnx.
          { intros Hxc. destruct Hwk as (_ & _ & Hcl & Hamo). destruct Hl as (M1 & _ & _).
            pose proof (M1 x (proj1 (He x) Hxe)) as Hpx.
            destruct (child_toward p x Hpx) as (k & Pk & Uk).
            assert (In k (i_config i)) as Hkc by (exact (pclosed_under _ k x Hcl Hxc Uk)).
            assert (k = n) as -> by (exact (Hamo p ps k n Eps Kps Pk Pn Hkc Hn)).
            destruct Uk as [E|Uk]; [|exact (no_kids_no_desc n x Hkn Uk)].
            subst x. rewrite Est in Esx. inversion Esx; subst sx. congruence. }
          assert (x <> n) as Hxn by (intros ->; contradiction).
          unfold mu.
          assert (list_sum (map (wt cfg') keys) + 1 <= list_sum (map (wt (i_config i)) keys)); [|lia].
          apply (sum_swap (wt cfg') (wt (i_config i)) keys n x).
          - apply NoDup_dedup.
          - apply keys_In. rewrite Esx. discriminate.
          - exact Hxn.
          - intros k _ Hkn'. apply wt_mono. intros Hk. apply Hin. left. split; [exact Hk|].
            rewrite Hx. intros [E|[]]. congruence.
          - unfold wt. assert (histb n = true) as Hb by (unfold histb; rewrite Est; exact Hh).
            rewrite Hb. destruct (mem n cfg'); destruct (mem n (i_config i)); lia.
          - unfold wt. assert (mem x cfg' = true) as E1 by (apply mem_In, Hin; right; exact Hxe).
            rewrite E1. apply mem_false_iff in Hnx. rewrite Hnx.
            assert (histb x = false) as Hb by (unfold histb; rewrite Esx; exact Hxnh).
            rewrite Hb. lia. }
        unfold stab_for_leaf in Hs. rewrite Est in Hs. destruct (s_kind st) eqn:K; try discriminate.
        + destruct (truthy (s_initial st)) as [i0|] eqn:Ei; [|discriminate].
          inversion Hs; subst step. right. apply (Henter i0 eq_refl (or_introl eq_refl)).
          intros Hc. apply (Hleaf i0); [|exact Hc]. apply desc_iff, anc_par. eapply Hinitial; eauto.
        + destruct (kids n) as [|c l] eqn:Ek; [discriminate|].
          inversion Hs; subst step. right. apply (Henter c eq_refl).
          * cbn [ms_entered]. change (insert str_leb c (sort_names l)) with (sort str_leb (c :: l)).
            apply sort_In. left; reflexivity.
          * intros Hc. apply (Hleaf c); [|exact Hc]. apply kids_desc. rewrite Ek. left; reflexivity.
        + left. destruct (ostr_eqb (par n) (root sc)) eqn:Eo; [|discriminate].
          rewrite Hroot in Hs. inversion Hs; subst step. clear Hs. cbn [ms_entered ms_exited] in *.
          apply ostr_eqb_iff in Eo. rewrite Hroot in Eo.
          apply nodup_empty. intros x Hx. apply Hin in Hx. destruct Hx as [[Hx Hne']|[]].
          destruct (final_step_all (i_config i) n st Hwk Hn Est K Eo x Hx) as [->| ->];
            apply Hne'; [left|right; left]; reflexivity.
      - unfold stab_for_orthogonal in Hs. destruct (state_for sc n) as [st|] eqn:Est; [|discriminate].
        destruct (s_kind st) eqn:K; try discriminate.
        destruct (filter (fun ch => negb (mem ch (i_config i))) (kids n)) as [|c l] eqn:Ef; [discriminate|].
        inversion Hs; subst step. right. apply (Henter c eq_refl).
        + cbn [ms_entered]. change (insert str_leb c (sort_names l)) with (sort str_leb (c :: l)).
          apply sort_In. left; reflexivity.
        + assert (In c (filter (fun ch => negb (mem ch (i_config i))) (kids n))) as Hc
            by (rewrite Ef; left; reflexivity).
          apply filter_In in Hc. destruct Hc as [_ Hc]. apply negb_true_iff, mem_false_iff in Hc. exact Hc.
    Qed.

    Lemma bind_cong_l {A B} (m1 m2 : M ctx X A) (k : A -> M ctx X B) s :
      m1 s = m2 s -> bind m1 k s = bind m2 k s.
    Proof. intros H. unfold Interp.bind. rewrite H. reflexivity. Qed.

    Lemma bind_cong_r {A B} (m : M ctx X A) (k1 k2 : A -> M ctx X B) s :
      (forall a s1, m s = (s1, inl a) -> k1 a s1 = k2 a s1) -> bind m k1 s = bind m k2 s.
    Proof.
      intros H. unfold Interp.bind. destruct (m s) as [s1 [a|e]] eqn:E; [apply H; reflexivity|reflexivity].
    Qed.

    (* beyond mu + 2 the fuel of the loop is irrelevant: the loop is never cut short *)
    Lemma stabilize_fuel_indep : forall f1 f2 s,
      J (i_config (m_i s)) -> MEM (i_memory (m_i s)) ->
      mu (i_config (m_i s)) + 1 < f1 -> mu (i_config (m_i s)) + 1 < f2 ->
      stabilize f1 s = stabilize f2 s.
    Proof.
      induction f1 as [|f1 IH]; intros f2 s HJ Hmem H1 H2; [lia|]. destruct f2 as [|f2]; [lia|].
      simpl. rewrite !bind_get. destruct (css (m_i s)) as [[step|e]|] eqn:E; try reflexivity.
      apply bind_cong_r. intros a s1 Ea.
      destruct HJ as [Hwk [Hnil|Hr]]; [rewrite (css_nil _ Hnil) in E; discriminate|].
      destruct (apply_step_sets _ _ _ _ Ea (proj1 Hwk)) as (N & I & F & Hi & Hm & _).
      assert (J (i_config (m_i s1))) as HJ1 by (eapply stab_step_J; eauto; apply Hmem).
      assert (MEM (i_memory (m_i s1))) as Hmem1.
      { apply Hm; [exact Hwk|exact (stab_exits_nohist _ _ E Hwk)|exact Hmem]. }
      apply bind_cong_l.
      destruct (stab_step_mu (m_i s) step (i_config (m_i s1)) E Hwk Hmem F I) as [Hnil|Hlt].
      - assert (forall f, 0 < f -> stabilize f s1 = (s1, inl [])) as Hstop.
        { intros [|f] Hf; [lia|]. simpl. rewrite bind_get. rewrite (css_nil _ Hnil). reflexivity. }
        rewrite (Hstop f1), (Hstop f2) by lia. reflexivity.
      - apply IH; try assumption; lia.
    Qed.

    Theorem C02_stabilize_terminates fuel fuel' s :
      J (i_config (m_i s)) -> MEM (i_memory (m_i s)) ->
      2 * length (c_states sc) + 2 <= fuel -> 2 * length (c_states sc) + 2 <= fuel' ->
      stabilize fuel s = stabilize fuel' s.
    Proof.
      intros HJ Hmem H1 H2. pose proof (mu_bound (i_config (m_i s))) as Hb.
      apply stabilize_fuel_indep; try assumption; lia.
    Qed.

    Lemma Inv_J (i : ist) : Inv i -> J (i_config i) /\ MEM (i_memory i).
    Proof.
      intros [Hmem Hcase]. split; [|exact Hmem].
      destruct Hcase as [[_ Hc]|[_ [Hc|[Hl _]]]].
      - rewrite Hc. split; [apply wk_nil|left; reflexivity].
      - rewrite Hc. split; [apply wk_nil|left; reflexivity].
      - destruct (legal_wk _ Hl) as [W R]. split; [exact W|right; exact R].
    Qed.

    (* in particular: an EFuel outcome with enough fuel is not due to the fuel (it can only have been
       raised by a listener, emit is arbitrary) -- it is returned for every larger fuel as well *)
    Corollary C02_stabilize_no_fuel_error fuel s s' :
      J (i_config (m_i s)) -> MEM (i_memory (m_i s)) -> 2 * length (c_states sc) + 2 <= fuel ->
      stabilize fuel s = (s', inr EFuel) ->
      forall fuel', fuel <= fuel' -> stabilize fuel' s = (s', inr EFuel).
    Proof.
      intros HJ Hmem H1 H fuel' Hle. rewrite <- H. symmetry.
      apply C02_stabilize_terminates; try assumption; lia.
    Qed.

    (* ---------------------------------------------------------------- the fuel of execute_once is irrelevant *)
    Definition enough (f : nat) : Prop := 2 * length (c_states sc) + 2 <= f.

    Lemma run_trans_fuel f1 f2 cfg0 ev : enough f1 -> enough f2 -> forall ts s,
      TPre cfg0 ts (m_i s) ->
      run_steps f1 (create_steps sc cfg0 ev ts) s = run_steps f2 (create_steps sc cfg0 ev ts) s.
    Proof.
      intros E1 E2. induction ts as [|it rest IH]; intros s Hpre; [reflexivity|].
      simpl. apply bind_cong_r. intros a s1 H1.
      destruct (TPre_apply cfg0 ev it rest s s1 a Hpre H1) as [HJ1 HM1].
      etransitivity; [apply bind_cong_l; exact (C02_stabilize_terminates f1 f2 s1 HJ1 HM1 E1 E2)|].
      apply bind_cong_r. intros ss s2 H2.
      destruct (TPre_next f2 cfg0 ev it rest s s1 s2 a ss Hpre H1 H2) as (_ & _ & _ & _ & Hnext).
      apply bind_cong_l. destruct rest as [|b rest']; [reflexivity|]. apply IH. apply Hnext. discriminate.
    Qed.

    Lemma run_one_fuel f1 f2 st s : enough f1 -> enough f2 ->
      (forall s1 a, apply_step st s = (s1, inl a) -> J (i_config (m_i s1)) /\ MEM (i_memory (m_i s1))) ->
      run_steps f1 [st] s = run_steps f2 [st] s.
    Proof.
      intros E1 E2 H. simpl. apply bind_cong_r. intros a s1 H1. destruct (H s1 a H1) as [HJ HM].
      apply bind_cong_l. exact (C02_stabilize_terminates f1 f2 s1 HJ HM E1 E2).
    Qed.

    Lemma root_apply_J s s1 a :
      i_config (m_i s) = [] -> MEM (i_memory (m_i s)) ->
      apply_step (mkMicro None None [r] [] []) s = (s1, inl a) ->
      J (i_config (m_i s1)) /\ MEM (i_memory (m_i s1)).
    Proof.
      intros Hc Hmem H1.
      assert (NoDup (i_config (m_i s))) as Hnd0 by (rewrite Hc; constructor).
      destruct (apply_step_sets _ _ _ _ H1 Hnd0) as (N & I & F & Hi & Hm & _).
      cbn [ms_entered ms_exited] in I, F. rewrite Hc in I, Hm.
      assert (forall x, In x (i_config (m_i s1)) <-> x = r) as I'.
      { intros x. rewrite I. simpl. split; [intros [[[] _]|[E|[]]]; auto|intros ->; right; left; reflexivity]. }
      split; [|apply Hm; [apply wk_nil|intros x st []|exact Hmem]].
      split; [|right; apply I'; reflexivity].
      split; [exact N|]. split; [intros x Hx; apply F; apply I' in Hx; left; auto|]. split.
      - intros x q Hx Hq. apply I' in Hx. subst x. congruence.
      - intros n st c1 c2 _ _ _ _ X1 X2. apply I' in X1. apply I' in X2. congruence.
    Qed.

    Lemma event_apply_J e s s1 a :
      J (i_config (m_i s)) -> MEM (i_memory (m_i s)) ->
      apply_step (mkMicro (Some e) None [] [] []) s = (s1, inl a) ->
      J (i_config (m_i s1)) /\ MEM (i_memory (m_i s1)).
    Proof.
      intros HJ Hmem H1.
      destruct (apply_step_sets _ _ _ _ H1 (proj1 (proj1 HJ))) as (_ & _ & _ & _ & Hm & Hsame).
      rewrite (Hsame eq_refl eq_refl). split; [exact HJ|].
      apply Hm; [exact (proj1 HJ)|intros x st []|exact Hmem].
    Qed.

    (* started in a state satisfying Inv, execute_once never runs out of fuel: its outcome (result or
       error, and the whole final state) does not depend on the fuel beyond 2 * |states| + 2 *)
    Theorem C02_fuel_irrelevant f1 f2 now s :
      Inv (m_i s) -> enough f1 -> enough f2 -> execute_once f1 now s = execute_once f2 now s.
    Proof.
      intros [Hmem Hcase] E1 E2. rewrite !execute_once_eq.
      apply bind_cong_r. intros u s0 H0. unfold Interp.modify in H0. inversion H0; subst s0 u. clear H0.
      unfold execute_once_tail.
      apply bind_cong_r. intros u s1 H1. apply raise_meta_footprint in H1. simpl in H1.
      assert (i_config (m_i s1) = i_config (m_i s) /\ i_memory (m_i s1) = i_memory (m_i s)
              /\ i_initialized (m_i s1) = i_initialized (m_i s)) as (C1 & C2 & C3).
      { rewrite H1. simpl. auto. }
      apply bind_cong_r. intros steps s2 H2.
      apply bind_cong_l. unfold macro_part. destruct steps as [|first rest] eqn:Esteps; [reflexivity|].
      rewrite <- Esteps in *.
      apply bind_cong_r. intros u4 s4 H4.
      apply (keepP_consume_part (eq (i_memory (m_i s2)))) in H4. apply keepP_same3 in H4.
      destruct H4 as (S1 & S2 & S3).
      apply bind_cong_l.
      destruct Hcase as [[Hi Hc]|[Hi Hcase]].
      - rewrite <- C3 in Hi. destruct (compute_steps_uninit s1 s2 steps Hi H2) as (-> & D1 & D2 & D3).
        apply run_one_fuel; try assumption. intros s5 a H5.
        apply (root_apply_J s4 s5 a); [congruence| |exact H5]. rewrite S3, D2, C2. exact Hmem.
      - rewrite <- C3 in Hi. destruct (compute_steps_init s1 s2 steps Hi H2) as (Hm2 & Hsteps).
        rewrite Hm2 in S1, S3.
        assert (J (i_config (m_i s4))) as HJ4.
        { rewrite S1, C1. destruct Hcase as [Hc|[Hl _]].
          - rewrite Hc. split; [apply wk_nil|left; reflexivity].
          - destruct (legal_wk _ Hl) as [W R]. split; [exact W|right; exact R]. }
        assert (MEM (i_memory (m_i s4))) as HM4 by (rewrite S3, C2; exact Hmem).
        destruct Hsteps as [E|[(e & ->)|(ev & ts & Hts & -> & Hnd & Hfacts & Hind)]].
        + rewrite E in Esteps. discriminate.
        + apply run_one_fuel; try assumption. intros s5 a H5. exact (event_apply_J e s4 s5 a HJ4 HM4 H5).
        + destruct Hcase as [Hc|[Hl Hs]].
          { exfalso. destruct ts as [|it ts]; [congruence|].
            destruct (Hfacts it (or_introl eq_refl)) as [_ Hsrc]. rewrite C1, Hc in Hsrc. destruct Hsrc. }
          apply run_trans_fuel; try assumption.
          destruct (legal_wk _ Hl) as [W R].
          unfold TPre. rewrite S1, S3, C1, C2. rewrite C1 in Hfacts.
          repeat (split; [assumption|]). intros it tgt _ _ x _. apply iff_refl.
    Qed.

  End WF.

End C02.

(* ================================================================== 5. a decidable well-formedness check *)
(* The hypotheses of Section WF, collected (r is the root). *)
Definition WF (sc : chart) (r : name) : Prop :=
  root sc = Some r
  /\ parent_for sc r = None
  /\ (forall n, parent_for sc n <> Some ""%string)
  /\ (forall n st, state_for sc n = Some st -> s_name st = n)
  /\ (forall a b, In b (ancestors_for sc a) -> (depth_for sc b < depth_for sc a)%Z)
  /\ (forall c p, In c (children_for sc p) <-> parent_for sc c = Some p)
  /\ (forall p, NoDup (children_for sc p))
  /\ (forall a d, In a (ancestors_for sc d) -> In d (descendants_for sc a))
  /\ (forall n, state_for sc n <> None -> parent_for sc n = None -> n = r)
  /\ (forall n st, state_for sc n = Some st -> children_for sc n <> [] ->
        s_kind st = KCompound \/ s_kind st = KOrthogonal)
  /\ (forall n st i, state_for sc n = Some st -> s_kind st = KCompound ->
        truthy (s_initial st) = Some i -> parent_for sc i = Some n)
  /\ (forall n st c cs, state_for sc n = Some st -> s_kind st = KOrthogonal ->
        parent_for sc c = Some n -> state_for sc c = Some cs -> s_kind cs <> KFinal)
  /\ (forall h hs, state_for sc h = Some hs -> is_history (s_kind hs) = true ->
        exists p ps, parent_for sc h = Some p /\ state_for sc p = Some ps /\ s_kind ps = KCompound
                     /\ (forall m, s_memory hs = Some m -> parent_for sc m = Some p))
  /\ (forall t tgt O os R1 R2, In t (c_transitions sc) -> t_target t = Some tgt ->
        state_for sc O = Some os -> s_kind os = KOrthogonal ->
        parent_for sc R1 = Some O -> parent_for sc R2 = Some O ->
        under sc R1 (t_source t) -> under sc R2 tgt -> R1 = R2)
  /\ (forall t tgt, In t (c_transitions sc) -> t_target t = Some tgt -> tgt <> ""%string)
  /\ (forall h hs m ms, state_for sc h = Some hs -> is_history (s_kind hs) = true ->
        s_memory hs = Some m -> state_for sc m = Some ms -> is_history (s_kind ms) = false).

Lemma lookup_In {V} (k : name) (d : list (name * V)) v : lookup k d = Some v -> In (k, v) d.
Proof.
  induction d as [|[k' v'] d IH]; simpl; intros H; [discriminate|].
  destruct (str_eqb k k') eqn:E.
  - apply str_eqb_spec in E. inversion H; subst. left; reflexivity.
  - right. apply IH, H.
Qed.

Lemma olookup_In {V} (k : option name) (d : list (option name * V)) v :
  olookup k d = Some v -> In (k, v) d.
Proof.
  induction d as [|[k' v'] d IH]; simpl; intros H; [discriminate|].
  destruct (opt_eqb str_eqb k k') eqn:E.
  - apply ostr_eqb_iff in E. inversion H; subst. left; reflexivity.
  - right. apply IH, H.
Qed.

Lemma par_In sc n p : parent_for sc n = Some p -> In (n, Some p) (c_parent sc).
Proof.
  unfold parent_for. destruct (lookup n (c_parent sc)) as [o|] eqn:E; [|discriminate].
  intros ->. apply lookup_In, E.
Qed.

Lemma kids_In sc p c : In c (children_for sc p) ->
  exists l, In (Some p, l) (c_children sc) /\ children_for sc p = l.
Proof.
  unfold children_for. destruct (olookup (Some p) (c_children sc)) as [l|] eqn:E; [|intros []].
  intros _. exists l. split; [apply olookup_In, E|reflexivity].
Qed.

(* WF1: no empty parent name; the name stored in a state is its key *)
Definition chk_ne (sc : chart) : bool :=
  forallb (fun np => negb (ostr_eqb (snd np) (Some ""%string))) (c_parent sc).
Lemma chk_ne_sound sc : chk_ne sc = true -> forall n, parent_for sc n <> Some ""%string.
Proof.
  intros H n Hn. apply par_In in Hn. unfold chk_ne in H. rewrite forallb_forall in H.
  specialize (H _ Hn). simpl in H. discriminate.
Qed.

Definition chk_names (sc : chart) : bool :=
  forallb (fun ns => str_eqb (s_name (snd ns)) (fst ns)) (c_states sc).
Lemma chk_names_sound sc : chk_names sc = true -> forall n st, state_for sc n = Some st -> s_name st = n.
Proof.
  intros H n st Hn. unfold state_for in Hn. apply lookup_In in Hn. unfold chk_names in H.
  rewrite forallb_forall in H. apply str_eqb_spec. exact (H _ Hn).
Qed.

(* WF2: _parent and _children agree, no duplicates, descendants_for is complete *)
Definition chk_pc1 (sc : chart) : bool :=
  forallb (fun kl => match fst kl with
                     | Some p => forallb (fun c => ostr_eqb (parent_for sc c) (Some p)) (snd kl)
                     | None => true
                     end) (c_children sc).
Definition chk_pc2 (sc : chart) : bool :=
  forallb (fun np => match snd np with
                     | Some p => mem (fst np) (children_for sc p)
                     | None => true
                     end) (c_parent sc).
Lemma chk_pc_sound sc : chk_pc1 sc = true -> chk_pc2 sc = true ->
  forall c p, In c (children_for sc p) <-> parent_for sc c = Some p.
Proof.
  intros H1 H2 c p. split.
  - intros Hc. destruct (kids_In sc p c Hc) as (l & Hl & E). rewrite E in Hc.
    unfold chk_pc1 in H1. rewrite forallb_forall in H1. specialize (H1 _ Hl). simpl in H1.
    rewrite forallb_forall in H1. apply ostr_eqb_iff, H1, Hc.
  - intros Hp. apply par_In in Hp. unfold chk_pc2 in H2. rewrite forallb_forall in H2.
    specialize (H2 _ Hp). simpl in H2. apply mem_In, H2.
Qed.

Definition chk_nodup (sc : chart) : bool := forallb (fun kl => nodup_b (snd kl)) (c_children sc).
Lemma chk_nodup_sound sc : chk_nodup sc = true -> forall p, NoDup (children_for sc p).
Proof.
  intros H p. unfold children_for.
  destruct (olookup (Some p) (c_children sc)) as [l|] eqn:E; [|constructor].
  apply olookup_In in E. unfold chk_nodup in H. rewrite forallb_forall in H.
  apply nodup_b_iff. exact (H _ E).
Qed.

Definition chk_desc (sc : chart) : bool :=
  forallb (fun d => forallb (fun a => mem d (descendants_for sc a)) (ancestors_for sc d))
          (map fst (c_parent sc)).
Lemma chk_desc_sound sc : chk_desc sc = true ->
  forall a d, In a (ancestors_for sc d) -> In d (descendants_for sc a).
Proof.
  intros Hok a d Ha. unfold chk_desc in Hok. rewrite forallb_forall in Hok.
  destruct (lookup d (c_parent sc)) as [p|] eqn:El.
  - apply lookup_In_keys in El. specialize (Hok d El). rewrite forallb_forall in Hok.
    apply mem_In, Hok, Ha.
  - exfalso. unfold ancestors_for, parent_for in Ha. rewrite El in Ha.
    destruct (length (c_parent sc)); simpl in Ha; destruct Ha.
Qed.

Definition chk_one_root (sc : chart) (r : name) : bool :=
  forallb (fun ns => match parent_for sc (fst ns) with
                     | None => str_eqb (fst ns) r
                     | Some _ => true
                     end) (c_states sc).
Lemma chk_one_root_sound sc r : chk_one_root sc r = true ->
  forall n, state_for sc n <> None -> parent_for sc n = None -> n = r.
Proof.
  intros H n Hs Hp. unfold state_for in Hs.
  destruct (lookup n (c_states sc)) as [st|] eqn:E; [|congruence].
  apply lookup_In in E. unfold chk_one_root in H. rewrite forallb_forall in H.
  specialize (H _ E). simpl in H. rewrite Hp in H. apply str_eqb_spec, H.
Qed.

(* WF3 - WF6, state by state *)
Definition st_composite_b (sc : chart) (ns : name * state) : bool :=
  match children_for sc (fst ns) with [] => true | _ => is_composite (s_kind (snd ns)) end.
Definition st_initial_b (sc : chart) (ns : name * state) : bool :=
  match s_kind (snd ns) with
  | KCompound => match truthy (s_initial (snd ns)) with
                 | Some i => ostr_eqb (parent_for sc i) (Some (fst ns))
                 | None => true
                 end
  | _ => true
  end.
Definition st_region_b (sc : chart) (ns : name * state) : bool :=
  match parent_for sc (fst ns) with
  | Some p => match kind_of sc p with
              | Some KOrthogonal => negb (kind_eqb (s_kind (snd ns)) KFinal)
              | _ => true
              end
  | None => true
  end.
Definition st_history_b (sc : chart) (ns : name * state) : bool :=
  if is_history (s_kind (snd ns)) then
    match parent_for sc (fst ns) with
    | Some p => match state_for sc p with
                | Some ps => kind_eqb (s_kind ps) KCompound
                             && match s_memory (snd ns) with
                                | Some m => ostr_eqb (parent_for sc m) (Some p)
                                            && match state_for sc m with
                                               | Some ms => negb (is_history (s_kind ms))
                                               | None => true
                                               end
                                | None => true
                                end
                | None => false
                end
    | None => false
    end
  else true.
Definition chk_states (sc : chart) : bool :=
  forallb (fun ns => st_composite_b sc ns && st_initial_b sc ns && st_region_b sc ns && st_history_b sc ns)
          (c_states sc).

Lemma chk_states_at sc n st : chk_states sc = true -> state_for sc n = Some st ->
  st_composite_b sc (n, st) = true /\ st_initial_b sc (n, st) = true
  /\ st_region_b sc (n, st) = true /\ st_history_b sc (n, st) = true.
Proof.
  intros H Hs. unfold state_for in Hs. apply lookup_In in Hs. unfold chk_states in H.
  rewrite forallb_forall in H. specialize (H _ Hs). rewrite !andb_true_iff in H. tauto.
Qed.

Lemma chk_composite_sound sc : chk_states sc = true ->
  forall n st, state_for sc n = Some st -> children_for sc n <> [] ->
    s_kind st = KCompound \/ s_kind st = KOrthogonal.
Proof.
  intros H n st Hs Hk. destruct (chk_states_at sc n st H Hs) as (A & _).
  unfold st_composite_b in A. simpl in A. destruct (children_for sc n); [congruence|].
  destruct (s_kind st); simpl in A; try discriminate; auto.
Qed.

Lemma chk_initial_sound sc : chk_states sc = true ->
  forall n st i, state_for sc n = Some st -> s_kind st = KCompound ->
    truthy (s_initial st) = Some i -> parent_for sc i = Some n.
Proof.
  intros H n st i Hs K Hi. destruct (chk_states_at sc n st H Hs) as (_ & B & _).
  unfold st_initial_b in B. simpl in B. rewrite K, Hi in B. apply ostr_eqb_iff, B.
Qed.

Lemma chk_region_sound sc : chk_states sc = true ->
  forall n st c cs, state_for sc n = Some st -> s_kind st = KOrthogonal ->
    parent_for sc c = Some n -> state_for sc c = Some cs -> s_kind cs <> KFinal.
Proof.
  intros H n st c cs Hs K Hp Hc Kf. destruct (chk_states_at sc c cs H Hc) as (_ & _ & C & _).
  unfold st_region_b in C. simpl in C. rewrite Hp in C. unfold kind_of in C. rewrite Hs in C.
  simpl in C. rewrite K, Kf in C. discriminate.
Qed.

Lemma chk_history_sound sc : chk_states sc = true ->
  forall h hs, state_for sc h = Some hs -> is_history (s_kind hs) = true ->
    exists p ps, parent_for sc h = Some p /\ state_for sc p = Some ps /\ s_kind ps = KCompound
                 /\ (forall m, s_memory hs = Some m -> parent_for sc m = Some p).
Proof.
  intros H h hs Hs Hh. destruct (chk_states_at sc h hs H Hs) as (_ & _ & _ & D).
  unfold st_history_b in D. simpl in D. rewrite Hh in D.
  destruct (parent_for sc h) as [p|]; [|discriminate].
  destruct (state_for sc p) as [ps|] eqn:Ep; [|discriminate].
  apply andb_true_iff in D. destruct D as [D1 D2]. exists p, ps.
  split; [reflexivity|]. split; [exact Ep|]. split.
  - destruct (s_kind ps); try discriminate; reflexivity.
  - intros m Hm. rewrite Hm in D2. apply andb_true_iff in D2. apply ostr_eqb_iff, D2.
Qed.

Lemma chk_memory_sound sc : chk_states sc = true ->
  forall h hs m ms, state_for sc h = Some hs -> is_history (s_kind hs) = true ->
    s_memory hs = Some m -> state_for sc m = Some ms -> is_history (s_kind ms) = false.
Proof.
  intros H h hs m ms Hs Hh Hm Ems. destruct (chk_states_at sc h hs H Hs) as (_ & _ & _ & D).
  unfold st_history_b in D. simpl in D. rewrite Hh in D.
  destruct (parent_for sc h) as [p|]; [|discriminate].
  destruct (state_for sc p) as [ps|] eqn:Ep; [|discriminate].
  apply andb_true_iff in D. destruct D as [_ D2]. rewrite Hm in D2.
  apply andb_true_iff in D2. destruct D2 as [_ D3]. rewrite Ems in D3.
  apply negb_true_iff, D3.
Qed.

(* WF7 *)
Definition tr_target_b (t : transition) : bool :=
  match t_target t with Some tgt => negb (str_eqb tgt ""%string) | None => true end.
Definition tr_cross_b (sc : chart) (t : transition) : bool :=
  match t_target t with
  | None => true
  | Some tgt =>
      forallb (fun R1 =>
        forallb (fun R2 =>
          match parent_for sc R1 with
          | Some o => if ostr_eqb (parent_for sc R2) (Some o)
                      then match kind_of sc o with Some KOrthogonal => str_eqb R1 R2 | _ => true end
                      else true
          | None => true
          end) (tgt :: ancestors_for sc tgt))
        (t_source t :: ancestors_for sc (t_source t))
  end.
Definition chk_trans (sc : chart) : bool :=
  forallb (fun t => tr_target_b t && tr_cross_b sc t) (c_transitions sc).

Lemma chk_target_sound sc : chk_trans sc = true ->
  forall t tgt, In t (c_transitions sc) -> t_target t = Some tgt -> tgt <> ""%string.
Proof.
  intros H t tgt Hin Ht ->. unfold chk_trans in H. rewrite forallb_forall in H.
  specialize (H t Hin). apply andb_true_iff in H. destruct H as [H _].
  unfold tr_target_b in H. rewrite Ht in H. discriminate.
Qed.

Lemma chk_cross_sound sc : chk_trans sc = true ->
  forall t tgt O os R1 R2, In t (c_transitions sc) -> t_target t = Some tgt ->
    state_for sc O = Some os -> s_kind os = KOrthogonal ->
    parent_for sc R1 = Some O -> parent_for sc R2 = Some O ->
    under sc R1 (t_source t) -> under sc R2 tgt -> R1 = R2.
Proof.
  intros H t tgt O os R1 R2 Hin Ht EO KO P1 P2 U1 U2. unfold chk_trans in H.
  rewrite forallb_forall in H. specialize (H t Hin). apply andb_true_iff in H. destruct H as [_ H].
  unfold tr_cross_b in H. rewrite Ht in H. rewrite forallb_forall in H.
  specialize (H R1 U1). cbv beta in H. rewrite forallb_forall in H. specialize (H R2 U2).
  cbv beta in H. rewrite P1 in H. rewrite (proj2 (ostr_eqb_iff _ _) P2) in H.
  unfold kind_of in H. rewrite EO in H. simpl in H. rewrite KO in H. apply str_eqb_spec, H.
Qed.

Definition wf_chart_b (sc : chart) : bool :=
  match root sc with
  | None => false
  | Some r =>
      ostr_eqb (parent_for sc r) None && chk_ne sc && chk_names sc && anc_depth_okb sc
      && chk_pc1 sc && chk_pc2 sc && chk_nodup sc && chk_desc sc && chk_one_root sc r
      && chk_states sc && chk_trans sc
  end.

Theorem wf_chart_b_sound sc : wf_chart_b sc = true -> exists r, WF sc r.
Proof.
  unfold wf_chart_b. destruct (root sc) as [r|] eqn:Er; [|discriminate]. intros H. exists r.
  repeat (apply andb_true_iff in H; destruct H as [H ?]).
  split; [exact Er|]. split; [apply ostr_eqb_iff; assumption|].
  split; [apply chk_ne_sound; assumption|]. split; [apply chk_names_sound; assumption|].
  split; [apply anc_depth_okb_sound; assumption|]. split; [apply chk_pc_sound; assumption|].
  split; [apply chk_nodup_sound; assumption|]. split; [apply chk_desc_sound; assumption|].
  split; [apply chk_one_root_sound; assumption|]. split; [apply chk_composite_sound; assumption|].
  split; [apply chk_initial_sound; assumption|]. split; [apply chk_region_sound; assumption|].
  split; [apply chk_history_sound; assumption|]. split; [apply chk_cross_sound; assumption|].
  split; [apply chk_target_sound; assumption|]. apply chk_memory_sound; assumption.
Qed.

(* ================================================================== the main theorems for checked charts *)
Section Checked.
  Variable ctx : Type.
  Variable X : Type.
  Variable exec_code : call ctx -> ctx -> option (ctx * list event).
  Variable eval_code : call ctx -> ctx -> option bool.
  Variable emit : Z -> meta -> X -> X * option err.
  Variable sc : chart.

  Theorem C02_step_wf r : WF sc r ->
    forall fuel now (s s' : mstate ctx X) res,
      Inv ctx sc (m_i s) ->
      execute_once ctx X exec_code eval_code emit sc fuel now s = (s', inl res) ->
      Inv ctx sc (m_i s').
  Proof.
    intros (H1 & H2 & H3 & H4 & H5 & H6 & H7 & H8 & H9 & H10 & H11 & H12 & H13 & H14 & H15 & H16).
    exact (C02_step ctx X exec_code eval_code emit sc r H1 H2 H3 H4 H5 H6 H7 H8 H9 H10 H11 H12 H13 H14 H15).
  Qed.

  Theorem C02_run_wf r : WF sc r ->
    forall ops (s : mstate ctx X) ms (s' : mstate ctx X),
      C05Proofs.runs ctx X exec_code eval_code emit sc ops s ms s' ->
      Inv ctx sc (m_i s) -> Inv ctx sc (m_i s').
  Proof.
    intros (H1 & H2 & H3 & H4 & H5 & H6 & H7 & H8 & H9 & H10 & H11 & H12 & H13 & H14 & H15 & H16).
    exact (C02_run ctx X exec_code eval_code emit sc r H1 H2 H3 H4 H5 H6 H7 H8 H9 H10 H11 H12 H13 H14 H15).
  Qed.

  (* the headline statement: after every normally returning execute_once of a run that starts in the
     initial state the configuration is empty (not yet initialised / final) or legal and stable *)
  Theorem C02_run_checked : wf_chart_b sc = true ->
    forall ops id now ignore (c0 : ctx) x tr ms (s' : mstate ctx X),
      C05Proofs.runs ctx X exec_code eval_code emit sc ops (mkM (init_istate id now ignore c0) x tr) ms s' ->
      i_config (m_i s') = []
      \/ (i_initialized (m_i s') = true
          /\ legal_b sc (i_config (m_i s')) = true
          /\ create_stabilization_step ctx sc (m_i s') = None).
  Proof.
    intros Hwf ops id now ignore c0 x tr ms s' Hrun.
    destruct (wf_chart_b_sound sc Hwf) as (r & HWF).
    assert (Inv ctx sc (m_i s')) as [_ HI].
    { eapply (C02_run_wf r HWF); [exact Hrun|]. apply Inv_init. }
    destruct HI as [[_ Hc]|[Hi [Hc|[Hl Hs]]]]; [left; exact Hc|left; exact Hc|right].
    split; [exact Hi|]. split; [apply C02_legal_b_sound, Hl|apply C02_stable_iff, Hs].
  Qed.

  (* the stabilisation loop started in a state satisfying Inv never runs out of fuel *)
  Theorem C02_stabilize_terminates_checked : wf_chart_b sc = true ->
    forall fuel fuel' (s : mstate ctx X),
      Inv ctx sc (m_i s) ->
      2 * length (c_states sc) + 2 <= fuel -> 2 * length (c_states sc) + 2 <= fuel' ->
      stabilize ctx X exec_code eval_code emit sc fuel s = stabilize ctx X exec_code eval_code emit sc fuel' s.
  Proof.
    intros Hwf fuel fuel' s HI B1 B2. destruct (wf_chart_b_sound sc Hwf) as (r & HWF).
    destruct HWF as (H1 & H2 & H3 & H4 & H5 & H6 & H7 & H8 & H9 & H10 & H11 & H12 & H13 & H14 & H15 & H16).
    assert (J sc r (i_config (m_i s)) /\ MEM sc (i_memory (m_i s))) as [HJ HM].
    { eapply Inv_J; eassumption. }
    eapply C02_stabilize_terminates; eassumption.
  Qed.

  (* neither does execute_once: the fuel parameters of the model are immaterial *)
  Theorem C02_fuel_irrelevant_checked : wf_chart_b sc = true ->
    forall f1 f2 now (s : mstate ctx X),
      Inv ctx sc (m_i s) ->
      2 * length (c_states sc) + 2 <= f1 -> 2 * length (c_states sc) + 2 <= f2 ->
      execute_once ctx X exec_code eval_code emit sc f1 now s
      = execute_once ctx X exec_code eval_code emit sc f2 now s.
  Proof.
    intros Hwf f1 f2 now s HI B1 B2. destruct (wf_chart_b_sound sc Hwf) as (r & HWF).
    destruct HWF as (H1 & H2 & H3 & H4 & H5 & H6 & H7 & H8 & H9 & H10 & H11 & H12 & H13 & H14 & H15 & H16).
    eapply C02_fuel_irrelevant; eassumption.
  Qed.

  Theorem C02_step_checked : wf_chart_b sc = true ->
    forall fuel now (s s' : mstate ctx X) res,
      Inv ctx sc (m_i s) ->
      execute_once ctx X exec_code eval_code emit sc fuel now s = (s', inl res) ->
      Inv ctx sc (m_i s').
  Proof.
    intros Hwf. destruct (wf_chart_b_sound sc Hwf) as (r & HWF). exact (C02_step_wf r HWF).
  Qed.
End Checked.

(* ================================================================== non-vacuity: a concrete chart *)
(* root > { A, P (orthogonal) > { R1 > { r1a, r1b, h1 (shallow history) },
                                  R2 > { Q (orthogonal, nested) > { Q1 > { q1a, q1b },
                                                                    Q2 > { q2a, q2b, hd (deep history, initial) } },
                                         r2z } },
            F (final) }
   with a transition from A (outside P) to q1b (nested in region Q1 of Q in region R2 of P), a transition
   from outside into the history state h1, three transitions on the same event in three regions. *)
Module C02Example.
  Open Scope string_scope.

  Definition c02_chart : chart :=
    let mk n k i m := (n, mkState n k i m None None [] [] []) in
    let tr s t e := mkTrans s t e None None 0 [] [] [] in
    mkChart "c02 example" None None
      [mk "root" KCompound (Some "A") None; mk "A" KBasic None None; mk "P" KOrthogonal None None;
       mk "R1" KCompound (Some "r1a") None; mk "r1a" KBasic None None; mk "r1b" KBasic None None;
       mk "h1" KShallow None (Some "r1a");
       mk "R2" KCompound (Some "Q") None; mk "Q" KOrthogonal None None;
       mk "Q1" KCompound (Some "q1a") None; mk "q1a" KBasic None None; mk "q1b" KBasic None None;
       mk "Q2" KCompound (Some "hd") None; mk "q2a" KBasic None None; mk "q2b" KBasic None None;
       mk "hd" KDeep None (Some "q2a");
       mk "r2z" KBasic None None; mk "F" KFinal None None]
      [("root", None); ("A", Some "root"); ("P", Some "root"); ("R1", Some "P"); ("r1a", Some "R1");
       ("r1b", Some "R1"); ("h1", Some "R1"); ("R2", Some "P"); ("Q", Some "R2"); ("Q1", Some "Q");
       ("q1a", Some "Q1"); ("q1b", Some "Q1"); ("Q2", Some "Q"); ("q2a", Some "Q2"); ("q2b", Some "Q2");
       ("hd", Some "Q2"); ("r2z", Some "R2"); ("F", Some "root")]
      [(None, ["root"]); (Some "root", ["A"; "P"; "F"]); (Some "P", ["R1"; "R2"]);
       (Some "R1", ["r1a"; "r1b"; "h1"]); (Some "R2", ["Q"; "r2z"]); (Some "Q", ["Q1"; "Q2"]);
       (Some "Q1", ["q1a"; "q1b"]); (Some "Q2", ["q2a"; "q2b"; "hd"])]
      [tr "A" (Some "q1b") (Some "deep");
       tr "A" (Some "h1") (Some "hist");
       tr "r1a" (Some "r1b") (Some "e"); tr "q1a" (Some "q1b") (Some "e"); tr "q2a" (Some "q2b") (Some "e");
       tr "Q" (Some "r2z") (Some "out"); tr "r2z" (Some "hd") (Some "back");
       tr "P" (Some "A") (Some "up"); tr "A" (Some "F") (Some "stop"); tr "r1b" None (Some "e")].

  Example c02_chart_wf : wf_chart_b c02_chart = true.
  Proof. vm_compute. reflexivity. Qed.

  (* the Section WF hypotheses hold of this chart *)
  Example c02_chart_WF : exists r, WF c02_chart r.
  Proof. apply wf_chart_b_sound, c02_chart_wf. Qed.

  (* a chart with a transition between sibling regions (WF7a) is rejected *)
  Example c02_cross_rejected :
    wf_chart_b (mkChart "x" None None (c_states c02_chart) (c_parent c02_chart) (c_children c02_chart)
                        [mkTrans "r1a" (Some "r2z") None None None 0 [] [] []]) = false.
  Proof. vm_compute. reflexivity. Qed.

  (* the model run on the example (all code succeeds, no listener) *)
  Definition ex_exec (c : call unit) (x : unit) : option (unit * list event) := Some (x, []).
  Definition ex_eval (c : call unit) (x : unit) : option bool := Some true.
  Definition ex_emit (t : Z) (m : meta) (x : unit) : unit * option err := (x, None).

  Fixpoint ex_run (evs : list (option string)) (s : mstate unit unit) : list (list name + err) :=
    match evs with
    | [] => []
    | oe :: rest =>
        let s1 := match oe with
                  | Some e => fst (queue unit unit (mkEvent External e []) s)
                  | None => s
                  end in
        match execute_once unit unit ex_exec ex_eval ex_emit c02_chart 30 0 s1 with
        | (s2, inl _) => inl (configuration c02_chart (i_config (m_i s2))) :: ex_run rest s2
        | (s2, inr e) => [inr e]
        end
    end.
  Definition ex_s0 : mstate unit unit := mkM (init_istate 0 0 false tt) tt [].

  Example c02_example_run :
    ex_run [None; Some "deep"; Some "e"; Some "out"; Some "back"; Some "up"; Some "hist"; Some "up";
            Some "stop"; Some "e"] ex_s0
    = [inl ["root"; "A"];
       inl ["root"; "P"; "R1"; "R2"; "Q"; "r1a"; "Q1"; "Q2"; "q1b"; "q2a"];   (* both regions of P, both of Q *)
       inl ["root"; "P"; "R1"; "R2"; "Q"; "r1b"; "Q1"; "Q2"; "q1b"; "q2b"];   (* two simultaneous transitions *)
       inl ["root"; "P"; "R1"; "R2"; "r1b"; "r2z"];
       inl ["root"; "P"; "R1"; "R2"; "Q"; "r1b"; "Q1"; "Q2"; "q1a"; "q2b"];   (* deep history restored q2b *)
       inl ["root"; "A"];
       inl ["root"; "P"; "R1"; "R2"; "Q"; "r1b"; "Q1"; "Q2"; "q1a"; "q2b"];   (* shallow history restored r1b *)
       inl ["root"; "A"];
       inl [];                                                                (* final *)
       inl []].
  Proof. vm_compute. reflexivity. Qed.

  (* the theorem instantiated: every run of the example ends empty or legal and stable *)
  Example c02_example_theorem :
    forall ops ms s',
      C05Proofs.runs unit unit ex_exec ex_eval ex_emit c02_chart ops ex_s0 ms s' ->
      i_config (m_i s') = []
      \/ (i_initialized (m_i s') = true /\ legal_b c02_chart (i_config (m_i s')) = true
          /\ create_stabilization_step unit c02_chart (m_i s') = None).
  Proof. intros ops ms s'. apply C02_run_checked. exact c02_chart_wf. Qed.

  (* 18 states: from fuel 38 on the fuel is immaterial (the run above used 30: already more than needed) *)
  Example c02_example_fuel :
    forall f1 f2 now s, Inv unit c02_chart (m_i s) -> 38 <= f1 -> 38 <= f2 ->
      execute_once unit unit ex_exec ex_eval ex_emit c02_chart f1 now s
      = execute_once unit unit ex_exec ex_eval ex_emit c02_chart f2 now s.
  Proof. intros f1 f2 now s. apply C02_fuel_irrelevant_checked. exact c02_chart_wf. Qed.
End C02Example.

Print Assumptions C02_legal_b_sound.
Print Assumptions C02_Pb_sound.
Print Assumptions C02_stable_iff.
Print Assumptions C02_macro_end_stable.
Print Assumptions C02_final_absorbing.
Print Assumptions C02_legal_stable.
Print Assumptions wk_stable_legal.
Print Assumptions C02_step.
Print Assumptions C02_run.
Print Assumptions wf_chart_b_sound.
Print Assumptions C02_step_checked.
Print Assumptions C02_run_checked.
Print Assumptions C02_stabilize_terminates.
Print Assumptions C02_stabilize_terminates_checked.
Print Assumptions C02_fuel_irrelevant.
Print Assumptions C02_fuel_irrelevant_checked.
Print Assumptions C02Example.c02_example_theorem.
