(* C02Proofs.v -- "the active configuration is always a legal, stable statechart configuration".
   HEADER TO BE COMPLETED AT THE END (status / what is partial). *)
From Coq Require Import String List Bool ZArith Sorted Permutation Lia.
From Sismic Require Import Base Chart Interp Spec.
From SismicProofs Require Import SortLib FrameLib C01Proofs.
Import ListNotations.
Open Scope list_scope.

(* ================================================================== generic list facts *)
Lemma nodup_b_iff (l : list name) : nodup_b l = true <-> NoDup l.
Proof.
  induction l as [|x r IH]; simpl.
  - split; [constructor|reflexivity].
  - rewrite andb_true_iff, negb_true_iff, IH, mem_false_iff. split.
    + intros [H1 H2]. constructor; assumption.
    + intros H. inversion H; subst. split; assumption.
Qed.

Lemma ostr_eqb_iff (a b : option name) : ostr_eqb a b = true <-> a = b.
Proof.
  unfold ostr_eqb, opt_eqb. destruct a as [x|], b as [y|]; try (split; congruence).
  rewrite str_eqb_spec. split; congruence.
Qed.

Lemma ostr_eqb_false_iff (a b : option name) : ostr_eqb a b = false <-> a <> b.
Proof.
  rewrite <- ostr_eqb_iff. destruct (ostr_eqb a b); split; congruence.
Qed.

Lemma filter_false_nil {A} (f : A -> bool) (l : list A) :
  (forall x, In x l -> f x = false) -> filter f l = [].
Proof.
  induction l as [|x l IH]; simpl; intros H; [reflexivity|].
  rewrite (H x (or_introl eq_refl)). apply IH. intros y Hy. apply H. right; exact Hy.
Qed.

Lemma first_some_none_iff {A B} (f : A -> option B) (l : list A) :
  first_some f l = None <-> forall x, In x l -> f x = None.
Proof.
  induction l as [|x l IH]; simpl.
  - split; [intros _ y []|reflexivity].
  - destruct (f x) eqn:E.
    + split; [discriminate|]. intros H. rewrite <- E. apply H. left; reflexivity.
    + rewrite IH. split.
      * intros H y [<-|Hy]; [exact E|apply H, Hy].
      * intros H y Hy. apply H. right; exact Hy.
Qed.

Lemma first_some_some {A B} (f : A -> option B) (l : list A) y :
  first_some f l = Some y -> exists x, In x l /\ f x = Some y.
Proof.
  induction l as [|x l IH]; simpl; [discriminate|].
  destruct (f x) eqn:E.
  - intros H. inversion H; subst. exists x. split; [left; reflexivity|exact E].
  - intros H. destruct (IH H) as (z & Hz & Hf). exists z. split; [right; exact Hz|exact Hf].
Qed.

Section C02.
  Variable ctx : Type.
  Variable X : Type.
  Variable exec_code : call ctx -> ctx -> option (ctx * list event).
  Variable eval_code : call ctx -> ctx -> option bool.
  Variable emit : Z -> meta -> X -> X * option err.
  Variable sc : chart.

  Notation ist := (istate ctx).
  Notation mst := (mstate ctx X).
  Local Notation bind := (Interp.bind ctx X).
  Local Notation ret := (Interp.ret ctx X).
  Local Notation fail := (Interp.fail ctx X).
  Local Notation get := (Interp.get ctx X).
  Local Notation put := (Interp.put ctx X).
  Local Notation modify := (Interp.modify ctx X).
  Local Notation mapM := (Interp.mapM ctx X).
  Local Notation iterM := (Interp.iterM ctx X).
  Local Notation raise_meta := (Interp.raise_meta ctx X emit).
  Local Notation run_code := (Interp.run_code ctx X exec_code sc).
  Local Notation state_contract := (Interp.state_contract ctx X eval_code sc).
  Local Notation select_transitions := (Interp.select_transitions ctx X eval_code sc).
  Local Notation sort_transitions := (Interp.sort_transitions ctx X sc).
  Local Notation compute_steps := (Interp.compute_steps ctx X eval_code sc).
  Local Notation record_history := (Interp.record_history ctx X sc).
  Local Notation exit_state := (Interp.exit_state ctx X exec_code eval_code emit sc).
  Local Notation enter_state := (Interp.enter_state ctx X exec_code eval_code emit sc).
  Local Notation process_transition := (Interp.process_transition ctx X exec_code eval_code emit sc).
  Local Notation apply_step := (Interp.apply_step ctx X exec_code eval_code emit sc).
  Local Notation stabilize := (Interp.stabilize ctx X exec_code eval_code emit sc).
  Local Notation run_steps := (Interp.run_steps ctx X exec_code eval_code emit sc).
  Local Notation check_invariants := (Interp.check_invariants ctx X eval_code sc).
  Local Notation execute_once := (Interp.execute_once ctx X exec_code eval_code emit sc).
  Local Notation css := (create_stabilization_step ctx sc).
  Notation anc := (ancestors_for sc).
  Notation desc := (descendants_for sc).
  Notation par := (parent_for sc).
  Notation kids := (children_for sc).
  Notation depth := (depth_for sc).

  (* ================================================================ A. legality *)
  (* the active children of n, in the order of children_for *)
  Definition active_children (cfg : list name) (n : name) : list name :=
    filter (fun c => mem c cfg) (kids n).

  Definition state_legal (cfg : list name) (n : name) : Prop :=
    exists st, state_for sc n = Some st
      (* the parent of an active state is active; only the root has no parent *)
      /\ (forall p, par n = Some p -> In p cfg)
      /\ (par n = None -> root sc = Some n)
      (* compound: exactly one active child; none only without (truthy) initial state *)
      /\ (s_kind st = KCompound ->
            (exists c, active_children cfg n = [c])
            \/ (active_children cfg n = [] /\ truthy (s_initial st) = None))
      (* orthogonal: all children active *)
      /\ (s_kind st = KOrthogonal -> forall c, In c (kids n) -> In c cfg)
      (* no active history state *)
      /\ is_history (s_kind st) = false
      (* no active final child of the root *)
      /\ (s_kind st = KFinal -> par n <> root sc).

  Definition legal (cfg : list name) : Prop :=
    NoDup cfg
    /\ (exists r, root sc = Some r /\ In r cfg)
    /\ (forall n, In n cfg -> state_legal cfg n).

  Lemma state_legal_b_iff cfg n : state_legal_b sc cfg n = true <-> state_legal cfg n.
  Proof.
    unfold state_legal_b, state_legal. destruct (state_for sc n) as [st|].
    2:{ split; [discriminate|]. intros (st & H & _). discriminate. }
    rewrite andb_true_iff. split.
    - intros [Hp Hk]. exists st. split; [reflexivity|].
      destruct (par n) as [p|] eqn:Ep.
      + split; [intros q Hq; inversion Hq; subst; apply mem_In, Hp|].
        split; [discriminate|].
        destruct (s_kind st) eqn:K; try discriminate; repeat split; try discriminate; try reflexivity.
        * intros _. unfold count_in in Hk. fold (active_children cfg n) in Hk.
          destruct (active_children cfg n) as [|c [|c' l]]; simpl in Hk; try discriminate.
          -- right. split; [reflexivity|]. destruct (truthy (s_initial st)); [discriminate|reflexivity].
          -- left. exists c. reflexivity.
        * intros _ c Hc. rewrite forallb_forall in Hk. apply mem_In, Hk, Hc.
        * intros _. apply negb_true_iff, ostr_eqb_false_iff in Hk. exact Hk.
      + split; [discriminate|]. apply ostr_eqb_iff in Hp.
        split; [intros _; exact Hp|].
        destruct (s_kind st) eqn:K; try discriminate; repeat split; try discriminate; try reflexivity.
        * intros _. unfold count_in in Hk. fold (active_children cfg n) in Hk.
          destruct (active_children cfg n) as [|c [|c' l]]; simpl in Hk; try discriminate.
          -- right. split; [reflexivity|]. destruct (truthy (s_initial st)); [discriminate|reflexivity].
          -- left. exists c. reflexivity.
        * intros _ c Hc. rewrite forallb_forall in Hk. apply mem_In, Hk, Hc.
        * intros _. apply negb_true_iff, ostr_eqb_false_iff in Hk. exact Hk.
    - intros (st' & E & Hp & Hr & Hc & Ho & Hh & Hf). inversion E; subst st'. split.
      + destruct (par n) as [p|]; [apply mem_In, Hp; reflexivity|apply ostr_eqb_iff, Hr; reflexivity].
      + destruct (s_kind st) eqn:K; try reflexivity; try discriminate.
        * unfold count_in. fold (active_children cfg n).
          destruct (Hc eq_refl) as [(c & ->)|(-> & ->)]; reflexivity.
        * apply forallb_forall. intros c Hc'. apply mem_In, Ho; [reflexivity|exact Hc'].
        * apply negb_true_iff, ostr_eqb_false_iff, Hf. reflexivity.
  Qed.

  Theorem C02_legal_b_sound cfg : legal_b sc cfg = true <-> legal cfg.
  Proof.
    unfold legal_b, legal. rewrite !andb_true_iff, nodup_b_iff, forallb_forall.
    split.
    - intros [[Hn Hr] Hs]. split; [exact Hn|]. split.
      + destruct (root sc) as [r|]; [|discriminate]. exists r. split; [reflexivity|apply mem_In, Hr].
      + intros n Hn'. apply state_legal_b_iff, Hs, Hn'.
    - intros (Hn & (r & Er & Hr) & Hs). split; [split; [exact Hn|]|].
      + rewrite Er. apply mem_In, Hr.
      + intros n Hn'. apply state_legal_b_iff, Hs, Hn'.
  Qed.

  (* Pb_C02 (the checker the harness evaluates): empty, or not previously final and legal *)
  Theorem C02_Pb_sound pre_final cfg :
    Pb_C02 sc pre_final cfg = true <-> cfg = [] \/ (pre_final = false /\ legal cfg).
  Proof.
    unfold Pb_C02. destruct cfg as [|x l].
    - split; [left; reflexivity|reflexivity].
    - rewrite andb_true_iff, negb_true_iff, C02_legal_b_sound. split.
      + intros H. right. exact H.
      + intros [H|H]; [discriminate|exact H].
  Qed.

  (* ================================================================ B. stability *)
  (* stab_for_leaf yields nothing for n (whatever the memory) *)
  Definition leaf_ok (n : name) : Prop :=
    exists st, state_for sc n = Some st /\
      match s_kind st with
      | KBasic => True
      | KCompound => truthy (s_initial st) = None        (* no initial state to enter *)
      | KOrthogonal => kids n = []                        (* no children to enter *)
      | KFinal => par n <> root sc                        (* not a final child of the root *)
      | KShallow | KDeep => False                         (* not a history state *)
      end.

  Definition is_leaf (cfg : list name) (n : name) : Prop :=
    In n cfg /\ forall d, In d (desc n) -> ~ In d cfg.

  (* stab_for_orthogonal yields nothing for n *)
  Definition orth_ok (cfg : list name) (n : name) : Prop :=
    exists st, state_for sc n = Some st /\
      (s_kind st = KOrthogonal -> forall c, In c (kids n) -> In c cfg).

  (* "nothing remains to be entered by default" *)
  Definition stable (cfg : list name) : Prop :=
    (forall n, is_leaf cfg n -> leaf_ok n) /\ (forall n, In n cfg -> orth_ok cfg n).

  Lemma leaf_for_iff cfg n : In n (leaf_for sc cfg) <-> is_leaf cfg n.
  Proof.
    unfold leaf_for, is_leaf. rewrite filter_In, negb_true_iff. split.
    - intros [Hn He]. split; [exact Hn|]. intros d Hd Hc.
      assert (existsb (fun d0 => mem d0 cfg) (desc n) = true) as Ht.
      { apply existsb_exists. exists d. split; [exact Hd|apply mem_In, Hc]. }
      congruence.
    - intros [Hn Hd]. split; [exact Hn|].
      destruct (existsb (fun d0 => mem d0 cfg) (desc n)) eqn:E; [|reflexivity].
      apply existsb_exists in E. destruct E as (d & Hd1 & Hd2). apply mem_In in Hd2.
      exfalso. exact (Hd d Hd1 Hd2).
  Qed.

  Lemma stab_for_leaf_none m n : stab_for_leaf sc m n = None <-> leaf_ok n.
  Proof.
    unfold stab_for_leaf, leaf_ok. destruct (state_for sc n) as [st|].
    2:{ split; [discriminate|]. intros (st & H & _). discriminate. }
    split.
    - intros H. exists st. split; [reflexivity|].
      destruct (s_kind st).
      + exact I.
      + destruct (truthy (s_initial st)); [discriminate|reflexivity].
      + destruct (kids n); [reflexivity|discriminate].
      + destruct (ostr_eqb (par n) (root sc)) eqn:E.
        * destruct (root sc); discriminate.
        * apply ostr_eqb_false_iff, E.
      + destruct (lookup n m); [discriminate|]. destruct (s_memory st); discriminate.
      + destruct (lookup n m); [discriminate|]. destruct (s_memory st); discriminate.
    - intros (st' & E & H). inversion E; subst st'.
      destruct (s_kind st).
      + reflexivity.
      + rewrite H. reflexivity.
      + rewrite H. reflexivity.
      + apply ostr_eqb_false_iff in H. rewrite H. reflexivity.
      + destruct H.
      + destruct H.
  Qed.

  Lemma stab_for_orthogonal_none cfg n : stab_for_orthogonal sc cfg n = None <-> orth_ok cfg n.
  Proof.
    unfold stab_for_orthogonal, orth_ok. destruct (state_for sc n) as [st|].
    2:{ split; [discriminate|]. intros (st & H & _). discriminate. }
    split.
    - intros H. exists st. split; [reflexivity|]. intros K c Hc. rewrite K in H.
      destruct (filter (fun ch => negb (mem ch cfg)) (kids n)) eqn:F; [|discriminate].
      destruct (mem c cfg) eqn:Mc; [apply mem_In, Mc|].
      assert (In c (filter (fun ch => negb (mem ch cfg)) (kids n))) as Hin.
      { apply filter_In. split; [exact Hc|]. rewrite Mc. reflexivity. }
      rewrite F in Hin. destruct Hin.
    - intros (st' & E & H). inversion E; subst st'.
      destruct (s_kind st) eqn:K; try reflexivity.
      rewrite filter_false_nil; [reflexivity|].
      intros c Hc. apply negb_false_iff, mem_In, H; [reflexivity|exact Hc].
  Qed.

  (* declarative reading of "no stabilisation step is due" *)
  Theorem C02_stable_iff (i : ist) : css i = None <-> stable (i_config i).
  Proof.
    unfold create_stabilization_step, stable.
    destruct (first_some (stab_for_leaf sc (i_memory i)) _) eqn:E1.
    - split; [discriminate|]. intros [H _]. exfalso.
      apply first_some_some in E1. destruct E1 as (n & Hn & Hs).
      apply sort_In, leaf_for_iff in Hn. apply H, (stab_for_leaf_none (i_memory i)) in Hn.
      congruence.
    - rewrite first_some_none_iff in E1. rewrite first_some_none_iff. split.
      + intros H. split.
        * intros n Hn. apply (stab_for_leaf_none (i_memory i)), E1, sort_In, leaf_for_iff, Hn.
        * intros n Hn. apply stab_for_orthogonal_none, H, sort_In, Hn.
      + intros [_ H] n Hn. apply stab_for_orthogonal_none, H. apply sort_In in Hn. exact Hn.
  Qed.

  (* the stabilisation loop stops only when nothing remains to be entered *)
  Lemma stabilize_stops fuel : forall s s' steps,
    stabilize fuel s = (s', inl steps) -> css (m_i s') = None.
  Proof.
    induction fuel as [|f IH]; intros s s' steps H; simpl in H; [discriminate|].
    unfold Interp.bind at 1, Interp.get at 1 in H.
    destruct (css (m_i s)) as [[step|e]|] eqn:E.
    - apply bind_inv in H. destruct H as [(e & _ & He)|(a & s1 & _ & H)]; [discriminate|].
      apply bind_inv in H. destruct H as [(e & _ & He)|(r & s2 & H2 & H)]; [discriminate|].
      inversion H; subst. eapply IH; eauto.
    - discriminate.
    - inversion H; subst. exact E.
  Qed.

  Theorem C02_stable fuel s s' steps :
    stabilize fuel s = (s', inl steps) -> stable (i_config (m_i s')).
  Proof. intros H. apply C02_stable_iff. eapply stabilize_stops; eauto. Qed.

  (* ================================================================ monad bookkeeping *)
  Lemma bind_ok {A B} (m : M ctx X A) (f : A -> M ctx X B) s s' b :
    bind m f s = (s', inl b) -> exists a s1, m s = (s1, inl a) /\ f a s1 = (s', inl b).
  Proof.
    intros H. apply bind_inv in H. destruct H as [(e & _ & He)|(a & s1 & H1 & H2)]; [discriminate|].
    exists a, s1. split; assumption.
  Qed.

  Lemma bind_get {B} (f : ist -> M ctx X B) s : bind get f s = f (m_i s) s.
  Proof. reflexivity. Qed.

  (* everything but the configuration, the initialised flag and (up to P) the history memory
     may change *)
  Definition keepP (P : list (name * list name) -> Prop) (s s' : mst) : Prop :=
    i_config (m_i s') = i_config (m_i s)
    /\ i_initialized (m_i s') = i_initialized (m_i s)
    /\ (P (i_memory (m_i s)) -> P (i_memory (m_i s'))).

  Lemma keepP_refl P s : keepP P s s.
  Proof. unfold keepP. auto. Qed.

  Lemma keepP_trans P a b c : keepP P a b -> keepP P b c -> keepP P a c.
  Proof. unfold keepP. intros (A1 & A2 & A3) (B1 & B2 & B3). repeat split; try congruence. auto. Qed.

  Lemma keepP_same P (s s' : mst) :
    i_config (m_i s') = i_config (m_i s) -> i_initialized (m_i s') = i_initialized (m_i s) ->
    i_memory (m_i s') = i_memory (m_i s) -> keepP P s s'.
  Proof. unfold keepP. intros H1 H2 H3. rewrite H3. auto. Qed.

  Lemma keepP_obs P s o : keepP P s (fst (Interp.observe ctx X o s)).
  Proof. apply keepP_same; reflexivity. Qed.

  Lemma keepP_meta P s m : keepP P s (fst (raise_meta m s)).
  Proof.
    unfold Interp.raise_meta. destruct (emit (i_time (m_i s)) m (m_x s)) as [x' [e|]];
      apply keepP_same; reflexivity.
  Qed.

  Lemma keepP_upd P (f : ist -> ist) s :
    (forall i, i_config (f i) = i_config i) -> (forall i, i_initialized (f i) = i_initialized i) ->
    (forall i, i_memory (f i) = i_memory i) -> keepP P s (upd ctx X f s).
  Proof. intros H1 H2 H3. apply keepP_same; simpl; auto. Qed.

  Lemma keepP_queue P s e : keepP P s (upd ctx X (fun i => queue_event i e) s).
  Proof. apply keepP_upd; intros i; unfold queue_event; destruct (e_kind e); reflexivity. Qed.

  Ltac keep_side :=
    first [ apply keepP_refl | apply keepP_trans | (intros; apply keepP_obs)
          | (intros; apply keepP_meta) | (intros; apply keepP_queue)
          | (intros; apply keepP_upd; intros; reflexivity) ].

  Lemma keepP_run_code P k o cd ev : pres ctx X (keepP P) (run_code k o cd ev).
  Proof. apply pres_run_code; keep_side. Qed.

  Lemma keepP_contract P k o pre post inv ev :
    pres ctx X (keepP P) (Interp.contract ctx X eval_code sc k o pre post inv ev).
  Proof. apply pres_contract; keep_side. Qed.

  Lemma keepP_raise_meta P m : pres ctx X (keepP P) (raise_meta m).
  Proof. apply pres_raise_meta_outer. intros s. apply keepP_meta. Qed.

  Lemma keepP_process_transition P ev i : pres ctx X (keepP P) (process_transition ev i).
  Proof. apply pres_process_transition; keep_side. Qed.

  Lemma keepP_raise_all P sent : pres ctx X (keepP P) (raise_all ctx X emit sent).
  Proof. apply pres_raise_all; keep_side. Qed.

  Lemma keepP_consume_part P first : pres ctx X (keepP P) (consume_part ctx X emit first).
  Proof. apply pres_consume_part; keep_side. Qed.

  Lemma keepP_finish_part P macro : pres ctx X (keepP P) (finish_part ctx X eval_code emit sc macro).
  Proof. apply pres_finish_part; keep_side. Qed.

  (* ---------------------------------------------------------------- history recording *)
  (* what record_history may store for the history child `child` of the compound state p *)
  Definition hist_rec (active : list name) (p child : name) (l : list name) : Prop :=
    exists cs, state_for sc child = Some cs /\
      ((s_kind cs = KDeep /\ l = sort_names (filter (fun n => mem n (desc p)) active))
       \/ (s_kind cs = KShallow /\ l = filter (fun n => mem n (kids p)) active /\ exists c, l = [c])).

  Definition mem_closed (active : list name) (st : state) (P : list (name * list name) -> Prop) : Prop :=
    forall child l m, s_kind st = KCompound -> In child (kids (s_name st)) ->
                      hist_rec active (s_name st) child l -> P m -> P (dset child l m).

  Lemma keepP_memory (P : list (name * list name) -> Prop) (s : mst) m :
    (P (i_memory (m_i s)) -> P m) -> keepP P s (upd ctx X (Interp.set_memory ctx m) s).
  Proof. intros H. unfold keepP. simpl. auto. Qed.

  Lemma record_history_keepP P active st :
    mem_closed active st P -> pres ctx X (keepP P) (record_history active st).
  Proof.
    intros HP. unfold Interp.record_history.
    destruct (s_kind st) eqn:K; try (apply pres_ret; apply keepP_refl).
    assert (forall l, incl l (kids (s_name st)) ->
      pres ctx X (keepP P) (iterM (fun child =>
        match state_for sc child with
        | None => fail EStatechart
        | Some cs =>
            match s_kind cs with
            | KDeep =>
                let desc := desc (s_name st) in
                let act := filter (fun n => mem n desc) active in
                match act with
                | [] => fail EAssert
                | _ => modify (fun s => Interp.set_memory ctx (dset child (sort_names act) (i_memory s)) s)
                end
            | KShallow =>
                let ch := kids (s_name st) in
                let act := filter (fun n => mem n ch) active in
                match act with
                | [_] => modify (fun s => Interp.set_memory ctx (dset child act (i_memory s)) s)
                | _ => fail EAssert
                end
            | _ => ret tt
            end
        end) l)) as Hl.
    { induction l as [|child l IH]; intros Hincl; simpl.
      - apply pres_ret, keepP_refl.
      - apply pres_bind; [apply keepP_trans| |intros _; apply IH; intros x Hx; apply Hincl; right; exact Hx].
        assert (In child (kids (s_name st))) as Hc by (apply Hincl; left; reflexivity).
        destruct (state_for sc child) as [cs|] eqn:Ecs; [|apply pres_fail, keepP_refl].
        destruct (s_kind cs) eqn:Kc; try (apply pres_ret, keepP_refl).
        + cbv zeta. destruct (filter (fun n => mem n (kids (s_name st))) active) as [|c [|c' l']] eqn:F;
            try (apply pres_fail, keepP_refl).
          apply pres_modify. intros s. apply keepP_memory. apply HP; [exact K|exact Hc|].
          exists cs. split; [exact Ecs|]. right. split; [exact Kc|]. split; [symmetry; exact F|].
          exists c. reflexivity.
        + cbv zeta. destruct (filter (fun n => mem n (desc (s_name st))) active) as [|c l'] eqn:F;
            try (apply pres_fail, keepP_refl).
          apply pres_modify. intros s. apply keepP_memory. apply HP; [exact K|exact Hc|].
          exists cs. split; [exact Ecs|]. left. split; [exact Kc|]. rewrite F. reflexivity. }
    apply Hl. apply incl_refl.
  Qed.

  (* ---------------------------------------------------------------- exit_state / enter_state *)
  Lemma exit_state_inv (P : list (name * list name) -> Prop) active ev st s s' sent :
    exit_state active ev st s = (s', inl sent) ->
    mem_closed active st P ->
    mem (s_name st) (i_config (m_i s)) = true
    /\ i_config (m_i s') = remove_first (s_name st) (i_config (m_i s))
    /\ i_initialized (m_i s') = i_initialized (m_i s)
    /\ (P (i_memory (m_i s)) -> P (i_memory (m_i s'))).
  Proof.
    intros H HP. unfold Interp.exit_state in H.
    apply bind_ok in H. destruct H as (sent1 & s1 & H1 & H).
    apply (keepP_run_code P) in H1. destruct H1 as (A1 & A2 & A3).
    apply bind_ok in H. destruct H as (u2 & s2 & H2 & H).
    apply (record_history_keepP P active st HP) in H2. destruct H2 as (B1 & B2 & B3).
    rewrite bind_get in H.
    apply bind_ok in H. destruct H as (u3 & s3 & H3 & H).
    destruct (mem (s_name st) (i_config (m_i s2))) eqn:Hm; [|discriminate].
    unfold Interp.put in H3. inversion H3; subst s3 u3. clear H3.
    apply bind_ok in H. destruct H as (u4 & s4 & H4 & H).
    apply (keepP_contract P) in H4. destruct H4 as (C1 & C2 & C3). simpl in C1, C2, C3.
    apply bind_ok in H. destruct H as (u5 & s5 & H5 & H).
    apply (keepP_raise_meta P) in H5. destruct H5 as (D1 & D2 & D3).
    inversion H; subst s5. clear H.
    rewrite B1, A1 in Hm. split; [exact Hm|].
    split; [rewrite D1, C1, B1, A1; reflexivity|].
    split; [rewrite D2, C2, B2, A2; reflexivity|]. auto.
  Qed.

  Lemma enter_state_inv (P : list (name * list name) -> Prop) ev st s s' sent :
    enter_state ev st s = (s', inl sent) ->
    i_config (m_i s') = set_add (s_name st) (i_config (m_i s))
    /\ i_initialized (m_i s') = i_initialized (m_i s)
    /\ (P (i_memory (m_i s)) -> P (i_memory (m_i s'))).
  Proof.
    intros H. unfold Interp.enter_state in H.
    apply bind_ok in H. destruct H as (u1 & s1 & H1 & H).
    apply (keepP_contract P) in H1. destruct H1 as (A1 & A2 & A3).
    apply bind_ok in H. destruct H as (sent1 & s2 & H2 & H).
    apply (keepP_run_code P) in H2. destruct H2 as (B1 & B2 & B3).
    apply bind_ok in H. destruct H as (u3 & s3 & H3 & H).
    unfold Interp.modify in H3. inversion H3; subst s3 u3. clear H3.
    apply bind_ok in H. destruct H as (u4 & s4 & H4 & H).
    apply (keepP_raise_meta P) in H4. destruct H4 as (C1 & C2 & C3). simpl in C1, C2, C3.
    inversion H; subst s4. clear H.
    split; [rewrite C1, B1, A1; reflexivity|].
    split; [rewrite C2, B2, A2; reflexivity|]. auto.
  Qed.

  Definition exit_all (exi : list state) (cfg : list name) : list name :=
    fold_left (fun c st => remove_first (s_name st) c) exi cfg.
  Definition enter_all (ent : list state) (cfg : list name) : list name :=
    fold_left (fun c st => set_add (s_name st) c) ent cfg.

  Lemma mapM_exit_inv (P : list (name * list name) -> Prop) active ev : forall exi s s' sents,
    mapM (exit_state active ev) exi s = (s', inl sents) ->
    (forall st, In st exi -> mem_closed active st P) ->
    i_config (m_i s') = exit_all exi (i_config (m_i s))
    /\ i_initialized (m_i s') = i_initialized (m_i s)
    /\ (P (i_memory (m_i s)) -> P (i_memory (m_i s'))).
  Proof.
    induction exi as [|st exi IH]; intros s s' sents H HP; simpl in H.
    - inversion H; subst. simpl. auto.
    - apply bind_ok in H. destruct H as (y & s1 & H1 & H).
      apply (exit_state_inv P) in H1; [|apply HP; left; reflexivity].
      destruct H1 as (_ & A1 & A2 & A3).
      apply bind_ok in H. destruct H as (ys & s2 & H2 & H).
      apply IH in H2; [|intros st' Hst'; apply HP; right; exact Hst'].
      destruct H2 as (B1 & B2 & B3). inversion H; subst s2. clear H.
      simpl. rewrite <- A1. split; [exact B1|]. split; [congruence|auto].
  Qed.

  Lemma mapM_enter_inv (P : list (name * list name) -> Prop) ev : forall ent s s' sents,
    mapM (enter_state ev) ent s = (s', inl sents) ->
    i_config (m_i s') = enter_all ent (i_config (m_i s))
    /\ i_initialized (m_i s') = i_initialized (m_i s)
    /\ (P (i_memory (m_i s)) -> P (i_memory (m_i s'))).
  Proof.
    induction ent as [|st ent IH]; intros s s' sents H; simpl in H.
    - inversion H; subst. simpl. auto.
    - apply bind_ok in H. destruct H as (y & s1 & H1 & H).
      apply (enter_state_inv P) in H1. destruct H1 as (A1 & A2 & A3).
      apply bind_ok in H. destruct H as (ys & s2 & H2 & H).
      apply IH in H2. destruct H2 as (B1 & B2 & B3). inversion H; subst s2. clear H.
      simpl. rewrite <- A1. split; [exact B1|]. split; [congruence|auto].
  Qed.

  (* ---------------------------------------------------------------- apply_step *)
  Lemma apply_step_inv (P : list (name * list name) -> Prop) step s s' a :
    apply_step step s = (s', inl a) ->
    exists ent exi,
      states_for sc (ms_entered step) = Some ent
      /\ states_for sc (ms_exited step) = Some exi
      /\ i_config (m_i s') = enter_all ent (exit_all exi (i_config (m_i s)))
      /\ i_initialized (m_i s') = i_initialized (m_i s)
      /\ ((forall st, In st exi -> mem_closed (i_config (m_i s)) st P) ->
          P (i_memory (m_i s)) -> P (i_memory (m_i s')))
      /\ ms_event a = ms_event step /\ ms_trans a = ms_trans step
      /\ ms_entered a = ms_entered step /\ ms_exited a = ms_exited step.
  Proof.
    intros H. rewrite apply_step_eq in H.
    destruct (states_for sc (ms_entered step)) as [ent|]; [|discriminate].
    destruct (states_for sc (ms_exited step)) as [exi|]; [|discriminate].
    exists ent, exi. split; [reflexivity|]. split; [reflexivity|].
    apply bind_ok in H. destruct H as (sent & s1 & H1 & H).
    apply bind_ok in H. destruct H as (u & s2 & H2 & H).
    apply (keepP_raise_all P) in H2. destruct H2 as (R1 & R2 & R3).
    inversion H; subst s2 a. clear H. simpl.
    unfold apply_step_body in H1. rewrite bind_get in H1.
    apply bind_ok in H1. destruct H1 as (sent1 & s3 & H3 & H1).
    apply bind_ok in H1. destruct H1 as (sent2 & s4 & H4 & H1).
    apply bind_ok in H1. destruct H1 as (sent3 & s5 & H5 & H1).
    inversion H1; subst s5. clear H1.
    apply (mapM_enter_inv P) in H5. destruct H5 as (E1 & E2 & E3).
    assert (keepP P s3 s4) as K4.
    { destruct (ms_trans step) as [i|].
      - eapply keepP_process_transition; eauto.
      - inversion H4; subst. apply keepP_refl. }
    destruct K4 as (T1 & T2 & T3).
    split.
    { rewrite R1, E1, T1. f_equal.
      apply (mapM_exit_inv (fun _ => True)) in H3; [tauto|]. intros st _ child l m _ _ _ _. exact I. }
    split.
    { rewrite R2, E2, T2.
      apply (mapM_exit_inv (fun _ => True)) in H3; [tauto|]. intros st _ child l m _ _ _ _. exact I. }
    split; [|repeat split].
    intros HP Hm. apply (mapM_exit_inv P) in H3; [|exact HP]. destruct H3 as (_ & _ & X3). auto.
  Qed.

  (* ---------------------------------------------------------------- execute_once, decomposed *)
  Definition same3 (s s' : mst) : Prop :=
    i_config (m_i s') = i_config (m_i s)
    /\ i_initialized (m_i s') = i_initialized (m_i s)
    /\ i_memory (m_i s') = i_memory (m_i s).

  Lemma keepP_same3 (s s' : mst) : keepP (eq (i_memory (m_i s))) s s' -> same3 s s'.
  Proof. intros (H1 & H2 & H3). repeat split; auto. symmetry. apply H3. reflexivity. Qed.

  Lemma same3_trans a b c : same3 a b -> same3 b c -> same3 a c.
  Proof. unfold same3. intros (A1 & A2 & A3) (B1 & B2 & B3). repeat split; congruence. Qed.

  Lemma macro_part_inv fuel steps s s' r :
    macro_part ctx X exec_code eval_code emit sc fuel steps s = (s', inl r) ->
    (steps = [] /\ r = None /\ s' = s)
    \/ (exists s1 executed, steps <> [] /\ same3 s s1
          /\ run_steps fuel steps s1 = (s', inl executed)
          /\ r = Some (i_time (m_i s'), executed)).
  Proof.
    intros H. unfold macro_part in H. destruct steps as [|first rest].
    - inversion H; subst. left. auto.
    - right. apply bind_ok in H. destruct H as (u & s1 & H1 & H).
      apply (keepP_consume_part (eq (i_memory (m_i s)))) in H1. apply keepP_same3 in H1.
      apply bind_ok in H. destruct H as (executed & s2 & H2 & H).
      rewrite bind_get in H. inversion H; subst s2 r. clear H.
      exists s1, executed. split; [discriminate|]. split; [exact H1|]. split; [exact H2|reflexivity].
  Qed.

  Lemma execute_once_inv fuel now s s' r :
    execute_once fuel now s = (s', inl r) ->
    exists s1 s2 s3 steps,
      m_i s1 = Interp.set_sent ctx [] (Interp.set_time ctx now (m_i s))
      /\ compute_steps s1 = (s2, inl steps)
      /\ macro_part ctx X exec_code eval_code emit sc fuel steps s2 = (s3, inl r)
      /\ m_i s' = m_i s3.
  Proof.
    intros H. rewrite execute_once_eq in H.
    apply bind_ok in H. destruct H as (u & s0 & H0 & H).
    unfold Interp.modify in H0. inversion H0; subst s0 u. clear H0.
    unfold execute_once_tail in H.
    apply bind_ok in H. destruct H as (u & s1 & H1 & H).
    apply raise_meta_footprint in H1. simpl in H1.
    apply bind_ok in H. destruct H as (steps & s2 & H2 & H).
    apply bind_ok in H. destruct H as (macro & s3 & H3 & H).
    unfold finish_part in H.
    apply bind_ok in H. destruct H as (u4 & s4 & H4 & H).
    apply check_invariants_footprint in H4. destruct H4 as (H4 & _).
    apply bind_ok in H. destruct H as (u5 & s5 & H5 & H).
    apply raise_meta_footprint in H5. inversion H; subst s5 r. clear H.
    exists s1, s2, s3, steps. split; [exact H1|]. split; [exact H2|]. split; [exact H3|].
    congruence.
  Qed.

  Lemma compute_steps_same s s' r :
    compute_steps s = (s', r) ->
    i_config (m_i s') = i_config (m_i s) /\ i_memory (m_i s') = i_memory (m_i s)
    /\ (i_initialized (m_i s) = true -> i_initialized (m_i s') = true).
  Proof.
    intros H. split; [|split].
    - apply compute_steps_footprint in H. destruct H as [(x & Hx) _]. rewrite Hx. reflexivity.
    - apply compute_steps_footprint in H. destruct H as [(x & Hx) _]. rewrite Hx. reflexivity.
    - intros Hi. unfold Interp.compute_steps in H. rewrite bind_get in H. rewrite Hi in H.
      simpl negb in H. cbv iota in H.
      revert H. generalize (select_event (m_i s)). intros ev H.
      apply bind_inv in H. destruct H as [(e & H & _)|(ts & s1 & H1 & H)].
      + apply select_transitions_footprint in H. destruct H as [H _]. congruence.
      + apply select_transitions_footprint in H1. destruct H1 as [H1 _].
        apply bind_inv in H. destruct H as [(e & H & _)|(u & s2 & H2 & H)]; [inversion H|].
        inversion H2; subst s2 u. clear H2.
        destruct ts as [|t ts].
        * destruct ev; inversion H; subst; simpl; congruence.
        * apply bind_inv in H. destruct H as [(e & H & _)|(ts' & s3 & H3 & H)].
          -- apply sort_transitions_footprint in H. subst s'. simpl. congruence.
          -- apply sort_transitions_footprint in H3. subst s3. rewrite bind_get in H.
             inversion H; subst. simpl. congruence.
  Qed.

  Lemma css_nil (i : ist) : i_config i = [] -> css i = None.
  Proof. intros H. unfold create_stabilization_step. rewrite H. reflexivity. Qed.

  Lemma stabilize_stable fuel s s' steps :
    css (m_i s) = None -> stabilize fuel s = (s', inl steps) -> s' = s /\ steps = [].
  Proof.
    intros Hc H. destruct fuel as [|f]; simpl in H; [discriminate|].
    rewrite bind_get in H. rewrite Hc in H. inversion H; subst. auto.
  Qed.

  (* the state after a non-empty run_steps is the state after a stabilisation *)
  Lemma run_steps_stops fuel : forall steps s s' executed,
    steps <> [] -> run_steps fuel steps s = (s', inl executed) -> css (m_i s') = None.
  Proof.
    induction steps as [|st rest IH]; intros s s' executed Hne H; [congruence|].
    simpl in H.
    apply bind_ok in H. destruct H as (a & s1 & H1 & H).
    apply bind_ok in H. destruct H as (ss & s2 & H2 & H).
    apply bind_ok in H. destruct H as (r & s3 & H3 & H).
    inversion H; subst s3. clear H.
    destruct rest as [|st2 rest].
    - simpl in H3. inversion H3; subst. eapply stabilize_stops; eauto.
    - eapply IH; [discriminate|exact H3].
  Qed.

  (* ================================================================ D. a macro step ends stable *)
  Theorem C02_macro_end_stable fuel now s s' t steps :
    execute_once fuel now s = (s', inl (Some (t, steps))) ->
    css (m_i s') = None /\ stable (i_config (m_i s')).
  Proof.
    intros H. apply execute_once_inv in H. destruct H as (s1 & s2 & s3 & steps0 & H1 & H2 & H3 & H4).
    apply macro_part_inv in H3. destruct H3 as [(_ & Hr & _)|(s4 & executed & Hne & _ & Hrun & _)];
      [discriminate|].
    assert (css (m_i s') = None) as Hc.
    { rewrite H4. eapply run_steps_stops; eauto. }
    split; [exact Hc|]. apply C02_stable_iff, Hc.
  Qed.

  (* no macro step: configuration and history memory are unchanged *)
  Theorem C02_no_step_unchanged fuel now s s' :
    execute_once fuel now s = (s', inl None) ->
    i_config (m_i s') = i_config (m_i s) /\ i_memory (m_i s') = i_memory (m_i s).
  Proof.
    intros H. apply execute_once_inv in H. destruct H as (s1 & s2 & s3 & steps0 & H1 & H2 & H3 & H4).
    apply macro_part_inv in H3. destruct H3 as [(_ & _ & ->)|(s4 & executed & _ & _ & _ & Hr)];
      [|discriminate].
    apply compute_steps_same in H2. destruct H2 as (C1 & C2 & _).
    rewrite H4, C1, C2, H1. split; reflexivity.
  Qed.

  (* ================================================================ C. final is absorbing *)
  Lemma considered_nil ev : considered sc ev [] = [].
  Proof. unfold considered. apply filter_false_nil. intros; reflexivity. Qed.

  Lemma select_nil ev s : select_transitions ev [] s = (s, inl []).
  Proof. unfold Interp.select_transitions. rewrite considered_nil. reflexivity. Qed.

  Lemma compute_steps_final s s' steps :
    i_initialized (m_i s) = true -> i_config (m_i s) = [] ->
    compute_steps s = (s', inl steps) ->
    steps = [] \/ exists e, steps = [mkMicro (Some e) None [] [] []].
  Proof.
    intros Hi Hc H. unfold Interp.compute_steps in H. rewrite bind_get in H. rewrite Hi, Hc in H.
    simpl negb in H. cbv iota in H. revert H. generalize (select_event (m_i s)). intros ev H.
    apply bind_ok in H. destruct H as (ts & s1 & H1 & H). rewrite select_nil in H1.
    inversion H1; subst s1 ts. clear H1.
    apply bind_ok in H. destruct H as (u & s2 & H2 & H).
    destruct ev as [e|]; inversion H; subst; [right; exists e; reflexivity|left; reflexivity].
  Qed.

  Theorem C02_final_absorbing fuel now s s' r :
    i_initialized (m_i s) = true -> i_config (m_i s) = [] ->
    execute_once fuel now s = (s', inl r) ->
    i_config (m_i s') = [] /\ is_final (m_i s') = true.
  Proof.
    intros Hi Hc H. apply execute_once_inv in H.
    destruct H as (s1 & s2 & s3 & steps0 & H1 & H2 & H3 & H4).
    assert (i_initialized (m_i s1) = true) as Hi1 by (rewrite H1; exact Hi).
    assert (i_config (m_i s1) = []) as Hc1 by (rewrite H1; exact Hc).
    pose proof (compute_steps_same _ _ _ H2) as (C1 & _ & C3).
    pose proof (compute_steps_final _ _ _ Hi1 Hc1 H2) as Hsteps.
    assert (i_config (m_i s3) = [] /\ i_initialized (m_i s3) = true) as [Hc3 Hi3].
    { apply macro_part_inv in H3. destruct H3 as [(_ & _ & ->)|(s4 & executed & _ & Hk & Hrun & _)].
      - split; [congruence|auto].
      - destruct Hk as (K1 & K2 & _).
        destruct Hsteps as [->|(e & ->)]; [simpl in Hrun; inversion Hrun; subst; split; [congruence|]; rewrite K2; auto|].
        simpl in Hrun.
        apply bind_ok in Hrun. destruct Hrun as (a & s5 & H5 & Hrun).
        apply (apply_step_inv (fun _ => True)) in H5.
        destruct H5 as (ent & exi & E1 & E2 & E3 & E4 & _). simpl in E1, E2.
        inversion E1; subst ent. inversion E2; subst exi. simpl in E3.
        apply bind_ok in Hrun. destruct Hrun as (ss & s6 & H6 & Hrun).
        assert (i_config (m_i s5) = []) as Hc5 by congruence.
        apply stabilize_stable in H6; [|apply css_nil, Hc5]. destruct H6 as [-> ->].
        apply bind_ok in Hrun. destruct Hrun as (r' & s7 & H7 & Hrun).
        inversion H7; subst s7 r'. inversion Hrun; subst s5. clear Hrun H7.
        split; [exact Hc5|]. rewrite E4, K2. auto. }
    rewrite H4. split; [exact Hc3|]. unfold is_final. rewrite Hi3, Hc3. reflexivity.
  Qed.

  (* ================================================================ descendants (bfs), soundness *)
  Inductive reach (a : name) : name -> Prop :=
  | reach_child c : In c (kids a) -> reach a c
  | reach_step m c : reach a m -> In c (kids m) -> reach a c.

  Lemma reach_trans a b c : reach a b -> reach b c -> reach a c.
  Proof.
    intros Hab Hbc. induction Hbc as [c Hc|m c Hm IH Hc].
    - eapply reach_step; eauto.
    - eapply reach_step; eauto.
  Qed.

  Lemma bfs_sound : forall fuel q d, In d (bfs sc fuel q) -> exists a, In a q /\ reach a d.
  Proof.
    induction fuel as [|f IH]; intros q d H; simpl in H; [destruct H|].
    destruct q as [|n q]; [destruct H|].
    apply in_app_or in H. destruct H as [H|H].
    - exists n. split; [left; reflexivity|apply reach_child, H].
    - apply IH in H. destruct H as (a & Ha & Hr). apply in_app_or in Ha. destruct Ha as [Ha|Ha].
      + exists a. split; [right; exact Ha|exact Hr].
      + exists n. split; [left; reflexivity|]. eapply reach_trans; [apply reach_child, Ha|exact Hr].
  Qed.

  Lemma desc_reach a d : In d (desc a) -> reach a d.
  Proof.
    intros H. apply bfs_sound in H. destruct H as (x & [<-|[]] & Hr). exact Hr.
  Qed.

  Lemma kids_desc a c : In c (kids a) -> In c (desc a).
  Proof. intros H. unfold descendants_for. simpl. apply in_or_app. left. exact H. Qed.

  Lemma desc_nil a : kids a = [] -> desc a = [].
  Proof.
    intros H. destruct (desc a) as [|d l] eqn:E; [reflexivity|].
    assert (In d (desc a)) as Hd by (rewrite E; left; reflexivity).
    apply desc_reach in Hd. exfalso.
    assert (forall x, reach a x -> False) as Hno; [|exact (Hno d Hd)].
    intros x Hx. induction Hx as [c Hc|m c Hm IH Hc]; [rewrite H in Hc; destruct Hc|exact IH].
  Qed.

  (* ================================================================ B'. consequences of stability *)
  (* an active orthogonal state has all its children active *)
  Theorem C02_orthogonal_complete cfg n st c :
    stable cfg -> In n cfg -> state_for sc n = Some st -> s_kind st = KOrthogonal ->
    In c (kids n) -> In c cfg.
  Proof.
    intros [_ Ho] Hn Hst Hk Hc. destruct (Ho n Hn) as (st' & E & H).
    rewrite Hst in E. inversion E; subst st'. apply H; assumption.
  Qed.

  (* no state without children that is a history state / a final child of the root is active *)
  Theorem C02_no_history_active cfg n st :
    stable cfg -> In n cfg -> state_for sc n = Some st -> kids n = [] ->
    is_history (s_kind st) = false /\ (s_kind st = KFinal -> par n <> root sc).
  Proof.
    intros [Hl _] Hn Hst Hk.
    assert (is_leaf cfg n) as Hleaf.
    { split; [exact Hn|]. intros d Hd. rewrite (desc_nil n Hk) in Hd. destruct Hd. }
    destruct (Hl n Hleaf) as (st' & E & H). rewrite Hst in E. inversion E; subst st'.
    destruct (s_kind st); simpl; split; try reflexivity; try discriminate; try contradiction.
    intros _. exact H.
  Qed.

  (* a compound state with an initial state is not a leaf of a stable configuration *)
  Lemma stable_compound_not_leaf cfg n st i :
    stable cfg -> In n cfg -> state_for sc n = Some st -> s_kind st = KCompound ->
    truthy (s_initial st) = Some i -> exists d, In d (desc n) /\ In d cfg.
  Proof.
    intros [Hl _] Hn Hst Hk Hi.
    destruct (existsb (fun d => mem d cfg) (desc n)) eqn:E.
    - apply existsb_exists in E. destruct E as (d & Hd & Hm). exists d. split; [exact Hd|apply mem_In, Hm].
    - exfalso. assert (is_leaf cfg n) as Hleaf.
      { apply leaf_for_iff. unfold leaf_for. apply filter_In. split; [exact Hn|]. rewrite E. reflexivity. }
      destruct (Hl n Hleaf) as (st' & E' & H). rewrite Hst in E'. inversion E'; subst st'.
      rewrite Hk in H. congruence.
  Qed.

  (* parent-closed configurations *)
  Definition pclosed (cfg : list name) : Prop :=
    forall n p, In n cfg -> par n = Some p -> In p cfg.

  Lemma reach_active_child cfg a d :
    (forall c p, In c (kids p) -> par c = Some p) -> pclosed cfg ->
    reach a d -> In d cfg -> exists c, In c (kids a) /\ In c cfg.
  Proof.
    intros Hpc Hcl Hr. induction Hr as [c Hc|m c Hm IH Hc]; intros Hd.
    - exists c. split; assumption.
    - apply IH. eapply Hcl; [exact Hd|]. apply Hpc, Hc.
  Qed.

  Theorem C02_compound_has_child cfg n st i :
    (forall c p, In c (kids p) -> par c = Some p) -> pclosed cfg ->
    stable cfg -> In n cfg -> state_for sc n = Some st -> s_kind st = KCompound ->
    truthy (s_initial st) = Some i -> exists c, In c (kids n) /\ In c cfg.
  Proof.
    intros Hpc Hcl Hs Hn Hst Hk Hi.
    destruct (stable_compound_not_leaf cfg n st i Hs Hn Hst Hk Hi) as (d & Hd & Hdc).
    eapply reach_active_child; eauto. apply desc_reach, Hd.
  Qed.

  (* a legal configuration is stable (no chart hypothesis needed) *)
  Theorem C02_legal_stable cfg : legal cfg -> stable cfg.
  Proof.
    intros (Hnd & _ & Hs). split.
    - intros n [Hn Hleaf]. destruct (Hs n Hn) as (st & Est & Hp & Hr & Hc & Ho & Hh & Hf).
      exists st. split; [exact Est|].
      destruct (s_kind st) eqn:K; try exact I; try discriminate.
      + destruct (Hc eq_refl) as [(c & Hc')|[_ Hi]]; [|exact Hi].
        exfalso. assert (In c (active_children cfg n)) as Hin by (rewrite Hc'; left; reflexivity).
        apply filter_In in Hin. destruct Hin as [Hk Hm]. apply mem_In in Hm.
        exact (Hleaf c (kids_desc n c Hk) Hm).
      + destruct (kids n) as [|c l] eqn:Ek; [reflexivity|]. exfalso.
        assert (In c (kids n)) as Hk by (rewrite Ek; left; reflexivity).
        apply (Hleaf c (kids_desc n c Hk)). apply (Ho eq_refl). left; reflexivity.
      + apply Hf. reflexivity.
    - intros n Hn. destruct (Hs n Hn) as (st & Est & Hp & Hr & Hc & Ho & Hh & Hf).
      exists st. split; [exact Est|exact Ho].
  Qed.

  (* ================================================================ E. preservation *)
  Section WF.
    (* ---- well-formedness of the chart (DESIGN.md section 2), exactly the parts used ---- *)
    (* x lies in the subtree rooted at a (a included) *)
    Definition under (a x : name) : Prop := x = a \/ In a (anc x).

    Variable r : name.
    Hypothesis Hroot : root sc = Some r.
    Hypothesis Hroot_par : par r = None.
    (* WF1 *)
    Hypothesis Hne : forall n, par n <> Some ""%string.
    Hypothesis Hnames : forall n st, state_for sc n = Some st -> s_name st = n.
    (* WF2: one tree *)
    Hypothesis Hanc : forall a b, In b (anc a) -> (depth b < depth a)%Z.
    Hypothesis Hpc : forall c p, In c (kids p) <-> par c = Some p.
    Hypothesis Hkids_nodup : forall p, NoDup (kids p).
    Hypothesis Hdesc_complete : forall a d, In a (anc d) -> In d (desc a).
    Hypothesis Hone_root : forall n, state_for sc n <> None -> par n = None -> n = r.
    (* WF3: only composite states have children *)
    Hypothesis Hcomposite : forall n st, state_for sc n = Some st -> kids n <> [] ->
      s_kind st = KCompound \/ s_kind st = KOrthogonal.
    (* WF4: a declared initial state is a child *)
    Hypothesis Hinitial : forall n st i, state_for sc n = Some st -> s_kind st = KCompound ->
      truthy (s_initial st) = Some i -> par i = Some n.
    (* WF5: no final state directly below an orthogonal state *)
    Hypothesis Hregions : forall n st c cs, state_for sc n = Some st -> s_kind st = KOrthogonal ->
      par c = Some n -> state_for sc c = Some cs -> s_kind cs <> KFinal.
    (* WF6: a history state has a compound parent; its default memory is a sibling *)
    Hypothesis Hhistory : forall h hs, state_for sc h = Some hs -> is_history (s_kind hs) = true ->
      exists p ps, par h = Some p /\ state_for sc p = Some ps /\ s_kind ps = KCompound
                   /\ (forall m, s_memory hs = Some m -> par m = Some p).
    (* WF7a: no transition crosses between sibling regions of an orthogonal state *)
    Hypothesis Hcross : forall t tgt O os R1 R2, In t (c_transitions sc) -> t_target t = Some tgt ->
      state_for sc O = Some os -> s_kind os = KOrthogonal -> par R1 = Some O -> par R2 = Some O ->
      under R1 (t_source t) -> under R2 tgt -> R1 = R2.

    (* ---------------------------------------------------------------- ancestors *)
    Lemma truthy_some (p : name) : p <> ""%string -> truthy (@Some name p) = @Some name p.
    Proof. destruct p; [congruence|reflexivity]. Qed.

    Lemma anc_none n : par n = None -> anc n = [].
    Proof.
      intros H. unfold ancestors_for. rewrite H. destruct (length (c_parent sc)); reflexivity.
    Qed.

    Lemma anc_some n p : par n = Some p -> anc n = p :: anc p.
    Proof.
      intros H. assert (p <> ""%string) as Hp by (intros ->; exact (Hne n H)).
      destruct (length (c_parent sc)) as [|N'] eqn:EN.
      { apply length_zero_iff_nil in EN. unfold parent_for in H. rewrite EN in H. discriminate. }
      assert (anc n = p :: ancestors_fuel sc N' (par p)) as E1.
      { unfold ancestors_for. rewrite EN, H.
        change (ancestors_fuel sc (S N') (Some p))
          with (match truthy (Some p) with
                | Some q => q :: ancestors_fuel sc N' (par q) | None => [] end).
        rewrite (truthy_some p Hp). reflexivity. }
      rewrite E1. f_equal.
      rewrite (fuel_firstn sc N' (length (c_parent sc))) by lia.
      fold (anc p). apply firstn_all2.
      assert (In p (anc n)) as Hin by (rewrite E1; left; reflexivity).
      apply Hanc in Hin. unfold depth_for in Hin.
      pose proof (fuel_length sc (length (c_parent sc)) (par n)) as HL. fold (anc n) in HL. lia.
    Qed.

    Lemma anc_ind (Q : name -> Prop) :
      (forall x, (forall p, par x = Some p -> Q p) -> Q x) -> forall x, Q x.
    Proof.
      intros HQ. assert (forall n x, length (anc x) <= n -> Q x) as H.
      { induction n as [|n IH]; intros x Hl; apply HQ; intros p Hp;
          rewrite (anc_some x p Hp) in Hl; simpl in Hl; [lia|apply IH; lia]. }
      intros x. apply (H (length (anc x))). apply le_n.
    Qed.

    Lemma anc_irr a : ~ In a (anc a).
    Proof. intros H. apply Hanc in H. lia. Qed.

    Lemma anc_asym a b : In a (anc b) -> In b (anc a) -> False.
    Proof. intros H1 H2. apply Hanc in H1. apply Hanc in H2. lia. Qed.

    Lemma anc_tr a b c : In b (anc a) -> In c (anc b) -> In c (anc a).
    Proof. apply (anc_trans sc Hanc). Qed.

    Lemma anc_par n p : par n = Some p -> In p (anc n).
    Proof. intros H. rewrite (anc_some n p H). left; reflexivity. Qed.

    Lemma anc_cases n a : In a (anc n) -> exists p, par n = Some p /\ (a = p \/ In a (anc p)).
    Proof.
      intros H. destruct (par n) as [p|] eqn:E.
      - exists p. split; [reflexivity|]. rewrite (anc_some n p E) in H. destruct H as [<-|H]; auto.
      - rewrite (anc_none n E) in H. destruct H.
    Qed.

    Lemma under_refl a : under a a.
    Proof. left; reflexivity. Qed.

    Lemma under_trans a b c : under a b -> under b c -> under a c.
    Proof.
      intros [->|H1] [->|H2]; try (left; reflexivity); try (right; assumption).
      right. eapply anc_tr; eauto.
    Qed.

    Lemma under_anc a b c : In a (anc b) -> under b c -> In a (anc c).
    Proof. intros H [->|H2]; [exact H|eapply anc_tr; eauto]. Qed.

    Lemma under_par_up a x p : par x = Some p -> under a x -> x = a \/ under a p.
    Proof.
      intros Hp [->|H]; [left; reflexivity|]. right.
      rewrite (anc_some x p Hp) in H. destruct H as [<-|H]; [left; reflexivity|right; exact H].
    Qed.

    Lemma under_antisym a b : under a b -> under b a -> a = b.
    Proof.
      intros [->|H1] [H2|H2]; try reflexivity; try assumption; try (symmetry; assumption).
      exfalso. eapply anc_asym; eauto.
    Qed.

    (* the ancestors of a state form a chain *)
    Lemma anc_chain : forall x a b, In a (anc x) -> In b (anc x) -> a = b \/ In a (anc b) \/ In b (anc a).
    Proof.
      apply (anc_ind (fun x => forall a b, In a (anc x) -> In b (anc x) ->
                                           a = b \/ In a (anc b) \/ In b (anc a))).
      intros x IH a b Ha Hb.
      destruct (anc_cases x a Ha) as (p & Hp & Ha').
      destruct (anc_cases x b Hb) as (p' & Hp' & Hb'). rewrite Hp in Hp'. inversion Hp'; subst p'.
      destruct Ha' as [->|Ha'], Hb' as [->|Hb']; auto.
      apply (IH p Hp); assumption.
    Qed.

    Lemma pclosed_anc cfg : pclosed cfg -> forall x, In x cfg -> forall a, In a (anc x) -> In a cfg.
    Proof.
      intros Hcl. apply (anc_ind (fun x => In x cfg -> forall a, In a (anc x) -> In a cfg)).
      intros x IH Hx a Ha. destruct (anc_cases x a Ha) as (p & Hp & [->|Ha']).
      - eapply Hcl; eauto.
      - apply (IH p Hp); [eapply Hcl; eauto|exact Ha'].
    Qed.

    Lemma pclosed_under cfg a x : pclosed cfg -> In x cfg -> under a x -> In a cfg.
    Proof. intros Hcl Hx [->|H]; [exact Hx|eapply pclosed_anc; eauto]. Qed.

    (* the child of l on the way down to x *)
    Lemma child_toward l : forall x, In l (anc x) -> exists k, par k = Some l /\ under k x.
    Proof.
      apply (anc_ind (fun x => In l (anc x) -> exists k, par k = Some l /\ under k x)).
      intros x IH H. destruct (anc_cases x l H) as (p & Hp & [->|H']).
      - exists x. split; [exact Hp|apply under_refl].
      - destruct (IH p Hp H') as (k & Hk & Hu). exists k. split; [exact Hk|].
        eapply under_trans; [exact Hu|]. right. apply anc_par, Hp.
    Qed.

    (* two states of one chain with the same parent are equal *)
    Lemma same_parent_chain t c1 c2 n :
      under c1 t -> under c2 t -> par c1 = Some n -> par c2 = Some n -> c1 = c2.
    Proof.
      intros U1 U2 P1 P2.
      assert (forall a b, par a = Some n -> par b = Some n -> In a (anc b) -> False) as Hno.
      { intros a b Pa Pb H. rewrite (anc_some b n Pb) in H. destruct H as [<-|H].
        - apply (anc_irr n). apply anc_par, Pa.
        - apply (anc_asym a n H). apply anc_par, Pa. }
      destruct U1 as [->|U1], U2 as [->|U2]; try reflexivity.
      - exfalso. eapply (Hno c2 c1); eauto.
      - exfalso. eapply (Hno c1 c2); eauto.
      - destruct (anc_chain t c1 c2 U1 U2) as [E|[H|H]]; [exact E| |]; exfalso.
        + eapply (Hno c1 c2); eauto.
        + eapply (Hno c2 c1); eauto.
    Qed.

    (* the top of the chain of x *)
    Lemma top_of : forall x, exists t, under t x /\ par t = None.
    Proof.
      apply (anc_ind (fun x => exists t, under t x /\ par t = None)).
      intros x IH. destruct (par x) as [p|] eqn:Hp.
      - destruct (IH p eq_refl) as (t & Ht & Hn). exists t. split; [|exact Hn].
        eapply under_trans; [exact Ht|]. right. apply anc_par, Hp.
      - exists x. split; [apply under_refl|exact Hp].
    Qed.

    (* descendants_for = inverse of ancestors_for *)
    Lemma reach_anc a d : reach a d -> In a (anc d).
    Proof.
      intros H. induction H as [c Hc|m c Hm IH Hc].
      - apply anc_par, Hpc, Hc.
      - eapply anc_tr; [apply anc_par, Hpc, Hc|exact IH].
    Qed.

    Lemma desc_iff a d : In d (desc a) <-> In a (anc d).
    Proof. split; [intros H; apply reach_anc, desc_reach, H|apply Hdesc_complete]. Qed.

    Lemma under_iff a x : under a x <-> x = a \/ In x (desc a).
    Proof. unfold under. rewrite desc_iff. tauto. Qed.

    Lemma no_kids_no_desc h x : kids h = [] -> ~ In h (anc x).
    Proof.
      intros Hk H. destruct (child_toward h x H) as (k & Hp & _).
      apply Hpc in Hp. rewrite Hk in Hp. destruct Hp.
    Qed.

    (* ---------------------------------------------------------------- shape of a transition step *)
    Definition below (lca : option name) (x : name) : Prop :=
      match lca with Some l => In l (anc x) | None => True end.

    Lemma last_before_cons lca a rest cur :
      last_before lca (a :: rest) cur = if ostr_eqb (Some a) lca then cur else last_before lca rest a.
    Proof. reflexivity. Qed.

    Lemma entered_path_cons lca a rest acc :
      entered_path lca (a :: rest) acc
      = if ostr_eqb (Some a) lca then acc else entered_path lca rest (a :: acc).
    Proof. reflexivity. Qed.

    Lemma last_before_spec lca : forall cur,
      (forall l, lca = Some l -> In l (anc cur)) ->
      under (last_before lca (anc cur) cur) cur /\ par (last_before lca (anc cur) cur) = lca.
    Proof.
      apply (anc_ind (fun cur => (forall l, lca = Some l -> In l (anc cur)) ->
        under (last_before lca (anc cur) cur) cur /\ par (last_before lca (anc cur) cur) = lca)).
      intros cur IH Hl. destruct (par cur) as [p|] eqn:Hp.
      - rewrite (anc_some cur p Hp), last_before_cons. destruct (ostr_eqb (Some p) lca) eqn:E.
        + apply ostr_eqb_iff in E. split; [apply under_refl|congruence].
        + apply ostr_eqb_false_iff in E. destruct (IH p eq_refl) as [U P].
          { intros l El. specialize (Hl l El). rewrite (anc_some cur p Hp) in Hl.
            destruct Hl as [<-|Hl]; [congruence|exact Hl]. }
          split; [|exact P]. eapply under_trans; [exact U|right; apply anc_par, Hp].
      - rewrite (anc_none cur Hp). simpl. split; [apply under_refl|].
        destruct lca as [l|]; [|exact Hp]. specialize (Hl l eq_refl).
        rewrite (anc_none cur Hp) in Hl. destruct Hl.
    Qed.

    Lemma entered_path_spec lca x : forall cur acc,
      (forall l, lca = Some l -> In l (anc cur)) ->
      (In x (entered_path lca (anc cur) acc) <-> In x acc \/ (In x (anc cur) /\ below lca x)).
    Proof.
      apply (anc_ind (fun cur => forall acc, (forall l, lca = Some l -> In l (anc cur)) ->
        (In x (entered_path lca (anc cur) acc) <-> In x acc \/ (In x (anc cur) /\ below lca x)))).
      intros cur IH acc Hl. destruct (par cur) as [p|] eqn:Hp.
      - rewrite (anc_some cur p Hp), entered_path_cons. destruct (ostr_eqb (Some p) lca) eqn:E.
        + apply ostr_eqb_iff in E. subst lca. simpl. split; [auto|].
          intros [H|[[<-|H] Hb]]; [exact H| |]; exfalso.
          * exact (anc_irr p Hb).
          * exact (anc_asym x p H Hb).
        + apply ostr_eqb_false_iff in E.
          assert (forall l, lca = Some l -> In l (anc p)) as Hl'.
          { intros l El. specialize (Hl l El). rewrite (anc_some cur p Hp) in Hl.
            destruct Hl as [<-|Hl]; [congruence|exact Hl]. }
          rewrite (IH p eq_refl (p :: acc) Hl'). simpl.
          assert (below lca p) as Hbp.
          { unfold below. destruct lca as [l|]; [apply Hl'; reflexivity|exact I]. }
          split.
          * intros [[<-|H]|[H Hb]]; auto.
          * intros [H|[[<-|H] Hb]]; auto.
      - rewrite (anc_none cur Hp). simpl. tauto.
    Qed.

    Lemma entered_spec lca tgt x :
      (forall l, lca = Some l -> In l (anc tgt)) ->
      (In x (entered_path lca (anc tgt) [tgt]) <-> under x tgt /\ below lca x).
    Proof.
      intros Hl. rewrite (entered_path_spec lca x tgt [tgt] Hl). unfold under. simpl. split.
      - intros [[<-|[]]|[H Hb]].
        + split; [left; reflexivity|]. unfold below. destruct lca as [l|]; [apply Hl; reflexivity|exact I].
        + split; [right; exact H|exact Hb].
      - intros [[->|H] Hb]; [left; left; reflexivity|right; split; assumption].
    Qed.

    Lemma exited_spec cfg lbl x :
      In x (filter (fun d => mem d cfg) (sort (exit_order_leb sc) (desc lbl))
            ++ (if mem lbl cfg then [lbl] else []))
      <-> In x cfg /\ under lbl x.
    Proof.
      rewrite in_app_iff, filter_In, sort_In, desc_iff, mem_In. unfold under. split.
      - intros [[H1 H2]|H]; [tauto|].
        destruct (mem lbl cfg) eqn:E; [|destruct H]. destruct H as [<-|[]].
        apply mem_In in E. tauto.
      - intros [Hc [->|H]]; [|tauto]. right. apply mem_In in Hc. rewrite Hc. left; reflexivity.
    Qed.

    (* ---------------------------------------------------------------- configurations as sets *)
    Lemma remove_first_spec y : forall l, NoDup l ->
      NoDup (remove_first y l) /\ forall x, In x (remove_first y l) <-> In x l /\ x <> y.
    Proof.
      induction l as [|a l IH]; simpl; intros Hnd.
      - split; [constructor|]. intros x; tauto.
      - inversion Hnd as [|? ? Ha Hl]; subst. destruct (str_eqb y a) eqn:E.
        + apply str_eqb_spec in E. subst a. split; [exact Hl|]. intros x. split.
          * intros Hx. split; [right; exact Hx|]. intros ->. contradiction.
          * intros [[<-|Hx] Hn]; [congruence|exact Hx].
        + assert (y <> a) as Hya.
          { intros ->. rewrite (proj2 (str_eqb_spec a a) eq_refl) in E. discriminate. }
          destruct (IH Hl) as [N I]. split.
          * constructor; [|exact N]. intros Hin. apply I in Hin. tauto.
          * intros x. simpl. rewrite I. split.
            -- intros [<-|[Hx Hn]]; [split; [left; reflexivity|congruence]|split; [right; exact Hx|exact Hn]].
            -- intros [[<-|Hx] Hn]; [left; reflexivity|right; split; assumption].
    Qed.

    Lemma set_add_spec y l : NoDup l ->
      NoDup (set_add y l) /\ forall x, In x (set_add y l) <-> In x l \/ x = y.
    Proof.
      intros Hnd. unfold set_add. destruct (mem y l) eqn:E.
      - apply mem_In in E. split; [exact Hnd|]. intros x. split; [auto|]. intros [H| ->]; assumption.
      - apply mem_false_iff in E. split; [apply NoDup_snoc; assumption|].
        intros x. rewrite in_app_iff. simpl. split.
        + intros [H|[<-|[]]]; auto.
        + intros [H| ->]; auto.
    Qed.

    Lemma exit_all_spec : forall exi cfg, NoDup cfg ->
      NoDup (exit_all exi cfg)
      /\ forall x, In x (exit_all exi cfg) <-> In x cfg /\ ~ In x (map s_name exi).
    Proof.
      induction exi as [|st exi IH]; intros cfg Hnd; simpl.
      - split; [exact Hnd|]. intros x; tauto.
      - destruct (remove_first_spec (s_name st) cfg Hnd) as [N1 I1].
        destruct (IH _ N1) as [N2 I2]. split; [exact N2|].
        intros x. unfold exit_all in I2. rewrite I2, I1. split.
        + intros [[H1 H2] H3]. split; [exact H1|]. intros [E|H]; [congruence|contradiction].
        + intros [H1 H2]. split; [split; [exact H1|]|]; intros H; apply H2; [left; congruence|right; exact H].
    Qed.

    Lemma enter_all_spec : forall ent cfg, NoDup cfg ->
      NoDup (enter_all ent cfg)
      /\ forall x, In x (enter_all ent cfg) <-> In x cfg \/ In x (map s_name ent).
    Proof.
      induction ent as [|st ent IH]; intros cfg Hnd; simpl.
      - split; [exact Hnd|]. intros x; tauto.
      - destruct (set_add_spec (s_name st) cfg Hnd) as [N1 I1].
        destruct (IH _ N1) as [N2 I2]. split; [exact N2|].
        intros x. unfold enter_all in I2. rewrite I2, I1. split.
        + intros [[H|H]|H]; auto.
        + intros [H|[H|H]]; auto.
    Qed.

    Lemma states_for_spec : forall l sts, states_for sc l = Some sts ->
      map s_name sts = l /\ forall n, In n l -> state_for sc n <> None.
    Proof.
      induction l as [|n l IH]; intros sts H; simpl in H.
      - inversion H; subst. split; [reflexivity|]. intros n [].
      - destruct (state_for sc n) as [st|] eqn:E; [|discriminate].
        destruct (states_for sc l) as [rr|]; [|discriminate]. inversion H; subst sts.
        destruct (IH rr eq_refl) as [M F]. split.
        + simpl. rewrite M, (Hnames n st E). reflexivity.
        + intros x [<-|Hx]; [congruence|apply F, Hx].
    Qed.

    (* the configuration after a micro step, as a set *)
    Lemma cfg_after_spec cfg entn exin ent exi :
      NoDup cfg -> states_for sc entn = Some ent -> states_for sc exin = Some exi ->
      NoDup (enter_all ent (exit_all exi cfg))
      /\ (forall x, In x (enter_all ent (exit_all exi cfg)) <-> (In x cfg /\ ~ In x exin) \/ In x entn)
      /\ (forall x, In x entn -> state_for sc x <> None).
    Proof.
      intros Hnd He Hx. apply states_for_spec in He. apply states_for_spec in Hx.
      destruct He as [Me Fe], Hx as [Mx Fx].
      destruct (exit_all_spec exi cfg Hnd) as [N1 I1].
      destruct (enter_all_spec ent _ N1) as [N2 I2].
      split; [exact N2|]. split; [|exact Fe].
      intros x. rewrite I2, I1, Me, Mx. tauto.
    Qed.

    (* ---------------------------------------------------------------- the weak invariant *)
    (* at most one active child per compound state *)
    Definition amo (cfg : list name) : Prop :=
      forall n st c1 c2, state_for sc n = Some st -> s_kind st = KCompound ->
        par c1 = Some n -> par c2 = Some n -> In c1 cfg -> In c2 cfg -> c1 = c2.

    Definition wk (cfg : list name) : Prop :=
      NoDup cfg /\ (forall n, In n cfg -> state_for sc n <> None) /\ pclosed cfg /\ amo cfg.

    Lemma wk_nil : wk [].
    Proof.
      split; [constructor|]. split; [intros n []|]. split; [intros n p []|].
      intros n st c1 c2 _ _ _ _ [].
    Qed.

    Lemma wk_under_root cfg x : wk cfg -> In x cfg -> under r x.
    Proof.
      intros (_ & Hex & Hcl & _) Hx. destruct (top_of x) as (t & Ht & Hp).
      assert (In t cfg) as Htc by (eapply pclosed_under; eauto).
      rewrite (Hone_root t (Hex t Htc) Hp) in Ht. exact Ht.
    Qed.

    Lemma wk_root cfg x : wk cfg -> In x cfg -> In r cfg.
    Proof.
      intros Hwk Hx. destruct Hwk as (H1 & H2 & Hcl & H4).
      eapply pclosed_under; [exact Hcl|exact Hx|].
      apply (wk_under_root cfg x); [repeat split; assumption|exact Hx].
    Qed.

    Lemma par_under_anc c n t : par c = Some n -> under c t -> In n (anc t).
    Proof.
      intros Hp [->|H]; [apply anc_par, Hp|]. eapply anc_tr; [exact H|apply anc_par, Hp].
    Qed.

    (* E1 + E2: a transition micro step keeps the weak invariant *)
    Lemma trans_step_wk cfg cfg' src tgt lca :
      wk cfg -> In src cfg ->
      (forall l, lca = Some l -> In l (anc src) /\ In l (anc tgt)) ->
      (forall l ls e1, lca = Some l -> state_for sc l = Some ls -> s_kind ls = KOrthogonal ->
                       par e1 = Some l -> under e1 tgt -> e1 = last_before lca (anc src) src) ->
      NoDup cfg' ->
      (forall x, In x cfg' <->
                 (In x cfg /\ ~ under (last_before lca (anc src) src) x) \/ (under x tgt /\ below lca x)) ->
      (forall x, In x cfg' -> state_for sc x <> None) ->
      wk cfg' /\ In r cfg'.
    Proof.
      intros Hwk Hsrc Hlca H7 Hnd' Hin Hex'.
      pose proof (wk_root cfg src Hwk Hsrc) as Hr.
      pose proof (wk_under_root cfg) as Hur. specialize (fun x => Hur x Hwk).
      destruct Hwk as (Hnd & Hex & Hcl & Hamo).
      set (lbl := last_before lca (anc src) src) in *.
      destruct (last_before_spec lca src (fun l El => proj1 (Hlca l El))) as [Ulbl Plbl].
      fold lbl in Ulbl, Plbl.
      assert (In lbl cfg) as Hlbl by (exact (pclosed_under cfg lbl src Hcl Hsrc Ulbl)).
      assert (forall l, lca = Some l -> In l cfg /\ ~ under lbl l) as HL.
      { intros l El. destruct (Hlca l El) as [Hs Ht]. split; [exact (pclosed_anc cfg Hcl src Hsrc l Hs)|].
        rewrite El in Plbl. intros [E|H].
        - subst l. apply (anc_irr lbl). apply anc_par, Plbl.
        - apply (anc_asym lbl l H). apply anc_par, Plbl. }
      (* an old state that survives below l: l is orthogonal and the target side region is lbl *)
      assert (forall l c, lca = Some l -> In c cfg -> ~ under lbl c -> In l (anc c) ->
                exists ls, state_for sc l = Some ls /\ s_kind ls = KOrthogonal
                           /\ forall e1, par e1 = Some l -> under e1 tgt -> e1 = lbl) as HK.
      { intros l c El Hc Hnu Hlc. destruct (HL l El) as [Hlcfg _].
        destruct (state_for sc l) as [ls|] eqn:Els; [|exfalso; exact (Hex l Hlcfg Els)].
        exists ls. split; [reflexivity|].
        rewrite El in Plbl.
        assert (kids l <> []) as Hk.
        { apply Hpc in Plbl. intros E. rewrite E in Plbl. destruct Plbl. }
        destruct (Hcomposite l ls Els Hk) as [K|K].
        - exfalso. destruct (child_toward l c Hlc) as (k & Pk & Uk).
          assert (In k cfg) as Hkc by (exact (pclosed_under cfg k c Hcl Hc Uk)).
          assert (k = lbl) as -> by (exact (Hamo l ls k lbl Els K Pk Plbl Hkc Hlbl)).
          exact (Hnu Uk).
        - split; [exact K|]. intros e1 P1 U1. eapply H7; eauto. }
      split; [|].
      - split; [exact Hnd'|]. split; [exact Hex'|]. split.
        + (* parent-closed *)
          intros x q Hx Hq. apply Hin in Hx. apply Hin. destruct Hx as [[Hx Hnu]|[Hu Hb]].
          * left. split; [eapply Hcl; eauto|]. intros U. apply Hnu.
            eapply under_trans; [exact U|right; apply anc_par, Hq].
          * assert (In q (anc tgt)) as Hqt by (eapply par_under_anc; eauto).
            destruct lca as [l|]; simpl in Hb.
            -- rewrite (anc_some x q Hq) in Hb. destruct Hb as [<-|Hb].
               ++ left. apply HL. reflexivity.
               ++ right. split; [right; exact Hqt|exact Hb].
            -- right. split; [right; exact Hqt|exact I].
        + (* at most one active child per compound state *)
          assert (forall n st c1 c2, state_for sc n = Some st -> s_kind st = KCompound ->
                    par c1 = Some n -> par c2 = Some n ->
                    (In c1 cfg /\ ~ under lbl c1) -> (under c2 tgt /\ below lca c2) -> False) as Hmix.
          { intros n st c1 c2 Est K P1 P2 [Hc1 Hn1] [Hu2 Hb2].
            destruct lca as [l|]; simpl in Hb2.
            - rewrite (anc_some c2 n P2) in Hb2. destruct Hb2 as [<-|Hb2].
              + destruct (HK n c1 eq_refl Hc1 Hn1 (anc_par c1 n P1)) as (ls & Els & Kls & _).
                rewrite Est in Els. inversion Els; subst ls. congruence.
              + assert (In l (anc c1)) as Hlc1 by (eapply anc_tr; [apply anc_par, P1|exact Hb2]).
                destruct (HK l c1 eq_refl Hc1 Hn1 Hlc1) as (ls & Els & Kls & He1).
                destruct (child_toward l n Hb2) as (k & Pk & Uk).
                assert (under n tgt) as Unt by (right; eapply par_under_anc; eauto).
                assert (k = lbl) as -> by (apply He1; [exact Pk|eapply under_trans; eauto]).
                apply Hn1. eapply under_trans; [exact Uk|right; apply anc_par, P1].
            - assert (lbl = r) as E by (apply Hone_root; [apply Hex, Hlbl|exact Plbl]).
              apply Hn1. rewrite E. apply Hur, Hc1. }
          intros n st c1 c2 Est K P1 P2 H1 H2. apply Hin in H1. apply Hin in H2.
          destruct H1 as [H1|H1], H2 as [H2|H2].
          * eapply Hamo; eauto; tauto.
          * exfalso. eapply (Hmix n st c1 c2); eauto.
          * exfalso. eapply (Hmix n st c2 c1); eauto.
          * eapply same_parent_chain; [apply H1|apply H2|exact P1|exact P2].
      - (* the root stays active *)
        apply Hin. destruct lca as [l|] eqn:El.
        + left. split; [exact Hr|]. intros [E|H].
          * rewrite <- E in Plbl. congruence.
          * rewrite (anc_none r Hroot_par) in H. destruct H.
        + right. split; [|exact I]. destruct (top_of tgt) as (t & Ut & Pt).
          assert (In t cfg') as Ht by (apply Hin; right; split; [exact Ut|exact I]).
          rewrite (Hone_root t (Hex' t Ht) Pt) in Ut. exact Ut.
    Qed.

    (* ---------------------------------------------------------------- E3: stabilisation steps *)
    Lemma no_kids_of_kind n st :
      state_for sc n = Some st -> s_kind st <> KCompound -> s_kind st <> KOrthogonal -> kids n = [].
    Proof.
      intros Est H1 H2. destruct (kids n) as [|c l] eqn:E; [reflexivity|]. exfalso.
      destruct (Hcomposite n st Est) as [K|K]; [rewrite E; discriminate| |]; contradiction.
    Qed.

    (* entering children of an active state *)
    Lemma enter_children_wk cfg cfg' n E :
      wk cfg -> In n cfg -> (forall x, In x E -> par x = Some n) ->
      (forall st, state_for sc n = Some st -> s_kind st = KCompound ->
                  (forall c, par c = Some n -> ~ In c cfg) /\ (forall x y, In x E -> In y E -> x = y)) ->
      NoDup cfg' -> (forall x, In x cfg' <-> In x cfg \/ In x E) ->
      (forall x, In x cfg' -> state_for sc x <> None) ->
      wk cfg'.
    Proof.
      intros (Hnd & Hex & Hcl & Hamo) Hn HE Hcomp Hnd' Hin Hex'.
      split; [exact Hnd'|]. split; [exact Hex'|]. split.
      - intros x q Hx Hq. apply Hin in Hx. apply Hin. left. destruct Hx as [Hx|Hx].
        + eapply Hcl; eauto.
        + rewrite (HE x Hx) in Hq. inversion Hq; subst q. exact Hn.
      - assert (forall m st c1 c2, state_for sc m = Some st -> s_kind st = KCompound ->
                  par c1 = Some m -> par c2 = Some m -> In c1 E -> In c2 cfg' -> c1 = c2) as Hone.
        { intros m st c1 c2 Est K P1 P2 H1 H2. rewrite (HE c1 H1) in P1. inversion P1; subst m.
          destruct (Hcomp st Est K) as [Hno Heq]. apply Hin in H2. destruct H2 as [H2|H2].
          - exfalso. exact (Hno c2 P2 H2).
          - apply Heq; assumption. }
        intros m st c1 c2 Est K P1 P2 H1 H2.
        pose proof H1 as H1'. pose proof H2 as H2'. apply Hin in H1. apply Hin in H2.
        destruct H1 as [H1|H1], H2 as [H2|H2].
        + eapply Hamo; eauto.
        + symmetry. eapply Hone; eauto.
        + eapply Hone; eauto.
        + eapply Hone; eauto.
    Qed.

    (* a recorded (or default) memory of a history child of p *)
    Definition mwf (p : name) (l : list name) : Prop :=
      (forall x, In x l -> In p (anc x))
      /\ (forall x q, In x l -> par x = Some q -> q = p \/ In q l)
      /\ amo l.

    Definition memory_wf (m : list (name * list name)) : Prop :=
      forall h l p, lookup h m = Some l -> par h = Some p -> mwf p l.

    (* leaving a history state and entering its memory *)
    Lemma restore_wk cfg cfg' h p ps l :
      wk cfg -> In h cfg -> par h = Some p -> kids h = [] ->
      state_for sc p = Some ps -> s_kind ps = KCompound -> mwf p l ->
      NoDup cfg' -> (forall x, In x cfg' <-> (In x cfg /\ x <> h) \/ In x l) ->
      (forall x, In x cfg' -> state_for sc x <> None) ->
      wk cfg'.
    Proof.
      intros (Hnd & Hex & Hcl & Hamo) Hh Hp Hk Eps Kps (M1 & M2 & M3) Hnd' Hin Hex'.
      assert (forall c, In c cfg -> In p (anc c) -> c = h) as HA.
      { intros c Hc Hpc'. destruct (child_toward p c Hpc') as (k & Pk & Uk).
        assert (In k cfg) as Hkc by (exact (pclosed_under cfg k c Hcl Hc Uk)).
        assert (k = h) as -> by (exact (Hamo p ps k h Eps Kps Pk Hp Hkc Hh)).
        destruct Uk as [E|Uk]; [exact E|]. exfalso. exact (no_kids_no_desc h c Hk Uk). }
      split; [exact Hnd'|]. split; [exact Hex'|]. split.
      - intros x q Hx Hq. apply Hin in Hx. apply Hin. destruct Hx as [[Hx Hne']|Hx].
        + left. split; [eapply Hcl; eauto|]. intros ->. apply Hpc in Hq. rewrite Hk in Hq. destruct Hq.
        + destruct (M2 x q Hx Hq) as [->|Hq']; [|right; exact Hq'].
          left. split; [eapply Hcl; eauto|]. intros ->. apply (anc_irr h). apply anc_par, Hp.
      - assert (forall n st c1 c2, state_for sc n = Some st -> s_kind st = KCompound ->
                  par c1 = Some n -> par c2 = Some n -> (In c1 cfg /\ c1 <> h) -> In c2 l -> False) as Hmix.
        { intros n st c1 c2 Est K P1 P2 [H1 Hne1] H2. apply Hne1, HA; [exact H1|].
          pose proof (M1 c2 H2) as Hpc2. rewrite (anc_some c2 n P2) in Hpc2.
          destruct Hpc2 as [<-|Hpn]; [apply anc_par, P1|].
          eapply anc_tr; [apply anc_par, P1|exact Hpn]. }
        intros n st c1 c2 Est K P1 P2 H1 H2. apply Hin in H1. apply Hin in H2.
        destruct H1 as [H1|H1], H2 as [H2|H2].
        + eapply Hamo; eauto; tauto.
        + exfalso. eapply (Hmix n st c1 c2); eauto.
        + exfalso. eapply (Hmix n st c2 c1); eauto.
        + eapply M3; eauto.
    Qed.

    (* a final child of the root together with the root is the whole configuration *)
    Lemma final_step_all cfg leaf ls :
      wk cfg -> In leaf cfg -> state_for sc leaf = Some ls -> s_kind ls = KFinal ->
      par leaf = Some r -> forall x, In x cfg -> x = leaf \/ x = r.
    Proof.
      intros Hwk Hl Els Kls Pl x Hx.
      pose proof (wk_under_root cfg x Hwk Hx) as Ux.
      pose proof (wk_root cfg x Hwk Hx) as Hr.
      destruct Hwk as (Hnd & Hex & Hcl & Hamo).
      destruct Ux as [->|Ux]; [right; reflexivity|]. left.
      destruct (child_toward r x Ux) as (k & Pk & Uk).
      assert (In k cfg) as Hkc by (exact (pclosed_under cfg k x Hcl Hx Uk)).
      destruct (state_for sc r) as [rs|] eqn:Ers; [|exfalso; exact (Hex r Hr Ers)].
      assert (kids r <> []) as Hkr.
      { intros E. apply Hpc in Pl. rewrite E in Pl. destruct Pl. }
      assert (kids leaf = []) as Hkl.
      { apply (no_kids_of_kind leaf ls Els); rewrite Kls; discriminate. }
      destruct (Hcomposite r rs Ers Hkr) as [K|K].
      - assert (k = leaf) as -> by (exact (Hamo r rs k leaf Ers K Pk Pl Hkc Hl)).
        destruct Uk as [E|Uk]; [exact E|]. exfalso. exact (no_kids_no_desc leaf x Hkl Uk).
      - exfalso. exact (Hregions r rs leaf ls Ers K Pl Els Kls).
    Qed.

    Lemma css_some (i : ist) step :
      css i = Some (inl step) ->
      (exists n, is_leaf (i_config i) n /\ stab_for_leaf sc (i_memory i) n = Some (inl step))
      \/ (exists n, In n (i_config i) /\ stab_for_orthogonal sc (i_config i) n = Some (inl step)).
    Proof.
      unfold create_stabilization_step.
      destruct (first_some (stab_for_leaf sc (i_memory i)) _) eqn:E1.
      - intros H. inversion H; subst. left. apply first_some_some in E1.
        destruct E1 as (n & Hn & Hs). exists n. split; [apply leaf_for_iff; apply sort_In in Hn; exact Hn|exact Hs].
      - intros H. right. apply first_some_some in H. destruct H as (n & Hn & Hs).
        exists n. split; [apply sort_In in Hn; exact Hn|exact Hs].
    Qed.

    Lemma nodup_empty (l : list name) : (forall x, ~ In x l) -> l = [].
    Proof. destruct l as [|x l]; [reflexivity|]. intros H. exfalso. apply (H x). left; reflexivity. Qed.

    (* J: the invariant of the stabilisation loop *)
    Definition J (cfg : list name) : Prop := wk cfg /\ (cfg = [] \/ In r cfg).

    Lemma stab_step_J (i : ist) step cfg' :
      css i = Some (inl step) -> wk (i_config i) -> memory_wf (i_memory i) ->
      (forall x, In x (ms_entered step) -> state_for sc x <> None) ->
      NoDup cfg' ->
      (forall x, In x cfg' <-> (In x (i_config i) /\ ~ In x (ms_exited step)) \/ In x (ms_entered step)) ->
      J cfg'.
    Proof.
      intros Hcss Hwk Hmem Hent Hnd' Hin.
      assert (forall x, In x cfg' -> state_for sc x <> None) as Hex'.
      { intros x Hx. apply Hin in Hx. destruct Hx as [[Hx _]|Hx]; [|apply Hent, Hx].
        destruct Hwk as (_ & Hex & _). apply Hex, Hx. }
      assert (forall n E, In n (i_config i) -> ms_exited step = [] ->
                (forall x, In x (ms_entered step) <-> In x E) ->
                (forall x, In x E -> par x = Some n) ->
                (forall st, state_for sc n = Some st -> s_kind st = KCompound ->
                   (forall c, par c = Some n -> ~ In c (i_config i)) /\ (forall x y, In x E -> In y E -> x = y)) ->
                J cfg') as Henter.
      { intros n E Hn Hexit HE Hpar Hcomp. split.
        - apply (enter_children_wk (i_config i) cfg' n E); auto.
          intros x. rewrite Hin, Hexit, HE. simpl. tauto.
        - right. apply Hin. left. split; [eapply wk_root; eauto|]. rewrite Hexit. intros []. }
      apply css_some in Hcss. destruct Hcss as [(n & [Hn Hleaf] & Hs)|(n & Hn & Hs)].
      - unfold stab_for_leaf in Hs. destruct (state_for sc n) as [st|] eqn:Est; [|discriminate].
        destruct (s_kind st) eqn:K.
        + discriminate.
        + (* compound leaf: enter the initial state *)
          destruct (truthy (s_initial st)) as [i0|] eqn:Ei; [|discriminate].
          inversion Hs; subst step. clear Hs. cbn [ms_entered ms_exited] in *.
          apply (Henter n [i0] Hn eq_refl); [intros x; simpl; tauto| |].
          * intros x [<-|[]]. eapply Hinitial; eauto.
          * intros st' _ _. split.
            -- intros c Pc Hc. apply (Hleaf c); [apply desc_iff, anc_par, Pc|exact Hc].
            -- intros x y [<-|[]] [<-|[]]. reflexivity.
        + (* orthogonal leaf: enter all children *)
          destruct (kids n) as [|c l] eqn:Ek; [discriminate|].
          inversion Hs; subst step. clear Hs. cbn [ms_entered ms_exited] in *.
          apply (Henter n (kids n) Hn eq_refl).
          * intros x. change (insert str_leb c (sort_names l)) with (sort str_leb (c :: l)).
            rewrite sort_In, Ek. tauto.
          * intros x Hx. apply Hpc, Hx.
          * intros st' Est' K'. rewrite Est in Est'. inversion Est'; subst st'. congruence.
        + (* final child of the root: the configuration becomes empty *)
          destruct (ostr_eqb (par n) (root sc)) eqn:Eo; [|discriminate].
          rewrite Hroot in Hs. inversion Hs; subst step. clear Hs. cbn [ms_entered ms_exited] in *.
          apply ostr_eqb_iff in Eo. rewrite Hroot in Eo.
          assert (cfg' = []) as ->.
          { apply nodup_empty. intros x Hx. apply Hin in Hx. destruct Hx as [[Hx Hne']|[]].
            destruct (final_step_all (i_config i) n st Hwk Hn Est K Eo x Hx) as [->| ->];
              apply Hne'; [left|right; left]; reflexivity. }
          split; [apply wk_nil|left; reflexivity].
        + (* shallow history *)
          destruct (Hhistory n st Est) as (p & ps & Pn & Eps & Kps & Hdef); [rewrite K; reflexivity|].
          assert (kids n = []) as Hkn by (apply (no_kids_of_kind n st Est); rewrite K; discriminate).
          assert (exists l, mwf p l /\ ms_exited step = [n] /\ forall x, In x (ms_entered step) <-> In x l)
            as (l & Hl & Hx1 & He1).
          { destruct (lookup n (i_memory i)) as [l|] eqn:El.
            - inversion Hs; subst step. exists l. split; [eapply Hmem; eauto|]. split; [reflexivity|].
              intros x. simpl. apply sort_In.
            - destruct (s_memory st) as [m|] eqn:Em; [|discriminate]. inversion Hs; subst step.
              exists [m]. split; [|split; [reflexivity|intros x; simpl; tauto]].
              pose proof (Hdef m eq_refl) as Pm. split; [|split].
              + intros x [<-|[]]. apply anc_par, Pm.
              + intros x q [<-|[]] Hq. left. congruence.
              + intros n0 st0 c1 c2 _ _ _ _ [<-|[]] [<-|[]]. reflexivity. }
          split.
          * apply (restore_wk (i_config i) cfg' n p ps l); auto.
            intros x. rewrite Hin, Hx1, He1. simpl. split.
            -- intros [[H1 H2]|H]; [left; split; [exact H1|intros ->; apply H2; left; reflexivity]|right; exact H].
            -- intros [[H1 H2]|H]; [left; split; [exact H1|intros [E|[]]; congruence]|right; exact H].
          * right. apply Hin. left. split; [eapply wk_root; eauto|]. rewrite Hx1.
            intros [E|[]]. rewrite <- E in Hroot_par. congruence.
        + (* deep history *)
          destruct (Hhistory n st Est) as (p & ps & Pn & Eps & Kps & Hdef); [rewrite K; reflexivity|].
          assert (kids n = []) as Hkn by (apply (no_kids_of_kind n st Est); rewrite K; discriminate).
          assert (exists l, mwf p l /\ ms_exited step = [n] /\ forall x, In x (ms_entered step) <-> In x l)
            as (l & Hl & Hx1 & He1).
          { destruct (lookup n (i_memory i)) as [l|] eqn:El.
            - inversion Hs; subst step. exists l. split; [eapply Hmem; eauto|]. split; [reflexivity|].
              intros x. simpl. apply sort_In.
            - destruct (s_memory st) as [m|] eqn:Em; [|discriminate]. inversion Hs; subst step.
              exists [m]. split; [|split; [reflexivity|intros x; simpl; tauto]].
              pose proof (Hdef m eq_refl) as Pm. split; [|split].
              + intros x [<-|[]]. apply anc_par, Pm.
              + intros x q [<-|[]] Hq. left. congruence.
              + intros n0 st0 c1 c2 _ _ _ _ [<-|[]] [<-|[]]. reflexivity. }
          split.
          * apply (restore_wk (i_config i) cfg' n p ps l); auto.
            intros x. rewrite Hin, Hx1, He1. simpl. split.
            -- intros [[H1 H2]|H]; [left; split; [exact H1|intros ->; apply H2; left; reflexivity]|right; exact H].
            -- intros [[H1 H2]|H]; [left; split; [exact H1|intros [E|[]]; congruence]|right; exact H].
          * right. apply Hin. left. split; [eapply wk_root; eauto|]. rewrite Hx1.
            intros [E|[]]. rewrite <- E in Hroot_par. congruence.
      - (* completion of an active orthogonal state *)
        unfold stab_for_orthogonal in Hs. destruct (state_for sc n) as [st|] eqn:Est; [|discriminate].
        destruct (s_kind st) eqn:K; try discriminate.
        destruct (filter (fun ch => negb (mem ch (i_config i))) (kids n)) as [|c l] eqn:Ef; [discriminate|].
        inversion Hs; subst step. clear Hs. cbn [ms_entered ms_exited] in *.
        apply (Henter n (filter (fun ch => negb (mem ch (i_config i))) (kids n)) Hn eq_refl).
        + intros x. change (insert str_leb c (sort_names l)) with (sort str_leb (c :: l)).
          rewrite sort_In, Ef. tauto.
        + intros x Hx. apply filter_In in Hx. apply Hpc, Hx.
        + intros st' Est' K'. rewrite Est in Est'. inversion Est'; subst st'. congruence.
    Qed.

    (* ---------------------------------------------------------------- 1. weak invariant + stable = legal *)
    Lemma active_children_amo cfg n st :
      wk cfg -> state_for sc n = Some st -> s_kind st = KCompound ->
      active_children cfg n = [] \/ exists c, active_children cfg n = [c].
    Proof.
      intros (_ & _ & _ & Hamo) Est K. unfold active_children.
      pose proof (NoDup_filter (fun c => mem c cfg) (Hkids_nodup n)) as Hnd.
      destruct (filter (fun c => mem c cfg) (kids n)) as [|c1 [|c2 l]] eqn:F;
        [left; reflexivity|right; exists c1; reflexivity|].
      exfalso.
      assert (In c1 (filter (fun c => mem c cfg) (kids n))) as H1 by (rewrite F; left; reflexivity).
      assert (In c2 (filter (fun c => mem c cfg) (kids n))) as H2 by (rewrite F; right; left; reflexivity).
      apply filter_In in H1. apply filter_In in H2. destruct H1 as [K1 M1], H2 as [K2 M2].
      apply mem_In in M1. apply mem_In in M2. apply Hpc in K1. apply Hpc in K2.
      assert (c1 = c2) as E by (exact (Hamo n st c1 c2 Est K K1 K2 M1 M2)).
      inversion Hnd as [|? ? Hni _]; subst. apply Hni. left; reflexivity.
    Qed.

    Theorem wk_stable_legal cfg : wk cfg -> In r cfg -> stable cfg -> legal cfg.
    Proof.
      intros Hwk Hr Hst. pose proof Hwk as (Hnd & Hex & Hcl & Hamo).
      split; [exact Hnd|]. split; [exists r; split; [exact Hroot|exact Hr]|].
      intros n Hn. destruct (state_for sc n) as [st|] eqn:Est; [|exfalso; exact (Hex n Hn Est)].
      exists st. split; [exact Est|].
      split; [intros p Hp; eapply Hcl; eauto|].
      split.
      { intros Hp. rewrite Hroot. f_equal. symmetry. apply Hone_root; [rewrite Est; discriminate|exact Hp]. }
      split.
      { intros K. destruct (active_children_amo cfg n st Hwk Est K) as [E|[c E]].
        - destruct (truthy (s_initial st)) as [i0|] eqn:Ei; [|right; split; [exact E|reflexivity]].
          exfalso.
          destruct (C02_compound_has_child cfg n st i0 (fun c p => proj1 (Hpc c p)) Hcl Hst Hn Est K Ei)
            as (c & Hc & Hcc).
          assert (In c (active_children cfg n)) as Hin.
          { apply filter_In. split; [exact Hc|apply mem_In; exact Hcc]. }
          rewrite E in Hin. destruct Hin.
        - left. exists c. exact E. }
      split.
      { intros K c Hc. eapply C02_orthogonal_complete; eauto. }
      assert (kids n = [] -> is_history (s_kind st) = false /\ (s_kind st = KFinal -> par n <> root sc)) as H.
      { intros Hk. eapply C02_no_history_active; eauto. }
      destruct (s_kind st) eqn:K; simpl; try (split; [reflexivity|discriminate]);
        apply H; apply (no_kids_of_kind n st Est); rewrite K; discriminate.
    Qed.

  End WF.

End C02.
