(* C09Proofs.v -- property C09 "Contract checking is transparent".

   Informal statement: for any run in which no contract condition fails or errs, executing with
   contract checking yields exactly the same macro steps, configurations, contexts, sent events
   and meta-events as executing the same inputs with ignore_contract=True.  With
   ignore_contract=True no contract condition is evaluated at all and no ContractError is raised.

   Structure
   ---------
   1. vocabulary (contract kinds, non_contract observations, contracts_all_true, contract_err)
   2. a unary logic  uM  ("what does one run do to the flag, to __old__, to the trace, which errors")
      -> C09_flag_constant, C09_ignore_silent_*, and "all contract evaluations true => the result
         is not a contract failure"
   3. a relational logic  simM  (checking run vs. ignoring run)
      -> C09_apply_step_transparent, C09_stabilize_transparent, C09_run_steps_transparent,
         C09_transparent (execute_once), C09_execute_transparent, C09_run (sequences of operations),
         C09_transparent_trace (hypothesis stated on the trace instead of on the result),
         C09_old_irrelevant
   4. non-vacuity example (vm_compute). *)
From Coq Require Import List ZArith Lia Bool.
From Sismic Require Import Base Chart Interp.
From SismicProofs Require Import FrameLib.
Import ListNotations.
Open Scope list_scope.

(* ================================================================== 1. vocabulary *)
(* the three kinds of contract conditions *)
Definition is_ck (k : ckind) : bool :=
  match k with CPre | CInv | CPost => true | _ => false end.

(* the kinds whose evaluation is given __old__ *)
Definition reads_old (k : ckind) : bool :=
  match k with CInv | CPost => true | _ => false end.

(* an observation that is NOT the evaluation of a contract condition *)
Definition non_contract {ctx} (o : obs ctx) : bool :=
  match o with ObEval c _ => negb (is_ck (cl_kind c)) | _ => true end.

(* a contract condition that was evaluated and did not yield True (False, or an exception) *)
Definition contract_ok {ctx} (o : obs ctx) : bool :=
  match o with
  | ObEval c r =>
      if is_ck (cl_kind c) then match r with Some true => true | _ => false end else true
  | _ => true
  end.

(* "no contract condition fails or errs" on a piece of trace *)
Definition contracts_all_true {ctx} (l : list (obs ctx)) : bool := forallb contract_ok l.

(* the errors caused by a contract condition: Pre/Post/InvariantError, or a CodeEvaluationError
   raised while evaluating a contract condition *)
Definition contract_err (e : err) : bool :=
  match e with EContract _ _ _ => true | ECode k _ _ => is_ck k | _ => false end.

Definition is_econtract (e : err) : bool :=
  match e with EContract _ _ _ => true | _ => false end.

(* the result of a run is not a contract failure *)
Definition res_ok {A} (r : A + err) : Prop :=
  match r with inl _ => True | inr e => contract_err e = false end.

Lemma non_contract_ok {ctx} (o : obs ctx) : non_contract o = true -> contract_ok o = true.
Proof.
  destruct o as [c s|c r|m|ts]; simpl; auto.
  destruct (is_ck (cl_kind c)); simpl; [discriminate|reflexivity].
Qed.

Lemma forallb_nc_all_true {ctx} (l : list (obs ctx)) :
  forallb non_contract l = true -> contracts_all_true l = true.
Proof.
  unfold contracts_all_true. induction l as [|o l IH]; simpl; auto.
  intros H. apply andb_true_iff in H. destruct H as [H1 H2].
  rewrite (non_contract_ok o H1), (IH H2). reflexivity.
Qed.

Lemma forallb_nc_filter {ctx} (l : list (obs ctx)) :
  forallb non_contract l = true -> filter non_contract l = l.
Proof.
  induction l as [|o l IH]; simpl; auto.
  intros H. apply andb_true_iff in H. destruct H as [H1 H2].
  rewrite H1, (IH H2). reflexivity.
Qed.

Lemma forallb_nc_In {ctx} (l : list (obs ctx)) :
  forallb non_contract l = true ->
  forall c r, In (ObEval c r) l -> is_ck (cl_kind c) = false.
Proof.
  intros H c r Hin. rewrite forallb_forall in H. specialize (H _ Hin). simpl in H.
  destruct (is_ck (cl_kind c)); [discriminate|reflexivity].
Qed.

Lemma all_true_In {ctx} (l : list (obs ctx)) :
  contracts_all_true l = true ->
  forall c r, In (ObEval c r) l -> is_ck (cl_kind c) = true -> r = Some true.
Proof.
  unfold contracts_all_true. intros H c r Hin Hk. rewrite forallb_forall in H.
  specialize (H _ Hin). simpl in H. rewrite Hk in H. destruct r as [[|]|]; congruence.
Qed.

Lemma filter_nc_forallb {ctx} (l : list (obs ctx)) :
  forallb non_contract (filter non_contract l) = true.
Proof.
  induction l as [|o l IH]; simpl; auto.
  destruct (non_contract o) eqn:E; simpl; [rewrite E|]; auto.
Qed.

(* the meta-event part of a trace is not affected by dropping the contract evaluations *)
Lemma filter_meta_nc {ctx} (l : list (obs ctx)) :
  filter is_meta_obs (filter non_contract l) = filter is_meta_obs l.
Proof.
  induction l as [|o l IH]; simpl; auto.
  destruct o as [c s|c r|m|ts]; simpl; try (rewrite IH; reflexivity).
  destruct (is_ck (cl_kind c)); simpl; rewrite IH; reflexivity.
Qed.

(* the operations a client performs on an interpreter *)
Inductive op := OpQueue (e : event) | OpStep (fuel : nat) (now : Z).

Lemma is_ck_spec k : is_ck k = true <-> k = CPre \/ k = CInv \/ k = CPost.
Proof. destruct k; simpl; split; intros H; auto; try discriminate; destruct H as [H|[H|H]]; discriminate. Qed.

Section C09.
  Variable ctx : Type.
  Variable X : Type.
  Variable exec_code : call ctx -> ctx -> option (ctx * list event).
  Variable eval_code : call ctx -> ctx -> option bool.
  Variable emit : Z -> meta -> X -> X * option err.
  Variable sc : chart.

  Notation ist := (istate ctx).
  Notation mst := (mstate ctx X).
  Notation M := (Interp.M ctx X).
  Local Notation bind := (Interp.bind ctx X).
  Local Notation ret := (Interp.ret ctx X).
  Local Notation fail := (Interp.fail ctx X).
  Local Notation get := (Interp.get ctx X).
  Local Notation put := (Interp.put ctx X).
  Local Notation modify := (Interp.modify ctx X).
  Local Notation observe := (Interp.observe ctx X).
  Local Notation mapM := (Interp.mapM ctx X).
  Local Notation iterM := (Interp.iterM ctx X).
  Local Notation raise_meta := (Interp.raise_meta ctx X emit).
  Local Notation raise_event := (Interp.raise_event ctx X emit).
  Local Notation mk_call := (Interp.mk_call ctx sc).
  Local Notation run_code := (Interp.run_code ctx X exec_code sc).
  Local Notation eval_cond := (Interp.eval_cond ctx X eval_code sc).
  Local Notation eval_conds := (Interp.eval_conds ctx X eval_code sc).
  Local Notation contract := (Interp.contract ctx X eval_code sc).
  Local Notation state_contract := (Interp.state_contract ctx X eval_code sc).
  Local Notation trans_contract := (Interp.trans_contract ctx X eval_code sc).
  Local Notation eval_guards := (Interp.eval_guards ctx X eval_code sc).
  Local Notation sel_priorities := (Interp.sel_priorities ctx X eval_code sc).
  Local Notation sel_sources := (Interp.sel_sources ctx X eval_code sc).
  Local Notation sel_depths := (Interp.sel_depths ctx X eval_code sc).
  Local Notation sel_eventness := (Interp.sel_eventness ctx X eval_code sc).
  Local Notation select_transitions := (Interp.select_transitions ctx X eval_code sc).
  Local Notation sort_transitions := (Interp.sort_transitions ctx X sc).
  Local Notation compute_steps := (Interp.compute_steps ctx X eval_code sc).
  Local Notation record_history := (Interp.record_history ctx X sc).
  Local Notation exit_state := (Interp.exit_state ctx X exec_code eval_code emit sc).
  Local Notation enter_state := (Interp.enter_state ctx X exec_code eval_code emit sc).
  Local Notation process_transition := (Interp.process_transition ctx X exec_code eval_code emit sc).
  Local Notation apply_step := (Interp.apply_step ctx X exec_code eval_code emit sc).
  Local Notation stabilize := (Interp.stabilize ctx X exec_code eval_code emit sc).
  Local Notation run_steps := (Interp.run_steps ctx X exec_code eval_code emit sc).
  Local Notation consume_event := (Interp.consume_event ctx X).
  Local Notation check_invariants := (Interp.check_invariants ctx X eval_code sc).
  Local Notation execute_once := (Interp.execute_once ctx X exec_code eval_code emit sc).
  Local Notation execute := (Interp.execute ctx X exec_code eval_code emit sc).
  Local Notation queue := (Interp.queue ctx X).
  Local Notation set_time := (Interp.set_time ctx).
  Local Notation set_initialized := (Interp.set_initialized ctx).
  Local Notation set_memory := (Interp.set_memory ctx).
  Local Notation set_config := (Interp.set_config ctx).
  Local Notation set_entry := (Interp.set_entry ctx).
  Local Notation set_idle := (Interp.set_idle ctx).
  Local Notation set_sent := (Interp.set_sent ctx).
  Local Notation set_iq := (Interp.set_iq ctx).
  Local Notation set_eq := (Interp.set_eq ctx).
  Local Notation set_ctx := (Interp.set_ctx ctx).
  Local Notation set_old := (Interp.set_old ctx).
  Local Notation bind_inv := (FrameLib.bind_inv ctx X).

  (* ---------------------------------------------------------------- contract conditions *)
  (* evaluating the conditions of a contract changes nothing but the trace; what is appended are
     contract evaluations only; either all are True and the result is normal, or one is not True
     and the result is a contract failure *)
  Lemma eval_cond_spec k o idx cd ev s s' r :
    eval_cond k o idx cd ev s = (s', r) ->
    m_i s' = m_i s /\ m_x s' = m_x s /\
    exists c ob, m_tr s' = ObEval c ob :: m_tr s /\ cl_kind c = k /\
      match ob with
      | Some b => r = inl b
      | None => r = inr (ECode k o idx)
      end.
  Proof.
    unfold Interp.eval_cond, Interp.bind, Interp.get, Interp.observe, Interp.ret, Interp.fail.
    destruct (eval_code _ (i_ctx (m_i s))) as [b|]; simpl; intros H; inversion H; subst; simpl;
      (split; [reflexivity|]; split; [reflexivity|]); eexists; eexists; split;
      try reflexivity; split; reflexivity.
  Qed.

  Lemma eval_conds_spec k o cds ev : is_ck k = true ->
    forall idx s s' r, eval_conds k o idx cds ev s = (s', r) ->
    m_i s' = m_i s /\ m_x s' = m_x s /\
    exists l, m_tr s' = l ++ m_tr s /\ filter non_contract l = [] /\
      ((r = inl tt /\ contracts_all_true l = true) \/
       (contracts_all_true l = false /\ exists e, r = inr e /\ contract_err e = true)).
  Proof.
    intros Hk. induction cds as [|cd rest IH]; intros idx s s' r H; simpl in H.
    - inversion H; subst. split; [reflexivity|]. split; [reflexivity|].
      exists []. simpl. auto.
    - apply bind_inv in H. destruct H as [(e & H & ->)|(b & s1 & H1 & H2)].
      + apply eval_cond_spec in H. destruct H as (Hi & Hx & c & ob & Htr & Hc & Hr).
        split; [exact Hi|]. split; [exact Hx|]. exists [ObEval c ob]. split; [exact Htr|].
        simpl. rewrite Hc, Hk. simpl. split; [reflexivity|]. right.
        destruct ob as [b|]; [discriminate|]. split; [reflexivity|].
        inversion Hr; subst. eexists. split; [reflexivity|]. simpl. exact Hk.
      + apply eval_cond_spec in H1. destruct H1 as (Hi & Hx & c & ob & Htr & Hc & Hr).
        destruct ob as [b'|]; [|discriminate]. inversion Hr; subst b'. clear Hr.
        destruct b.
        * apply IH in H2. destruct H2 as (Hi2 & Hx2 & l & Htr2 & Hf & Hd).
          split; [congruence|]. split; [congruence|]. exists (l ++ [ObEval c (Some true)]).
          split; [rewrite Htr2, Htr, <- app_assoc; reflexivity|].
          rewrite filter_app, Hf. simpl. rewrite Hc, Hk. simpl. split; [reflexivity|].
          unfold contracts_all_true in *. rewrite forallb_app. simpl. rewrite Hc, Hk. simpl.
          rewrite andb_true_r. exact Hd.
        * inversion H2; subst. split; [exact Hi|]. split; [exact Hx|].
          exists [ObEval c (Some false)]. split; [exact Htr|]. simpl. rewrite Hk. simpl.
          split; [reflexivity|]. right. split; [reflexivity|]. eexists. split; reflexivity.
  Qed.


  (* pure helpers never produce a contract failure *)
  Lemma check_pair_err t1 t2 e : check_pair sc t1 t2 = Some e -> contract_err e = false.
  Proof.
    unfold check_pair. destruct (str_eqb _ _); [intros H; inversion H; reflexivity|].
    destruct (least_common_ancestor sc _ _) as [l|]; [|intros H; inversion H; reflexivity].
    destruct (kind_of sc l) as [[]|]; try (intros H; inversion H; reflexivity).
    destruct (_ && _); intros H; inversion H; reflexivity.
  Qed.

  Lemma check_against_err t1 rest e : check_against sc t1 rest = Some e -> contract_err e = false.
  Proof.
    induction rest as [|it rest IH]; simpl; [discriminate|].
    destruct (check_pair sc t1 (snd it)) eqn:E; [|exact IH].
    intros H; inversion H; subst. eapply check_pair_err; eauto.
  Qed.

  Lemma check_pairs_err ts e : check_pairs sc ts = Some e -> contract_err e = false.
  Proof.
    induction ts as [|it rest IH]; simpl; [discriminate|].
    destruct (check_against sc (snd it) rest) eqn:E; [|exact IH].
    intros H; inversion H; subst. eapply check_against_err; eauto.
  Qed.

  Lemma create_stabilization_step_err (i : ist) e :
    create_stabilization_step ctx sc i = Some (inr e) -> contract_err e = false.
  Proof.
    unfold create_stabilization_step.
    set (P := fun z : microstep + err =>
                match z with inl _ => True | inr e => contract_err e = false end).
    intros H. change (P (inr e)).
    destruct (first_some (stab_for_leaf sc (i_memory i)) _) eqn:E1.
    - inversion H; subst. eapply first_some_inv; [|exact E1].
      intros x z. unfold stab_for_leaf. destruct (state_for sc x) as [st|];
        [|intros Hz; inversion Hz; reflexivity].
      destruct (s_kind st).
      + discriminate.
      + destruct (truthy (s_initial st)); intros Hz; inversion Hz; exact I.
      + destruct (children_for sc x); intros Hz; inversion Hz; exact I.
      + destruct (ostr_eqb _ _); [|discriminate].
        destruct (root sc); intros Hz; inversion Hz; [exact I|reflexivity].
      + destruct (lookup x (i_memory i)); [intros Hz; inversion Hz; exact I|].
        destruct (s_memory st); intros Hz; inversion Hz; [exact I|reflexivity].
      + destruct (lookup x (i_memory i)); [intros Hz; inversion Hz; exact I|].
        destruct (s_memory st); intros Hz; inversion Hz; [exact I|reflexivity].
    - eapply first_some_inv; [|exact H].
      intros x z. unfold stab_for_orthogonal. destruct (state_for sc x) as [st|];
        [|intros Hz; inversion Hz; reflexivity].
      destruct (s_kind st); try discriminate.
      destruct (filter _ _); intros Hz; inversion Hz; exact I.
  Qed.

  (* ================================================================== 2. unary logic *)
  (* `bad` is the class of errors whose absence is to be shown: instantiated with is_econtract
     (C09_ignore_silent) and with contract_err (trace form of the transparency theorem) *)
  Section Unary.
    Variable bad : err -> bool.
    Hypothesis bad_sub : forall e, bad e = true -> contract_err e = true.
    Hypothesis bad_emit : forall t m x x' e, emit t m x = (x', Some e) -> bad e = false.

    Lemma notbad e : contract_err e = false -> bad e = false.
    Proof. intros H. destruct (bad e) eqn:E; auto. apply bad_sub in E. congruence. Qed.

    Definition okres {A} (r : A + err) : Prop :=
      match r with inl _ => True | inr e => bad e = false end.

    (* what one run does: the flag is kept; the trace grows by l; when ignoring, __old__ is kept and
       l holds no contract evaluation; when all contract evaluations in l are True the result is
       not a bad error *)
    Definition ustep {A} (s s' : mst) (r : A + err) : Prop :=
      i_ignore_contract (m_i s') = i_ignore_contract (m_i s) /\
      exists l, m_tr s' = l ++ m_tr s /\
        (i_ignore_contract (m_i s) = true ->
           i_old (m_i s') = i_old (m_i s) /\ forallb non_contract l = true) /\
        (contracts_all_true l = true -> okres r).

    Definition uAt {A} (s : mst) (m : M A) : Prop := forall s' r, m s = (s', r) -> ustep s s' r.
    Definition uM {A} (m : M A) : Prop := forall s, uAt s m.

    Lemma ustep_refl A s (r : A + err) : okres r -> ustep s s r.
    Proof.
      intros H. split; [reflexivity|]. exists []. split; [reflexivity|]. split; auto.
    Qed.

    Lemma uAt_of A (m : M A) s : uM m -> uAt s m.
    Proof. intros H. apply H. Qed.

    Lemma uM_ret A (a : A) : uM (ret a).
    Proof. intros s s' r H. inversion H; subst. apply ustep_refl. exact I. Qed.

    Lemma uM_fail A (e : err) : contract_err e = false -> uM (@Interp.fail ctx X A e).
    Proof. intros He s s' r H. inversion H; subst. apply ustep_refl. apply notbad, He. Qed.

    Lemma uAt_bind A B (m : M A) (f : A -> M B) s :
      uAt s m -> (forall a, uM (f a)) -> uAt s (bind m f).
    Proof.
      intros Hm Hf s' r H. apply bind_inv in H. destruct H as [(e & H & ->)|(a & s1 & H1 & H2)].
      - destruct (Hm _ _ H) as (F1 & l & E1 & I1 & O1). split; [exact F1|].
        exists l. split; [exact E1|]. split; [exact I1|exact O1].
      - destruct (Hm _ _ H1) as (F1 & l1 & E1 & I1 & O1).
        destruct (Hf a s1 _ _ H2) as (F2 & l2 & E2 & I2 & O2).
        split; [congruence|]. exists (l2 ++ l1).
        split; [rewrite E2, E1, app_assoc; reflexivity|]. split.
        + intros Hflag. destruct (I1 Hflag) as [Ho1 Hn1].
          destruct I2 as [Ho2 Hn2]; [congruence|]. split; [congruence|].
          rewrite forallb_app, Hn1, Hn2. reflexivity.
        + unfold contracts_all_true. rewrite forallb_app. intros Hc.
          apply andb_true_iff in Hc. apply O2, Hc.
    Qed.

    Lemma uM_bind A B (m : M A) (f : A -> M B) :
      uM m -> (forall a, uM (f a)) -> uM (bind m f).
    Proof. intros Hm Hf s. apply uAt_bind; auto. Qed.

    Lemma uAt_get_bind B (f : ist -> M B) s : uAt s (f (m_i s)) -> uAt s (bind get f).
    Proof. intros Hf s' r H. exact (Hf s' r H). Qed.

    Lemma uM_get_bind B (f : ist -> M B) : (forall s, uAt s (f (m_i s))) -> uM (bind get f).
    Proof. intros Hf s. apply uAt_get_bind, Hf. Qed.

    Lemma uAt_put s (i : ist) :
      i_ignore_contract i = i_ignore_contract (m_i s) -> i_old i = i_old (m_i s) -> uAt s (put i).
    Proof.
      intros Hf Ho s' r H. inversion H; subst. split; [exact Hf|]. exists []. simpl.
      split; [reflexivity|]. split; auto.
    Qed.

    Lemma uM_modify (f : ist -> ist) :
      (forall i, i_ignore_contract (f i) = i_ignore_contract i /\ i_old (f i) = i_old i) ->
      uM (modify f).
    Proof.
      intros Hf s s' r H. inversion H; subst. destruct (Hf (m_i s)) as [H1 H2].
      split; [exact H1|]. exists []. simpl. split; [reflexivity|]. split; auto.
    Qed.

    Lemma uM_observe o : non_contract o = true -> uM (observe o).
    Proof.
      intros Ho s s' r H. inversion H; subst. split; [reflexivity|]. exists [o]. simpl.
      split; [reflexivity|]. rewrite Ho. split; auto.
    Qed.

    Lemma uM_mapM A B (f : A -> M B) l : (forall a, uM (f a)) -> uM (mapM f l).
    Proof.
      intros Hf. induction l as [|x l IH]; simpl.
      - apply uM_ret.
      - apply uM_bind; [apply Hf|]. intros y. apply uM_bind; [apply IH|].
        intros ys. apply uM_ret.
    Qed.

    Lemma uM_iterM A (f : A -> M unit) l : (forall a, uM (f a)) -> uM (iterM f l).
    Proof.
      intros Hf. induction l as [|x l IH]; simpl.
      - apply uM_ret.
      - apply uM_bind; [apply Hf|]. intros _. apply IH.
    Qed.

    Lemma u_raise_meta m : uM (raise_meta m).
    Proof.
      intros s s' r H. unfold Interp.raise_meta in H.
      destruct (emit (i_time (m_i s)) m (m_x s)) as [x' [e|]] eqn:E; inversion H; subst; simpl;
        (split; [reflexivity|]); exists [ObMeta m]; simpl; (split; [reflexivity|]); split; auto.
      intros _. eapply bad_emit; eauto.
    Qed.

    Ltac u_step :=
      lazymatch goal with
      | |- uM (Interp.bind _ _ (Interp.get _ _) _) => apply uM_get_bind; intros ?
      | |- uM (Interp.bind _ _ _ _) => apply uM_bind; [|intro]
      | |- uM (Interp.ret _ _ _) => apply uM_ret
      | |- uM (Interp.fail _ _ _) => apply uM_fail; reflexivity
      | |- uM (Interp.modify _ _ _) => apply uM_modify; intros ?; split; reflexivity
      | |- uM (Interp.observe _ _ _) => apply uM_observe; reflexivity
      | |- uM (Interp.raise_meta _ _ _ _) => apply u_raise_meta
      | |- uM (Interp.mapM _ _ _ _) => apply uM_mapM; intro
      | |- uM (Interp.iterM _ _ _ _) => apply uM_iterM; intro
      | |- uM (match ?x with _ => _ end) => destruct x
      | |- uM (let _ := _ in _) => cbv zeta
      | |- uAt _ (Interp.bind _ _ (Interp.get _ _) _) => apply uAt_get_bind
      | |- uAt _ (Interp.bind _ _ _ _) => apply uAt_bind; [|intro]
      | |- uAt _ (Interp.put _ _ _) => apply uAt_put; reflexivity
      | |- uAt _ (match ?x with _ => _ end) => destruct x
      | |- uAt _ (let _ := _ in _) => cbv zeta
      | |- uAt _ _ => apply uAt_of
      end.

    Lemma u_raise_event e : uM (raise_event e).
    Proof.
      unfold Interp.raise_event. destruct (e_kind e) eqn:K; repeat u_step.
      apply uM_modify. intros i. unfold queue_event. rewrite K. split; reflexivity.
    Qed.

    Lemma u_run_code k o cd ev : is_ck k = false -> uM (run_code k o cd ev).
    Proof.
      intros Hk s s' r H. unfold Interp.run_code, Interp.bind, Interp.get in H.
      destruct cd as [c|].
      - destruct (exec_code _ (i_ctx (m_i s))) as [[c' sent]|]; simpl in H; inversion H; subst;
          simpl; (split; [reflexivity|]); eexists [_]; simpl; (split; [reflexivity|]); split; auto.
        intros _. apply notbad. simpl. exact Hk.
      - simpl in H; inversion H; subst. simpl. split; [reflexivity|]. eexists [_]. simpl.
        split; [reflexivity|]. split; auto.
    Qed.

    Lemma u_eval_cond k o idx cd ev : is_ck k = false -> uM (eval_cond k o idx cd ev).
    Proof.
      intros Hk. unfold Interp.eval_cond. u_step. cbv zeta.
      destruct (eval_code _ (i_ctx (m_i s))); repeat u_step;
        try (apply uM_observe; simpl; rewrite Hk; reflexivity).
      apply uM_fail. simpl. exact Hk.
    Qed.

    (* contract: returns at once when ignoring; otherwise it may change __old__ and it appends
       contract evaluations only, and fails exactly when one of them is not True *)
    Lemma u_contract k o pre post inv ev : uM (contract k o pre post inv ev).
    Proof.
      intros s s' r H. unfold Interp.contract in H.
      change (bind get ?f s) with (f (m_i s) s) in H. cbv beta in H.
      destruct (i_ignore_contract (m_i s)) eqn:Hflag.
      - inversion H; subst. apply ustep_refl. exact I.
      - assert (Hgen : forall k' cds (s0 : mst), is_ck k' = true ->
                  i_ignore_contract (m_i s0) = false ->
                  eval_conds k' o 0 cds ev s0 = (s', r) -> ustep s0 s' r).
        { intros k' cds s0 Hk' Hfl H0.
          destruct (eval_conds_spec k' o cds ev Hk' 0 s0 s' r H0) as (Hi & Hx & l & Htr & Hf & Hd).
          split; [rewrite Hi; reflexivity|]. exists l. split; [exact Htr|]. split.
          - intros Ht. congruence.
          - intros Hall. destruct Hd as [[-> _]|[Hn _]]; [exact I|congruence]. }
        destruct k; try (inversion H; subst; apply ustep_refl; exact I);
          try (apply Hgen in H; auto; fail).
        apply bind_inv in H. destruct H as [(e & H & ->)|(a & s1 & H1 & H2)].
        + destruct inv; destruct post; inversion H.
        + assert (Hs1 : i_ignore_contract (m_i s1) = false /\ m_tr s1 = m_tr s).
          { destruct inv; destruct post; inversion H1; subst; simpl; auto. }
          destruct Hs1 as [Hf1 Ht1]. apply Hgen in H2; auto.
          destruct H2 as (F & l & Etr & Hig & Hok). split; [congruence|].
          exists l. split; [congruence|]. split; [intros Ht; congruence|exact Hok].
    Qed.

    Lemma u_state_contract k st ev : uM (state_contract k st ev).
    Proof. apply u_contract. Qed.

    Lemma u_trans_contract k it ev : uM (trans_contract k it ev).
    Proof. apply u_contract. Qed.

    Lemma u_eval_guards exposed ts : uM (eval_guards exposed ts).
    Proof.
      induction ts as [|it rest IH]; simpl; [apply uM_ret|].
      apply uM_bind.
      - destruct (t_guard (snd it)); [apply u_eval_cond; reflexivity|apply uM_ret].
      - intros ok. apply uM_bind; [apply IH|]. intros r. apply uM_ret.
    Qed.

    Lemma u_sel_priorities exposed groups : uM (sel_priorities exposed groups).
    Proof.
      induction groups as [|[p ts] rest IH]; simpl; [apply uM_ret|].
      apply uM_bind; [apply u_eval_guards|]. intros [|x r]; [apply IH|apply uM_ret].
    Qed.

    Lemma u_sel_sources exposed groups :
      forall selected ignored, uM (sel_sources exposed groups selected ignored).
    Proof.
      induction groups as [|[source ts] rest IH]; intros selected ignored; simpl; [apply uM_ret|].
      destruct (mem source ignored); [apply IH|].
      apply uM_bind; [apply u_sel_priorities|]. intros [|x r]; apply IH.
    Qed.

    Lemma u_sel_depths exposed groups :
      forall selected ignored, uM (sel_depths exposed groups selected ignored).
    Proof.
      induction groups as [|[d ts] rest IH]; intros selected ignored; simpl; [apply uM_ret|].
      apply uM_bind; [apply u_sel_sources|]. intros r. apply IH.
    Qed.

    Lemma u_sel_eventness event groups :
      forall selected, uM (sel_eventness event groups selected).
    Proof.
      induction groups as [|[he ts] rest IH]; intros selected; simpl; [apply uM_ret|].
      destruct selected; [|apply uM_ret].
      apply uM_bind; [apply u_sel_depths|]. intros r. apply IH.
    Qed.

    Lemma u_select_transitions event states : uM (select_transitions event states).
    Proof. apply u_sel_eventness. Qed.

    Lemma u_sort_transitions ts : uM (sort_transitions ts).
    Proof.
      unfold Interp.sort_transitions. destruct ts as [|a [|b ts]]; try apply uM_ret.
      destruct (check_pairs sc (a :: b :: ts)) eqn:E; [|apply uM_ret].
      apply uM_fail. eapply check_pairs_err; eauto.
    Qed.

    Lemma u_compute_steps : uM compute_steps.
    Proof.
      unfold Interp.compute_steps. u_step. destruct (negb (i_initialized (m_i s))).
      - repeat u_step.
      - apply uAt_of. cbv zeta. apply uM_bind; [apply u_select_transitions|]. intros ts.
        apply uM_bind; [apply uM_observe; reflexivity|]. intros _.
        destruct ts as [|t ts].
        + destruct (select_event (m_i s)); apply uM_ret.
        + apply uM_bind; [apply u_sort_transitions|]. intros ts'.
          apply uM_get_bind. intros s1. apply uAt_of, uM_ret.
    Qed.

    Lemma u_record_history active st : uM (record_history active st).
    Proof.
      unfold Interp.record_history. destruct (s_kind st); try apply uM_ret.
      apply uM_iterM. intros child.
      destruct (state_for sc child) as [cs|]; [|apply uM_fail; reflexivity].
      destruct (s_kind cs); try apply uM_ret; cbv zeta.
      - destruct (filter _ active) as [|x [|y l]]; repeat u_step.
      - destruct (filter _ active) as [|x l]; repeat u_step.
    Qed.

    Lemma u_exit_state active ev st : uM (exit_state active ev st).
    Proof.
      unfold Interp.exit_state.
      apply uM_bind; [apply u_run_code; reflexivity|]. intros sent.
      apply uM_bind; [apply u_record_history|]. intros _.
      apply uM_get_bind. intros s. apply uAt_bind.
      - destruct (mem (s_name st) (i_config (m_i s))); repeat u_step.
      - intros _. apply uM_bind; [apply u_state_contract|]. intros _. repeat u_step.
    Qed.

    Lemma u_enter_state ev st : uM (enter_state ev st).
    Proof.
      unfold Interp.enter_state.
      apply uM_bind; [apply u_state_contract|]. intros _.
      apply uM_bind; [apply u_run_code; reflexivity|]. intros sent. repeat u_step.
    Qed.

    Lemma u_process_transition ev i : uM (process_transition ev i).
    Proof.
      unfold Interp.process_transition.
      destruct (nth_error (c_transitions sc) i) as [t|]; [|apply uM_fail; reflexivity].
      cbv zeta.
      apply uM_bind; [apply u_trans_contract|]. intros _.
      apply uM_bind; [apply u_trans_contract|]. intros _.
      apply uM_bind; [apply u_run_code; reflexivity|]. intros sent.
      apply uM_bind; [apply u_trans_contract|]. intros _.
      apply uM_bind; [apply u_trans_contract|]. intros _. repeat u_step.
    Qed.

    Lemma u_apply_step step : uM (apply_step step).
    Proof.
      unfold Interp.apply_step.
      destruct (states_for sc (ms_entered step)) as [entered|]; [|apply uM_fail; reflexivity].
      destruct (states_for sc (ms_exited step)) as [exited|]; [|apply uM_fail; reflexivity].
      apply uM_get_bind. intros s. apply uAt_of. cbv zeta.
      apply uM_bind; [apply uM_mapM; intros st; apply u_exit_state|]. intros sent1.
      apply uM_bind.
      { destruct (ms_trans step); [apply u_process_transition|apply uM_ret]. }
      intros sent2.
      apply uM_bind; [apply uM_mapM; intros st; apply u_enter_state|]. intros sent3.
      apply uM_bind; [|intros _; apply uM_ret].
      apply uM_iterM. intros e. apply uM_bind; [apply u_raise_event|]. intros _. u_step.
    Qed.

    Lemma u_stabilize fuel : uM (stabilize fuel).
    Proof.
      induction fuel as [|f IH]; simpl; [apply uM_fail; reflexivity|].
      apply uM_get_bind. intros s. apply uAt_of.
      destruct (create_stabilization_step ctx sc (m_i s)) as [[step|e]|] eqn:E.
      - apply uM_bind; [apply u_apply_step|]. intros a.
        apply uM_bind; [apply IH|]. intros r. apply uM_ret.
      - apply uM_fail. eapply create_stabilization_step_err; eauto.
      - apply uM_ret.
    Qed.

    Lemma u_consume_event : uM consume_event.
    Proof.
      unfold Interp.consume_event. apply uM_get_bind. intros s.
      destruct (i_iq (m_i s)) as [|[t e] q'].
      - destruct (i_eq (m_i s)) as [|[t2 e2] q2]; [apply uAt_of, uM_ret|].
        destruct (t2 <=? i_time (m_i s))%Z; repeat u_step.
      - destruct (t <=? i_time (m_i s))%Z; [repeat u_step|].
        destruct (i_eq (m_i s)) as [|[t2 e2] q2]; [apply uAt_of, uM_ret|].
        destruct (t2 <=? i_time (m_i s))%Z; repeat u_step.
    Qed.

    Lemma u_run_steps fuel steps : uM (run_steps fuel steps).
    Proof.
      induction steps as [|st rest IH]; simpl; [apply uM_ret|].
      apply uM_bind; [apply u_apply_step|]. intros a.
      apply uM_bind; [apply u_stabilize|]. intros ss.
      apply uM_bind; [apply IH|]. intros r. apply uM_ret.
    Qed.

    Lemma u_check_invariants ev : uM (check_invariants ev).
    Proof.
      unfold Interp.check_invariants. apply uM_get_bind. intros s. apply uAt_of.
      apply uM_iterM. intros n.
      destruct (state_for sc n); [apply u_state_contract|apply uM_fail; reflexivity].
    Qed.

    Lemma u_execute_once fuel now : uM (execute_once fuel now).
    Proof.
      unfold Interp.execute_once.
      apply uM_bind; [u_step|]. intros _.
      apply uM_bind; [apply u_raise_meta|]. intros _.
      apply uM_bind; [apply u_compute_steps|]. intros steps.
      apply uM_bind.
      - destruct steps as [|first rest]; [apply uM_ret|].
        apply uM_bind.
        + destruct (ms_event first) as [ev0|]; [|apply uM_ret].
          apply uM_bind; [apply u_consume_event|].
          intros [ev1|]; [apply u_raise_meta|apply uM_fail; reflexivity].
        + intros _. apply uM_bind; [apply u_run_steps|]. intros executed.
          apply uM_get_bind. intros s. apply uAt_of, uM_ret.
      - intros macro. apply uM_bind; [apply u_check_invariants|]. intros _.
        apply uM_bind; [apply u_raise_meta|]. intros _. apply uM_ret.
    Qed.

    Lemma u_execute fuel now : uM (execute fuel now).
    Proof.
      induction fuel as [|f IH]; [apply uM_fail; reflexivity|].
      change (execute (S f) now) with
        (bind (execute_once (S f) now) (fun m =>
           match m with
           | None => ret []
           | Some ms => bind (execute f now) (fun r => ret (ms :: r))
           end)).
      apply uM_bind; [apply u_execute_once|]. intros [ms|]; [|apply uM_ret].
      apply uM_bind; [apply IH|]. intros r. apply uM_ret.
    Qed.

    Lemma u_queue e : uM (queue e).
    Proof.
      unfold Interp.queue. apply uM_modify. intros i. unfold queue_event.
      destruct (e_kind e); split; reflexivity.
    Qed.

  End Unary.


  (* ================================================================== 3. relational logic *)
  (* all fields equal except i_ignore_contract and i_old *)
  Record eqf (a b : ist) : Prop := mkEqf {
    ef_id : i_id a = i_id b;
    ef_init : i_initialized a = i_initialized b;
    ef_time : i_time a = i_time b;
    ef_memory : i_memory a = i_memory b;
    ef_config : i_config a = i_config b;
    ef_entry : i_entry a = i_entry b;
    ef_idle : i_idle a = i_idle b;
    ef_sent : i_sent a = i_sent b;
    ef_iq : i_iq a = i_iq b;
    ef_eq : i_eq a = i_eq b;
    ef_ctx : i_ctx a = i_ctx b
  }.

  (* the right-hand run ignores the contracts; the flag of the left-hand run is fl
     (false = checking: the transparency theorem; true: C09_old_irrelevant) *)
  Definition simg (fl : bool) (a b : ist) : Prop :=
    eqf a b /\ i_ignore_contract a = fl /\ i_ignore_contract b = true.

  Section Rel.
  Variable fl : bool.
  Local Notation simg := (simg fl).

  Definition rel (sa sb : mst) : Prop := simg (m_i sa) (m_i sb) /\ m_x sa = m_x sb.

  (* if the left run does not end in a contract failure (only required when it checks), the
     right run yields the same result, related final states, the same trace up to the contract
     evaluations, and all the contract evaluations of the left run were True *)
  Definition simM {A} (ma mb : M A) : Prop :=
    forall sa sb, rel sa sb -> forall sa' ra, ma sa = (sa', ra) -> (fl = false -> res_ok ra) ->
    exists sb' l, mb sb = (sb', ra) /\ rel sa' sb' /\ m_tr sa' = l ++ m_tr sa /\
                  m_tr sb' = filter non_contract l ++ m_tr sb /\ contracts_all_true l = true.

  Lemma simM_ret A (a : A) : simM (ret a) (ret a).
  Proof.
    intros sa sb Hrel sa' ra H _. inversion H; subst. exists sb, []. simpl. auto.
  Qed.

  Lemma simM_fail A (e : err) : simM (@Interp.fail ctx X A e) (@Interp.fail ctx X A e).
  Proof.
    intros sa sb Hrel sa' ra H _. inversion H; subst. exists sb, []. simpl. auto.
  Qed.

  Lemma simM_bind A B (ma mb : M A) (fa fb : A -> M B) :
    simM ma mb -> (forall a, simM (fa a) (fb a)) -> simM (bind ma fa) (bind mb fb).
  Proof.
    intros Hm Hf sa sb Hrel sa' ra H Hok. apply bind_inv in H.
    destruct H as [(e & H & ->)|(a & s1 & H1 & H2)].
    - destruct (Hm sa sb Hrel _ _ H Hok) as (sb' & l & Hb & Hrel' & Ea & Eb & Hall).
      exists sb', l. unfold Interp.bind. rewrite Hb. auto.
    - destruct (Hm sa sb Hrel _ _ H1 (fun _ => I)) as (sb1 & l1 & Hb1 & Hrel1 & Ea1 & Eb1 & Hall1).
      destruct (Hf a s1 sb1 Hrel1 _ _ H2 Hok) as (sb' & l2 & Hb2 & Hrel2 & Ea2 & Eb2 & Hall2).
      exists sb', (l2 ++ l1). unfold Interp.bind. rewrite Hb1. split; [exact Hb2|].
      split; [exact Hrel2|]. split; [rewrite Ea2, Ea1, app_assoc; reflexivity|].
      split; [rewrite Eb2, Eb1, filter_app, app_assoc; reflexivity|].
      unfold contracts_all_true in *. rewrite forallb_app, Hall1, Hall2. reflexivity.
  Qed.

  Lemma simM_get_bind B (fa fb : ist -> M B) :
    (forall ia ib, simg ia ib -> simM (fa ia) (fb ib)) -> simM (bind get fa) (bind get fb).
  Proof.
    intros Hf sa sb Hrel sa' ra H Hok.
    exact (Hf (m_i sa) (m_i sb) (proj1 Hrel) sa sb Hrel sa' ra H Hok).
  Qed.

  Lemma simM_put ia ib : simg ia ib -> simM (put ia) (put ib).
  Proof.
    intros Hs sa sb [_ Hx] sa' ra H _. inversion H; subst.
    eexists. exists []. split; [reflexivity|]. simpl. split; [split; [exact Hs|exact Hx]|]. auto.
  Qed.

  Lemma simM_modify (f : ist -> ist) :
    (forall ia ib, simg ia ib -> simg (f ia) (f ib)) -> simM (modify f) (modify f).
  Proof.
    intros Hf sa sb [Hs Hx] sa' ra H _. inversion H; subst.
    eexists. exists []. split; [reflexivity|]. simpl.
    split; [split; [apply Hf, Hs|exact Hx]|]. auto.
  Qed.

  Lemma simM_observe o : non_contract o = true -> simM (observe o) (observe o).
  Proof.
    intros Ho sa sb Hrel sa' ra H _. inversion H; subst.
    eexists. exists [o]. split; [reflexivity|]. simpl. rewrite Ho, (non_contract_ok o Ho).
    split; [exact Hrel|]. auto.
  Qed.

  Lemma simM_mapM A B (f : A -> M B) l : (forall a, simM (f a) (f a)) -> simM (mapM f l) (mapM f l).
  Proof.
    intros Hf. induction l as [|x l IH]; simpl.
    - apply simM_ret.
    - apply simM_bind; [apply Hf|]. intros y. apply simM_bind; [apply IH|].
      intros ys. apply simM_ret.
  Qed.

  Lemma simM_iterM A (f : A -> M unit) l :
    (forall a, simM (f a) (f a)) -> simM (iterM f l) (iterM f l).
  Proof.
    intros Hf. induction l as [|x l IH]; simpl.
    - apply simM_ret.
    - apply simM_bind; [apply Hf|]. intros _. apply IH.
  Qed.

  Lemma sim_raise_meta m : simM (raise_meta m) (raise_meta m).
  Proof.
    intros sa sb [Hs Hx] sa' ra H _. unfold Interp.raise_meta in *.
    rewrite <- (ef_time _ _ (proj1 Hs)), <- Hx.
    destruct (emit (i_time (m_i sa)) m (m_x sa)) as [x' [e|]]; inversion H; subst;
      eexists; exists [ObMeta m]; (split; [reflexivity|]); simpl;
      (split; [split; [exact Hs|reflexivity]|]); auto.
  Qed.

  (* rewriting the sim-invariant fields of the left state into those of the right state *)
  Ltac rw_eqf H :=
    rewrite ?(ef_id _ _ (proj1 H)), ?(ef_init _ _ (proj1 H)), ?(ef_time _ _ (proj1 H)),
            ?(ef_memory _ _ (proj1 H)), ?(ef_config _ _ (proj1 H)), ?(ef_entry _ _ (proj1 H)),
            ?(ef_idle _ _ (proj1 H)), ?(ef_sent _ _ (proj1 H)), ?(ef_iq _ _ (proj1 H)),
            ?(ef_eq _ _ (proj1 H)), ?(ef_ctx _ _ (proj1 H)).

  Ltac solve_simg :=
    lazymatch goal with
    | H : simg _ _ |- simg _ _ =>
        let E := fresh "E" in let F := fresh "F" in let G := fresh "G" in
        destruct H as [E [F G]]; destruct E; split; [constructor|split]; simpl; congruence
    end.

  Ltac sim_step :=
    lazymatch goal with
    | |- simM (Interp.bind _ _ (Interp.get _ _) _) _ =>
        let ia := fresh "ia" in let ib := fresh "ib" in let Hs := fresh "Hs" in
        apply simM_get_bind; intros ia ib Hs
    | |- simM (Interp.bind _ _ _ _) _ => apply simM_bind; [|intro]
    | |- simM (Interp.ret _ _ _) _ => apply simM_ret
    | |- simM (Interp.fail _ _ _) _ => apply simM_fail
    | |- simM (Interp.put _ _ _) _ => apply simM_put; solve_simg
    | |- simM (Interp.modify _ _ _) _ => apply simM_modify; intros ? ? ?; solve_simg
    | |- simM (Interp.observe _ _ _) _ => apply simM_observe; reflexivity
    | |- simM (Interp.raise_meta _ _ _ _) _ => apply sim_raise_meta
    | |- simM (Interp.mapM _ _ _ _) _ => apply simM_mapM; intro
    | |- simM (Interp.iterM _ _ _ _) _ => apply simM_iterM; intro
    | |- simM (match ?x with _ => _ end) _ => destruct x
    | |- simM (let _ := _ in _) _ => cbv zeta
    end.

  Lemma simg_queue_event ia ib e : simg ia ib -> simg (queue_event ia e) (queue_event ib e).
  Proof. intros H. unfold queue_event. destruct (e_kind e); solve_simg. Qed.

  Lemma sim_raise_event e : simM (raise_event e) (raise_event e).
  Proof.
    unfold Interp.raise_event. destruct (e_kind e) eqn:K; repeat sim_step.
    apply simM_modify. intros ia ib H. apply simg_queue_event, H.
  Qed.

  (* what a piece of code or a guard can observe is the same on both sides *)
  Lemma mk_call_eqf ia ib k o idx cd ev :
    eqf ia ib -> reads_old k = false -> mk_call ia k o idx cd ev = mk_call ib k o idx cd ev.
  Proof.
    intros H Hk. unfold Interp.mk_call.
    rewrite (ef_id _ _ H), (ef_time _ _ H), (ef_config _ _ H), (ef_entry _ _ H), (ef_idle _ _ H),
            (ef_sent _ _ H).
    destruct k; try discriminate; reflexivity.
  Qed.

  Lemma sim_run_code k o cd ev : reads_old k = false -> simM (run_code k o cd ev) (run_code k o cd ev).
  Proof.
    intros Hk. unfold Interp.run_code. sim_step. cbv zeta.
    rewrite (mk_call_eqf ia ib k o 0 cd ev (proj1 Hs) Hk). rw_eqf Hs.
    destruct cd as [c|]; [|repeat sim_step].
    destruct (exec_code _ (i_ctx ib)) as [[c' sent]|]; repeat sim_step.
  Qed.

  Lemma sim_eval_cond k o idx cd ev :
    is_ck k = false -> simM (eval_cond k o idx cd ev) (eval_cond k o idx cd ev).
  Proof.
    intros Hk. unfold Interp.eval_cond. sim_step. cbv zeta.
    assert (Hr : reads_old k = false) by (destruct k; auto; discriminate).
    rewrite (mk_call_eqf ia ib k o idx (Some cd) ev (proj1 Hs) Hr). rw_eqf Hs.
    destruct (eval_code _ (i_ctx ib)) as [b|]; repeat sim_step;
      apply simM_observe; simpl; rewrite Hk; reflexivity.
  Qed.


  (* THE key step: a contract check whose conditions all hold is simulated by doing nothing *)
  Lemma sim_contract k o pre post inv ev :
    simM (contract k o pre post inv ev) (contract k o pre post inv ev).
  Proof.
    intros sa sb Hrel sa' ra H Hok.
    assert (Hb : contract k o pre post inv ev sb = (sb, inl tt)).
    { unfold Interp.contract. change (bind get ?f sb) with (f (m_i sb) sb). cbv beta.
      rewrite (proj2 (proj2 (proj1 Hrel))). reflexivity. }
    unfold Interp.contract in H. change (bind get ?f sa) with (f (m_i sa) sa) in H. cbv beta in H.
    destruct (i_ignore_contract (m_i sa)) eqn:Hflag.
    - inversion H; subst. exists sb, []. simpl. auto.
    - assert (Hfa : fl = false) by (rewrite <- (proj1 (proj2 (proj1 Hrel))); exact Hflag).
      specialize (Hok Hfa).
      assert (Hgen : forall k' cds (s0 : mst), is_ck k' = true -> rel s0 sb ->
                m_tr s0 = m_tr sa ->
                eval_conds k' o 0 cds ev s0 = (sa', ra) ->
                exists sb' l, contract k o pre post inv ev sb = (sb', ra) /\ rel sa' sb' /\
                  m_tr sa' = l ++ m_tr sa /\ m_tr sb' = filter non_contract l ++ m_tr sb /\
                  contracts_all_true l = true).
      { intros k' cds s0 Hk' Hrel0 Htr0 H0.
        destruct (eval_conds_spec k' o cds ev Hk' 0 s0 sa' ra H0) as (Hi & Hx & l & Htr & Hf & Hd).
        destruct Hd as [[-> Hall]|(_ & e & -> & He)]; [|simpl in Hok; congruence].
        exists sb, l. split; [exact Hb|]. split.
        - destruct Hrel0 as [Hs0 Hx0]. split; [rewrite Hi; exact Hs0|congruence].
        - rewrite Hf. simpl. repeat split; auto. congruence. }
      destruct k; try (inversion H; subst; exists sb, []; simpl; auto; fail);
        try (eapply Hgen in H; eauto; fail).
      apply bind_inv in H. destruct H as [(e & H & ->)|(a & s1 & H1 & H2)].
      + destruct inv; destruct post; inversion H.
      + assert (Hs1 : rel s1 sb /\ m_tr s1 = m_tr sa).
        { destruct Hrel as [[He [Hfa' Hfb]] Hx].
          destruct inv; destruct post; inversion H1; subst; simpl; (split; [|reflexivity]);
            (split; [split; [|split; [exact Hfa'|exact Hfb]]|exact Hx]); simpl; auto;
            destruct He; constructor; simpl; auto. }
        destruct Hs1 as [Hrel1 Htr1]. eapply Hgen in H2; eauto.
  Qed.

  Lemma sim_state_contract k st ev : simM (state_contract k st ev) (state_contract k st ev).
  Proof. apply sim_contract. Qed.

  Lemma sim_trans_contract k it ev : simM (trans_contract k it ev) (trans_contract k it ev).
  Proof. apply sim_contract. Qed.

  (* ---------------------------------------------------------------- _select_transitions *)
  Lemma sim_eval_guards exposed ts : simM (eval_guards exposed ts) (eval_guards exposed ts).
  Proof.
    induction ts as [|it rest IH]; simpl; [apply simM_ret|].
    apply simM_bind.
    - destruct (t_guard (snd it)); [apply sim_eval_cond; reflexivity|apply simM_ret].
    - intros ok. apply simM_bind; [apply IH|]. intros r. apply simM_ret.
  Qed.

  Lemma sim_sel_priorities exposed groups :
    simM (sel_priorities exposed groups) (sel_priorities exposed groups).
  Proof.
    induction groups as [|[p ts] rest IH]; simpl; [apply simM_ret|].
    apply simM_bind; [apply sim_eval_guards|]. intros [|x r]; [apply IH|apply simM_ret].
  Qed.

  Lemma sim_sel_sources exposed groups : forall selected ignored,
    simM (sel_sources exposed groups selected ignored) (sel_sources exposed groups selected ignored).
  Proof.
    induction groups as [|[source ts] rest IH]; intros selected ignored; simpl; [apply simM_ret|].
    destruct (mem source ignored); [apply IH|].
    apply simM_bind; [apply sim_sel_priorities|]. intros [|x r]; apply IH.
  Qed.

  Lemma sim_sel_depths exposed groups : forall selected ignored,
    simM (sel_depths exposed groups selected ignored) (sel_depths exposed groups selected ignored).
  Proof.
    induction groups as [|[d ts] rest IH]; intros selected ignored; simpl; [apply simM_ret|].
    apply simM_bind; [apply sim_sel_sources|]. intros r. apply IH.
  Qed.

  Lemma sim_sel_eventness event groups : forall selected,
    simM (sel_eventness event groups selected) (sel_eventness event groups selected).
  Proof.
    induction groups as [|[he ts] rest IH]; intros selected; simpl; [apply simM_ret|].
    destruct selected; [|apply simM_ret].
    apply simM_bind; [apply sim_sel_depths|]. intros r. apply IH.
  Qed.

  Lemma sim_select_transitions event states :
    simM (select_transitions event states) (select_transitions event states).
  Proof. apply sim_sel_eventness. Qed.

  Lemma sim_sort_transitions ts : simM (sort_transitions ts) (sort_transitions ts).
  Proof.
    unfold Interp.sort_transitions. destruct ts as [|a [|b ts]]; try apply simM_ret.
    destruct (check_pairs sc (a :: b :: ts)); [apply simM_fail|apply simM_ret].
  Qed.

  Lemma select_event_eqf ia ib : simg ia ib -> select_event ia = select_event ib.
  Proof. intros H. unfold select_event. rw_eqf H. reflexivity. Qed.

  Lemma sim_compute_steps : simM compute_steps compute_steps.
  Proof.
    unfold Interp.compute_steps. sim_step. rewrite (select_event_eqf ia ib Hs). rw_eqf Hs.
    destruct (negb (i_initialized ib)).
    - repeat sim_step.
    - cbv zeta. apply simM_bind; [apply sim_select_transitions|]. intros ts.
      apply simM_bind; [apply simM_observe; reflexivity|]. intros _.
      destruct ts as [|t ts].
      + destruct (select_event ib); apply simM_ret.
      + apply simM_bind; [apply sim_sort_transitions|]. intros ts'.
        apply simM_get_bind. intros ia' ib' Hs'. rw_eqf Hs'. apply simM_ret.
  Qed.

  (* ---------------------------------------------------------------- _apply_step *)
  Lemma sim_record_history active st :
    simM (record_history active st) (record_history active st).
  Proof.
    unfold Interp.record_history. destruct (s_kind st); try apply simM_ret.
    apply simM_iterM. intros child.
    destruct (state_for sc child) as [cs|]; [|apply simM_fail].
    destruct (s_kind cs); try apply simM_ret; cbv zeta.
    - destruct (filter _ active) as [|x [|y l]]; try apply simM_fail.
      apply simM_modify. intros ia ib H. rw_eqf H. solve_simg.
    - destruct (filter _ active) as [|x l]; try apply simM_fail.
      apply simM_modify. intros ia ib H. rw_eqf H. solve_simg.
  Qed.

  Lemma sim_exit_state active ev st :
    simM (exit_state active ev st) (exit_state active ev st).
  Proof.
    unfold Interp.exit_state.
    apply simM_bind; [apply sim_run_code; reflexivity|]. intros sent.
    apply simM_bind; [apply sim_record_history|]. intros _.
    apply simM_get_bind. intros ia ib Hs. rw_eqf Hs. apply simM_bind.
    - destruct (mem (s_name st) (i_config ib)); [|apply simM_fail].
      apply simM_put. solve_simg.
    - intros _. apply simM_bind; [apply sim_state_contract|]. intros _. repeat sim_step.
  Qed.

  Lemma sim_enter_state ev st : simM (enter_state ev st) (enter_state ev st).
  Proof.
    unfold Interp.enter_state.
    apply simM_bind; [apply sim_state_contract|]. intros _.
    apply simM_bind; [apply sim_run_code; reflexivity|]. intros sent.
    apply simM_bind.
    - apply simM_modify. intros ia ib H. rw_eqf H. solve_simg.
    - intros _. repeat sim_step.
  Qed.

  Lemma sim_process_transition ev i : simM (process_transition ev i) (process_transition ev i).
  Proof.
    unfold Interp.process_transition.
    destruct (nth_error (c_transitions sc) i) as [t|]; [|apply simM_fail].
    cbv zeta.
    apply simM_bind; [apply sim_trans_contract|]. intros _.
    apply simM_bind; [apply sim_trans_contract|]. intros _.
    apply simM_bind; [apply sim_run_code; reflexivity|]. intros sent.
    apply simM_bind; [apply sim_trans_contract|]. intros _.
    apply simM_bind; [apply sim_trans_contract|]. intros _.
    apply simM_bind.
    - apply simM_modify. intros ia ib H. rw_eqf H. solve_simg.
    - intros _. repeat sim_step.
  Qed.

  Lemma sim_apply_step step : simM (apply_step step) (apply_step step).
  Proof.
    unfold Interp.apply_step.
    destruct (states_for sc (ms_entered step)) as [entered|]; [|apply simM_fail].
    destruct (states_for sc (ms_exited step)) as [exited|]; [|apply simM_fail].
    apply simM_get_bind. intros ia ib Hs. cbv zeta. rw_eqf Hs.
    apply simM_bind; [apply simM_mapM; intros st; apply sim_exit_state|]. intros sent1.
    apply simM_bind.
    { destruct (ms_trans step); [apply sim_process_transition|apply simM_ret]. }
    intros sent2.
    apply simM_bind; [apply simM_mapM; intros st; apply sim_enter_state|]. intros sent3.
    apply simM_bind; [|intros _; apply simM_ret].
    apply simM_iterM. intros e. apply simM_bind; [apply sim_raise_event|]. intros _.
    apply simM_modify. intros ia' ib' H. rw_eqf H. solve_simg.
  Qed.

  Lemma create_stabilization_step_eqf ia ib :
    simg ia ib -> create_stabilization_step ctx sc ia = create_stabilization_step ctx sc ib.
  Proof. intros H. unfold create_stabilization_step. rw_eqf H. reflexivity. Qed.

  Lemma sim_stabilize fuel : simM (stabilize fuel) (stabilize fuel).
  Proof.
    induction fuel as [|f IH]; simpl; [apply simM_fail|].
    apply simM_get_bind. intros ia ib Hs. rewrite (create_stabilization_step_eqf ia ib Hs).
    destruct (create_stabilization_step ctx sc ib) as [[step|e]|].
    - apply simM_bind; [apply sim_apply_step|]. intros a.
      apply simM_bind; [apply IH|]. intros r. apply simM_ret.
    - apply simM_fail.
    - apply simM_ret.
  Qed.

  Lemma sim_consume_event : simM consume_event consume_event.
  Proof.
    unfold Interp.consume_event. apply simM_get_bind. intros ia ib Hs. rw_eqf Hs.
    destruct (i_iq ib) as [|[t e] q'].
    - destruct (i_eq ib) as [|[t2 e2] q2]; [apply simM_ret|].
      destruct (t2 <=? i_time ib)%Z; repeat sim_step.
    - destruct (t <=? i_time ib)%Z; [repeat sim_step|].
      destruct (i_eq ib) as [|[t2 e2] q2]; [apply simM_ret|].
      destruct (t2 <=? i_time ib)%Z; repeat sim_step.
  Qed.

  Lemma sim_run_steps fuel steps : simM (run_steps fuel steps) (run_steps fuel steps).
  Proof.
    induction steps as [|st rest IH]; simpl; [apply simM_ret|].
    apply simM_bind; [apply sim_apply_step|]. intros a.
    apply simM_bind; [apply sim_stabilize|]. intros ss.
    apply simM_bind; [apply IH|]. intros r. apply simM_ret.
  Qed.

  Lemma sim_check_invariants ev : simM (check_invariants ev) (check_invariants ev).
  Proof.
    unfold Interp.check_invariants. apply simM_get_bind. intros ia ib Hs. rw_eqf Hs.
    apply simM_iterM. intros n.
    destruct (state_for sc n); [apply sim_state_contract|apply simM_fail].
  Qed.

  Lemma sim_execute_once fuel now : simM (execute_once fuel now) (execute_once fuel now).
  Proof.
    unfold Interp.execute_once.
    apply simM_bind; [sim_step|]. intros _.
    apply simM_bind; [apply sim_raise_meta|]. intros _.
    apply simM_bind; [apply sim_compute_steps|]. intros steps.
    apply simM_bind.
    - destruct steps as [|first rest]; [apply simM_ret|].
      apply simM_bind.
      + destruct (ms_event first) as [ev0|]; [|apply simM_ret].
        apply simM_bind; [apply sim_consume_event|].
        intros [ev1|]; [apply sim_raise_meta|apply simM_fail].
      + intros _. apply simM_bind; [apply sim_run_steps|]. intros executed.
        apply simM_get_bind. intros ia ib Hs. rw_eqf Hs. apply simM_ret.
    - intros macro. apply simM_bind; [apply sim_check_invariants|]. intros _.
      apply simM_bind; [apply sim_raise_meta|]. intros _. apply simM_ret.
  Qed.

  Lemma sim_execute fuel now : simM (execute fuel now) (execute fuel now).
  Proof.
    induction fuel as [|f IH]; [apply simM_fail|].
    change (execute (S f) now) with
      (bind (execute_once (S f) now) (fun m =>
         match m with
         | None => ret []
         | Some ms => bind (execute f now) (fun r => ret (ms :: r))
         end)).
    apply simM_bind; [apply sim_execute_once|]. intros [ms|]; [|apply simM_ret].
    apply simM_bind; [apply IH|]. intros r. apply simM_ret.
  Qed.

  Lemma sim_queue e : simM (queue e) (queue e).
  Proof. unfold Interp.queue. apply simM_modify. intros ia ib H. apply simg_queue_event, H. Qed.

  End Rel.


  (* ================================================================== 4. theorems *)
  (* the relation of the statement: every field equal except i_ignore_contract
     (left: False = checking, right: True = ignoring) and i_old (arbitrary on both sides) *)
  Definition sim (a b : ist) : Prop := simg false a b.

  Lemma sim_unfold a b :
    sim a b <-> eqf a b /\ i_ignore_contract a = false /\ i_ignore_contract b = true.
  Proof. reflexivity. Qed.

  (* ---------------------------------------------------------------- 4.1 the flag; silence *)
  Definition flag_constant {A} (m : M A) : Prop :=
    forall s s' r, m s = (s', r) -> i_ignore_contract (m_i s') = i_ignore_contract (m_i s).

  Lemma nobad_sub : forall e, (fun _ : err => false) e = true -> contract_err e = true.
  Proof. intros e H. discriminate. Qed.
  Lemma nobad_emit : forall t m x x' e, emit t m x = (x', Some e) -> (fun _ : err => false) e = false.
  Proof. reflexivity. Qed.

  Ltac nobad := first [exact nobad_sub | exact nobad_emit].

  Lemma uM_flag_constant A (m : M A) : uM (fun _ => false) m -> flag_constant m.
  Proof. intros H s s' r E. exact (proj1 (H s s' r E)). Qed.

  (* nothing ever modifies i_ignore_contract, whatever its value *)
  Theorem C09_flag_constant :
    (forall step, flag_constant (apply_step step)) /\
    (forall fuel, flag_constant (stabilize fuel)) /\
    (forall fuel steps, flag_constant (run_steps fuel steps)) /\
    (forall ev, flag_constant (check_invariants ev)) /\
    flag_constant compute_steps /\
    (forall fuel now, flag_constant (execute_once fuel now)) /\
    (forall fuel now, flag_constant (execute fuel now)) /\
    (forall e, flag_constant (queue e)).
  Proof.
    repeat apply conj.
    - intros step. apply uM_flag_constant. apply u_apply_step; nobad.
    - intros fuel. apply uM_flag_constant. apply u_stabilize; nobad.
    - intros fuel steps. apply uM_flag_constant. apply u_run_steps; nobad.
    - intros ev. apply uM_flag_constant. apply u_check_invariants; nobad.
    - apply uM_flag_constant. apply u_compute_steps; nobad.
    - intros fuel now. apply uM_flag_constant. apply u_execute_once; nobad.
    - intros fuel now. apply uM_flag_constant. apply u_execute; nobad.
    - intros e. apply uM_flag_constant. apply u_queue; nobad.
  Qed.

  (* a run that ignores the contracts: the flag stays set, __old__ is untouched, no contract
     condition is evaluated, no ContractError is raised *)
  Definition silent {A} (m : M A) : Prop :=
    forall s s' r, m s = (s', r) -> i_ignore_contract (m_i s) = true ->
      i_ignore_contract (m_i s') = true /\
      i_old (m_i s') = i_old (m_i s) /\
      (exists l, m_tr s' = l ++ m_tr s /\
                 forall c ob, In (ObEval c ob) l -> is_ck (cl_kind c) = false) /\
      (forall k o i, r <> inr (EContract k o i)).

  Lemma econ_sub : forall e, is_econtract e = true -> contract_err e = true.
  Proof. intros e. destruct e; simpl; auto; discriminate. Qed.

  Section Silent.
    Hypothesis Hemit_noc : forall t m x x' k o i, emit t m x <> (x', Some (EContract k o i)).

    Lemma econ_emit : forall t m x x' e, emit t m x = (x', Some e) -> is_econtract e = false.
    Proof.
      intros t m x x' e H. destruct e; try reflexivity. exfalso. eapply Hemit_noc; eauto.
    Qed.

    Lemma uM_silent A (m : M A) : uM is_econtract m -> silent m.
    Proof.
      intros H s s' r E Hflag. destruct (H s s' r E) as (F & l & Etr & Hig & Hok).
      destruct (Hig Hflag) as [Hold Hnc]. split; [congruence|]. split; [exact Hold|]. split.
      - exists l. split; [exact Etr|]. apply forallb_nc_In, Hnc.
      - intros k o i ->. specialize (Hok (forallb_nc_all_true l Hnc)). simpl in Hok. discriminate.
    Qed.

    Theorem C09_ignore_silent :
      (forall step, silent (apply_step step)) /\
      (forall fuel, silent (stabilize fuel)) /\
      (forall fuel steps, silent (run_steps fuel steps)) /\
      (forall ev, silent (check_invariants ev)) /\
      (forall fuel now, silent (execute_once fuel now)) /\
      (forall fuel now, silent (execute fuel now)).
    Proof.
      assert (Hs := econ_sub). assert (He := econ_emit).
      repeat apply conj.
      - intros step. apply uM_silent. apply u_apply_step; assumption.
      - intros fuel. apply uM_silent. apply u_stabilize; assumption.
      - intros fuel steps. apply uM_silent. apply u_run_steps; assumption.
      - intros ev. apply uM_silent. apply u_check_invariants; assumption.
      - intros fuel now. apply uM_silent. apply u_execute_once; assumption.
      - intros fuel now. apply uM_silent. apply u_execute; assumption.
    Qed.
  End Silent.

  (* ---------------------------------------------------------------- 4.2 transparency *)
  (* m is transparent: from sim-related interpreter states and the same listener state, if the
     checking run does not end in a contract failure then the ignoring run returns the same
     result, ends in a sim-related interpreter state and the same listener state, and its trace
     is the trace of the checking run minus the contract evaluations -- which were all True *)
  Definition transparent {A} (m : M A) : Prop :=
    forall ia ib x tr_a tr_b sa' ra,
      sim ia ib ->
      m (mkM ia x tr_a) = (sa', ra) ->
      res_ok ra ->
      exists sb' l,
        m (mkM ib x tr_b) = (sb', ra) /\
        sim (m_i sa') (m_i sb') /\
        m_x sa' = m_x sb' /\
        m_tr sa' = l ++ tr_a /\
        m_tr sb' = filter non_contract l ++ tr_b /\
        contracts_all_true l = true /\
        filter is_meta_obs (filter non_contract l) = filter is_meta_obs l.

  Lemma simM_transparent A (m : M A) : simM false m m -> transparent m.
  Proof.
    intros H ia ib x tr_a tr_b sa' ra Hs E Hok.
    destruct (H (mkM ia x tr_a) (mkM ib x tr_b) (conj Hs eq_refl) sa' ra E (fun _ => Hok))
      as (sb' & l & Eb & [Hs' Hx'] & Ea & Etb & Hall).
    exists sb', l. repeat split; auto; try apply Hs'. apply filter_meta_nc.
  Qed.

  Theorem C09_apply_step_transparent step : transparent (apply_step step).
  Proof. apply simM_transparent, sim_apply_step. Qed.

  Theorem C09_stabilize_transparent fuel : transparent (stabilize fuel).
  Proof. apply simM_transparent, sim_stabilize. Qed.

  Theorem C09_run_steps_transparent fuel steps : transparent (run_steps fuel steps).
  Proof. apply simM_transparent, sim_run_steps. Qed.

  Theorem C09_compute_steps_transparent : transparent compute_steps.
  Proof. apply simM_transparent, sim_compute_steps. Qed.

  Theorem C09_check_invariants_transparent ev : transparent (check_invariants ev).
  Proof. apply simM_transparent, sim_check_invariants. Qed.

  Theorem C09_execute_transparent fuel now : transparent (execute fuel now).
  Proof. apply simM_transparent, sim_execute. Qed.

  (* the main statement, for one call of execute_once, spelled out *)
  Theorem C09_transparent fuel now ia ib x tr_a tr_b sa' ra :
    sim ia ib ->
    execute_once fuel now (mkM ia x tr_a) = (sa', ra) ->
    res_ok ra ->
    exists sb' l,
      execute_once fuel now (mkM ib x tr_b) = (sb', ra) /\
      sim (m_i sa') (m_i sb') /\
      m_x sa' = m_x sb' /\
      m_tr sa' = l ++ tr_a /\
      m_tr sb' = filter non_contract l ++ tr_b /\
      contracts_all_true l = true /\
      filter is_meta_obs (filter non_contract l) = filter is_meta_obs l.
  Proof. apply (simM_transparent _ _ (sim_execute_once false fuel now)). Qed.

  (* the same with the hypothesis stated on the trace of the checking run: every contract
     condition it evaluated was True.  This needs that the listeners do not themselves raise
     contract failures. *)
  Section TraceForm.
    Hypothesis Hemit_ok : forall t m x x' e, emit t m x = (x', Some e) -> contract_err e = false.

    Lemma uM_all_true_res_ok A (m : M A) : uM contract_err m ->
      forall s s' r l, m s = (s', r) -> m_tr s' = l ++ m_tr s -> contracts_all_true l = true ->
      res_ok r.
    Proof.
      intros H s s' r l E Etr Hall. destruct (H s s' r E) as (_ & l0 & Etr0 & _ & Hok).
      rewrite Etr in Etr0. apply app_inv_tail in Etr0. subst l0.
      specialize (Hok Hall). destruct r; exact Hok.
    Qed.

    Theorem C09_transparent_trace fuel now ia ib x tr_a tr_b sa' ra l :
      sim ia ib ->
      execute_once fuel now (mkM ia x tr_a) = (sa', ra) ->
      m_tr sa' = l ++ tr_a ->
      contracts_all_true l = true ->
      exists sb',
        execute_once fuel now (mkM ib x tr_b) = (sb', ra) /\
        sim (m_i sa') (m_i sb') /\
        m_x sa' = m_x sb' /\
        m_tr sb' = filter non_contract l ++ tr_b /\
        filter is_meta_obs (filter non_contract l) = filter is_meta_obs l.
    Proof.
      intros Hs E Etr Hall.
      assert (Hok : res_ok ra).
      { eapply (uM_all_true_res_ok _ (execute_once fuel now)); eauto.
        apply u_execute_once; auto. }
      destruct (C09_transparent fuel now ia ib x tr_a tr_b sa' ra Hs E Hok)
        as (sb' & l' & Eb & Hs' & Hx & Ea & Etb & _ & Hm).
      rewrite Etr in Ea. apply app_inv_tail in Ea. subst l'.
      exists sb'. auto.
    Qed.

    (* "no contract condition fails or errs", on the trace or on the result: equivalent *)
    Theorem C09_all_true_iff_res_ok fuel now s s' r l :
      execute_once fuel now s = (s', r) -> m_tr s' = l ++ m_tr s ->
      i_ignore_contract (m_i s) = false ->
      (contracts_all_true l = true <-> res_ok r).
    Proof.
      intros E Etr Hfl. split.
      - intros Hall. eapply (uM_all_true_res_ok _ (execute_once fuel now)); eauto.
        apply u_execute_once; auto.
      - intros Hok.
        assert (Hsim : sim (m_i s) (mkIState (i_id (m_i s)) (i_initialized (m_i s)) (i_time (m_i s))
                  (i_memory (m_i s)) (i_config (m_i s)) (i_entry (m_i s)) (i_idle (m_i s))
                  (i_sent (m_i s)) (i_iq (m_i s)) (i_eq (m_i s)) true (i_ctx (m_i s)) [])).
        { split; [constructor; reflexivity|]. split; [exact Hfl|reflexivity]. }
        destruct s as [i x tr]. simpl in *.
        destruct (C09_transparent fuel now _ _ x tr tr s' r Hsim E Hok)
          as (sb' & l' & _ & _ & _ & Ea & _ & Hall & _).
        rewrite Etr in Ea. apply app_inv_tail in Ea. subst l'. exact Hall.
    Qed.
  End TraceForm.

  (* ---------------------------------------------------------------- 4.3 sequences of operations *)
  Definition run_op (o : op) : M (option macrostep) :=
    match o with
    | OpQueue e => bind (queue e) (fun _ => ret None)
    | OpStep fuel now => execute_once fuel now
    end.

  (* the client goes on after an exception: every operation is run, every outcome is recorded *)
  Fixpoint run_ops (ops : list op) (s : mst) : mst * list (option macrostep + err) :=
    match ops with
    | [] => (s, [])
    | o :: rest =>
        let (s1, r) := run_op o s in
        let (s2, rs) := run_ops rest s1 in
        (s2, r :: rs)
    end.

  Lemma sim_run_op fl o : simM fl (run_op o) (run_op o).
  Proof.
    destruct o as [e|fuel now]; simpl.
    - apply simM_bind; [apply sim_queue|]. intros _. apply simM_ret.
    - apply sim_execute_once.
  Qed.

  Lemma run_ops_sim fl ops : forall sa sb, rel fl sa sb ->
    forall sa' rs, run_ops ops sa = (sa', rs) ->
    (fl = false -> Forall res_ok rs) ->
    exists sb' l, run_ops ops sb = (sb', rs) /\ rel fl sa' sb' /\
      m_tr sa' = l ++ m_tr sa /\ m_tr sb' = filter non_contract l ++ m_tr sb /\
      contracts_all_true l = true.
  Proof.
    induction ops as [|o rest IH]; intros sa sb Hrel sa' rs E Hok; simpl in E.
    - inversion E; subst. exists sb, []. simpl. auto.
    - destruct (run_op o sa) as [s1 r] eqn:E1. destruct (run_ops rest s1) as [s2 rs'] eqn:E2.
      inversion E; subst. clear E.
      assert (Hr : fl = false -> res_ok r) by (intros F; specialize (Hok F); inversion Hok; auto).
      assert (Hrs : fl = false -> Forall res_ok rs')
        by (intros F; specialize (Hok F); inversion Hok; auto).
      destruct (sim_run_op fl o sa sb Hrel s1 r E1 Hr) as (sb1 & l1 & Eb1 & Hrel1 & Ea1 & Etb1 & Hall1).
      destruct (IH s1 sb1 Hrel1 sa' rs' E2 Hrs) as (sb' & l2 & Eb2 & Hrel2 & Ea2 & Etb2 & Hall2).
      exists sb', (l2 ++ l1). simpl. rewrite Eb1, Eb2. split; [reflexivity|].
      split; [exact Hrel2|]. split; [rewrite Ea2, Ea1, app_assoc; reflexivity|].
      split; [rewrite Etb2, Etb1, filter_app, app_assoc; reflexivity|].
      unfold contracts_all_true in *. rewrite forallb_app, Hall1, Hall2. reflexivity.
  Qed.

  Theorem C09_run ops ia ib x tr_a tr_b sa' rs :
    sim ia ib ->
    run_ops ops (mkM ia x tr_a) = (sa', rs) ->
    Forall res_ok rs ->
    exists sb' l,
      run_ops ops (mkM ib x tr_b) = (sb', rs) /\
      sim (m_i sa') (m_i sb') /\
      m_x sa' = m_x sb' /\
      m_tr sa' = l ++ tr_a /\
      m_tr sb' = filter non_contract l ++ tr_b /\
      contracts_all_true l = true /\
      filter is_meta_obs (filter non_contract l) = filter is_meta_obs l.
  Proof.
    intros Hs E Hok.
    destruct (run_ops_sim false ops (mkM ia x tr_a) (mkM ib x tr_b) (conj Hs eq_refl) sa' rs E
                (fun _ => Hok)) as (sb' & l & Eb & [Hs' Hx'] & Ea & Etb & Hall).
    exists sb', l. repeat split; auto; try apply Hs'. apply filter_meta_nc.
  Qed.

  (* trace form of C09_run *)
  Section RunTraceForm.
    Hypothesis Hemit_ok : forall t m x x' e, emit t m x = (x', Some e) -> contract_err e = false.

    Lemma u_run_op o : uM contract_err (run_op o).
    Proof.
      destruct o as [e|fuel now]; simpl.
      - apply uM_bind; [apply u_queue|]. intros _. apply uM_ret.
      - apply u_execute_once; auto.
    Qed.

    Lemma run_ops_all_true ops : forall s s' rs, run_ops ops s = (s', rs) ->
      exists l, m_tr s' = l ++ m_tr s /\ (contracts_all_true l = true -> Forall res_ok rs).
    Proof.
      induction ops as [|o rest IH]; intros s s' rs E; simpl in E.
      - inversion E; subst. exists []. split; [reflexivity|]. intros _. constructor.
      - destruct (run_op o s) as [s1 r] eqn:E1. destruct (run_ops rest s1) as [s2 rs'] eqn:E2.
        inversion E; subst. clear E.
        destruct (u_run_op o s s1 r E1) as (_ & l1 & Etr1 & _ & Hok1).
        destruct (IH s1 s' rs' E2) as (l2 & Etr2 & Hok2).
        exists (l2 ++ l1). split; [rewrite Etr2, Etr1, app_assoc; reflexivity|].
        unfold contracts_all_true in *. rewrite forallb_app. intros H.
        apply andb_true_iff in H. destruct H as [H2 H1]. constructor; [|apply Hok2, H2].
        specialize (Hok1 H1). destruct r; exact Hok1.
    Qed.

    Theorem C09_run_trace ops ia ib x tr_a tr_b sa' rs l :
      sim ia ib ->
      run_ops ops (mkM ia x tr_a) = (sa', rs) ->
      m_tr sa' = l ++ tr_a ->
      contracts_all_true l = true ->
      exists sb',
        run_ops ops (mkM ib x tr_b) = (sb', rs) /\
        sim (m_i sa') (m_i sb') /\
        m_x sa' = m_x sb' /\
        m_tr sb' = filter non_contract l ++ tr_b /\
        filter is_meta_obs (filter non_contract l) = filter is_meta_obs l.
    Proof.
      intros Hs E Etr Hall.
      destruct (run_ops_all_true ops _ _ _ E) as (l0 & Etr0 & Hok0). simpl in Etr0.
      rewrite Etr in Etr0. apply app_inv_tail in Etr0. subst l0.
      destruct (C09_run ops ia ib x tr_a tr_b sa' rs Hs E (Hok0 Hall))
        as (sb' & l' & Eb & Hs' & Hx & Ea & Etb & _ & Hm).
      rewrite Etr in Ea. apply app_inv_tail in Ea. subst l'.
      exists sb'. auto.
    Qed.
  End RunTraceForm.

  (* ---------------------------------------------------------------- 4.4 __old__ is irrelevant when ignoring *)
  (* two ignoring runs from states that differ only in i_old: same result, same listener state,
     same trace increment, states that still differ only in i_old -- which neither run touches *)
  Definition old_irrelevant {A} (m : M A) : Prop :=
    forall ia ib x tr_a tr_b sa' ra,
      eqf ia ib -> i_ignore_contract ia = true -> i_ignore_contract ib = true ->
      m (mkM ia x tr_a) = (sa', ra) ->
      exists sb' l,
        m (mkM ib x tr_b) = (sb', ra) /\
        eqf (m_i sa') (m_i sb') /\
        i_ignore_contract (m_i sa') = true /\ i_ignore_contract (m_i sb') = true /\
        i_old (m_i sa') = i_old ia /\ i_old (m_i sb') = i_old ib /\
        m_x sa' = m_x sb' /\
        m_tr sa' = l ++ tr_a /\ m_tr sb' = l ++ tr_b.

  Lemma simM_old_irrelevant A (m : M A) :
    simM true m m -> uM (fun _ => false) m -> old_irrelevant m.
  Proof.
    intros H Hu ia ib x tr_a tr_b sa' ra He Fa Fb E.
    assert (Hok : true = false -> res_ok ra) by discriminate.
    destruct (H (mkM ia x tr_a) (mkM ib x tr_b) (conj (conj He (conj Fa Fb)) eq_refl) sa' ra E Hok)
      as (sb' & l & Eb & [(He' & Fa' & Fb') Hx'] & Ea & Etb & Hall).
    destruct (Hu _ _ _ E) as (_ & la & Etra & Higa & _). simpl in *.
    destruct (Higa Fa) as [Holda Hnca].
    rewrite Ea in Etra. apply app_inv_tail in Etra. subst la.
    rewrite (forallb_nc_filter l Hnca) in Etb.
    destruct (Hu _ _ _ Eb) as (_ & lb & _ & Higb & _). simpl in *.
    destruct (Higb Fb) as [Holdb _].
    exists sb', l. repeat split; auto; apply He'.
  Qed.

  Theorem C09_old_irrelevant fuel now : old_irrelevant (execute_once fuel now).
  Proof.
    apply simM_old_irrelevant; [apply sim_execute_once|apply u_execute_once; nobad].
  Qed.

  Theorem C09_old_irrelevant_apply_step step : old_irrelevant (apply_step step).
  Proof.
    apply simM_old_irrelevant; [apply sim_apply_step|apply u_apply_step; nobad].
  Qed.

  Theorem C09_old_irrelevant_execute fuel now : old_irrelevant (execute fuel now).
  Proof.
    apply simM_old_irrelevant; [apply sim_execute|apply u_execute; nobad].
  Qed.

End C09.

(* the main results do not depend on any axiom *)
Print Assumptions C09_flag_constant.
Print Assumptions C09_ignore_silent.
Print Assumptions C09_apply_step_transparent.
Print Assumptions C09_stabilize_transparent.
Print Assumptions C09_run_steps_transparent.
Print Assumptions C09_transparent.
Print Assumptions C09_execute_transparent.
Print Assumptions C09_transparent_trace.
Print Assumptions C09_all_true_iff_res_ok.
Print Assumptions C09_run.
Print Assumptions C09_run_trace.
Print Assumptions C09_old_irrelevant.

(* ================================================================== 5. non-vacuity *)
Module C09Example.
  Open Scope string_scope.

  Definition st (n : name) (k : kind) (ini : option name) (pre inv : list code) : name * state :=
    (n, mkState n k ini None None None pre [] inv).

  (* root (compound, initial a) with a and b; a --go / x+=1--> b
       a : invariants  x>=0  and  x>=old     (the second one reads __old__)
       b : precondition x>0, invariant x>=0
       the transition has the postcondition  x==old+1  (reads __old__) *)
  Definition ex_chart : chart :=
    mkChart "ex" None None
      [st "root" KCompound (Some "a") [] [];
       st "a" KBasic None [] ["x>=0"; "x>=old"];
       st "b" KBasic None ["x>0"] ["x>=0"]]
      [("root", None); ("a", Some "root"); ("b", Some "root")]
      [(None, ["root"]); (Some "root", ["a"; "b"]); (Some "a", []); (Some "b", [])]
      [mkTrans "a" (Some "b") (Some "go") None (Some "x+=1") 0 [] ["x==old+1"] []].

  (* the context is the value of x *)
  Definition ex_exec (c : call Z) (v : Z) : option (Z * list event) :=
    match cl_code c with
    | Some cd => if str_eqb cd "x+=1" then Some ((v + 1)%Z, [mkEvent Internal "done" []])
                 else Some (v, [])
    | None => Some (v, [])
    end.

  Definition ex_eval (c : call Z) (v : Z) : option bool :=
    match cl_code c with
    | Some cd =>
        if str_eqb cd "x>=0" then Some (0 <=? v)%Z
        else if str_eqb cd "x>0" then Some (0 <? v)%Z
        else if str_eqb cd "x>=old" then
          match cl_old c with Some o => Some (o <=? v)%Z | None => None end
        else if str_eqb cd "x==old+1" then
          match cl_old c with Some o => Some (v =? o + 1)%Z | None => None end
        else Some true
    | None => Some true
    end.

  (* one listener that records every meta-event *)
  Definition ex_emit (t : Z) (m : meta) (x : list meta) : list meta * option err := (m :: x, None).

  Definition ex_ops : list op :=
    [OpStep 10 0; OpQueue (mkEvent External "go" []); OpStep 10 1; OpStep 10 2; OpStep 10 3].

  Definition run (ops : list op) (s : mstate Z (list meta)) :=
    run_ops Z (list meta) ex_exec ex_eval ex_emit ex_chart ops s.

  Definition start (ignore : bool) : mstate Z (list meta) :=
    mkM (init_istate 0 0 ignore 0%Z) [] [].

  Definition ra := run ex_ops (start false).   (* checking *)
  Definition rb := run ex_ops (start true).    (* ignoring *)

  Definition is_inl {A B} (r : A + B) : bool := match r with inl _ => true | inr _ => false end.

  (* same macro steps; no error; three macro steps then None *)
  Example ex_same_results : snd ra = snd rb.
  Proof. vm_compute. reflexivity. Qed.

  Example ex_no_error : forallb is_inl (snd ra) = true.
  Proof. vm_compute. reflexivity. Qed.

  Example ex_macro_steps :
    map (fun r => match r with inl (Some (t, steps)) => Some (t, length steps) | _ => None end) (snd ra)
    = [Some (0%Z, 2%nat); None; Some (1%Z, 1%nat); Some (2%Z, 1%nat); None].
  Proof. vm_compute. reflexivity. Qed.

  (* same configuration, context, queues, sent events, listener state *)
  Example ex_same_state :
    let a := m_i (fst ra) in let b := m_i (fst rb) in
    (i_config a, i_ctx a, i_iq a, i_eq a, i_sent a, i_memory a, i_entry a, i_idle a, i_time a)
    = (i_config b, i_ctx b, i_iq b, i_eq b, i_sent b, i_memory b, i_entry b, i_idle b, i_time b)
    /\ i_config a = ["root"; "b"] /\ i_ctx a = 1%Z.
  Proof. vm_compute. repeat split. Qed.

  Example ex_same_meta : m_x (fst ra) = m_x (fst rb) /\ length (m_x (fst ra)) = 16%nat.
  Proof. vm_compute. split; reflexivity. Qed.

  (* the checking run evaluated contract conditions (7 of them, all True), the ignoring run none;
     apart from that the traces are the same *)
  Example ex_traces :
    filter non_contract (m_tr (fst ra)) = m_tr (fst rb) /\
    contracts_all_true (m_tr (fst ra)) = true /\
    length (filter (fun o => negb (non_contract o)) (m_tr (fst ra))) = 7%nat /\
    length (filter (fun o => negb (non_contract o)) (m_tr (fst rb))) = 0%nat.
  Proof. vm_compute. repeat split. Qed.

  (* __old__ : the checking run stored frozen contexts, the ignoring run did not *)
  Example ex_old : i_old (m_i (fst ra)) <> [] /\ i_old (m_i (fst rb)) = [].
  Proof. vm_compute. split; [discriminate|reflexivity]. Qed.

  (* the hypotheses of C09_run are satisfied by the example: the theorem applies *)
  Example ex_C09_run_applies :
    exists sb' l,
      run ex_ops (start true) = (sb', snd ra) /\
      sim Z (m_i (fst ra)) (m_i sb') /\ m_x (fst ra) = m_x sb' /\
      m_tr (fst ra) = (l ++ [])%list /\ m_tr sb' = (filter non_contract l ++ [])%list /\
      contracts_all_true l = true /\
      filter is_meta_obs (filter non_contract l) = filter is_meta_obs l.
  Proof.
    apply (C09_run Z (list meta) ex_exec ex_eval ex_emit ex_chart ex_ops
             (init_istate 0 0 false 0%Z) (init_istate 0 0 true 0%Z) [] [] [] (fst ra) (snd ra)).
    - split; [constructor; reflexivity|]. split; reflexivity.
    - vm_compute. reflexivity.
    - apply Forall_forall. intros r Hin.
      assert (H := ex_no_error). rewrite forallb_forall in H. specialize (H r Hin).
      destruct r; [exact I|discriminate].
  Qed.

  (* a failing contract IS observable: with x starting at -1 the invariant x>=0 of a fails in the
     checking run and the two runs differ -- the hypothesis of the theorem is needed *)
  Example ex_failing_contract_differs :
    snd (run [OpStep 10 0] (mkM (init_istate 0 0 false (-1)%Z) [] []))
      = [inr (EContract CInv (OState "a") 0)] /\
    is_inl (hd (inr EFuel) (snd (run [OpStep 10 0] (mkM (init_istate 0 0 true (-1)%Z) [] [])))) = true.
  Proof. vm_compute. split; reflexivity. Qed.

  (* two CHECKING runs from states that differ only in __old__ may differ (the invariant x>=old of
     a reads it), two IGNORING runs do not (C09_old_irrelevant) *)
  Definition with_old (ignore : bool) (o : list (owner * Z)) : mstate Z (list meta) :=
    mkM (mkIState 0 true 0 [] ["root"; "a"] [("root", 0%Z); ("a", 0%Z)] [("root", 0%Z); ("a", 0%Z)]
           [] [] [] ignore 0%Z o) [] [].

  Example ex_old_relevant_when_checking :
    snd (run [OpStep 10 1] (with_old false [(OState "a", 0%Z)])) = [inl None] /\
    snd (run [OpStep 10 1] (with_old false [(OState "a", 5%Z)])) = [inr (EContract CInv (OState "a") 1)].
  Proof. vm_compute. split; reflexivity. Qed.

  Example ex_old_irrelevant_when_ignoring :
    snd (run [OpStep 10 1] (with_old true [(OState "a", 0%Z)])) =
    snd (run [OpStep 10 1] (with_old true [(OState "a", 5%Z)])).
  Proof. vm_compute. reflexivity. Qed.

End C09Example.
